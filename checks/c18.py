"""C18 — Request-reply: replies reach only their requester and listeners always finish."""
from . import common as C

HEADER = 'From WM Require Import Base.Prelude Message.Model Handler.RouterHandle ReqReply.Listen ReqReply.Processed Corr.C18.\n'

ANCHORS = ['components/requestreply/backend_pubsub.go', 'components/requestreply/command_bus.go',
           'components/requestreply/handler.go', 'components/requestreply/backend_pubsub_marshaler.go']

EK = ['EPlain', 'EWrapped', 'ECanceled', 'EDeadline', 'ECtxOwn', 'ECtxOwnWrapped', 'ECtxOwn']
CX = ['CtxLive', 'CtxCancelled', 'CtxTimedOut']
EKN = ['plain', 'wrapped', 'context.Canceled', 'context.DeadlineExceeded', 'own ctx.Err() (cancelled)', 'wrapped own ctx.Err()', 'own ctx.Err() (timed out)']
SIG_PARKED = 'C18/listener-parked-on-full-reply-channel(D10)'

TRUSTED_BASE = [
    'modelled, not verified: Go channel semantics (capacity-1 buffer, close, select takes any ready case), context cancellation/timeout '
    '(one flag that the cancel func, the parent context or the timer sets), defer order; encoding/json is a function parameter of the model '
    '(dec/enc) that the harness tabulates by calling json.Marshal/Unmarshal itself; the reply_content_end_to_end theorem assumes the round trip dec(enc r) = r',
    'ReqReply/Listen.v and ReqReply/Processed.v are hand-written from backend_pubsub.go / handler.go / backend_pubsub_marshaler.go / command_bus.go and tied to them by this check: '
    'the stamped hook log of every listener is replayed label by label (hook stamp discipline: recv/ctx_done/sub_closed/sent after, before_cancel/before_close/finished before the operation; '
    'a channel hand-off is placed at the earlier of the sender\'s and the receiver\'s stamp; ctx-done and subscription-closed are inserted as late as possible)',
    'the harness: a forwarding Subscriber (records what is offered to / taken by each listener), a scripted reply Publisher and ReplyPublishErrorHandler, a thin Backend wrapper that remembers the reply channel, '
    'message.ack/nack hook stamps for the command settlement, a watchdog (20 s, cut short after 1.5 s when two goroutine dumps show every unfinished listener goroutine blocked - in a channel send or in a select with no ready case)',
    'the cqrs CommandProcessor is used with AckCommandHandlingErrors = false (as the request-reply documentation demands); the Router\'s settlement is C02\'s [handle]',
]
ASSUMPTIONS = [
    'liveness is stated for the listener goroutine under weak fairness only (a runnable goroutine eventually runs): never blocked once the context ended + a strictly decreasing measure',
    'concurrent requests on one reply topic are the foreign notifications in a listener\'s stream; the per-listener theorems quantify over every stream',
    'a listener whose context never ends (caller never cancels, no timeout) keeps listening by design and is outside the property',
]

LABEL = dict(recv='LRecv', recv_closed='LRecvClosed', ctx='LCtx', send='LSend', skip='LSkip', cancel='LCancel', close='LClose', hook='LHook',
             read='CRead', read_closed='CReadClosed', ecancel='ECancel', etimeout='ETimeout', esub='ESubClose')

def N(x): return C.coq_N(x)
def optN(x): return '(Some %s)' % N(x) if x >= 0 else 'None'

def reply_term(r):
    k = r['kind']
    if k == 0:
        return '(ROwn %s %s %s)' % (N(max(r['res'], 0)), ('(Some %s)' % N(r['err'])) if r['haserr'] else 'None', N(r['nid']))
    if k == 1: return 'RUnmarshal'
    if k == 2: return 'RTimeout'
    if k == 3: return 'RSubClosed'
    return None

def notif_term(n):
    return '(Notif %s %s %s %s %s)' % (N(n['id']), N(n['op']), N(n['pay']), C.coq_bool(n['haserr']), N(n['err']))

def build_schedule(req):
    """hook + caller stamps of one request -> model labels (see TRUSTED_BASE for the placement rules)"""
    evs = req.get('events') or []
    out = []
    st = dict(sends=0, reads=0, ecancel=False, esub=False, recvs=0)
    problems = []
    # positions: the j-th 'sent' and the j-th 'read' stamp
    def emit_send():
        st['sends'] += 1; out.append('send')
    def emit_read():
        st['reads'] += 1; out.append('read')
    sent_seen = 0; read_seen = 0
    # the listener's context ends through the caller's (cancel stamp) or, with a configured timeout and no cancel so far, by itself
    def ctx_end_label(upto_seq):
        cancelled = any(e[1] == 'c18.caller.cancel' and e[0] <= upto_seq for e in evs)
        return 'etimeout' if (req.get('_timeout') and not cancelled) else 'ecancel'
    for e in evs:
        p = e[1]; keys = e[2:]
        if p == 'requestreply.listen.recv':
            stream = req.get('stream') or []
            if st['recvs'] >= len(stream) or stream[st['recvs']]['id'] != keys[0]:
                problems.append('listener received a notification that the forwarding subscriber did not offer next')
            st['recvs'] += 1; out.append('recv')
        elif p in ('requestreply.listen.ctx_done', 'requestreply.listen.send_aborted'):
            if not st['ecancel']:
                st['ecancel'] = True; out.append(ctx_end_label(e[0]))
            out.append('ctx')
        elif p == 'requestreply.listen.sub_closed':
            if not st['esub']:
                st['esub'] = True; out.append('esub')
            out.append('recv_closed')
        elif p == 'requestreply.listen.final_skipped':
            out.append('skip')
        elif p == 'requestreply.listen.sent':
            sent_seen += 1
            if st['sends'] < sent_seen:
                # the previous reply must have left the buffer before this send completed
                if st['reads'] < sent_seen - 1 and read_total(evs) >= sent_seen - 1:
                    emit_read()
                emit_send()
        elif p == 'c18.caller.read':
            read_seen += 1
            if st['reads'] < read_seen:
                if st['sends'] < read_seen:
                    emit_send()
                emit_read()
        elif p == 'c18.caller.read_closed':
            out.append('read_closed')
        elif p == 'c18.caller.cancel':
            if not st['ecancel']:
                st['ecancel'] = True; out.append('ecancel')
        elif p == 'requestreply.listen.before_cancel':
            out.append('cancel')
        elif p == 'requestreply.listen.before_close':
            out.append('close')
        elif p == 'requestreply.listen.finished':
            out.append('hook')
        elif p == 'requestreply.listen.before_send':
            pass
        else:
            problems.append('unknown stamp ' + p)
    if req.get('ctx') and not st['ecancel']:
        out.append(ctx_end_label(10 ** 12))
    return out, problems

CL_INNER = dict(recv='LRecv', recv_closed='LRecvClosed', ctx='LCtx', send='LSend', skip='LSkip', cancel='LCancel', close='LClose', hook='LHook',
                etimeout='ETimeout', esub='ESubClose')

def caller_schedule(req, sched):
    """listener-level labels -> labels of the composed system caller + listener (ReqReply/Caller.v).  Returns (labels, expected end) or None.
    The caller's steps inside the library carry no stamps: SendWithReply's receive and its deferred cancel are placed where the
    listener-level mapper placed the read / the end of the context (both are sound: the real steps happened no later)."""
    if req.get('read_timeouts'):
        return None
    out = ['KSendOk']
    if req['api'] == 0:
        m = dict(read='URead', read_closed='UReadClosed', ecancel='UParent' if req['end'] == 1 else 'UCancel')
        for l in sched:
            out.append(m[l] if l in m else '(CL %s)' % CL_INNER[l])
        return out, 0
    got = req.get('got') or []
    err = req.get('send_err') or ''
    if got and not err: end = 1
    elif 'context closed' in err and not got: end = 2
    else: return None
    kp = 'select'; parent = False
    def finish():
        nonlocal kp
        if kp == 'select' and end == 1 and 'read' in sched: out.append('KTakeReply'); kp = 'defer'
        if kp == 'select' and end == 2 and parent: out.append('KTakeCtx'); kp = 'defer'
        if kp == 'defer': out.append('KCancel'); kp = 'returned'
    for l in sched:
        if l == 'read':
            if kp == 'select': out.append('KTakeReply'); kp = 'defer'
        elif l == 'ecancel':
            if req['end'] == 1 and not parent:
                out.append('UParent'); parent = True
                if end == 2: finish()
            else:
                finish()
        elif l == 'read_closed':
            return None
        else:
            out.append('(CL %s)' % CL_INNER[l])
    if end == 2 and not parent:
        out.append('UParent'); parent = True
    finish()
    return out, end

def read_total(evs):
    return sum(1 for e in evs if e[1] == 'c18.caller.read')

MAX_STREAM = 250

def reduced(req):
    """a listener that was offered more notifications than a Coq term should hold (something redelivers without end):
    keep the first MAX_STREAM notifications and judge only the clauses that are sound on a prefix (every taken notification acked, hook count)"""
    stream = (req.get('stream') or [])[:MAX_STREAM]
    ids = {n['id'] for n in stream}
    r = dict(req, stream=stream, consumed=min(req['consumed'], MAX_STREAM), acked=[a for a in (req.get('acked') or []) if a in ids][:MAX_STREAM],
             pre=[], got=[], rest=[], events=[], ctx=False)
    pays = {n['pay'] for n in stream}
    r['dec'] = [d for d in (req.get('dec') or []) if d[0] in pays]
    return r

def listen_case_term(sc, req, fixed=True):
    sched, problems = build_schedule(req)
    replies = []
    for key in ('pre', 'got', 'rest'):
        ts = [reply_term(r) for r in (req.get(key) or [])]
        if any(t is None for t in ts):
            return None, ['a reply that is neither a handler reply, an unmarshal error nor a timeout (kind 9): %s' % (req.get(key),)]
        replies.append(C.coq_list(ts))
    cfg = '(Cfg %s %s %s %s)' % (C.coq_bool(fixed), N(req['op']), C.coq_bool(sc['has_hook']), C.coq_bool(bool(sc['timeout_ms'])))
    dec = C.coq_list(['(%s, %s)' % (N(p), optN(r)) for p, r in (req.get('dec') or [])])
    stream = C.coq_list([notif_term(n) for n in (req.get('stream') or [])])
    obs = '(Obs %s %s %s %d %s %s %d %s)' % (replies[0], replies[1], replies[2], req['consumed'],
                                              C.coq_list([N(a) for a in (req.get('acked') or [])]),
                                              C.coq_bool(req['closed']), req['hooks'], C.coq_bool(req['ctx']))
    term = '(LC %s %s %s %s %s %s)' % (cfg, dec, stream, C.coq_list([LABEL[l] for l in sched]), obs, C.coq_bool(req['done']))
    return term, problems

def describe_req(sc, req):
    if len(req.get('stream') or []) > MAX_STREAM:
        req = dict(req, events=[])
    sched, _ = build_schedule(req)
    own = [n for n in (req.get('stream') or []) if n['op'] == req['op']]
    return dict(scenario=sc['index'], config=dict(ack_errors=sc['ack_errors'], has_errh=sc['has_errh'], has_hook=sc['has_hook'], with_result=sc['with_result'],
                                                   timeout_ms=sc['timeout_ms'], concurrent_requests=len(sc['reqs'])),
                request=req['id'], api=['SendWithReplies', 'SendWithReply'][req['api']], handler_script=req['steps'],
                caller=dict(reads_before_end=req['reads'], end=['cancel()', 'parent context cancelled', 'ListenForReplyTimeout'][req['end']],
                            waits_for_listener=req['sync'], keeps_reading_after_end=req['drain']),
                notifications_offered=len(req.get('stream') or []), own_notifications=len(own),
                replies_read=[kind_name(r) for r in (req.get('got') or [])], left_in_channel=[kind_name(r) for r in (req.get('rest') or [])],
                channel_closed=req['closed'], hook_calls=req['hooks'], listener_finished=req['done'], listener_blocked_in_goroutine_dump=req['parked'],
                schedule=sched, send_error=req.get('send_err'))

def kind_name(r):
    return {0: 'reply' + (('(err)' if r['err'] else '(err with empty text)') if r['haserr'] else ''), 1: 'unmarshal-error', 2: 'timeout', 3: 'subscriber-closed'}.get(r['kind'], 'unclassifiable')

# ---------------------------------------------------------------- deliveries

def delivery_term(sc, d):
    st = d['step']
    # what the reply Publisher answered is an INPUT of the model (p_pub_ok): scripted failures, and - rarely, when a loaded
    # machine lets the teardown overtake a late redelivery - a real "Pub/Sub closed" error of GoChannel itself
    pubrets = [e[1] for e in d['events'] if e[0] == 'pubret']
    pub_ok = pubrets[0] if pubrets else not st['pubfail']
    cfg = '(PCfg %s %s %s)' % (C.coq_bool(sc['ack_errors']), C.coq_bool(sc['has_modify']), C.coq_bool(sc['has_errh']))
    inp = '(PIn true %s %s %s %s true true %s %s %s %s)' % (N(d['op']), N(max(d['res'], 0)), ('(Some %s)' % N(d['err'])) if d['haserr'] else 'None', N(d['nid']),
                                                    C.coq_bool(pub_ok), C.coq_bool(st['swallow']), EK[d.get('errkind', 0)], CX[d.get('ctxstate', 0)])
    enc = C.coq_list(['(%s, %s)' % (N(max(d['enc'][0], 0)), optN(d['enc'][1]))])
    tr = []; final = 'Unsettled'; bad = []
    for e in d['events']:
        k = e[0]
        if k == 'call': tr.append('(TP PCall)')
        elif k == 'publish':
            if not e[6]: bad.append('reply published to a topic other than the reply topic')
            tr.append('(TP (PPublish (Notif %s %s %s %s %s)))' % (N(e[1]), N(e[2]), N(e[3]), C.coq_bool(e[4]), N(e[5])))
        elif k == 'pubret': tr.append('(TP (PPublishRet %s))' % C.coq_bool(e[1]))
        elif k == 'errh': tr.append('(TP (PErrHandler %s))' % C.coq_bool(e[1]))
        elif k == 'settle':
            tr.append('(TR (HSettle %s true))' % C.coq_bool(e[1])); final = 'Acked' if e[1] else 'Nacked'
    return '(PC %s %s %s %s %s)' % (cfg, inp, enc, C.coq_list(tr), final), bad

def describe_delivery(sc, req, d):
    return dict(scenario=sc['index'], request=req['id'], delivery=d['k'], config=dict(ack_errors=sc['ack_errors'], has_errh=sc['has_errh'], has_modify=sc['has_modify'], with_result=sc['with_result']),
                script=d['step'], observed=d['events'])

# ---------------------------------------------------------------- run

def run_once(ctx, res, seed, n, reqs, tag):
    pid = ctx['pid']
    binary = C.build_harness()
    data, _ = C.run_harness(binary, ['c18', '-seed', str(seed), '-n', str(n), '-reqs', str(reqs)] + (['-glue'] if tag == 'a' or tag == 'a0' else []), pid, 'c18_%s.json' % tag)
    run_glue(ctx, res, data)
    lcases = []; dcases = []; ccases = []
    for sc in data['scenarios']:
        res.count('scenarios')
        res.count('concurrent_requests=%d' % len(sc['reqs']))
        res.count('ack_errors=%s' % sc['ack_errors']); res.count('reply_error_handler=%s' % sc['has_errh'])
        res.count('handler=%s' % ('with result' if sc['with_result'] else 'no result')); res.count('finished_hook=%s' % sc['has_hook'])
        res.count('backend_timeout=%s' % bool(sc['timeout_ms']))
        res.count('marshaler=%s' % ('custom (bogus op id + extra key)' if sc.get('custom_marshaler') else 'json'))
        if sc.get('overlapped'): res.count('overlap:two deliveries of different handlers together between "operation id stamped" and "reply published"', sc['overlapped'])
        for pr in sc.get('problems') or []:
            res.mismatches.append(dict(kind='harness observed something the scenario does not allow: ' + pr, case=dict(scenario=sc['index'])))
        for req in sc['reqs']:
            req['_timeout'] = bool(sc['timeout_ms'])
            if not req['op']:
                res.mismatches.append(dict(kind='request could not be sent: %s' % req.get('send_err'), case=describe_req(sc, req)))
                continue
            res.evaluations += 1
            res.count('api=%s' % ['SendWithReplies', 'SendWithReply'][req['api']])
            res.count('caller_end=%s' % ['cancel', 'parent-cancel', 'timeout'][req['end']])
            res.count('reads_before_end=%d' % min(len(req.get('pre') or req.get('got') or []), 3))
            res.count('keeps_reading=%s' % req['drain'])
            res.count('deliveries=%d' % len(req.get('deliveries') or []))
            if req.get('read_timeouts'): res.count('caller_gave_up_waiting_for_a_reply', req['read_timeouts'])
            own = [n for n in (req.get('stream') or []) if n['op'] == req['op']]
            foreign = len(req.get('stream') or []) - len(own)
            res.count('own_notifications=%d' % min(len(own), 4)); res.count('foreign_notifications=%s' % ('0' if not foreign else '1-3' if foreign < 4 else '4+'))
            for r in (req.get('got') or []):
                res.count('reply_read=' + kind_name(r))
            pts = [e[1] for e in (req.get('events') or [])]
            if 'requestreply.listen.final_skipped' in pts: res.count('overlap:final reply skipped because the channel was full (the D10 situation)')
            if 'requestreply.listen.send_aborted' in pts: res.count('overlap:reply send abandoned because the context ended (listener was blocked on a full channel)')
            if 'requestreply.listen.sub_closed' in pts: res.count('overlap:listener saw the closed subscription before ctx.Done')
            if req.get('rest'): res.count('replies_left_unread_in_channel')
            if sc['timeout_ms'] and req['end'] == 2 and not req['drain'] and len(own) >= len(req.get('got') or []) + 2: res.count('overlap:timeout passed with the caller context alive, caller not reading, >= 2 further replies')
            big = len(req.get('stream') or []) > MAX_STREAM
            if big:
                res.count('oversized_notification_streams')
            term, problems = listen_case_term(sc, reduced(req) if big else req)
            if term is None:
                res.violations.append(dict(signature='C18/unclassifiable-reply', what=problems[0], case=describe_req(sc, req)))
                continue
            for pr in problems:
                res.mismatches.append(dict(kind='stamp mapping: ' + pr, case=describe_req(sc, req)))
            lcases.append((sc, req, term, big))
            if not big:
                cs = caller_schedule(req, build_schedule(req)[0])
                if cs is not None:
                    ccases.append((sc, req, '(CC %s %s %s %d)' % (term, ['ApiReplies', 'ApiReply'][req['api']], C.coq_list(cs[0]), cs[1])))
                    res.count('caller_thread_replays(%s)' % ['SendWithReplies', 'SendWithReply returned a reply', 'SendWithReply returned the context error'][cs[1]])
            if len(req.get('stream') or []) > 1 or len(req.get('got') or []) > 1:
                res.nontrivial.add(('listen', len(own), foreign > 0, tuple((r['kind'], r['haserr'], r['haserr'] and not r['err']) for r in (req.get('got') or [])), tuple(r['kind'] for r in (req.get('rest') or [])),
                                    req['api'], req['end'], req['drain'], sc['has_hook'], bool(sc['timeout_ms'])))
            if len(req.get('deliveries') or []) > 30: res.count('requests_with_more_than_30_deliveries(only the first 30 judged)')
            for d in (req.get('deliveries') or [])[:30]:
                res.evaluations += 1
                t, bad = delivery_term(sc, d)
                for b in bad:
                    res.violations.append(dict(signature='C18/reply-topic', what=b, case=describe_delivery(sc, req, d)))
                dcases.append((sc, req, d, t))
                if d['step']['fail']: res.count('handler_error_value=%s, handler context %s' % (EKN[d.get('errkind', 0)], ['live', 'cancelled', 'timed out'][d.get('ctxstate', 0)]))
                res.count('delivery=%s%s%s' % (('error' if d['step']['err'] else 'error with empty text') if d['step']['fail'] else 'ok', ',publish-fails' if d['step']['pubfail'] else '', ',swallowed' if d['step']['pubfail'] and d['step']['swallow'] and sc['has_errh'] else ''))
                if d['step']['fail'] or d['step']['pubfail'] or d['k'] > 0:
                    res.nontrivial.add(('delivery', sc['ack_errors'], sc['has_errh'], d['step']['fail'], d.get('errkind', 0), d.get('ctxstate', 0), d['step']['err'] == '', d['step']['pubfail'], d['step']['swallow'], min(d['k'], 2), sc['with_result']))
    for part, chunk in enumerate(C.chunks(lcases, 150)):
        r = C.coq_eval(pid, 'cases_%s_l%d' % (tag, part), HEADER + 'Definition cases : list c18_listen_case := %s.\n' % C.coq_list([c[2] for c in chunk]),
                       [('R_mis', 'c18_listen_mismatches cases'), ('R_vio', 'c18_listen_violations cases')])
        vio = dict(r['R_vio'])
        for i, code in vio.items():
            sc, req, _, big = chunk[i]
            if code & 2 and not code & 1:
                res.violations.append(dict(signature=(SIG_PARKED if 'etimeout' not in build_schedule(req)[0] else 'C18/listener-blocked-after-timeout-with-live-caller-context') if (req['parked'] or not req['done']) else 'C18/listener-end-state',
                                           what=('the context of the request ended but its listener never finished: reply channel not closed, OnListenForReplyFinished not run'
                                                 + (' (goroutine dump: the listener goroutine is blocked in a channel send / a select with no ready case)' if req['parked'] else '')),
                                           case=describe_req(sc, req)))
            else:
                res.violations.append(dict(signature='C18/listener-safety', what='listener observation rejected by the acceptor safe_ok (only own replies, in arrival order, with the notification\'s content, '
                                           'nothing lost before the context ended, at most one final reply and last, every taken notification acked, hook at most once)', case=describe_req(sc, req)))
        for i, code in r['R_mis']:
            sc, req, _, big = chunk[i]
            if big:
                res.mismatches.append(dict(kind='a listener was offered %d notifications (endless redelivery on the reply topic?); only the ack clause was judged' % len(req.get('stream') or []),
                                           explained_by_violation=i in vio, case=describe_req(sc, dict(req, events=[]))))
                continue
            what = ('the model refuses label #%d of the replayed schedule' % (code - 1000)) if code >= 1000 else \
                   'end state differs: ' + ', '.join(n for b, n in [(1, 'replies read'), (2, 'replies left in the channel'), (4, 'notifications taken/acked'), (8, 'channel closed'), (16, 'hook calls'), (32, 'listener finished'), (64, 'implementation parked where the model can move')] if code & b)
            res.mismatches.append(dict(kind='Corr.C18.c18_listen_code (ReqReply/Listen.v vs ListenForNotifications): ' + what, explained_by_violation=i in vio, case=describe_req(sc, req)))
    for part, chunk in enumerate(C.chunks(ccases, 150)):
        r = C.coq_eval(pid, 'cases_%s_c%d' % (tag, part), HEADER.replace('Corr.C18.', 'ReqReply.Caller Corr.C18.') + 'Definition cases : list c18_caller_case := %s.\n' % C.coq_list([c[2] for c in chunk]),
                       [('R_mis', 'c18_caller_mismatches cases')])
        for i, code in r['R_mis']:
            sc, req, _ = chunk[i]
            what = ('the composed model refuses label #%d of the caller+listener schedule' % (code - 1000)) if code >= 1000 else \
                   'the caller thread ended differently (returned reply / context error / user owns the channel)' if code == 500 else 'listener end state differs (bits %d)' % code
            res.mismatches.append(dict(kind='Corr.C18.c18_caller_code (ReqReply/Caller.v vs command_bus.go SendWithReply/SendWithReplies): ' + what,
                                       explained_by_violation=not req['done'], case=dict(describe_req(sc, req), composed_schedule=caller_schedule(req, build_schedule(req)[0])[0])))
    for part, chunk in enumerate(C.chunks(dcases, 300)):
        r = C.coq_eval(pid, 'cases_%s_d%d' % (tag, part), HEADER + 'Definition cases : list c18_proc_case := %s.\n' % C.coq_list([c[3] for c in chunk]),
                       [('R_mis', 'c18_proc_mismatches cases'), ('R_vio', 'c18_proc_violations cases')])
        for i in r['R_vio']:
            sc, req, d, _ = chunk[i]
            res.violations.append(dict(signature='C18/delivery', what='delivery rejected by the acceptor processed_ok (reply published once, before the settlement; Ack only after the publisher accepted it or the failure was swallowed; '
                                       'Ack/Nack as AckCommandErrors says; notification carries the command\'s op id, the result and the error text)', case=describe_delivery(sc, req, d)))
        for i in r['R_mis']:
            sc, req, d, _ = chunk[i]
            res.mismatches.append(dict(kind='Corr.C18.c18_proc_mismatch (ReqReply/Processed.v process vs handler.go/OnCommandProcessed on a Router)', explained_by_violation=i in r['R_vio'], case=describe_delivery(sc, req, d)))
    if lcases:
        for c in (lcases[0], lcases[len(lcases) // 2], lcases[-1]):
            res.sample(describe_req(c[0], c[1]))
    return data

def glue_term(g):
    cfg = '(PCfg %s %s %s)' % (C.coq_bool(g['ack_errors']), C.coq_bool(g['modify'] != 0), C.coq_bool(g['errh'] != 0))
    inp = '(PIn %s %s %s %s %s %s %s %s %s %s %s)' % (C.coq_bool(g['orig']), N(g['op']), N(g['res']), ('(Some %s)' % N(g['err_id'])) if g['err'] else 'None', N(g['nid']),
                                                 C.coq_bool(g['modify'] != 2), C.coq_bool(g['topic_ok']), C.coq_bool(g['pub_ok']), C.coq_bool(g['errh'] == 1), EK[g.get('errkind', 0)], CX[g.get('ctxstate', 0)])
    enc = C.coq_list(['(%s, %s)' % (N(g['enc'][0]), optN(g['enc'][1]))])
    evs = []; bad = []
    for e in g['events']:
        k = e[0]
        if k == 'call': evs.append('PCall')
        elif k == 'publish':
            if not e[6]: bad.append('reply published to a topic other than the reply topic')
            evs.append('(PPublish (Notif %s %s %s %s %s))' % (N(e[1]), N(e[2]), N(e[3]), C.coq_bool(e[4]), N(e[5])))
        elif k == 'pubret': evs.append('(PPublishRet %s)' % C.coq_bool(e[1]))
        elif k == 'errh': evs.append('(PErrHandler %s)' % C.coq_bool(e[1]))
        else: bad.append('unexpected: %s' % (e,))
    return '(OPC %s %s %s %s %s)' % (cfg, inp, enc, C.coq_list(evs), C.coq_bool(g['failed'])), bad

def run_glue(ctx, res, data):
    pid = ctx['pid']
    cases = []
    for g in data.get('glue') or []:
        res.evaluations += 1
        t, bad = glue_term(g)
        for b in bad:
            res.violations.append(dict(signature='C18/glue', what=b, case=g))
        cases.append((g, t))
        key = ('glue', g['ack_errors'], g['modify'], g['errh'], g['orig'], g['has_op'], g['marshal_ok'], g['topic_ok'], g['pub_ok'], g['err'], g['empty_text'], g.get('errkind', 0))
        if not (g['orig'] and g['has_op'] and g['marshal_ok'] and g['topic_ok'] and g['pub_ok'] and g['modify'] != 2 and not g['err']):
            res.nontrivial.add(key)
    res.count('handler_branch_matrix_cases', len(cases))
    for part, chunk in enumerate(C.chunks(cases, 600)):
        r = C.coq_eval(pid, 'cases_glue_%d' % part, HEADER + 'Definition cases : list c18_onproc_case := %s.\n' % C.coq_list([c[1] for c in chunk]),
                       [('R_mis', 'c18_onproc_mismatches cases'), ('R_vio', 'c18_onproc_violations cases')])
        for i in r['R_vio']:
            res.violations.append(dict(signature='C18/handler-branch', what='direct call of the request-reply command handler rejected by processed_ok (composed with the C02 Router model)', case=chunk[i][0]))
        for i in r['R_mis']:
            res.mismatches.append(dict(kind='Corr.C18.c18_onproc_mismatch (ReqReply/Processed.v on_processed vs handler.go + OnCommandProcessed + MarshalReply, direct call)', explained_by_violation=i in r['R_vio'], case=chunk[i][0]))
    acases = []
    for a in data.get('api_cases') or []:
        res.evaluations += 1
        if a['kind'] == 'v':
            acases.append((a, '(AV (VC %s) %s)' % (' '.join(C.coq_bool(x) for x in a['flags']), C.coq_bool(a['accepted']))))
            res.count('api_cases:NewPubSubBackend validation')
        else:
            acases.append((a, '(AL %s (LI %s) (AO %s %d))' % (C.coq_bool(a['hook']), ' '.join(C.coq_bool(x) for x in a['in']), ' '.join(C.coq_bool(x) for x in a['obs']), a['hooks'])))
            res.count('api_cases:SendWithReplies exits without a channel')
    if acases:
        r = C.coq_eval(pid, 'cases_api', HEADER.replace('Corr.C18.', 'ReqReply.Caller ReqReply.Api Corr.C18.') + 'Definition cases : list c18_api_case := %s.\n' % C.coq_list([c[1] for c in acases]),
                       [('R_vio', 'c18_api_violations cases')])
        for i in r['R_vio']:
            a = acases[i][0]
            res.violations.append(dict(signature='C18/api:' + ('validation' if a['kind'] == 'v' else 'send-with-replies-exit'),
                                       what='API glue rejected by the acceptor of ReqReply/Api.v (%s)' % ('validate_ok: NewPubSubBackend accepts exactly the complete configurations' if a['kind'] == 'v' else
                                            'api_ok: error exits hand back (nil channel, cancel func, error), cancel the Subscribe context, and a listener already started finishes: closed, hook once'), case=a))
    for c in data.get('api_checks') or []:
        res.evaluations += 1
        res.count('api_error_path_checks')
        if not c['ok']:
            res.violations.append(dict(signature='C18/api:' + c['name'], what='API glue: ' + c['name'] + ' - not as documented (' + c['info'] + ')', case=c))

def race_round(ctx, res, seed):
    """TESTING, not proof: the scenario family once more under the Go race detector (the hook runtime and the harness collaborators
    synchronise through their own mutexes, so a report points into components/requestreply, cqrs, the Router or GoChannel)."""
    import os, subprocess
    try:
        binary = C.build_harness(race=True)
    except C.CheckError as e:
        res.extra['race_detector'] = 'race build not available: %s' % str(e)[-200:]
        return
    out = os.path.join(C.workdir(ctx['pid']), 'c18_race.json')
    p = subprocess.run([binary, 'c18', '-seed', str(seed + 17), '-n', '30', '-reqs', '8', '-out', out], env=dict(C.GOENV, GORACE='halt_on_error=0 exitcode=0'),
                       stdout=subprocess.PIPE, stderr=subprocess.STDOUT, text=True, timeout=1500)
    reports = p.stdout.count('WARNING: DATA RACE')
    res.extra['race_detector'] = dict(label='testing', scenarios=30, data_race_reports=reports, exit_code=p.returncode)
    res.evaluations += 1
    if reports:
        i = p.stdout.index('WARNING: DATA RACE')
        res.violations.append(dict(signature='C18/data-race', what='the Go race detector reports a data race while the request-reply scenarios run (testing tier)',
                                   case=dict(report=p.stdout[i:i + 3000])))

def run(ctx):
    tier, seed = ctx['tier'], ctx['seed']
    res = C.Result()
    rounds = [(seed, 36, 6, 'a'), (seed + 7919, 10, 16, 'b')] if tier == 'quick' else \
             [(seed + i * 7919, 60, 8, 'a%d' % i) for i in range(6)] + [(seed + 31, 20, 32, 'b')]
    for s, n, reqs, tag in rounds:
        run_once(ctx, res, s, n, reqs, tag)
        if res.violations:
            break
    if tier == 'thorough' and not res.violations:
        race_round(ctx, res, seed)
    res.extra['anchor_hashes'] = C.anchor_hashes(ANCHORS)
    res.rule = ('seeded scenarios on a real Router + GoChannel + cqrs CommandBus/CommandProcessor + requestreply.PubSubBackend: 1..6 (second round: up to 16; thorough: 32) concurrent requesters on ONE reply topic, '
                'scripted handlers (result / error, Nack-redelivery => several replies, injected foreign / id-less / malformed / extra own notifications), AckCommandErrors on/off, reply-publish failures with and without '
                'ReplyPublishErrorHandler, callers reading 0/1/2/all replies then cancel / parent cancel / ListenForReplyTimeout, draining or not, SendWithReply and SendWithReplies, handlers with and without result. '
                'Per listener: hook-stamp schedule replayed on ReqReply/Listen.v + end state compared + acceptor listener_ok; per delivery: trace compared with ReqReply/Processed.v (on top of C02 handle) + acceptor processed_ok. '
                'non-trivial = listener with > 1 notification or > 1 reply read, delivery with an error / publish failure / redelivery; distinct by shape.')
    return res

def search(ctx, res):
    out = C.Result()
    for k in range(1, 4):
        run_once(ctx, out, ctx['seed'] + 1000 * k, 40, 8, 's%d' % k)
        if out.violations:
            break
    return out

def replay(ctx, data):
    return run(dict(ctx, seed=data.get('seed', ctx['seed'])))
