"""C13 — Poison queue: a failed message is either in the poison topic or still failing."""
from . import common as C

HEADER = 'From WM Require Import Base.Prelude Message.Model Handler.RouterHandle Handler.Poison Corr.C13.\n'
PK = ['PubReal', 'PubDisabled', 'PubNil']
PB = ['PubAccept', 'PubError', 'PubPanic']
PRE = ['PreNone', 'PreAck', 'PreNack']
ST = ['Unsettled', 'Acked', 'Nacked']

TRUSTED_BASE = [
    'Handler/Poison.v is hand-written from message/router/middleware/poison.go (PoisonQueue, PoisonQueueWithFilter, Middleware, publishPoisonMessage) and '
    'message/router_context.go and tied to them by this check; settlement is NOT re-modelled: the theorems compose with Handler/RouterHandle.v (C02) and Message/Model.v (C03)',
    'modelled, not verified: err.Error() is an oracle (txt : err -> N; the harness passes the interned text of the very error value the scripted handler returns); '
    'errors.Is / pkg/errors.Cause / multierror.Append on the four error shapes (sentinel, fmt %w wrap, pkg/errors.Wrap, *multierror.Error) as written in Poison.v err_is/err_cause/multi_append '
    '(exercised by the filters and by the returned error, not proved against the libraries); a Set on a nil map and a method call on a nil interface or nil func panic; '
    'defer/named-result semantics (a panicking handler leaves err == nil); internal.StructName honours fmt.Stringer',
    'the harness interns strings injectively (0 = "", 1..4 = the four documented metadata keys as LITERALS, 5 = the wrap text), projects returned errors to trees by type '
    '(pkg/errors withStack layers are transparent) and attributes collaborator calls to messages by goroutine id',
    'the return value of the Router\'s own Ack()/Nack() call is not observable and is projected out of the comparison',
    'modelled, not verified: the step granularity of Handler/PoisonConc.v (one step per point where another goroutine could interfere; Go memory model); '
    'PoisonQueue(Retry(h)): C12\'s model Handler/Retry.v is imported as is and evaluated with an environment whose select never takes ctx.Done() (the harness uses a live context and no MaxElapsedTime)',
    'modelled, not verified: context.WithValue shadowing (Handler/PoisonCtx.v add_handler_ctx), exercised by the c13ctx scenario',
    'testing, not proof: the thorough tier re-runs the scenarios under the Go race detector (state shared between in-flight messages)',
]
ASSUMPTIONS = [
    'independence of messages/handlers sharing one middleware value is structural in the model (poison is a function of its arguments); the harness checks it by running 1..8 messages in '
    'flight through three handlers that share ONE PoisonQueue value, parking every message at its first collaborator call (filter or poison publisher) until all others of the batch '
    'have finished or are parked too, and comparing every per-message observation with the model',
]

# hashes of the anchored files when the model was last reviewed against them (drift never fails the check)
REVIEWED = {'message/router/middleware/poison.go': '149bca745534', 'message/router_context.go': 'da0b90283f57'}

def nlist(l):
    return C.coq_list([C.coq_N(x) for x in l])

def err_term(t):
    k = t[0]
    if k == 'base': return '(EBase %s)' % C.coq_N(t[1])
    if k == 'std': return '(EWrapStd %s %s)' % (C.coq_N(t[1]), err_term(t[2]))
    if k == 'cause': return '(EWrapCause %s %s)' % (C.coq_N(t[1]), err_term(t[2]))
    if k == 'multi': return '(EMulti %s)' % C.coq_list([err_term(x) for x in t[1]])
    raise C.CheckError('bad error tree %r' % (t,))

def filter_term(t):
    if t is None: return 'None'
    def f(t):
        k = t[0]
        if k == 'const': return '(FConst %s)' % C.coq_bool(t[1])
        if k == 'eq': return '(FEq %s)' % C.coq_N(t[1])
        if k == 'is': return '(FIs %s)' % C.coq_N(t[1])
        if k == 'cause': return '(FCause %s)' % C.coq_N(t[1])
        if k == 'not': return '(FNot %s)' % f(t[1])
        if k == 'panic': return 'FPanic'
        if k == 'nilfunc': return 'FNilFunc'
        if k == 'first': return 'FFirst'
        raise C.CheckError('bad filter %r' % (t,))
    return '(Some %s)' % f(t)

def snap_term(s):
    meta = 'None' if s['meta_nil'] else '(Some %s)' % C.coq_list(['(%s, %s)' % (C.coq_N(k), C.coq_N(v)) for k, v in s['meta']])
    return '(PM %s %s %s)' % (C.coq_N(s['uuid']), nlist(s['payload']), meta)

def pp_term(p):
    return {'accept': 'PPAccept', 'panic': 'PPPanic', 'nil': 'PPNil'}.get(p[0]) or '(PPError %s)' % err_term(p[1])

def act_term(a):
    if a[0] == 'setmeta': return '(ASetMeta %s %s)' % (C.coq_N(a[1]), C.coq_N(a[2]))
    if a[0] == 'setpayload': return '(ASetPayload %s)' % nlist(a[1])
    if a[0] == 'cancelctx': return 'ACancelCtx'
    return 'ADropCtx'

def out_term(o):
    if o[0] == 'ret': return '(HRet %s)' % nlist(o[1])
    if o[0] == 'fail': return '(HFail %s %s)' % (err_term(o[1]), nlist(o[2]))
    return 'HPanic'

def res_term(r):
    if r is None: return None
    if r[0] == 'panic': return 'MPanic'
    if any(x < 0 for x in r[1]): return None
    return '(MRet %s %s)' % (nlist(r[1]), 'None' if r[2] is None else '(Some %s)' % err_term(r[2]))

def event_term(e):
    k = e[0]
    if k == 'call': return '(RH HCall)'
    if k == 'pre': return '(RH (HPreSettle %s %s))' % (C.coq_bool(e[1]), C.coq_bool(e[2]))
    if k == 'publish':
        if any(x < 0 for x in e[1]): return None
        return '(RH (HPublish %s %s))' % (nlist(e[1]), ST[e[2]])
    if k == 'pubret': return '(RH (HPublishRet %s))' % C.coq_bool(e[1])
    if k == 'pubpanic': return '(RH HPublishPanic)'
    if k == 'settle': return '(RH (HSettle %s true))' % C.coq_bool(e[1])
    if k == 'filter':
        if e[1] is None: return None
        return '(RP (PFilter %s))' % err_term(e[1])
    if k == 'ppublish': return '(RP (PPublish %s %s %s))' % (C.coq_N(e[1]), snap_term(e[2]), ST[e[3]])
    if k == 'ppubret': return '(RP (PPublishRet %s))' % C.coq_bool(e[1])
    if k == 'ppubpanic': return '(RP PPublishPanic)'
    return None

def case_term(c):
    h = '(HS %s %s %s)' % (PRE[c['pre']], C.coq_list([act_term(a) for a in c['acts']]), out_term(c['out']))
    return '(K13 %s %s %s %s (RC %s %s %s) %s %s %s %s %s %s %s %s %s)' % (
        C.coq_bool(c['router']), C.coq_N(c['topic']), filter_term(c['filter']), pp_term(c['pp']),
        C.coq_N(c['ctx'][0]), C.coq_N(c['ctx'][1]), C.coq_N(c['ctx'][2]), snap_term(c['msg']), h,
        PK[c['pk']], PB[c['pb']], C.coq_N(c['reason']),
        C.coq_list([event_term(e) for e in c['trace']]), ST[c['final']], res_term(c['res']), snap_term(c['mf']))

def describe(c, strings):
    def s(i): return strings[i] if 0 <= i < len(strings) else '?%d' % i
    def snap(x): return dict(uuid=s(x['uuid']), payload_len=len(x['payload']), metadata=None if x['meta_nil'] else {s(k): s(v) for k, v in x['meta']})
    tr = []
    for e in c['trace']:
        if e[0] == 'ppublish': tr.append(['poison-publish', s(e[1]), snap(e[2]), 'consumed message seen ' + ST[e[3]]])
        else: tr.append(e)
    d = dict(c['desc'])
    d.update(id=c['id'], in_flight=c['flight'], consumed=snap(c['msg']), observed_trace=tr, final=ST[c['final']],
             chain_result=c['res'], consumed_afterwards=snap(c['mf']))
    return d

def retry_case_term(c):
    script = C.coq_list(['(%s, %s)' % (nlist(a['outs']), C.coq_N(a['err'])) for a in c['script']])
    return '(K13R %s %s %s %s (RC %s %s %s) %s %s %s %s %d %s %s %s %s)' % (
        C.coq_bool(c['router']), C.coq_N(c['topic']), filter_term(c['filter']), pp_term(c['pp']),
        C.coq_N(c['ctx'][0]), C.coq_N(c['ctx'][1]), C.coq_N(c['ctx'][2]), snap_term(c['msg']),
        C.coq_Z(c['max_retries']), script, PB[c['pb']], c['calls'],
        C.coq_list([event_term(e) for e in c['trace']]), ST[c['final']], res_term(c['res']), snap_term(c['mf']))

def run_retry(ctx, res, binary):
    """PoisonQueue(Retry(h)) with the REAL Retry middleware: tie for Handler/PoisonRetry.v"""
    pid, seed = ctx['pid'], ctx['seed']
    data, _ = C.run_harness(binary, ['c13retry', '-seed', str(seed)], pid, 'c13retry_%d.json' % seed)
    strings = data['strings']
    def describe_r(c):
        d = dict(c['desc']); d.update(id=c['id'], observed_trace=[e if e[0] != 'ppublish' else ['poison-publish', strings[e[1]], {strings[k]: strings[v] for k, v in e[2]['meta']}] for e in c['trace']],
                                      chain_result=c['res'], final=ST[c['final']])
        return d
    good = []
    for c in data['cases']:
        res.evaluations += 1
        res.count('retry_inside: calls=%d' % c['calls'])
        res.count('retry_inside: max_retries=%d' % c['max_retries'])
        bad = [e for e in c['trace'] if event_term(e) is None]
        if bad or res_term(c['res']) is None or (c['router'] and c['final'] == 0):
            res.violations.append(dict(signature='C13/retry-inside/observation', what='PoisonQueue(Retry(h)): unexpected or missing observation', case=describe_r(c)))
            continue
        good.append(c)
        res.nontrivial.add(('retry', c['desc']['mode'], c['desc']['filter'], c['max_retries'], c['desc']['script'], c['desc']['poison_publisher'], c['pb']))
    hdr = 'From WM Require Import Base.Prelude Message.Model Handler.RouterHandle Handler.Poison Corr.C13 Corr.C13Retry.\nFrom Coq Require Import ZArith.\n'
    for part, chunk in enumerate(C.chunks(good, 400)):
        r = C.coq_eval(pid, 'rcases_%d_%d' % (seed, part), hdr + 'Definition cases : list c13r_case := %s.\n' % C.coq_list([retry_case_term(c) for c in chunk]),
                       [('R_mis', 'c13r_mismatches cases'), ('R_vio', 'c13r_violations cases')])
        for i in r['R_vio']:
            res.violations.append(dict(signature='C13/retry-inside/monitor', what='PoisonQueue(Retry(h)): observation rejected by the C13 acceptor (poisoned exactly when the last attempt made failed with an accepted error, reason = that error)',
                                       case=describe_r(chunk[i])))
        for i in r['R_mis']:
            res.mismatches.append(dict(kind='Corr.C13Retry.c13r_mismatch (Handler/PoisonRetry.v = poison o Retry.retry vs the real PoisonQueue(Retry(h)))',
                                       explained_by_violation=i in r['R_vio'], case=describe_r(chunk[i])))
    picks = [c for c in good if c['calls'] >= 3 and any(e[0] == 'ppublish' for e in c['trace'])]
    if picks: res.sample(describe_r(picks[0]), limit=5)

def run_ctx(ctx, res, binary):
    """where the context values come from: Handler/PoisonCtx.v vs Router.addHandlerContext + router_context.go readers"""
    pid, seed = ctx['pid'], ctx['seed']
    data, _ = C.run_harness(binary, ['c13ctx'], pid, 'c13ctx_%d.json' % seed)
    strings = data['strings']
    def hc(v): return '(HC %s)' % ' '.join(C.coq_N(x) for x in v)
    def meta(sn): return C.coq_list(['(%s, %s)' % (C.coq_N(k), C.coq_N(v)) for k, v in sn['meta']])
    terms, cases = [], []
    for c in data['cases']:
        res.evaluations += 1
        res.count('context: %s' % c['desc']['message'])
        d = dict(c['desc']); d.update(id=c['id'], readers_inside_handler_B=[strings[i] for i in c['seen']],
                                      published_metadata=None if not c['pub'] else {strings[k]: strings[v] for k, v in c['pub']['meta']}, final=ST[c['final']])
        if c['final'] != 1 or not c['pub'] or c['before']['meta_nil']:
            res.violations.append(dict(signature='C13/context/observation', what='a failed message with an accepting poison publisher was not published and acked', case=d))
            continue
        res.nontrivial.add(('ctx', c['via'], tuple(c['a']), tuple(c['b'])))
        terms.append('(K13X %s %s (RV %s) %s %s (Some %s))' % ('(Some %s)' % hc(c['a']) if c['via'] else 'None', hc(c['b']),
                     ' '.join(C.coq_N(x) for x in c['seen']), C.coq_N(c['reason']), meta(c['before']), meta(c['pub'])))
        cases.append(d)
    if terms:
        r = C.coq_eval(pid, 'xcases_%d' % seed, 'From WM Require Import Base.Prelude Handler.Poison Handler.PoisonCtx Corr.C13Ctx.\n' +
                       'Definition cases : list c13x_case := %s.\n' % C.coq_list(terms), [('R_mis', 'c13x_mismatches cases'), ('R_vio', 'c13x_violations cases')])
        for i in r['R_vio']:
            res.violations.append(dict(signature='C13/context/monitor', what='the published metadata does not name reason/topic/handler/subscriber as the message context says, or touches other keys', case=cases[i]))
        for i in r['R_mis']:
            res.mismatches.append(dict(kind='Corr.C13Ctx.c13x_mismatch (Handler/PoisonCtx.v vs Router.addHandlerContext / router_context.go readers)',
                                       explained_by_violation=i in r['R_vio'], case=cases[i]))

def run(ctx):
    pid, tier, seed = ctx['pid'], ctx['tier'], ctx['seed']
    res = C.Result()
    binary = C.build_harness()
    data, _ = C.run_harness(binary, ['c13', '-seed', str(seed), '-tier', tier], pid, 'c13_%d.json' % seed)
    strings = data['strings']
    if strings[1:6] != ['reason_poisoned', 'topic_poisoned', 'handler_poisoned', 'subscriber_poisoned', 'cannot publish message to poison queue']:
        raise C.CheckError('interner does not start with the documented literals')
    now = C.anchor_hashes(sorted(REVIEWED))
    res.extra['anchor_drift'] = {f: dict(reviewed=REVIEWED[f], now=now.get(f), drifted=now.get(f) != REVIEWED[f]) for f in sorted(REVIEWED)}
    res.extra['rendezvous_timeouts'] = data['timeouts']
    res.extra['forced_overlaps'] = dict(batches_with_2_to_8_in_flight=data['batches'], all_parked_or_finished_together=data['batches_met'],
                                        parked_at_hook_poison_default_filter=data.get('hook_parked'), hook_parks_timed_out=data.get('hook_timed_out'))
    for s in data['stray'] or []:
        res.violations.append(dict(signature='C13/stray-call', what='a collaborator (%s) was called outside the goroutine that handles the message' % s, case=dict(where=s)))
    good = []
    for c in data['cases']:
        res.evaluations += 1
        d = c['desc']
        for k in ('mode', 'filter', 'poison_publisher', 'handler_outcome', 'metadata', 'pre_settle', 'middleware_placement', 'message_context', 'uuid'):
            res.count('%s=%s' % (k, d[k]))
        res.count('in_flight=%d' % c['flight'])
        if d['handler_outcome'] == 'fails': res.count('handler_error=%s' % d['handler_error'])
        if any(e[0] == 'not-run' for e in c['trace']):
            res.evaluations -= 1
            continue
        bad = [e for e in c['trace'] if event_term(e) is None]
        if bad:
            res.violations.append(dict(signature='C13/' + str(bad[0][0]), what='unexpected observation %s (poison Publish with != 1 message, unknown produced message, message not taken)' % bad[0][0], case=describe(c, strings)))
            continue
        if res_term(c['res']) is None:
            res.violations.append(dict(signature='C13/no-result', what='the chain result was not observed or names an unknown message', case=describe(c, strings)))
            continue
        if c['router'] and c['final'] == 0:
            res.violations.append(dict(signature='C13/unsettled', what='message was not settled by the Router within 20 s', case=describe(c, strings)))
            continue
        good.append(c)
        pubs = [e for e in c['trace'] if e[0] == 'ppublish']
        if any(not e[4] for e in pubs):
            res.mismatches.append(dict(kind='the message passed to the poison publisher is not the consumed object (Handler/Poison.v publishes the object itself; the property only fixes its content)',
                                       explained_by_violation=False, case=describe(c, strings)))
        if d['handler_outcome'] != 'returns' or c['acts'] or c['pre'] or d['message_context'] != 'live' or d['uuid'] != 'unique':
            res.nontrivial.add((d['mode'], d['filter'], d['poison_publisher'], d['handler_outcome'], d['handler_error'], d['metadata'], c['pre'],
                                str(d['acts']), d['message_context'], d['uuid'], str(d['outs']), d['router_publisher'] if c['router'] else '', d['handler'], d['poison_topic']))
        res.count('poison_publishes_observed=%d' % len(pubs))
        res.count('final=%s' % ST[c['final']])
    from concurrent.futures import ThreadPoolExecutor
    parts = list(enumerate(C.chunks(good, 300)))
    def ev(pc):
        part, chunk = pc
        return C.coq_eval(pid, 'cases_%d_%d' % (seed, part), HEADER + 'Definition cases : list c13_case := %s.\n' % C.coq_list([case_term(c) for c in chunk]),
                          [('R_mis', 'c13_mismatches cases'), ('R_vio', 'c13_violations cases')])
    with ThreadPoolExecutor(max_workers=6) as ex:
        results = list(ex.map(ev, parts))
    for (part, chunk), r in zip(parts, results):
        for i in r['R_vio']:
            c = chunk[i]
            res.violations.append(dict(signature='C13/monitor', what='observation rejected by the C13 acceptor (exactly one poison publish of the stamped message iff the handler failed with an accepted error; '
                                       'success only after that publish returned nil, error kept otherwise; Ack only after it; pass-through untouched)', case=describe(c, strings)))
        for i in r['R_mis']:
            res.mismatches.append(dict(kind='Corr.C13.c13_mismatch (Handler/Poison.v poison/in_router vs middleware/poison.go inside message.Router)',
                                       explained_by_violation=i in r['R_vio'], case=describe(chunk[i], strings)))
    run_retry(ctx, res, binary)
    run_ctx(ctx, res, binary)
    # the constructors
    terms = ['c13_ctor_mismatch %s %s %s' % (C.coq_N(k['topic']), C.coq_bool(k['with_filter']), C.coq_bool(k['got_mw'])) for k in data['ctors']]
    r = C.coq_eval(pid, 'ctors_%d' % seed, HEADER, [('R_ctor', C.coq_list(terms))])
    for k, bad in zip(data['ctors'], r['R_ctor']):
        res.evaluations += 1
        if bad or not k['err_is_documented']:
            res.violations.append(dict(signature='C13/constructor', what='PoisonQueue/PoisonQueueWithFilter: a middleware must be returned iff the topic is non-empty, ErrInvalidPoisonQueueTopic otherwise',
                                       case=dict(topic=strings[k['topic']], with_filter=k['with_filter'], got_middleware=k['got_mw'])))
    # ---- race detector (thorough only): testing, not proof - state shared between messages / handlers
    if tier == 'thorough' and not ctx.get('no_race'):
        rb = C.build_harness(race=True)
        p = C.sh([rb, 'c13', '-seed', str(seed), '-tier', 'quick', '-out', C.workdir(pid) + '/c13race.json'],
                 check=False, env=dict(C.GOENV, GORACE='halt_on_error=0'), timeout=900)
        races = p.stdout.count('WARNING: DATA RACE')
        res.extra['race_detector'] = dict(labelled='testing', races_reported=races)
        if races:
            res.violations.append(dict(signature='C13/data-race', what='race detector reports a data race while messages are in flight through handlers sharing one PoisonQueue value',
                                       case=dict(report=p.stdout[:3000])))
    picks = [c for c in good if c['router'] and c['desc']['handler_outcome'] == 'fails' and any(e[0] == 'ppublish' for e in c['trace'])]
    if picks: res.sample(describe(picks[0], strings))
    picks = [c for c in good if c['router'] and c['desc']['handler_outcome'] == 'fails' and c['final'] == 2 and any(e[0] == 'ppubret' and not e[1] for e in c['trace'])]
    if picks: res.sample(describe(picks[0], strings))
    picks = [c for c in good if not c['router'] and c['desc']['metadata'].startswith('already') and any(e[0] == 'ppublish' for e in c['trace'])]
    if picks: res.sample(describe(picks[0], strings))
    res.rule = ('per filter {none (PoisonQueue), const true/false, err==A, errors.Is A, errors.Cause==A, negations, panicking, nil func} x {inside a real Router with three handlers '
                '(publisher / AddNoPublisherHandler / nil publisher; distinct subscribe topics, handler names and subscriber names incl. "") sharing ONE middleware value at router or handler level, '
                'the middleware called directly around three handlers}: every error shape (sentinels, fmt %w, pkg/errors.Wrap, nested both ways, multierror with 0/1/2 elements, wrapped multierror) '
                'x poison publisher {accept, error, panic} (+ nil publisher groups), successes with outputs incl. the consumed object itself, panics, nil-map and already-poisoned metadata; '
                'boundary UUIDs {empty, shared by several messages of the group} (enumerated x poison publisher behaviour with a failing handler, and drawn elsewhere), handler pre-settle, metadata/payload/context changes by the handler, the state of the message context {live, already cancelled / past its deadline at delivery, cancelled by the handler, cancelled or timed out from outside while the handler runs} (enumerated x poison publisher behaviour with a failing handler, and drawn elsewhere), payloads, Router publisher behaviour and poison topic drawn from the seed; plus random groups; '
                '1..8 messages in flight with a rendezvous at the first collaborator call; plus 800 sequential cases of PoisonQueue(Retry(h)) with the real Retry middleware (MaxRetries 0..3, 0..4 failing attempts with different errors then success / failure for ever), directly and inside a Router; non-trivial = anything but a plain untouched success; distinct by script.')
    return res

def search(ctx, res):
    out = C.Result()
    for k in range(1, 4):
        r = run(dict(ctx, seed=ctx['seed'] + 100 * k, no_race=True))
        out.evaluations += r.evaluations; out.nontrivial |= r.nontrivial; out.violations += r.violations
        if r.violations: break
    return out

def replay(ctx, data):
    return run(dict(ctx, seed=data.get('seed', ctx['seed'])))
