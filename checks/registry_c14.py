"""Manifest entry of C14 (merged by bin/mkmanifest)."""
CHECKS = {
    'C14': dict(
        text='Deduplicator lets exactly one message per key through per window: proved for ALL windows, thread populations and schedules of a '
             'thread-level transition system of the map repository (Lock / lookup / insert now+window / Unlock; clean-up ticks, sweeps; clock oracle) '
             'by refinement to a timed-set specification; first-of-epoch-wins, same-key cause of every duplicate, retention for the window, '
             're-acceptance after a sweep past the expiry for arbitrary schedules and, in the closed system with a timely ticker/cleaner (period p, latency d), re-acceptance within w + p + 3d (two windows for p = w/2, d <= w/6); time-lock freedom of that closed system (time can pass any bound from every reachable state); middleware calls and decorator batches as client programs of the concurrent system (delivered iff the repository step answered new), end to end over the timely repository; duplicates inside one batch acked and dropped; middleware/decorator outcomes; hasher read-limit laws (SHA-256 separation under a named '
             'injectivity hypothesis). Tied to deduplicator.go on every run by schedule replay of the stamped hook log, outcome comparison and the same monitor.',
        note='for arbitrary schedules re-acceptance is relative to a sweep having run; the bound needs the stated timely-environment assumptions (urgency of the cleaner cycle); SHA-256 injectivity is assumed; real-time bounds checked with slack',
        technique='Coq 8.16.1 proof about a hand-written executable model + correspondence check (hook-log schedule replay, scripted collaborators, stdlib-digest oracle tables)',
        design_ref='DESIGN.md §7 C14',
    ),
}
