"""Manifest fragment for C13 (merged by bin/mkmanifest)."""
CHECKS = {
 'C13': dict(
  text=('Theorems for EVERY configuration (topic, any filter incl. panicking / nil func, or none), consumed message (any UUID, payload, metadata incl. a nil map and '
        'pre-existing poison keys), Router context, handler behaviour (own Ack/Nack, metadata/payload/context changes, any outputs, any error with or without outputs, panic), '
        'poison-publisher behaviour (accept, any error, panic, nil) and handler-publisher kind/behaviour, about a hand-written model of poison.go '
        '(constructors, Middleware, publishPoisonMessage) COMPOSED with the C02 model of Router.handleMessage and the C03 settlement model: an accepted error is published exactly '
        'once to the poison topic with the same UUID/payload and the metadata plus the four keys (overwriting old ones, keeping all others); success is reported only after that '
        'publish returned nil, otherwise the handler error(s) followed by the wrapped publish error are returned (or the panic escapes); successes, filtered-out errors and panics '
        'pass through untouched and publish nothing; inside a Router: Acked implies handled or poisoned (title), not poisoned implies Nacked, the Ack follows the poison publish '
        'return; the acceptor used on implementation observations is proved sound for the title and complete for the model. Tied to the code on every run: ~1500 scripted cases '
        '(every filter kind x error shape x publisher behaviour, nil/empty/already-poisoned metadata, ...) through the real middleware inside a real Router (three handlers '
        'sharing ONE middleware value, router- or handler-level, 1..8 messages in flight with a forced rendezvous at the first collaborator call) and called directly; '
        'every per-message observation (poison publications with full metadata, chain result, trace order, settlement, the consumed object afterwards) is compared with the model '
        'and judged by the acceptor. '
        'Round proofs: a thread-level semantics of ONE middleware value serving any number of messages - after any schedule every message is where its solo run would be '
        '(any interleaving = N independent runs; the shared-error-variable variant is refuted by a 2-message schedule); PoisonQueue(Retry(h)) composed with the C12 model - poisoned '
        'exactly when all attempts failed and the filter accepts the LAST error, which is the reason - tied by 800 cases with the real Retry middleware; the no-filter path parks at '
        'the add-only hook poison.default_filter. '
        'Round proofs 3 (41 theorems): the concurrent semantics refines the atomic specification and is serializable; PoisonQueue(Retry(h)) in the Router forward (exhausted => poisoned exactly once with the '
        'last error as reason and Acked; publish failure => Nacked, error kept); every acceptor has a model_accepted theorem; filter outcome table, PoisonQueue = WithFilter(accept all); key set of the '
        'stamped metadata = old keys + the four, map stays well-formed; Router.addHandlerContext + all five router_context.go readers modelled, tied (16 Routers) and proved.'),
  note=('Trusted: Coq kernel + vm_compute; err.Error() as an oracle; errors.Is / pkg/errors.Cause / multierror.Append as modelled on four error shapes; panics of nil-map writes and '
        'nil interface / nil func calls; defer + named results; the scripted collaborators, string interning (the four keys as literals), projection of returned errors to trees, '
        'attribution of collaborator calls by goroutine id; the message hook stamps that observe the Router\'s settle calls. Identity of the published message (the consumed object itself) is compared '
        'with the model only, not judged by the acceptor; the Router\'s Ack()/Nack() return value is not observable.'),
  technique='Coq proof (case analysis over the scripted behaviour space, composition with the C02/C03 models, acceptor soundness) + differential correspondence check on a real Router and on direct calls',
  design_ref='DESIGN.md section 7 C12/C13/C19 (C13 part: notes/deliver/C13/design.md)'),
}
