"""Manifest fragment for C13 (merged by bin/mkmanifest)."""
CHECKS = {
 'C13': dict(
  text='TODO',
  note='TODO',
  technique='Coq proof + differential correspondence check on a real Router',
  design_ref='DESIGN.md section 7 C12/C13/C19 (Poison queue)'),
}
