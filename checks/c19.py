"""C19 — simple middlewares change only what they document and only during the call."""
import json
from . import common as C

HEADER = 'From WM Require Import Base.Prelude Simple.Model Simple.Monitor Simple.Throttle Simple.Deadline Simple.Extra Corr.C19 Corr.C19x.\n'
ST = ['Unsettled', 'Acked', 'Nacked']

TRUSTED_BASE = [
    'modelled, not verified: Go defer/recover (panic(nil) yields a non-nil *runtime.PanicNilError, go >= 1.21), context.WithTimeout/cancel propagation '
    '(a child is done iff it or an ancestor is cancelled; Deadline() = the earliest one), time.Ticker (ticks due every period, at most one undelivered tick kept), '
    'sony/gobreaker in the closed state (Execute = call + re-panic of the same value), pkg/errors Cause/Wrap/WithStack, fmt.Errorf %w (not a Causer), '
    'time.ParseDuration o Duration.String = id, message.Ack first-wins (property C03)',
    'Retry is modelled only as its attempt loop (retry.go l.41-98) with MaxElapsedTime = 0 and waits > 0 (1 ms in the runs), so the select has one ready case; back-off values are C12',
    'deadlines never expire during a run: Timeout values are whole hours, the observed Deadline() is rounded to hours; IEEE rounding is excluded by dyadic multipliers and intervals < 2^40 ns',
    'Simple/Model.v is hand-written from message/router/middleware/{timeout,correlation,recoverer,ignore_errors,instant_ack,throttle,circuit_breaker,delay_on_error,retry}.go and tied to them by this check',
    'a metadata key holding "" is not distinguished from a missing key (Metadata.Get); produced messages of one call are distinct objects',
    'RandomFail / RandomPanic: the draw rand.Float32() <= p is an oracle bit of the model; in the runs math/rand is seeded before every invocation and the draw is mirrored with rand.New(rand.NewSource(k)) (same generator, go 1.23)',
]
ASSUMPTIONS = [
    'DelayOnError schedule theorem: 0 <= InitialInterval <= MaxInterval, Multiplier = num/den >= 1; the closed form min(Initial*m^(k-1), Max) is proved where the products are whole nanoseconds, otherwise the per-step law (multiply, round down to a whole ns, cap) and the upper bound',
    'Throttle rate is a theorem over the ticker clock model; on the implementation the same spacing predicate is evaluated per worker on wall-clock handler start times with one period of slack, and the window bound of C19_throttle_window on the whole run (lower bounds only, sound under any scheduling delay)',
    'chains with more than one Retry are compared with the model but not judged by the acceptor',
    'deadline lower bound: theorem over the clock model Simple/Deadline.v (delays >= 0, timers never early); on the implementation block_ok is evaluated on wall-clock Done() times with 1 ms slack (lower bound only)',
]

def N(n): return C.coq_N(n)
def Z(n): return C.coq_Z(n)
def lst(xs): return C.coq_list(list(xs))

def val(v):
    if v[0] == 's': return '(MStr %s)' % N(v[1])
    if v[0] == 'd': return '(MDur %s)' % Z(v[1])
    if v[0] == 'u': return '(MUntil %s %s)' % (Z(v[1]), Z(v[2]))
    raise C.CheckError('bad value %r' % (v,))

def meta(m): return lst('(%s, %s)' % (N(k), val(v)) for k, v in m)

def err(e):
    k = e[0]
    if k == 'base': return '(EBase %s)' % N(e[1])
    if k == 'wc': return '(EWrapCause %s %s)' % (N(e[1]), err(e[2]))
    if k == 'ws': return '(EWrapStd %s %s)' % (N(e[1]), err(e[2]))
    if k == 'rec': return '(ERecovered %s)' % pv(e[1])
    if k == 'unk': return '(EBase %s)' % N(1000000 + e[1])
    raise C.CheckError('bad error %r' % (e,))

def pv(p):
    k = p[0]
    if k == 'str': return '(PStr %s)' % N(p[1])
    if k == 'err': return '(PErr %s)' % err(p[1])
    if k == 'nil': return 'PNil'
    if k == 'none': return '(PStr %s)' % N(4000000)      # a nil interface value: never what the model expects
    raise C.CheckError('bad panic value %r' % (p,))

def out(o):
    if o[0] == 'self': return 'OSelf'
    return '(OMsg (OM %s %s %s %s))' % (N(o[1]), N(o[2]), N(o[3]), meta(o[4]))

def outcome(r):
    outs = lst(out(o) for o in (r.get('outs') or []))
    if r['k'] == 'ret': return '(Ret %s)' % outs
    if r['k'] == 'fail': return '(Fail %s %s)' % (outs, err(r['err']))
    return '(Panic %s)' % pv(r['pv'])

def action(a):
    if a[0] == 'ack': return 'AAck'
    if a[0] == 'nack': return 'ANack'
    if a[0] == 'cancel': return 'ACancel'
    return '(ASetMeta %s %s)' % (N(a[1]), val(a[2]))

def vstate(v):
    return '(VSt %s %s %s %s %s)' % (meta(v['meta']), C.coq_bool(v['same']), C.coq_bool(v['done']),
                                     'None' if v['dl'] is None else '(Some %s)' % Z(v['dl']), ST[v['settle']])

def mw(m):
    k = m['k']
    if k == 'timeout': return '(MTimeout %s)' % Z(m['d'])
    if k == 'corr': return 'MCorrelation'
    if k == 'rec': return 'MRecoverer'
    if k == 'ign': return '(MIgnore %s)' % lst(N(t) for t in (m.get('l') or []))
    if k == 'ack': return 'MInstantAck'
    if k == 'thr': return 'MThrottle'
    if k == 'cb': return 'MBreaker'
    if k == 'delay': return '(MDelay (DCfg %s %s %s %s))' % (Z(m['init']), Z(m['max']), Z(m['num']), Z(m['den']))
    if k == 'retry': return '(MRetry %s)' % Z(m['maxr'])
    raise C.CheckError('bad middleware %r' % (m,))

def event(e):
    if e[0] == 'call': return '(ECall %d %s)' % (e[1], vstate(e[2]))
    return '(ERetryHook %s)' % Z(e[1])

def case_term(c):
    init = c['init']
    m0 = '(MSt %s [] %s %s %s)' % (meta(init['meta']), C.coq_bool(init['done']), ST[init['settle']], 'None' if init['dl'] is None else '(Some %s)' % Z(init['dl']))
    script = lst('(Call %s %s)' % (lst(action(a) for a in s['pre']), outcome(s['res'])) for s in c['script'])
    invs = lst('(Inv %s %s %s)' % (lst(event(e) for e in i['trace']), outcome(i['res']), vstate(i['after'])) for i in c['invs'])
    return '(C19 %s %s %s %s)' % (lst(mw(m) for m in c['mws']), script, m0, invs)

def chain_name(c):
    return '(' + ' '.join(m['k'] + (str(m['maxr']) if m['k'] == 'retry' else '') for m in c['mws']) + ')' if c['mws'] else '()'

def describe(c, strings):
    def s(i): return strings[i] if 0 <= i < len(strings) else '#%d' % i
    return dict(chain=[dict(m) for m in c['mws']], in_flight=c['flight'],
                script=[dict(pre=x['pre'], result=x['res']) for x in c['script']],
                initial_message=c['init'], observed_invocations=c['invs'], rejected_clauses=c.get('rejected_clauses'),
                strings={str(i): s(i) for i in sorted(set(_ids(c)))[:40]})

def _ids(x):
    if isinstance(x, dict):
        for v in x.values(): yield from _ids(v)
    elif isinstance(x, list):
        if len(x) >= 2 and x[0] in ('s', 'str', 'base', 'wc', 'ws', 'unk') and isinstance(x[1], int):
            yield x[1]
        for v in x: yield from _ids(v)

CLAUSE = {0: 'handler-not-called-exactly-once', 1: 'handler-sees-wrong-message(deadline/ack/context/metadata)', 2: 'error-or-panic-value-changed',
          3: 'outputs-changed', 4: 'context-not-restored-after-call', 5: 'settlement-changed', 6: 'metadata-or-delay-schedule',
          10: 'attempt-count-differs-from-bare-retry', 11: 'attempt-numbering', 12: 'retry-hook-sequence', 13: 'error-or-panic-value-changed-under-retry',
          14: 'first-attempt-sees-wrong-message', 15: 'context-not-restored-after-call'}

def signature(c, reasons):
    """what fails: the rejected clauses of the first rejected invocation + the middleware kinds that can cause them"""
    cl = sorted({CLAUSE.get(r % 100, str(r % 100)) for r in reasons})
    return 'C19/' + '+'.join(cl)

def classify(c):
    ks = [m['k'] for m in c['mws']]
    outk = sorted({s['res']['k'] for s in c['script']})
    pvs = sorted({s['res']['pv'][0] for s in c['script'] if s['res']['k'] == 'panic'})
    return (tuple(ks), tuple(outk), tuple(pvs), len(c['invs']), c['flight'] > 1)

def run_once(ctx, res, binary, seed, n, thr, witness, tag):
    pid = ctx['pid']
    args = ['c19', '-seed', str(seed), '-n', str(n), '-thr', str(thr)] + (['-witness'] if witness else [])
    data, _ = C.run_harness(binary, args, pid, 'c19_%s.json' % tag)
    cases, strings = data['cases'], data['strings']
    for c in cases:
        c['mws'] = c['mws'] or []; c['script'] = c['script'] or []; c['invs'] = c['invs'] or []
        res.evaluations += 1
        ks = [m['k'] for m in c['mws']]
        res.count('chain_len=%d' % len(ks))
        for k in set(ks): res.count('mw=%s' % k)
        if 'retry' in ks and len(ks) > 1: res.count('retry_composed')
        res.count('in_flight=%d' % c['flight'])
        if c['init']['dl'] is not None: res.count('arrives_with_deadline')
        if c['init']['done']: res.count('arrives_with_dead_context')
        res.count('invocations=%d' % len(c['invs']))
        for s in c['script']:
            res.count('outcome=%s' % s['res']['k'])
            if s['res']['k'] == 'panic': res.count('panic_value=%s' % s['res']['pv'][0])
        for m in c['mws']:
            if m['k'] == 'delay': res.count('multiplier=%d/%d' % (m['num'], m['den']))
        if ks or any(s['res']['k'] != 'ret' or s['res']['outs'] for s in c['script']):
            res.nontrivial.add(classify(c))
    for part, chunk in enumerate(C.chunks(cases, 400)):
        r = C.coq_eval(pid, 'cases_%s_%d' % (tag, part),
                       HEADER + 'Definition cases : list c19_case := %s.\n' % lst(case_term(c) for c in chunk),
                       [('R_mis', 'c19_mismatches repaired cases'), ('R_vio', 'c19_violations cases'), ('R_why', 'map c19_reasons cases')])
        for i in r['R_vio']:
            c = chunk[i]
            c['rejected_clauses'] = ['invocation %d: %s' % (x // 100, CLAUSE.get(x % 100, x % 100)) for x in r['R_why'][i]]
            res.violations.append(dict(signature=signature(c, r['R_why'][i]),
                what='chain %s around a scripted handler: the observed invocation is rejected by the C19 acceptor (result/outputs/error unchanged but for the documented effect, '
                     'handler called once / as often as under a bare Retry, deadline+Ack visible during the call, context restored after it, delay metadata per schedule)' % chain_name(c),
                case=describe(c, strings)))
        for i in r['R_mis']:
            c = chunk[i]
            res.mismatches.append(dict(kind='Corr.C19.c19_mismatch (Simple/Model.v stack repaired vs the real middlewares), chain %s' % chain_name(c),
                                       explained_by_violation=i in r['R_vio'], case=describe(c, strings)))
    if cases and tag == '0':
        res.sample(dict(chain=chain_name(cases[len(cases) // 3]), script_len=len(cases[len(cases) // 3]['script']),
                        first_invocation=cases[len(cases) // 3]['invs'][:1]))
        res.sample(dict(chain=chain_name(cases[-1]), script_len=len(cases[-1]['script']), first_invocation=cases[-1]['invs'][:1]))
    # Throttle timing: wall-clock lower bounds that hold whatever the scheduler does (the timestamp of a start is
    # taken after the tick was received, so within ONE worker consecutive calls are ordered: spacing with one period
    # of slack is sound; over all workers only the count in the whole window is)
    ths = data.get('throttle') or []
    if ths:
        terms = []; owner = []; counts = []
        for ti, t in enumerate(ths):
            p = abs(t['duration']) // abs(t['count']) * (1 if (t['duration'] >= 0) == (t['count'] >= 0) else -1)   # Go: duration / time.Duration(count)
            t['period'] = p
            for ws in t['starts']:
                terms.append('(Thr %s %s %s)' % (Z(p), Z(p), lst(Z(x) for x in ws))); owner.append(ti)
            counts.append(('R_cnt%d' % ti, 'thr_count_violates %s %s %s %s' % (Z(p), Z(t['n']), Z(t['first']), Z(t['last']))))
            res.count('throttle_workers=%d' % t['workers']); res.count('throttle_contexts=%s' % t.get('mode'))
            for ks in t.get('kinds') or []:
                for k in ks: res.count('throttle_msg_ctx=%s' % ['alive', 'already-cancelled', 'cancelled-while-waiting', 'deadline-while-waiting', 'deadline-passed'][k])
            res.evaluations += 1
            res.nontrivial.add(('throttle', t['count'], t['duration'], t['workers'], t.get('mode')))
        r = C.coq_eval(pid, 'thr_%s' % tag, HEADER + 'Definition cases : list thr_case := %s.\n' % lst(terms), [('R_thr', 'thr_violations cases')] + counts)
        bad = {owner[i] for i in r['R_thr']} | {ti for ti in range(len(ths)) if r['R_cnt%d' % ti]}
        for ti, t in enumerate(ths):
            if t['n'] != t.get('want', t['n']):
                res.violations.append(dict(signature='C19/throttle-handler-not-called-once', what='Throttle did not pass every message to the handler exactly once (%d calls, %d handler starts)' % (t.get('want'), t['n']), case=t))
        for ti in sorted(bad):
            res.violations.append(dict(signature='C19/throttle-rate',
                what='handler starts through one Throttle value are closer together than the configured rate allows (n starts in a window => n-2 periods fit; per worker k starts in between => k-1 periods apart)',
                case=ths[ti]))
    # Duplicator / RandomFail / RandomPanic between two chains of simple middlewares
    xs = data.get('extra') or []
    if xs:
        if strings[10] != 'random fail occurred' or strings[11] != 'random panic occurred':
            raise C.CheckError('interned ids of the RandomFail / RandomPanic texts moved')
        def xterm(c):
            x = c['x']; init = c['init']
            m0 = '(MSt %s [] %s %s %s)' % (meta(init['meta']), C.coq_bool(init['done']), ST[init['settle']], 'None' if init['dl'] is None else '(Some %s)' % Z(init['dl']))
            script = lst('(Call %s %s)' % (lst(action(a) for a in s_['pre']), outcome(s_['res'])) for s_ in c['script'])
            invs = lst('(Inv %s %s %s)' % (lst(event(e) for e in i['trace']), outcome(i['res']), vstate(i['after'])) for i in c['invs'])
            one = {'dup': lambda h: 'XDup', 'rfail': lambda h: '(XRandFail %s)' % C.coq_bool(h), 'rpanic': lambda h: '(XRandPanic %s)' % C.coq_bool(h)}[x['k']]
            return '(XC %s %s %s %s %s %s)' % (lst(mw(m) for m in x['pre'] or []), lst(one(h) for h in x['hits'] or []),
                                               lst(mw(m) for m in x['post'] or []), script, m0, invs)
        for c in xs:
            c['mws'] = c['mws'] or []; c['script'] = c['script'] or []; c['invs'] = c['invs'] or []
            res.evaluations += 1
            res.count('extra=%s' % c['x']['k']); res.count('extra_p=%s' % c['x']['p'])
            for h in c['x']['hits'] or []: res.count('extra_draw_hit=%s' % h)
            res.nontrivial.add(('extra', c['x']['k'], tuple(m['k'] for m in c['x']['pre'] or []), tuple(m['k'] for m in c['x']['post'] or []),
                                tuple(sorted({s_['res']['k'] for s_ in c['script']})), tuple(c['x']['hits'] or [])))
        r = C.coq_eval(pid, 'extra_%s' % tag, HEADER + 'Definition cases : list x_case := %s.\n' % lst(xterm(c) for c in xs),
                       [('R_xmis', 'x_mismatches repaired cases'), ('R_xvio', 'x_violations cases')])
        for i in r['R_xvio']:
            c = xs[i]
            res.violations.append(dict(signature='C19/extra-%s:calls-result-or-context' % c['x']['k'],
                what='chain %s around a scripted handler: rejected by the acceptor of Simple/Extra.v (handler called as often as %s alone calls it, error / panic value through the outer chain, context restored)' % (chain_name(c), c['x']['k']),
                case=describe(c, strings)))
        for i in r['R_xmis']:
            c = xs[i]
            res.mismatches.append(dict(kind='Corr.C19x.x_mismatch (Simple/Extra.v xstack repaired vs the real Duplicator / RandomFail / RandomPanic), chain %s' % chain_name(c),
                                       explained_by_violation=i in r['R_xvio'], case=describe(c, strings)))
    # a deadline visible during the call: handlers blocking on Done() under small Timeouts (wall-clock LOWER bounds only)
    dls = data.get('deadline') or []
    if dls:
        terms = []; models = []
        for di, d in enumerate(dls):
            d['mws'] = d['mws'] or []; d['dones'] = d['dones'] or []
            terms.append('(DL %s %s %s %d)' % (Z(d['dmin']), Z(1000000), lst(Z(x) for x in d['dones']), d['want']))
            chain = lst(('(Some %s)' % Z(m['d'])) if m['k'] == 'timeout' else 'None' for m in d['mws'] if m['k'] != 'retry')
            models.append(('R_dlm%d' % di, 'dl_model_ok %s %d %s' % (chain, d['want'], Z(d['dmin']))))
            res.evaluations += 1
            res.count('deadline_chain=%s' % chain_name(d)); res.count('deadline_attempts=%d' % d['want'])
            res.nontrivial.add(('deadline', tuple(m['k'] for m in d['mws']), d['dmin'], d['want']))
        r = C.coq_eval(pid, 'dl_%s' % tag, HEADER + 'Definition cases : list dl_case := %s.\n' % lst(terms), [('R_dl', 'dl_violations cases')] + models)
        for di, d in enumerate(dls):
            why = []
            if di in r['R_dl']: why.append('done-before-the-timeout-or-wrong-attempt-count')
            if d['never_done']: why.append('done-never-fired')
            if not all(d['deadline_ok'] or [False]): why.append('no-deadline-visible')
            if not all(d['err_deadline'] or [False]): why.append('err-not-deadline-exceeded')
            if not d['restored']: why.append('context-not-restored-after-call')
            if why:
                res.violations.append(dict(signature='C19/deadline:' + '+'.join(why),
                    what='chain %s around a handler that blocks on msg.Context().Done(): %s' % (chain_name(d), ', '.join(why)), case=d))
            if not r['R_dlm%d' % di]:
                res.mismatches.append(dict(kind='Simple/Deadline.v attempts: the model\'s own times are rejected by block_ok', case=d))
    return cases

def run(ctx):
    tier, seed = ctx['tier'], ctx['seed']
    res = C.Result()
    binary = C.build_harness()
    rounds = 1 if tier == 'quick' else 8
    for rnd in range(rounds):
        run_once(ctx, res, binary, seed + 1000 * rnd, 700 if tier == 'quick' else 2500, 5 if tier == 'quick' else 6, rnd == 0, str(rnd))
    res.rule = ('random chains of 0..3 real middlewares (Timeout, CorrelationID, Recoverer, IgnoreErrors, InstantAck, Throttle, closed CircuitBreaker, DelayOnError, real Retry with at most one per chain) '
                'built once per group and shared by 1/2/4 messages in flight together, around a scripted handler (returns 0..3 fresh messages and/or the consumed one, with/without own correlation id; '
                'fails with plain / pkg-errors-wrapped / %w-wrapped errors; panics with string / error / nil; Acks, Nacks, sets metadata or cancels the base context first), invoked 1..8 times on the same '
                'message object; a fifth of the groups are failure runs through DelayOnError with multipliers 1, 5/4, 3/2, 7/4, 2, 9/4, 3; plus 160 chains pre ++ [Duplicator | RandomFail p | RandomPanic p] ++ post (pre, post 0..2 simple middlewares, p in {0, .25, .5, .75, 1}, the draw of math/rand seeded and mirrored per invocation), 1..3 invocations; plus 6 chains with small Timeouts (8..40 ms, alone, stacked, under the real Retry) around a handler that blocks on Done() (lower bounds, Err(), Deadline(), context restored alive afterwards); plus 5 runs of 12 messages through one Throttle value with 1..4 workers, the messages carrying live, already cancelled, deadline-passed, cancelled-while-waiting and deadline-expiring-while-waiting contexts (all live / all ended / interleaved). '
                'non-trivial = a non-empty chain or a handler that does more than return nothing; distinct by (chain kinds in order, outcome kinds, panic value kinds, number of invocations, concurrent or not).')
    return res

def search(ctx, res):
    out = C.Result()
    binary = C.build_harness()
    for k in range(1, 4):
        run_once(ctx, out, binary, ctx['seed'] + 7777 * k, 1500, 0, False, 's%d' % k)
        if out.violations: break
    return out

def replay(ctx, data):
    return run(ctx)
