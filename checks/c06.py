"""C06 - Router.Close is graceful: returns nil only when no handler runs or can start.

Drives the real Router (harness sub-command c06) under forced and random schedules, maps the
stamped hook log to labels of coq/Router/Close.v (schedule replay, strict) and to the API-level
history judged by coq/Router/CloseMonitor.v (mon_run - the acceptor the theorems are about)."""
import re
from . import common as C

HEADER = 'From WM Require Import Base.Prelude Router.Close Router.CloseMonitor Corr.C06.\n'
# which variant of the model corresponds to the code in the repo (flipped by the fix: commits)
FIX5 = True
FIX6 = True
FIX12 = True
FIX16 = True

def hno(s): return int(s[1:])

class Mapped: pass

DEPENDS_ON_SIGNAL = ('router.handler.handleclose.closing', 'router.handler.handleclose.closing_after_ctx', 'router.close.run_cancel',
                     'router.close.loops_done', 'router.close.running_locked', 'router.close.waited')

def map_scenario(sc):
    """hook log -> (labels with observations for Router/Close.v, API history for the acceptor)"""
    ev = [e for e in sc['events'] if not e['p'].endswith('#released')]
    m = Mapped(); m.problems = []
    # closer ids: the goroutine that stamps api.close.ret c is the one that ran Close
    g2c = {}; ret = {}
    for e in ev:
        if e['p'] == 'api.close.ret':
            g2c[e['g']] = int(e['k'][0]); ret[int(e['k'][0])] = e['k'][1]
    # earliest evidence that the pump took a message
    emit_pos = {}
    for e in ev:
        if e['p'] in ('api.emit.taken', 'decorator.pump.recv', 'decorator.sub.before_out', 'router.handler.received'):
            u = e['k'][-1]
            if u.startswith('m-') and u not in emit_pos:
                emit_pos[u] = e['seq']
    # position of the close(closingInProgressCh) step: as late as the log allows = immediately before the
    # first stamp that depends on it
    sig_seq = next((e['seq'] for e in ev if e['p'] == 'router.close.signal'), None)
    sig_late = None
    if sig_seq is not None:
        sig_late = next((e['seq'] for e in ev if e['seq'] > sig_seq and e['p'] in DEPENDS_ON_SIGNAL), None)
    # goroutine -> handler for the hooks that carry no handler name (decorator pump, decorator Close inside handleClose)
    g2h = {}
    for e in ev:
        k = e.get('k') or []
        if e['p'] == 'decorator.pump.start' and k and k[0].startswith('th'):
            g2h[e['g']] = hno(k[0][1:])
        elif e['p'].startswith('router.handler.handleclose.') and k:
            g2h[e['g']] = hno(k[0])
    L = []      # (label, obs)
    H = []      # (api event term, hook event)
    uuid2m = {}
    extra_c = [100]
    pump_closed = set(); pump_done = set(); pubclose_seen = set()
    pump_holds = {}; delivered_early = set()
    rh_ids = []; g2r = {}
    outcomes = {}; failed_msgs = set(); self_ended = set(); close_called = set()
    # a NEGATIVE observation (the poll of routersCloseCh saw it open) is stamped after the fact and can be overtaken by
    # the close and its observers: its model step is placed as early as the log allows = right after the same goroutine's
    # preceding stamp (ctx_done)
    early_poll = set()
    hc_stamps = [e for e in ev if e['p'].startswith('router.handler.handleclose.')]
    byg = {}
    for e in hc_stamps: byg.setdefault(e['g'], []).append(e)
    for g, es in byg.items():
        for a, b in zip(es, es[1:]):
            if a['p'].endswith('.ctx_done') and b['p'].endswith('.not_closing'):
                early_poll.add(a['seq'])
    sig_closer = [None]; sig_done = [False]
    def lab(l, o='ONone'): L.append((l, o))
    def closer_of(e):
        g = e['g']
        if g not in g2c:
            g2c[g] = extra_c[0]; extra_c[0] += 1
            lab('LCall %d' % g2c[g]); H.append(('ACloseCall %d' % g2c[g], e))
        return g2c[g]
    def m_of(u):
        if u not in uuid2m:
            m.problems.append('event for a message the pump never took: ' + u); return None
        return uuid2m[u]
    def deliver(h, u, e):
        # pump -> loop hand-off, placed at the earliest evidence (pump's sent stamp, loop's received stamp, or the pump going on);
        # from here on the Router has TAKEN the message (a message the decorator gives up before is never seen by it)
        if u in delivered_early: return
        delivered_early.add(u); lab('LDeliver %d' % h); H.append(('ATaken %d' % uuid2m[u], e))
        if pump_holds.get(h) == u: pump_holds[h] = None
    def pump_close(h):
        if h not in pump_closed:
            if pump_holds.get(h) is not None:      # the pump handed its last message over before it saw its input closed
                deliver(h, pump_holds[h], None)
            pump_closed.add(h); lab('LPump %d' % h)
    for e in ev:
        p, k, seq = e['p'], e.get('k') or [], e['seq']
        if sig_late is not None and seq == sig_late and not sig_done[0] and sig_closer[0] is not None:
            lab('LClose %d' % sig_closer[0]); sig_done[0] = True
            H.append(('ASignal', e))      # classification marker: the first evidence that the channel really is closed
        if k and k[-1] in emit_pos and emit_pos[k[-1]] == seq:
            u = k[-1]; uuid2m[u] = len(uuid2m)
            h = int(u.split('-')[1])
            # hand-off rule: the pump can only take the next message after it handed the previous one to the loop;
            # that hand-off is placed at the earlier of its two pieces of evidence (this one, or the loop's stamp)
            if pump_holds.get(h) is not None:
                deliver(h, pump_holds[h], e)
            pump_holds[h] = u
            lab('LEmit %d' % h)
        if p == 'api.close.call':
            lab('LCall %d' % int(k[0])); H.append(('ACloseCall %d' % int(k[0]), e))
        elif p == 'api.close.ret':
            H.append(('ACloseRet %d %s' % (int(k[0]), 'RNil' if k[1] == 'nil' else 'RErr'), e))
        elif p == 'api.run.ret':
            H.append(('ARunRet', e))
        elif p == 'api.ctx.cancel':
            lab('LEnvCancel'); H.append(('ACancel', e))
        elif p == 'api.quiescent':
            H.append(('AQuiescent', e))
        elif p == 'api.sub.close_called':
            close_called.add(hno(k[0]))
            lab('LHc %d' % hno(k[0])); H.append(('ASubClose %d' % hno(k[0]), e))
        elif p == 'api.sub.chan_close':
            h = hno(k[0])
            # the subscription ended by itself (environment), unless Close() had been called on the subscriber before
            lab(('LSubEnd %d' if (h in self_ended and h not in close_called) else 'LChanClose %d') % h)
        elif p == 'api.pub.close_done':
            H.append(('APubClose %d' % hno(k[0]), e))           # the publisher's Close() has returned
        elif p == 'api.sub.self_end':
            self_ended.add(hno(k[0])); H.append(('ASubEnd %d' % hno(k[0]), e))   # classification marker
        elif p == 'api.handler.start':
            x = m_of(k[1])
            if x is not None: lab('LMsg %d' % x); H.append(('AStart %d' % x, e))
        elif p == 'api.handler.end':
            x = m_of(k[1])
            if x is not None:
                failed = len(k) > 2 and k[2] in ('err', 'panic')      # error return or (recovered) panic: nothing is published
                lab(('LFail %d' if failed else 'LFinish %d') % x); H.append(('AEnd %d' % x, e))
                if failed: failed_msgs.add(x)
                outcomes[k[2] if len(k) > 2 else 'ok'] = outcomes.get(k[2] if len(k) > 2 else 'ok', 0) + 1
        elif p in ('message.ack.locked', 'message.nack.locked'):
            x = m_of(k[0])
            if x is not None:
                if x not in failed_msgs: lab('LMsg %d' % x)       # Publish returned (folded: no own hook in the Router)
                lab('LMsg %d' % x); H.append(('ASettle %d' % x, e))
        elif p == 'router.handler.msg.done':
            x = m_of(k[1])
            if x is not None: lab('LMsg %d' % x)
        elif p == 'router.handler.received':
            if k[1] in uuid2m: deliver(hno(k[0]), k[1], e)
        elif p == 'decorator.pump.sent':
            if k[0] in uuid2m: deliver(int(k[0].split('-')[1]), k[0], e)
        elif p in ('decorator.pump.dropped_ctx', 'decorator.pump.dropped_closing'):
            h = int(k[0].split('-')[1])
            lab(('LPumpDropCtx %d' if p.endswith('_ctx') else 'LPumpDropClosing %d') % h)
            if pump_holds.get(h) == k[0]: pump_holds[h] = None
        elif p == 'decorator.pump.closing_out':
            if e['g'] in g2h: pump_close(g2h[e['g']])
        elif p == 'decorator.pump.wg_done':
            if e['g'] in g2h:
                h = g2h[e['g']]; pump_close(h)
                if h not in pump_done: pump_done.add(h); lab('LPump %d' % h)
        elif p == 'decorator.close.inner_closed':
            if e['g'] in g2h: lab('LSubCloseRet %d' % g2h[e['g']])
        elif p == 'decorator.close.signalled':
            if e['g'] in g2h: lab('LHc %d' % g2h[e['g']])
        elif p in ('router.handler.wg_locked', 'router.handler.wg_added'):
            lab('LLoop %d' % hno(k[0]))
        elif p == 'router.handler.loop_ended':
            pump_close(hno(k[0])); lab('LLoop %d' % hno(k[0]))
        elif p == 'router.handler.pub_close':
            pubclose_seen.add(hno(k[0])); lab('LLoop %d' % hno(k[0]))
        elif p == 'router.handler.wg_done':
            if hno(k[0]) not in pubclose_seen: lab('LLoop %d' % hno(k[0]))
            lab('LLoop %d' % hno(k[0]))
        elif p == 'router.handler.handleclose.closing':
            lab('LHcClosing %d' % hno(k[0]))
        elif p == 'router.handler.handleclose.ctx_done':
            lab('LHcCtx %d' % hno(k[0]))
            if seq in early_poll: lab('LHc %d' % hno(k[0]), 'OClosing false')
        elif p == 'router.handler.handleclose.closing_after_ctx':
            lab('LHc %d' % hno(k[0]), 'OClosing true')
        elif p == 'router.handler.handleclose.not_closing':
            pass        # placed at the preceding ctx_done stamp (see early_poll)
        elif p == 'router.handler.handleclose.sub_closed':
            h = hno(k[0]); pump_close(h)
            if h not in pump_done: pump_done.add(h); lab('LPump %d' % h)
            lab('LHc %d' % h)
        elif p == 'router.handler.handleclose.stop':
            lab('LHc %d' % hno(k[0]))
        elif p == 'router.life.close.clocked':
            lab('LClose %d' % closer_of(e))          # closedLock taken
        elif p == 'router.close.locked':
            lab('LClose %d' % closer_of(e))          # handlersLock taken
        elif p == 'router.life.rh.locked':
            r = len(rh_ids); rh_ids.append(r); g2r[e['g']] = r
            lab('LRhCall %d' % r); lab('LRh %d' % r)
        elif p == 'router.life.rh.unlock':
            if e['g'] in g2r: lab('LRh %d' % g2r.pop(e['g']))
        elif p == 'router.close.already_closed':
            lab('LClose %d' % closer_of(e), 'OClosed true')
        elif p == 'router.close.signal':
            c = closer_of(e); lab('LClose %d' % c, 'OClosed false'); sig_closer[0] = c
            if sig_late is None: lab('LClose %d' % c); sig_done[0] = True; H.append(('ASignal', e))
        elif p == 'router.close.waited':
            lab(('LTimeout %d' if k[0] == 'true' else 'LWaitDone %d') % closer_of(e))
        elif p == 'router.close.closedch':
            lab('LClose %d' % closer_of(e))
        elif p == 'router.close.unlock':
            c = closer_of(e)
            lab('LClose %d' % c, 'ORet %d %s' % (c, 'RNil' if ret[c] == 'nil' else 'RErr') if c in ret else 'ONone')
        elif p == 'router.close.loops_done':
            lab('LW1')
        elif p in ('router.close.running_locked', 'router.close.running_wait_done', 'router.close.running_unlock'):
            lab('LW2')
        elif p == 'router.close.run_cancel':
            lab('LRun'); lab('LRun')
        elif p == 'router.close.run_saw_closed':
            lab('LRun')
    m.labels = L; m.hist = H; m.outcomes = outcomes
    return m

def model_handlers(sc):
    """(started handlers, never-started handlers, honour flags): a handler added to the running router counts as started
    when RunHandlers got to it before Close did (its goroutines are then merely scheduled late), else as never started"""
    hon = [h['honour'] for h in sc['handlers']]
    un = sc.get('unstarted', 0)
    if sc.get('late_handler'):
        if sc.get('late_started'): hon = hon + [True]
        else: un += 1
    return len(hon), un, hon

def r_case_term(sc, mp):
    n, un, honl = model_handlers(sc)
    hon = C.coq_list([C.coq_bool(b) for b in honl])
    return '(RC %d %d %s %s %s %s %s %s)' % (n, un, hon, C.coq_bool(FIX5), C.coq_bool(FIX6), C.coq_bool(FIX12), C.coq_bool(FIX16),
                                        C.coq_list(['(%s, %s)' % lo for lo in mp.labels]))

def m_case_term(sc, mp):
    n, un, honl = model_handlers(sc)
    hp = C.coq_list([C.coq_bool(not h.get('nopub')) for h in sc['handlers']] + [C.coq_bool(False)] * (n - len(sc['handlers'])))
    return '(MC %d %s %s)' % (n, hp, C.coq_list(['(%s)' % t for t, _ in mp.hist]))

VNAME = {1: 'a handler started after a Close call had returned nil',
         2: 'Close returned nil while a handler invocation was still in progress (or its message unsettled)',
         3: 'Close returned nil with a message settled that was never handled',
         4: 'Router.Close never called Close() on some handler\'s subscriber',
         5: 'Router.Close returned nil but some handler\'s publisher was not closed',
         6: 'Close returned a timeout error although no message was in the pipeline: a handler\'s subscriber was never asked to close',
         7: 'after the Run context had been cancelled before Close, Close() was never called on the handlers\' subscribers',
         8: 'after the Run context had been cancelled before Close, Close times out with nothing in the pipeline (subscriber ignores its context and is never closed)',
         11: 'a message was settled after a Close call had returned nil',
         12: 'Close returned nil although a handler was in progress when Run returned',
         14: 'a Close call after a timed-out one returned nil while handlers still run',
         16: 'a Close call returned nil while a handler\'s publisher was not closed (its Close() had not completed or not been called)'}
SIG = {1: 'C06/handler-starts-after-nil-close(D5)', 2: 'C06/nil-close-while-handler-in-progress', 3: 'C06/settled-without-handling',
       4: 'C06/subscriber-not-closed(D6)', 5: 'C06/publisher-not-closed', 6: 'C06/close-timeout-with-empty-pipeline(D6)',
       7: 'C06/subscriber-not-closed-after-ctx-cancel', 8: 'C06/subscriber-not-closed-after-ctx-cancel',
       11: 'C06/settled-after-nil-close', 16: 'C06/nil-close-before-publisher-closed', 12: 'C06/run-returned-while-handler-in-progress', 14: 'C06/second-close-nil-after-timeout(D12)'}

def readable(sc, mp, upto=None):
    evs = [dict(seq=(e or {}).get('seq'), event=t, hook=(e or {}).get('p'), keys=(e or {}).get('k')) for t, e in mp.hist]
    return dict(scenario=sc['name'], kind=sc['kind'], handlers=sc['handlers'], close_timeout_ms=sc['close_timeout_ms'], closers=sc['closers'],
                second_close=sc['second_close'], cancel=sc['cancel'], rules=sc['rules'], close_calls=sc['calls'], run_ret=sc['run_ret'],
                sub_closes=sc['sub_closes'], pub_closes=sc['pub_closes'],
                api_history=evs if upto is None else evs[:upto + 1])

def evaluate(pid, name, scs):
    mapped = [map_scenario(sc) for sc in scs]
    reps = [None] * len(scs); mons = [None] * len(scs)
    for part, chunk in enumerate(C.chunks(list(range(len(scs))), 40)):
        rterms = C.coq_list([r_case_term(scs[j], mapped[j]) for j in chunk])
        mterms = C.coq_list([m_case_term(scs[j], mapped[j]) for j in chunk])
        r = C.coq_eval(pid, '%s_%d' % (name, part),
                       HEADER + 'Definition rcases : list r_case := %s.\nDefinition mcases : list m_case := %s.\n' % (rterms, mterms),
                       [('R', 'r_results rcases'), ('M', 'm_results mcases')])
        for j, rv, mv in zip(chunk, r['R'], r['M']):
            reps[j] = rv; mons[j] = mv
    return mapped, reps, mons

TRUSTED_BASE = [
    'modelled, not verified: Go runtime semantics of sync.Mutex, sync.WaitGroup, channels/select (any ready case), context cancellation, time.After (may fire whenever the closer waits); '
    'Router/Close.v is hand-written from message/router.go (Close, waitForHandlers, Run tail, the RunHandlers goroutine + handler.run, handleClose, handleMessage), '
    'message/decorator.go (pump + Close) and pubsub/sync/waitgroup.go (folded into the closer\'s select) and tied to them by schedule replay of the stamped hook log',
    'subscriber contract of the model: the channel closes after Close() was called or (ctx-honouring subscribers) after the Subscribe context ended; whether and when the subscriber\'s Close() RETURNS is an environment choice (it may block for ever); both locks of Close are modelled and RunHandlers calls compete for handlersLock; what RunHandlers starts and Stop concurrent with Close are outside the model (C10)',
    'the stamp discipline (acquire: stamp after; release: stamp before; close(closingInProgressCh) placed as late as the log allows; pump steps without a hook inserted as late as possible) and the Python mapper checks/c06.py',
    'Router/CloseMonitor.v mon_run judges the implementation history; it is PROVED to accept every API trace of the repaired model, event by event and at rest (C06_model_accepted, C06_model_accepted_at_rest) and to reject the D5/D12 witness traces; the mapping of hook stamps to API events is trusted',
]
ASSUMPTIONS = [
    '"every Close call returns" on the implementation is a watchdog (CloseTimeout + 4 s); "Close times out although nothing runs" is judged structurally (a subscriber that was never asked to close), never by wall-clock alone',
    'data races are outside the model',
]
RULE = ('real message.Router with 1-6 handlers, scripted subscribers that honour or ignore the Subscribe context, scripted publishers / no-publisher handlers, 0-4 messages per handler; '
        'forced schedules (park/release at hook points): a message parked at each of 8 points of its path (in the subscriber decorator, received-not-dispatched, holding the wait-group lock, '
        'dispatched-not-started, in the handler, publishing, before settlement, settled-before-Done) x {Close, Close that the message tries to outwait, CloseTimeout exceeded + second Close, 3 concurrent Close calls, '
        'context cancel then Close, Close and cancel together}, the D5 and D6 witnesses; random schedules with seeded yields at every hook, 1-8 concurrent Close callers, handlers outliving CloseTimeout, context cancel; '
        'a further Close after everything is at rest.  non-trivial = the message reached the parked point / Close overlapped a message in the pipeline; distinct by scenario name, outcome and label count.')

def run_family(ctx, res, ncases, forced, seed_offset=0, only=None):
    pid, seed = ctx['pid'], ctx['seed'] + seed_offset
    binary = C.build_harness()
    args = ['c06', '-cases', str(ncases), '-forced', str(forced), '-seed', str(seed)]
    if only: args += ['-only', only]
    scs, _ = C.run_harness(binary, args, pid, 'c06_%d.json' % seed, timeout=900)
    mapped, reps, mons = evaluate(pid, 'c06_%d' % seed, scs)
    classify(res, scs, mapped, reps, mons)
    return scs, mapped, reps, mons

def classify(res, scs, mapped, reps, mons):
    for sc, mp, rp, mo in zip(scs, mapped, reps, mons):
        res.evaluations += 1
        res.count('kind=' + sc['kind']); res.count('handlers=%d' % len(sc['handlers'])); res.count('closers=%d' % sc['closers'])
        res.count('subscriber honours ctx' if sc['handlers'][0]['honour'] else 'subscriber ignores ctx')
        if sc['cancel']: res.count('with context cancel')
        if sc['second_close']: res.count('with second Close')
        if sc.get('unstarted'): res.count('with a handler added but never started')
        if sc.get('late_handler'): res.count('RunHandlers concurrent with Close (late handler %s)' % ('started' if sc.get('late_started') else 'not started'))
        res.count('hook events', len(sc['events'])); res.count('model labels replayed', len(mp.labels)); res.count('api events', len(mp.hist))
        for o, n in mp.outcomes.items(): res.count('handler outcome ' + o, n)
        res.count('Close calls', len(sc['calls'])); res.count('Close calls returning an error', sum(1 for c in sc['calls'] if c['err']))
        parked = sum(r['parked'] for r in sc['rules']); res.count('goroutines parked by a rule', parked)
        res.count('park rules infeasible (timed out)', sum(r['timed_out'] for r in sc['rules']))
        overlap = any(t.startswith('ATaken') for t, _ in mp.hist)
        if overlap and (parked or sc['kind'] == 'random'):
            res.nontrivial.add((sc['name'], tuple(bool(c['err']) for c in sorted(sc['calls'], key=lambda c: c['c'])), len(mp.labels)))
        case = dict(scenario=sc['name'], id=sc['id'])
        for pr in mp.problems:
            res.mismatches.append(dict(kind='C06 stamp mapping: ' + pr, case=case))
        code, pan, modelmon = rp
        if code:
            res.mismatches.append(dict(kind='Corr.C06.o_replay (Router/Close.v step vs router.go): label %d not enabled or observation differs' % (code - 1),
                                       case=dict(case, labels_upto=mp.labels[max(0, code - 10):code], fix_flags=(FIX5, FIX6, FIX12))))
        if pan:
            res.mismatches.append(dict(kind='Router/Close.v: the replayed schedule panics in the model', case=case))
        if sc.get('panics'):
            res.violations.append(dict(signature='C06/panic', what='panic in Run/Close: %s' % sc['panics'][:2], case=readable(sc, mp)))
        if sc.get('w1_stuck'):
            res.violations.append(dict(signature='C06/close-timeout-handlersWg-never-zero(D16)', what='Close returned a timeout error and its wait for the handler loops never ends although every handler loop has ended: handlersWg still counts a handler that was added but never started', case=readable(sc, mp)))
        for h in sc.get('hung') or []:
            res.violations.append(dict(signature='C06/close-hangs-beyond-CloseTimeout' if h.startswith('Close hangs') else ('C06/runhandlers-hangs' if h.startswith('RunHandlers hangs') else 'C06/never-returns'), what=h, case=readable(sc, mp)))
        seen = set()
        for i, c in mo:
            if c in seen: continue
            seen.add(c)
            res.violations.append(dict(signature=SIG.get(c, 'C06/code-%d' % c), what=VNAME.get(c, 'code %d' % c), case=readable(sc, mp, upto=i)))
        if modelmon and (FIX5 and FIX12) and not code:
            res.mismatches.append(dict(kind='the acceptor rejects the MODEL trace of an accepted schedule although the repaired model is proved safe', case=case))
    for sc, mp in list(zip(scs, mapped))[:2]:
        r = readable(sc, mp); r['api_history'] = [x['event'] for x in r['api_history']][:40]; r.pop('rules'); r.pop('handlers')
        res.sample(r, limit=2)

def run(ctx, seed_offset=0, ncases=None, forced=None, only=None):
    res = C.Result()
    tier = ctx['tier']
    ncases = ncases if ncases is not None else (60 if tier == 'quick' else 600)
    forced = forced if forced is not None else (1 if tier == 'quick' else 4)
    run_family(ctx, res, ncases, forced, seed_offset=seed_offset, only=only)
    res.rule = RULE
    return res

def search(ctx, res):
    out = C.Result()
    for k in range(1, 3):
        r = run(dict(ctx, tier='quick'), seed_offset=1000 * k, ncases=150, forced=1)
        out.evaluations += r.evaluations; out.nontrivial |= r.nontrivial; out.violations += r.violations
        if r.violations: break
    return out

def replay(ctx, data):
    name = (data.get('case') or {}).get('scenario')
    return run(dict(ctx, seed=data.get('seed', ctx['seed'])), only=name if name and not name.startswith('random') else None)
