CHECKS = {
 'C12': dict(
  text='Retry middleware: bounded attempts, back-off, first success wins, error kept',
  note='Coq model of retry.go + the backoff/v3 recurrence (Handler/Retry.v), 39 theorems over all configurations (incl. the unvalidated ones: Multiplier <= 0, negative intervals, Initial > Max) / handler scripts / clock-select oracles: '
       'first success wins, attempt bound, error kept, hook sequence, back-off lower bound + closed form + truncation bound (geometric error sum) for any rational multiplier, '
       'gives up only and timely on an ended context (zero back-off: select race, at most K lost under the fair-select contract, all-n-retries has exactly one of 2^n resolutions), N concurrent messages = N independent runs (interleaving theorem; shared-back-off variant refuted); coqchk: no axioms; composed with the Router (C02 handle): error => Nack and nothing published, success => outputs of the first successful attempt, Ack iff accepted; float64 incrementCurrentInterval = exact model for dyadic multipliers below 2^53 (rounding oracle), +-1 ns otherwise; logger handed the last error; '
       'real middleware.Retry driven with 1..6 messages through one wrapped handler (stand-alone, inside a Router, Router closed mid-back-off), compared with the model and judged by retry_monitor',
  technique='Coq proof about an executable model + correspondence check + executable monitor',
  design_ref='DESIGN.md §7 C12',
 ),
}
