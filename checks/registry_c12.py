CHECKS = {
 'C12': dict(
  text='Retry middleware: bounded attempts, back-off, first success wins, error kept',
  note='Coq model of retry.go + the backoff/v3 recurrence (Handler/Retry.v), theorems over all configurations / handler scripts / clock-select oracles; '
       'real middleware.Retry driven with 1..6 messages through one wrapped handler, compared with the model and judged by retry_monitor',
  technique='Coq proof about an executable model + correspondence check + executable monitor',
  design_ref='DESIGN.md §7 C12',
 ),
}
