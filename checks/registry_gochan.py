"""MANIFEST text for the GoChannel checks built on the shared scenario family (C04, C07, C11)."""
_TRUST = ('Trusted: Coq kernel + vm_compute; Go runtime semantics of mutex/RWMutex/channel/select/WaitGroup as modelled; hook stamp discipline + Python mapper checks/gochan.py; '
          'GoChannel/Monitor.v acceptors are executable oracles on implementation histories. ')
CHECKS = {
 'C04': dict(
  text=('Theorems about the two hand-written transition-system models of pubsub.go, for every buffer size, number of Senders, consumer behaviour and schedule: a subscription sees a message again only after it '
        'Nacked the previous copy and never after an Ack; after a Nack the Sender is enabled and offers a fresh unsettled copy; settling one copy changes no other; the delivery context is live on receipt and cancelled for good after the Ack; (registry layer) every subscription in the '
        'topic\'s list when the snapshot is taken gets exactly one Sender, never one of another topic. Tied to the code on every run: the stamped hook log of random and forced concurrent scenarios is replayed '
        'label by label on both models, and API-level acceptors (content/identity/context of each delivered copy, no duplicate without Nack, redelivery after every Nack, delivered to every subscription that existed '
        'at Publish, never to another topic) judge the implementation histories.'),
  note=_TRUST + 'The no-duplicate acceptor is proved sound for the model (C04_no_dup_acceptor_sound); the content/topic/delivered acceptors are oracles. Partial: "eventually delivered" is judged on the implementation at quiescence; in the model it is the enabledness of the Sender (safety form).',
  technique='Coq proof (invariants over thread-level LTSs) + schedule-replay correspondence check + executable API acceptors',
  design_ref='DESIGN.md section 7 C04/C05/C11/C07'),
 'C07': dict(
  text=('Theorems over all schedules of the hand-written models: a subscription never sends on a closed channel or closes twice (any buffer, Senders, consumer); a woken teardown is never stuck behind an unread '
        'channel, an unsettled message or a Nack in progress and its steps are bounded by a measure (it terminates with both channels closed once and every Sender returned); the registry never panics after the D7 repair (refuted by a witness schedule for the pinned Publish: nil-map write after Close); the subscriber '
        'decorator\'s pump closes its channel once, and with the D8 repair a Close/cancel is never stuck behind an unread decorated channel and every internal step decreases a measure (refuted for the pinned pump: Close hangs). '
        'Tied to the code on every run: stamped logs of random + 18 forced overlaps (Publish/Subscribe/Sender/teardown x Close/cancel) replayed on the models; watchdog verdicts (Close/cancel return, channels closed, '
        'no goroutine left, Publish/Subscribe error after Close, other subscriptions unaffected by a cancel), decorated scenarios with 1-2 layers.'),
  note=_TRUST + 'Termination on the implementation is a watchdog verdict (testing); in the models the *_partial theorems are absence-of-stuck-state results. Data races: -race build in the thorough tier (testing).',
  technique='Coq proof (invariants + measure over thread-level LTSs, refutation witnesses by vm_compute) + schedule-replay correspondence check + watchdog/leak oracles',
  design_ref='DESIGN.md section 7 C04/C05/C11/C07'),
 'C11': dict(
  text=('Theorems about the registry model (Publish appends to the log and snapshots under read lock + topic lock; Subscribe holds write lock + topic lock from before the replay reads the log until the '
        'subscription is registered): every (publication, subscription) pair gets at most one Sender, and a registered persistent subscription exactly one for every message of its topic; a Sender whose '
        'subscriber Acks makes exactly one copy. Tied to the code on every run: persistent scenarios with subscriptions starting while publishers are active (forced overlaps publish.persisted x Subscribe, '
        'subscribe.replay x Publish) are replayed on the models (the replay goroutine\'s log snapshot is compared with the model\'s), and the exactly-once acceptor judges every implementation history at quiescence.'),
  note=_TRUST + 'Judged for subscriptions that stayed open and settled everything; exactly-once only for subscriptions that never Nack, as the property states.',
  technique='Coq proof (invariant over a thread-level LTS) + schedule-replay correspondence check + executable exactly-once acceptor',
  design_ref='DESIGN.md section 7 C04/C05/C11/C07'),
}
