"""C16 — Value semantics: Copy/Equals laws and codec round-trips are identities."""
import concurrent.futures, json
from . import common as C

HEADER = 'From Coq Require Import Uint63.\nFrom WM Require Import Base.Prelude Message.Model Value.Model Value.Codec Corr.C16.\n'

TRUSTED_BASE = [
    'library oracles (Section variables of coq/Value/Codec.v, never proved): encoding/json Marshal/Unmarshal of the envelope struct, of CQRS values and of reply results; '
    'google.golang.org/protobuf and gogo/protobuf Marshal/Unmarshal; watermill.NewUUID; fmt %T.  Each round-trip theorem assumes, for the ONE value marshalled, that the library reads back '
    'what it wrote (and, for the gogo marshaler, that gogo either fails on bytes written by the fallback or reads the same value); the check evaluates exactly these hypotheses on every case '
    'with direct library calls and reports how often they held (oracle_laws)',
    'the harness mirror of the envelope wire format (struct tags destination_topic/uuid/payload/metadata) used to call encoding/json directly; error kinds are recognised by their message text',
    'Go semantics as modelled in coq/Value/Model.v: string/[]byte equality is byte equality; len/range/bytes.Equal do not distinguish nil from empty; a map has no duplicate keys; '
    'copying a slice value shares the backing array; writing a nil map panics.  Message settlement is the C03 model (Message/Model.v)',
    'canonical rendering of Go values (go-spew with sorted keys, deterministic protobuf bytes) stands for the value in CQRS / reply cases',
]
ASSUMPTIONS = [
    'UTF-8 validity (RFC 3629) is the Gallina function utf8_valid; the envelope acceptor gives a verdict only for valid-UTF-8 destination/UUID/metadata (payload: all bytes) - outside that the model still has to agree with the code',
    'metadata iteration order is not observable (Equals/Copy results do not depend on it); the harness compares metadata as sets',
]

def hb(h):
    return bytes.fromhex(h)

class Terms:
    """Gallina term builder with sharing of long byte strings"""
    def __init__(self):
        self.defs = {}
        self.terms = {}      # shared sub-terms (messages, object views): term text -> name
        self.order = []
    def share(self, prefix, typ, term):
        k = self.terms.get(term)
        if k is None:
            k = '%s%d' % (prefix, len(self.terms))
            self.terms[term] = k
            self.order.append('Definition %s : %s := %s.' % (k, typ, term))
        return k
    @staticmethod
    def packed(b):
        words = [int.from_bytes(b[i:i + 7], 'little') for i in range(0, len(b), 7)]
        tail = len(b) - 7 * (len(words) - 1)
        return '(pk [%s]%%uint63 %d)' % (';'.join(str(w) for w in words), tail)
    def bytes_(self, b):
        if len(b) <= 6:
            return '[' + ';'.join(str(x) for x in b) + ']%N'
        if len(b) <= 28:
            return self.packed(b)
        k = self.defs.get(b)
        if k is None:
            k = 'bs%d' % len(self.defs)
            self.defs[b] = k
        return k
    def hx(self, h):
        return self.bytes_(hb(h))
    def obytes(self, h):
        return 'None' if h is None else '(Some %s)' % self.hx(h)
    def ostr(self, h):
        return self.obytes(h)
    def meta(self, m):
        if m is None:
            return 'None'
        return '(Some [%s])' % ';'.join('(%s,%s)' % (self.hx(k), self.hx(v)) for k, v in m)
    def msg(self, m):
        return self.share('m', 'msg', '(Msg %s %s %s)' % (self.hx(m['u']), self.obytes(m['p']), self.meta(m['m'])))
    def header(self):
        out = [HEADER]
        for b, k in self.defs.items():
            out.append('Definition %s : list N := %s.' % (k, self.packed(b)))
        return '\n'.join(out + self.order) + '\n'

def B(x):
    return C.coq_bool(bool(x))

# ------------------------------------------------------------------ per family: JSON -> Gallina

def eq_term(T, c):
    return '(EqC %s %s %s %s)' % (T.msg(c['a']), T.msg(c['b']), B(c['ab']), B(c['ba']))

def st_term(T, c):
    ops = []
    for o in c['ops']:
        k = o[0]
        if k == 'new': ops.append('(VNew %s %s)' % (T.hx(o[1]), T.obytes(o[2])))
        elif k == 'lit': ops.append('(VLit %s %s %s)' % (T.hx(o[1]), T.obytes(o[2]), T.meta(o[3])))
        elif k == 'copy': ops.append('(VCopy %d)' % o[1])
        elif k == 'set': ops.append('(VSet %d %s %s)' % (o[1], T.hx(o[2]), T.hx(o[3])))
        elif k == 'poke': ops.append('(VPoke %d %d %d)' % (o[1], o[2], o[3]))
        elif k == 'ack': ops.append('(VAck %d)' % o[1])
        elif k == 'nack': ops.append('(VNack %d)' % o[1])
        elif k == 'eq': ops.append('(VEquals %d %d)' % (o[1], o[2]))
    tr = []
    for r, snap in zip(c['res'], c['snaps']):
        if r[0] == 'obj': rt = '(RObj %d)' % r[1]
        elif r[0] == 'unit': rt = 'RUnit'
        elif r[0] == 'b': rt = '(RB %s)' % B(r[1])
        else: rt = 'RPanicked'
        views = ';'.join(T.share('v', 'oview', '(OV %s %s %s)' % (T.msg(v['m']), B(v['a']), B(v['n']))) for v in snap)
        tr.append('(%s,[%s])' % (rt, views))
    return '(StC [%s] [%s])' % (';'.join(ops), ';'.join(tr))

def env_of(T, e):
    if e is None:
        return 'None'
    m = e['m']
    return '(Some (Env %s %s %s %s))' % (T.hx(e['d']), T.hx(m['u']), T.obytes(m['p']), T.meta(m['m']))

def unw_res(T, u):
    if u is None:
        return '(Err EUnknownDest)'
    if u.get('err'):
        return '(Err %s)' % errk(u['err'])
    return '(Ok (%s,%s))' % (T.hx(u['d']), T.msg(u['m']))

KNOWN_ERR = {'EUnknownDest', 'EMarshalEnvelope', 'EUnmarshalEnvelope', 'EInvalidEnvelope', 'ELibMarshal', 'ELibUnmarshal', 'ELibPanic',
             'ENoProto', 'EMarshalReply', 'EUnmarshalResult', 'EWrappedPublish'}
class UnknownError(Exception):
    pass
def errk(e):
    return e if e in KNOWN_ERR else 'EOther'    # never equal to anything the model returns

def env_term(T, c):
    wrap = '(Err %s)' % errk(c['wrap_err']) if c.get('wrap_err') else '(Ok %s)' % T.msg(c['w'])
    return '(EnvC %s %s %s [85]%%N %s %s %s %s)' % (T.hx(c['dest']), T.msg(c['m']), T.obytes(c['libenc']), wrap, env_of(T, c.get('libdec')), unw_res(T, c.get('unwrap')), B(c['valid_utf8']))

def unw_term(T, c):
    return '(UnwC %s %s %s)' % (T.obytes(c['p']), env_of(T, c['libdec']), unw_res(T, c['got']))

def pub_term(T, c):
    ms = c['ms'] or []
    got = '(Err %s)' % errk(c['err']) if c.get('err') else '(Ok (%s,[%s]))' % (T.hx(c['topic']), ';'.join(T.msg(w) for w in (c['ws'] or [])))
    return '(PubC %s %s %s [%s] [%s] %s [%s] [%s])' % (
        T.hx(c['cfg']), B(c['inner_ok']), T.hx(c['dest']), ';'.join(T.msg(m) for m in ms),
        ';'.join(T.obytes(x) for x in (c['libencs'] or [])), got,
        ';'.join(env_of(T, e) for e in (c['libdecs'] or [])), ';'.join(unw_res(T, u) for u in (c['unwrapped'] or [])))

def lib_enc(T, r, as_lib):
    """library encode result -> option (option bytes) / lib (option bytes)"""
    k = (r or {}).get('k') or 'na'
    if as_lib:
        return {'ok': '(LOk %s)' % T.obytes(r['b']) if k == 'ok' else '', 'err': 'LErr', 'panic': 'LPanic', 'na': 'LErr'}[k]
    return '(Some %s)' % T.obytes(r['b']) if k == 'ok' else 'None'
def lib_dec(T, r, as_lib):
    k = (r or {}).get('k') or 'na'
    if as_lib:
        return {'ok': '(LOk %s)' % T.hx(r['b']) if k == 'ok' else '', 'err': 'LErr', 'panic': 'LPanic', 'na': 'LErr'}[k]
    return '(Some %s)' % T.hx(r['b']) if k == 'ok' else 'None'

def cq_term(T, c):
    marshal = '(Err %s)' % errk(c['marshal_err']) if c.get('marshal_err') else '(Ok %s)' % T.msg(c['msg'])
    unm = '(Err %s)' % errk(c['unmarshal_err']) if c.get('unmarshal_err') else '(Ok %s)' % T.hx(c['unm'])
    return '(CqC %d %s %s %s %s %s %s %s %s %s %s %s %s %s %s %s %s)' % (
        c['kind'], B(c['nofb']), T.hx(c['ts']), T.ostr(c['gen']), T.ostr(c['cfguuid']), T.hx(c['v']), B(c['ismsg']), B(c['isgogo']),
        lib_enc(T, c['venc'], False), lib_enc(T, c['genc'], True), marshal, T.hx(c['name']), T.hx(c['name_other']), T.hx(c['nfm']),
        lib_dec(T, c['vdec'], False), lib_dec(T, c['gdec'], True), unm)

def nfm_term(T, c):
    return '(NfmC %s %s)' % (T.msg(c['m']), T.hx(c['got']))

def rp_obs(T, c):
    if c.get('unmarshal_err'):
        return '(Err %s)' % errk(c['unmarshal_err'])
    return '(Ok (%s,%s))' % (T.hx(c['got_res']), T.ostr(c['got_err']))
def rp_term(T, c):
    marshal = '(Err %s)' % errk(c['marshal_err']) if c.get('marshal_err') else '(Ok %s)' % T.msg(c['msg'])
    return '(RpC %s %s %s %s %s %s)' % (T.hx(c['res']), T.ostr(c['errtext']), lib_enc(T, c['renc'], False), marshal,
                                        lib_dec(T, c['rdec'], False), rp_obs(T, c) if not c.get('marshal_err') else '(Err EMarshalReply)')
def ru_term(T, c):
    return '(RuC %s %s %s)' % (T.msg(c['m']), lib_dec(T, c['rdec'], False), rp_obs(T, c))

def u8_term(T, c):
    return '(U8C %s %s)' % (T.hx(c['s']), B(c['valid']))

def js_term(T, c):
    return '(JsC %s %s %s %s)' % (T.hx(c['s']), T.hx(c['enc']), T.hx(c['lit']), ('(Some %s)' % T.hx(c['dec'])) if c['dec_ok'] else 'None')
def b64_term(T, c):
    return '(B64C %s %s %s %s)' % (T.hx(c['b']), T.hx(c['enc']), T.hx(c['in']), ('(Some %s)' % T.hx(c['dec'])) if c['dec_ok'] else 'None')
def jw_term(T, c):
    if c.get('m'):
        m = dict(c['m'])
        if m['m']:       # hand the entries over in a non-sorted order: reversed, then rotated by the case's payload length
            l = list(reversed(m['m'])); k = len(c['p'] or '') % len(l); m['m'] = l[k:] + l[:k]
        wrap = '(Some (%s,%s))' % (T.hx(c['dest']), T.msg(m))
    else:
        wrap = 'None'
    frames = ';'.join('(%s,%s)' % (T.hx(f['text']), 'None' if f['members'] is None else
                                   '(Some [%s])' % ';'.join('(%s,%s)' % (T.hx(k), T.hx(v)) for k, v in f['members'])) for f in c['frames'])
    return '(JwC %s %s %s [%s] %s)' % (wrap, B(c['valid']), T.obytes(c['p']), frames, unw_res(T, c['got']))

def ctx_term(T, c):
    return '(CtxC %d%%N %d%%N %d%%N %d%%N %d%%N %d%%N)' % (c['in'], c['delivered'], c['wrapped'], c['unwrapped'], c['copy'], c['orig_after'])
def cc_term(T, c):
    return '(CcC %s %d %s)' % (cq_term(T, c['c']), c['kind_u'], B(c['nofb_u']))

def tg_term(T, c):
    got = '(Err %s)' % errk(c['unmarshal_err']) if c.get('unmarshal_err') else '(Ok %s)' % T.hx(c['unm'])
    return '(TgC %d %s %s %s %s %s %s %s %s %s %s %s %s)' % (
        c['kind'], B(c['nofb']), B(c['ismsg']), B(c['isgogo']), T.ostr(c['v']), T.obytes(c['payload']), T.hx(c['prev']),
        lib_dec(T, c['vinto'], False), lib_dec(T, c['vfresh'], False), lib_dec(T, c['ginto'], True), T.hx(c['gleft']),
        lib_dec(T, c['gfresh'], True), got)

def ji_term(T, c):
    return '(JiC (%s)%%Z %s %s %s)' % (c['z'], T.hx(c['enc']), T.hx(c['in']), ('(Some (%s)%%Z)' % c['dec']) if c['dec_ok'] else 'None')

def sm_term(T, c):
    k = c['kind']
    if k == 'ids':
        return '(SmIds [%s] [%s])' % (';'.join(T.msg(m) for m in c.get('ms') or []), ';'.join(T.hx(x) for x in c.get('ids') or []))
    if k == 'add':
        return '(SmAdd %s %s %s %s)' % (T.meta(c['l']), T.meta(c['new']), T.meta(c['got'])[6:-1], B(c['unchanged']))
    if k == 'copy':
        return '(SmCopy %s %s %s)' % (T.meta(c['l']), T.meta(c['got'])[6:-1], B(c['unchanged']))
    return '(SmId %d %s)' % (['uuid', 'shortuuid', 'ulid'].index(k), T.hx(c['s']))
def pw_val(T, kind, v):
    if kind in (0, 1): return '(PwBytes %s)' % T.hx(v)
    if kind == 2: return '(PwInt (%s)%%Z)' % v
    return '(PwBool %s)' % v
def pw_term(T, c):
    return '(PwC %d %s %s %s %s %s)' % (c['kind'], pw_val(T, c['kind'], c['v']), ('(Some %s)' % T.hx(c['enc'])) if c['enc_ok'] else 'None',
                                     T.hx(c['in']), B(c['must_fail']), ('(Some %s)' % pw_val(T, c['kind'], c['dec'])) if c['dec_ok'] else 'None')

FAMILIES = {
    # key: (case type, term builder, [(result name, Gallina function, role)], chunk size, what)
    'eq':  ('eq_case', eq_term, [('mis', 'eq_mismatches', 'm'), ('vio', 'eq_violations', 'v'), ('pin', 'eq_pinned_diffs', 'i')], 400,
            'Message.Equals on a pair, both directions'),
    'st':  ('st_case', st_term, [('mis', 'st_mismatches', 'm'), ('vio', 'st_violations', 'v')], 130,
            'object script NewMessage/literal/Copy/Set/poke/Ack/Nack/Equals with a snapshot of every object after every step'),
    'env': ('env_case', env_term, [('mis', 'env_mismatches', 'm'), ('vio', 'env_violations', 'v'), ('law', 'env_law_failures', 'l')], 160,
            'forwarder wrapMessageInEnvelope then unwrapMessageFromEnvelope'),
    'unw': ('unw_case', unw_term, [('mis', 'unw_mismatches', 'm'), ('vio', 'unw_violations', 'v')], 200,
            'unwrapMessageFromEnvelope on arbitrary / malformed bytes'),
    'pub': ('pub_case', pub_term, [('mis', 'pub_mismatches', 'm'), ('vio', 'pub_violations', 'v')], 100,
            'forwarder.Publisher.Publish of a batch into a recording publisher, then unwrap of every envelope'),
    'cq':  ('cq_case', cq_term, [('mis', 'cq_mismatches', 'm'), ('vio', 'cq_violations', 'v'), ('law', 'cq_law_failures', 'l')], 250,
            'CQRS marshaler Marshal / Name / NameFromMessage / Unmarshal'),
    'nfm': ('nfm_case', nfm_term, [('mis', 'nfm_mismatches', 'm')], 200, 'NameFromMessage on arbitrary messages'),
    'rp':  ('rp_case', rp_term, [('mis', 'rp_mismatches', 'm'), ('vio', 'rp_violations', 'v')], 250, 'BackendPubsubJSONMarshaler MarshalReply then UnmarshalReply'),
    'ru':  ('ru_case', ru_term, [('mis', 'ru_mismatches', 'm')], 200, 'UnmarshalReply on arbitrary messages'),
    'js':  ('js_case', js_term, [('mis', 'js_mismatches', 'm')], 400, 'Gallina enc_str / dec_str against json.Marshal(string) / json.Unmarshal(literal, &string)'),
    'b64': ('b64_case', b64_term, [('mis', 'b64_mismatches', 'm')], 400, 'Gallina b64enc / b64dec against base64.StdEncoding'),
    'jw':  ('jw_case', jw_term, [('mis', 'jw_mismatches', 'm'), ('vio', 'jw_violations', 'v')], 100,
            'envelope text: Gallina jenc_env = bytes written by wrapMessageInEnvelope; Gallina jdec_env (object split given) = unwrapMessageFromEnvelope'),
    'ctx': ('ctx_case', ctx_term, [('mis', 'ctx_mismatches', 'm')], 400, 'message context: wrapped message gets the original context, unwrapped message the envelope message context'),
    'cc':  ('cc_case', cc_term, [('mis', 'cc_mismatches', 'm')], 250, 'Marshal with one of ProtoMarshaler / ProtobufMarshaler(fallback on/off), Unmarshal with another'),
    'tg':  ('tg_case', tg_term, [('mis', 'tg_mismatches', 'm'), ('vio', 'tg_violations', 'v'), ('law', 'tg_law_failures', 'l')], 200,
            'CQRS marshaler Unmarshal into a reused / pre-filled target, and on payloads that are not the output of Marshal'),
    'ji':  ('ji_case', ji_term, [('mis', 'ji_mismatches', 'm')], 400, 'Gallina enc_int / dec_int against json.Marshal(int64) / json.Unmarshal(text, &int64)'),
    'sm':  ('sm_case', sm_term, [('mis', 'sm_mismatches', 'm')], 400, 'Messages.IDs, LogFields.Add / Copy (result and independence from the inputs), NewUUID / NewShortUUID / NewULID formats'),
    'pw':  ('pw_case', pw_term, [('mis', 'pw_mismatches', 'm')], 300, 'protobuf wire bytes of StringValue / BytesValue / Int64Value / BoolValue: Gallina encoder = proto.Marshal, Gallina decoder vs proto.Unmarshal'),
    'u8':  ('u8_case', u8_term, [('mis', 'u8_mismatches', 'm')], 2000, 'utf8_valid (Gallina) against utf8.Valid (Go): boundary sweep + mutated strings'),
}

def unhex_deep(x):
    """readable form of a case for replay files / samples: hex strings -> repr of bytes (shortened)"""
    if isinstance(x, dict):
        return {k: (v if k in ('kind', 'desc', 'type', 'k') else unhex_deep(v)) for k, v in x.items()}
    if isinstance(x, list):
        return [unhex_deep(v) for v in x]
    if isinstance(x, str):
        try:
            b = bytes.fromhex(x)
        except ValueError:
            return x
        r = repr(b)[1:]
        return r if len(r) < 120 else r[:100] + '...(%d bytes)' % len(b)
    return x

def signature(fam, c):
    """what fails, not which case: used to tell known findings from new ones"""
    if fam == 'eq':
        return 'C16/equals/' + c.get('kind', '?')
    if fam == 'cq':
        return 'C16/cqrs/%s/%s' % (['json', 'proto', 'gogo'][c['kind']], c.get('desc', '?').split(':')[0])
    return 'C16/' + {'st': 'copy-set-script', 'env': 'envelope-roundtrip', 'unw': 'unwrap-accepts-empty-destination', 'pub': 'publisher-roundtrip',
                     'rp': 'reply-roundtrip', 'jw': 'envelope-roundtrip', 'tg': 'cqrs-unmarshal-into-used-target'}.get(fam, fam)

WHAT = {
    'jw': 'wrap/unwrap of the forwarder envelope is not the identity (envelope-text family) / empty destination accepted',
    'tg': 'CQRS marshaler: after Unmarshal(Marshal(v)) into a target that held something before, the target does not hold v (although the library call, applied to a copy of that target, yields v)',
    'eq': 'Message.Equals disagrees with "same UUID, same payload bytes, same metadata key/value set"',
    'st': 'object script rejected by trace_ok (Copy must equal the original, be unsettled and own its metadata; Set changes one map only)',
    'env': 'wrap/unwrap of the forwarder envelope is not the identity on (destination, UUID, payload, metadata) / empty destination accepted',
    'unw': 'unwrapMessageFromEnvelope returned an empty destination topic',
    'pub': 'forwarder.Publisher batch does not unwrap to (topic, message) one by one on the forwarder topic',
    'cq': 'CQRS marshaler: Unmarshal(Marshal(v)) differs from v, NameFromMessage differs from Name(v), or Name depends on pointer-ness',
    'rp': 'reply marshaler: result or error text changed in MarshalReply/UnmarshalReply',
}

def eval_family(pid, tag, fam, cases):
    ctype, builder, results, chunk, _ = FAMILIES[fam]
    out = {rn: [] for rn, _, _ in results}
    jobs = []
    for part, lo in enumerate(range(0, len(cases), chunk)):
        T = Terms()
        terms = [builder(T, c) for c in cases[lo:lo + chunk]]
        header = T.header() + 'Definition cases : list %s := [%s].\n' % (ctype, ';\n'.join(terms))
        jobs.append((lo, 'cases_%s_%s_%d' % (tag, fam, part), header))
    return jobs, results, out

def run_once(ctx, res, seed, scale, big, tag):
    pid = ctx['pid']
    data, _ = C.run_harness(ctx['binary'], ['c16', '-seed', str(seed), '-scale', str(scale), '-big', str(big)], pid, 'c16_%s.json' % tag)
    for k, n in data.get('dist', {}).items():
        res.count(k, n)
    # reuse-target scripts: one case per Unmarshal step
    flat = []
    for sc in data.get('tg') or []:
        for i, st in enumerate(sc['steps']):
            if st.get('marshal_err'):
                continue
            flat.append(dict(st, kind=sc['kind'], nofb=sc['nofb'], ismsg=sc['ismsg'], isgogo=sc['isgogo'], desc=sc['desc'], step=i,
                             script=[dict(what=x['what'], v=x['v']) for x in sc['steps'][:i + 1]]))
    data['tg'] = flat
    alljobs = []
    for fam in FAMILIES:
        cases = data.get(fam) or []
        try:
            jobs, results, _ = eval_family(pid, tag, fam, cases)
        except UnknownError as e:
            res.mismatches.append(dict(kind='the implementation returned an error the model does not have', detail=str(e), family=fam))
            continue
        for lo, name, header in jobs:
            alljobs.append((fam, lo, name, header, results))
    def work(job):
        fam, lo, name, header, results = job
        return fam, lo, results, C.coq_eval(pid, name, header, [(rn, '%s cases' % fn) for rn, fn, _ in results])
    with concurrent.futures.ThreadPoolExecutor(max_workers=8) as ex:
        done = list(ex.map(work, alljobs))
    laws = res.extra.setdefault('oracle_laws', {})
    for fam, lo, results, r in done:
        cases = data[fam]
        vio = set(lo + i for i in r.get('vio', []))
        for rn, fn, role in results:
            for i in r[rn]:
                c = cases[lo + i]
                if role == 'v':
                    res.violations.append(dict(signature=signature(fam, c), what=WHAT[fam], case=dict(family=fam, seed=seed, index=lo + i, case=unhex_deep(c))))
                elif role == 'm':
                    res.mismatches.append(dict(kind='Corr.C16.%s (%s)' % (fn, FAMILIES[fam][4]), explained_by_violation=(lo + i) in vio,
                                               family=fam, case=dict(seed=seed, index=lo + i, case=unhex_deep(c))))
                elif role == 'l':
                    laws['%s: library did not read back what it wrote' % fam] = laws.get('%s: library did not read back what it wrote' % fam, 0) + 1
                elif role == 'i':
                    res.extra['equals_pairs_separating_pinned_from_repaired'] = res.extra.get('equals_pairs_separating_pinned_from_repaired', 0) + 1
    # bookkeeping: evaluations, distinct non-trivial cases, samples
    for fam in FAMILIES:
        cases = data.get(fam) or []
        res.evaluations += len(cases)
        laws['%s: cases' % fam] = laws.get('%s: cases' % fam, 0) + len(cases)
        for c in cases:
            if fam == 'eq':
                if c['kind'] != 'identical': res.nontrivial.add(('eq', json.dumps([c['a'], c['b']], sort_keys=True)))
            elif fam == 'st':
                if sum(1 for o in c['ops'] if o[0] == 'copy') and sum(1 for o in c['ops'] if o[0] in ('set', 'poke')):
                    res.nontrivial.add(('st', json.dumps(c['ops'])))
            elif fam == 'env':
                if c.get('w') and (c['m']['m'] or c['m']['p']): res.nontrivial.add(('env', c['dest'], json.dumps(c['m'], sort_keys=True)))
            elif fam == 'pub':
                if len(c['ms'] or []) > 1: res.nontrivial.add(('pub', json.dumps(c['ms'], sort_keys=True)))
            elif fam == 'cq':
                if c.get('msg'): res.nontrivial.add(('cq', c['kind'], c['nofb'], c['ts'], c['v'], c['gen'], c['cfguuid']))
            elif fam == 'rp':
                if c.get('msg'): res.nontrivial.add(('rp', c['type'], c['res'], c['errtext']))
            elif fam == 'tg':
                if c['step'] > 0 or c['prev'] != c.get('vfresh', {}).get('b'): res.nontrivial.add(('tg', c['kind'], c['prev'], c['payload']))
            elif fam in ('unw', 'ru', 'nfm', 'u8', 'js', 'b64', 'jw', 'ctx', 'cc', 'ji', 'sm', 'pw'):
                res.nontrivial.add((fam, json.dumps(c, sort_keys=True)))
    if not res.samples:
        res.sample(dict(family='eq', case=unhex_deep(data['eq'][0])))
        res.sample(dict(family='env', case=unhex_deep(next((c for c in data['env'] if c.get('w') and c['m']['m']), data['env'][0]))))
        res.sample(dict(family='cq', case=unhex_deep(next((c for c in data['cq'] if c['kind'] == 2 and c.get('msg')), data['cq'][0]))))
        res.sample(dict(family='rp', case=unhex_deep(data['rp'][0])))
    return data

def run(ctx):
    pid, tier, seed = ctx['pid'], ctx['tier'], ctx['seed']
    res = C.Result()
    ctx = dict(ctx, binary=C.build_harness())
    rounds = 1 if tier == 'quick' else 2      # each thorough round evaluates the Gallina JSON scanner on payloads up to 64 KiB: about 17 min of vm_compute per round (3 rounds took 50 min, 6 took 100)
    for rnd in range(rounds):
        run_once(ctx, res, seed * 1000 + rnd, 1 if tier == 'quick' else 3, 4096 if tier == 'quick' else 65536, 'r%d' % rnd)
    res.extra['anchor_drift'] = C.anchor_hashes(['message/message.go', 'message/metadata.go', 'components/cqrs/marshaler_json.go', 'components/cqrs/marshaler_protobuf.go',
                                                 'components/cqrs/marshaler_protobuf_gogo.go', 'components/cqrs/name.go', 'components/forwarder/envelope.go',
                                                 'components/forwarder/publisher.go', 'components/requestreply/backend_pubsub_marshaler.go'])
    res.rule = ('generated from one PRNG (-seed): message pairs that differ in exactly one component (UUID, one payload bit/length, nil vs empty, one metadata value, one key renamed '
                'with and without an empty value, entry added/removed) or not at all; object scripts over NewMessage / struct literals / Copy / Metadata.Set / payload writes / Ack / Nack / Equals '
                'with a snapshot of all objects after every step; envelopes for strings from a UTF-8 pool (empty, NUL, controls, quotes, <>&, U+2028, 2-3-4-byte code points, boundary code points, '
                'long) plus an invalid-UTF-8 stream, payloads nil/empty/all 256 byte values/binary 63..4096(65536 thorough) bytes, through the exported wrap/unwrap and through forwarder.Publisher batches; '
                'a malformed-envelope stream; CQRS values of JSON / protobuf / gogo types incl. types only one library accepts, with and without NewUUID / GenerateName; replies of seven result types '
                'with no error / empty error text / text; malformed replies.  Non-trivial = not an identical pair / a script that copies and then mutates / a wrapped message with content / '
                'a batch of several / a successful Marshal; distinct by input.')
    return res

def search(ctx, res):
    out = C.Result()
    ctx2 = dict(ctx, binary=C.build_harness())
    for k in range(1, 3):
        r = C.Result()
        run_once(ctx2, r, ctx['seed'] * 1000 + 500 + k, 2, 4096, 's%d' % k)
        out.evaluations += r.evaluations; out.nontrivial |= r.nontrivial; out.violations += r.violations
        if r.violations:
            break
    return out

def replay(ctx, data):
    """re-run the generator with the recorded seed and report what the recorded case index does now"""
    case = (data.get('case') or {})
    seed = case.get('seed')
    if seed is None:
        return run(ctx)
    res = C.Result()
    ctx2 = dict(ctx, binary=C.build_harness())
    run_once(ctx2, res, seed, 1 if ctx['tier'] == 'quick' else 3, 4096 if ctx['tier'] == 'quick' else 65536, 'replay')
    fam, idx = case.get('family'), case.get('index')
    res.violations = [v for v in res.violations if v['case']['family'] == fam and v['case']['index'] == idx] or res.violations
    return res
