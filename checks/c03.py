"""C03 — Message Ack/Nack is a linearizable first-wins state machine."""
from . import common as C

HEADER = 'From WM Require Import Base.Prelude Message.Model Message.Conc Message.Monitor Corr.C03.\n'
# harness constructors 3 and 4 are NewMessage + an already cancelled / expired context: the model is context-free, they are CtorNew
CTOR = ['CtorNew', 'CtorCopy', 'CtorZero', 'CtorNew', 'CtorNew']
CTORN = ['NewMessage', 'Copy of a nacked message', 'zero value', 'NewMessage with a cancelled context', 'NewMessage with an expired deadline']
OP = ['OpAck', 'OpNack', 'OpReadAcked', 'OpReadNacked']
RES = ['(RBool false)', '(RBool true)', 'RClosed', 'RBlocks', 'RPanic']
OPN = ['Ack', 'Nack', 'readAcked', 'readNacked']
RESN = ['false', 'true', 'closed', 'blocks', 'PANIC', 'NO-RETURN']

TRUSTED_BASE = [
    'modelled, not verified: sync.Mutex (mutual exclusion), atomicity of channel close/receive, Go memory model; '
    'Message/Model.v + Message/Conc.v are hand-written from message/message.go and tied to it by this check',
    'the comparison of the exhaustive sweep is done in Python on numbers printed by Coq (Corr.C03.sweep) and by the harness',
    'Message/Monitor.v lin_ok (interval linearizability acceptor used on implementation histories) accepts the stamped call history of every quiescent '
    'state of the thread-level model (Props/C03.v C03_lin_ok_model_accepted); the converse (that it rejects every non-linearizable history) is argued in its header, not proved',
    'Message/World.v (Copy, metadata maps as references, contexts) is hand-written from message.go and tied to it by the c03world programs; '
    'strings are interned as u<N>/k<N>/v<N>, payload bytes are immutable in the model (Copy() shares the slice)',
]
ASSUMPTIONS = [
    '"no call blocks" is a 2 s / 5 s watchdog on the implementation and totality of [step] in the model',
    'data races are outside the model; the thorough tier runs the concurrent scenarios under -race '
    '(without channel reads on zero-value messages, where Acked() racing Ack is a race by construction)',
]

WORLD_HEADER = 'From WM Require Import Base.Prelude Message.Model Message.World Corr.C03World.\n'

def wop_term(o):
    k = o['op']
    if k == 0: return '(WNew %s %s)' % (C.coq_N(o['a']), C.coq_list([C.coq_N(b) for b in o.get('payload') or []]))
    if k == 1: return 'WZero'
    if k == 2: return '(WCopy %d)' % o['i']
    if k == 3: return '(WSettle %d %s)' % (o['i'], OP[o['a']])
    if k == 4: return '(WMetaSet %d %s %s)' % (o['i'], C.coq_N(o['a']), C.coq_N(o['b']))
    if k == 5: return '(WMetaGet %d %s)' % (o['i'], C.coq_N(o['a']))
    if k == 6: return '(WSetCtx %d %s)' % (o['i'], C.coq_N(o['a']))
    if k == 7: return '(WGetCtx %d)' % o['i']
    return '(WContent %d)' % o['i']

def wres_term(r):
    k = r[0]
    if k == 'id': return '(WId %d)' % r[1]
    if k == 'res': return '(WRes %s)' % RES[min(r[1], 4)]
    if k == 'unit': return 'WUnit'
    if k == 'val': return '(WVal %s)' % C.coq_N(r[1])
    if k == 'cont': return '(WCont %s %s)' % (C.coq_N(r[1]), C.coq_list([C.coq_N(b) for b in r[2] or []]))
    return 'WPanic'

WOPN = ['NewMessage', '&Message{}', 'Copy', 'settle', 'Metadata.Set', 'Metadata.Get', 'SetContext', 'Context', 'UUID+Payload']
def describe_world(c):
    return dict(program=[[WOPN[o['op']], o['i'], (OPN[o['a']] if o['op'] == 3 else o['a']), o['b']] for o in c['ops']], results=c['res'])

def check_world_cases(pid, name, cases, res, what):
    for part, chunk in enumerate(C.chunks(cases, 300)):
        terms = C.coq_list(['(%s, %s)' % (C.coq_list([wop_term(o) for o in c['ops']]), C.coq_list([wres_term(r) for r in c['res']])) for c in chunk])
        r = C.coq_eval(pid, '%s_%d' % (name, part), WORLD_HEADER + 'Definition cases : list world_case := %s.\n' % terms,
                       [('R_mis', 'world_mismatches cases'), ('R_vio', 'world_violations cases')])
        for i in r['R_vio']:
            res.violations.append(dict(signature='C03/world-first-wins', what='a message of a multi-message program (%s) is not a first-wins state machine on its own Ack/Nack/read calls' % what,
                                       case=describe_world(chunk[i])))
        for i in r['R_mis']:
            res.mismatches.append(dict(kind='Corr.C03World.world_mismatch (Message/World.v wrun vs message.go NewMessage/Copy/Ack/Nack/Metadata/SetContext/Context) on ' + what,
                                       explained_by_violation=i in r['R_vio'], case=describe_world(chunk[i])))

def enumerate_ops(n):
    out = []
    for l in range(n + 1):
        def rec(prefix, i):
            if i == l:
                out.append(list(prefix)); return
            for o in range(4):
                prefix.append(o); rec(prefix, i + 1); prefix.pop()
        rec([], 0)
    return out

def unpack(v):
    rs = []
    while v > 1:
        rs.append(v % 5); v //= 5
    return rs

def seq_case_term(ctor, ops, res):
    return '(%s, %s)' % (CTOR[ctor], C.coq_list(['(%s, %s)' % (OP[o], RES[min(r, 4)]) for o, r in zip(ops, res)]))

def nontrivial_seq(ops):
    d = next((i for i, o in enumerate(ops) if o < 2), None)
    return d is not None and d < len(ops) - 1

def check_seq_cases(pid, name, cases, res):
    """cases: list of (ctor, ops, observed).  Evaluates model + monitor in Coq."""
    for part, chunk in enumerate(C.chunks(cases, 1500)):
        # a call that did not return cannot be written as a model result: report directly
        ok_chunk = []
        for c in chunk:
            if 5 in c[2]:
                res.violations.append(dict(signature='C03/call-does-not-return', what='a call on a message did not return within the watchdog',
                                           case=dict(ctor=CTORN[c[0]], ops=[OPN[o] for o in c[1]])))
            else:
                ok_chunk.append(c)
        if not ok_chunk:
            continue
        terms = C.coq_list([seq_case_term(*c) for c in ok_chunk])
        r = C.coq_eval(pid, '%s_%d' % (name, part), HEADER + 'Definition cases : list seq_case := %s.\n' % terms,
                       [('R_mis', 'seq_mismatches cases'), ('R_vio', 'seq_violations cases')])
        for i in r['R_vio']:
            c = ok_chunk[i]
            res.violations.append(dict(signature='C03/seq-first-wins', what='sequential history rejected by the first-wins acceptor',
                                       case=dict(ctor=CTORN[c[0]], ops=[OPN[o] for o in c[1]], observed=[RESN[x] for x in c[2]])))
        for i in r['R_mis']:
            c = ok_chunk[i]
            res.mismatches.append(dict(kind='Corr.C03.seq_mismatch (Message/Model.v run vs message.go)',
                                       explained_by_violation=i in r['R_vio'],
                                       case=dict(ctor=CTORN[c[0]], ops=[OPN[o] for o in c[1]], observed=[RESN[x] for x in c[2]])))

def map_conc_case(case):
    """stamps -> model schedule (list of tids), per-thread results, stamped calls."""
    progs = case['progs']
    calls = {}    # (tid, idx) -> dict
    locked = {}; unlock = {}
    for s in case['stamps']:
        t = s['tid']
        if s['kind'] == 'inv':
            calls[(t, s['idx'])] = dict(tid=t, idx=s['idx'], op=s['op'], inv=s['seq'])
        elif s['kind'] == 'ret':
            calls[(t, s['idx'])].update(ret=s['seq'], res=s['res'])
        elif s['kind'] == 'locked':
            locked.setdefault(t, []).append(s['seq'])
        elif s['kind'] == 'unlock':
            unlock.setdefault(t, []).append(s['seq'])
    # attach k-th locked/unlock stamp of a thread to its k-th Ack/Nack call
    for t in range(len(progs)):
        k = 0
        for i, o in enumerate(progs[t]):
            c = calls.get((t, i))
            if c is None or 'ret' not in c:
                return None
            if o < 2:
                if k >= len(locked.get(t, [])) or k >= len(unlock.get(t, [])):
                    return None
                c['locked'] = locked[t][k]; c['unlock'] = unlock[t][k]; k += 1
    settles = sorted([c for c in calls.values() if c['op'] < 2], key=lambda c: c['locked'])
    steps = []   # (position, tiebreak, tid)
    winner = settles[0] if settles else None
    for c in calls.values():
        t = c['tid']
        if c['op'] >= 2:
            pos = c['ret'] if c['res'] == 2 else c['inv']
            steps.append((pos, 1, t))
        else:
            steps.append((c['inv'], 1, t))
            steps.append((c['locked'], 1, t))       # acquire
            steps.append((c['locked'], 2, t))       # guards (+ type write)
            if c is winner:
                close_pos = c['unlock']
                wread = 2 if c['op'] == 0 else 3
                for r in calls.values():
                    if r['op'] == wread and r['res'] == 2 and r['ret'] > c['locked']:
                        close_pos = min(close_pos, r['ret'])
                steps.append((close_pos, 0, t))     # close(ch): just before the first reader that saw it
            steps.append((c['unlock'], 1, t))       # release + return
    steps.sort(key=lambda x: (x[0], x[1]))
    sched = [t for _, _, t in steps]
    results = [[calls[(t, i)]['res'] for i in range(len(progs[t]))] for t in range(len(progs))]
    callist = sorted(calls.values(), key=lambda c: c['inv'])
    overlap = any(a['op'] < 2 and b['op'] < 2 and a is not b and a['inv'] < b['ret'] and b['inv'] < a['ret']
                  for a in callist for b in callist)
    return sched, results, callist, overlap

def conc_case_term(case, sched, results, calls):
    return ('(CC %s %s %s %s %s)' % (
        CTOR[case['ctor']],
        C.coq_list([C.coq_list([OP[o] for o in p]) for p in case['progs']]),
        C.coq_list([str(t) for t in sched]),
        C.coq_list([C.coq_list([RES[min(r, 4)] for r in rs]) for rs in results]),
        C.coq_list(['(Call %s %s %s %s)' % (C.coq_N(c['inv']), C.coq_N(c['ret']), OP[c['op']], RES[min(c['res'], 4)]) for c in calls])))

def describe_conc(case, calls):
    return dict(ctor=CTORN[case["ctor"]], programs=[[OPN[o] for o in p] for p in case['progs']],
                calls=[dict(thread=c['tid'], op=OPN[c['op']], invoked_at=c['inv'], returned_at=c['ret'], result=RESN[c['res']],
                            locked_at=c.get('locked'), unlock_at=c.get('unlock')) for c in calls])

REPLAY_KIND = {1: 'model rejects the recorded schedule (a label was not enabled: e.g. two threads inside the critical section)',
               2: 'schedule leaves unfinished calls in the model', 3: 'thread results differ from the model run in lock order'}

def check_conc_cases(pid, name, cases, res):
    mapped = []
    for case in cases:
        if case.get('hung'):
            res.violations.append(dict(signature='C03/call-does-not-return', what='concurrent Ack/Nack/read calls did not all return within 5 s',
                                       case=dict(ctor=CTORN[case["ctor"]], programs=case['progs'])))
            continue
        m = map_conc_case(case)
        if m is None:
            res.mismatches.append(dict(kind='C03 stamp mapping: a call without its lock/unlock stamps', case=case['progs']))
            continue
        if any(5 in rs for rs in m[1]):
            continue
        mapped.append((case, m))
    for part, chunk in enumerate(C.chunks(mapped, 400)):
        terms = C.coq_list([conc_case_term(case, m[0], m[1], m[2]) for case, m in chunk])
        r = C.coq_eval(pid, '%s_%d' % (name, part), HEADER + 'Definition cases : list conc_case := %s.\n' % terms,
                       [('R_mis', 'conc_mismatches cases'), ('R_vio', 'conc_violations cases')])
        for i in r['R_vio']:
            case, m = chunk[i]
            res.violations.append(dict(signature='C03/not-linearizable', what='concurrent history rejected by the linearizability acceptor (callers disagree on the winner, or a result contradicts real-time order)',
                                       case=describe_conc(case, m[2])))
        for i, k in r['R_mis']:
            case, m = chunk[i]
            res.mismatches.append(dict(kind='Corr.C03.conc_replay (Message/Conc.v cstep vs message.go): ' + REPLAY_KIND.get(k, str(k)),
                                       explained_by_violation=i in r['R_vio'], case=describe_conc(case, m[2])))
    return mapped

def run(ctx, conc_cases=None, seed_offset=0):
    pid, tier, seed = ctx['pid'], ctx['tier'], ctx['seed'] + seed_offset
    res = C.Result()
    binary = C.build_harness()
    maxlen = 6 if tier == 'quick' else 8
    nconc = conc_cases or (400 if tier == 'quick' else 4000)
    # ---- sequential: exhaustive sweep, compared as packed numbers
    data, _ = C.run_harness(binary, ['c03seq', '-maxlen', str(maxlen), '-random', '300' if tier == 'quick' else '3000', '-seed', str(seed)], pid, 'c03seq.json')
    allops = enumerate_ops(maxlen)
    for h in data.get('hung') or []:
        res.violations.append(dict(signature='C03/call-does-not-return', what='a call on a message did not return within the 2 s watchdog (sequential use)',
                                   case=dict(ctor=CTORN[h["ctor"]], ops=[OPN[o] for o in h['ops']])))
    if data.get('hung'):
        res.evaluations += len(data['hung'])
        res.rule = 'aborted: calls block'
        return res
    model = C.coq_eval(pid, 'sweep', HEADER, [('R_%d' % c, 'sweep %s %d' % (CTOR[c], maxlen)) for c in range(3)])
    bad = []
    for c in range(len(data['sweep'])):
        impl = data['sweep'][c]; mod = model['R_%d' % (c if c < 3 else 0)]
        if len(impl) != len(mod) or len(impl) != len(allops):
            raise C.CheckError('sweep sizes differ: %d %d %d' % (len(impl), len(mod), len(allops)))
        for i, (a, b) in enumerate(zip(impl, mod)):
            res.evaluations += 1
            if nontrivial_seq(allops[i]):
                res.nontrivial.add(('seq', c, tuple(allops[i])))
            if a != b:
                bad.append((c, allops[i], unpack(a)))
    res.extra['sweep'] = dict(exhaustive=True, max_length=maxlen, sequences_per_constructor=len(allops), constructors=len(data['sweep']))
    res.sample(dict(kind='sequential sweep', ctor='CtorZero', ops=[OPN[o] for o in allops[-1]], observed=[RESN[x] for x in unpack(data['sweep'][2][-1])]))
    if bad:
        check_seq_cases(pid, 'seqbad', bad[:3000], res)   # classify: monitor verdict + mismatch record
    # ---- sequential: random longer sequences, explicit
    rnd = [(c['ctor'], c['ops'], c['res']) for c in data['random']]
    for c in rnd:
        res.evaluations += 1
        if nontrivial_seq(c[1]):
            res.nontrivial.add(('seq', c[0], tuple(c[1])))
    check_seq_cases(pid, 'seqrnd', rnd, res)
    res.count('random sequential sequences (length %d..%d)' % (maxlen + 1, maxlen + 30), len(rnd))
    # ---- concurrent
    cdata, _ = C.run_harness(binary, ['c03conc', '-cases', str(nconc), '-seed', str(seed)], pid, 'c03conc.json')
    mapped = check_conc_cases(pid, 'conc', cdata, res)
    res.evaluations += len(cdata)
    nover = 0
    for case, m in mapped:
        if m[3]:
            nover += 1
            res.nontrivial.add(('conc', case['ctor'], tuple(m[0])))
    res.extra['concurrent'] = dict(cases=len(cdata), replayed=len(mapped), with_overlapping_settle_calls=nover,
                                   threads_min=min(len(c['progs']) for c in cdata), threads_max=max(len(c['progs']) for c in cdata))
    if mapped:
        case, m = mapped[0]
        res.sample(dict(kind='concurrent', **describe_conc(case, m[2])), limit=3)
    # ---- race detector (thorough only): testing, not proof
    if tier == 'thorough':
        rb = C.build_harness(race=True)
        p = C.sh([rb, 'c03conc', '-cases', '1500', '-seed', str(seed), '-no-zero-reads', '-out', C.workdir(pid) + '/c03race.json'],
                 check=False, env=dict(C.GOENV, GORACE='halt_on_error=0'))
        races = p.stdout.count('WARNING: DATA RACE')
        res.extra['race_detector'] = dict(cases=1500, races_reported=races)
        if races:
            res.violations.append(dict(signature='C03/data-race', what='race detector reports a data race in concurrent Ack/Nack/reads',
                                       case=dict(report=p.stdout[:3000])))
    res.rule = ('sequential: ALL operation sequences over {Ack,Nack,read Acked(),read Nacked()} up to length %d on NewMessage, Copy() of a nacked message '
                'and the zero value, plus random longer ones; non-trivial = contains a settling call followed by at least one more call. '
                'concurrent: 2..16 goroutines with random programs and seeded yields inside the critical section; '
                'non-trivial = at least two Ack/Nack calls overlap in real time; distinct by model schedule.' % maxlen)
    # ---- copies taken while the source is being settled are fresh, independent messages
    lf, _ = C.run_harness(binary, ['c03life', '-seed', str(seed)], pid, 'c03life.json', timeout=120)
    res.evaluations += lf['checked']; res.count('channels re-read after later messages were settled', lf['checked'])
    for w in lf['wrong'][:2]:
        res.violations.append(dict(signature='C03/settled-message-affected-by-later-messages', what=w, case=lf))
    try:
        cp, _ = C.run_harness(binary, ['c03copy', '-n', '3000' if tier == 'quick' else '30000'], pid, 'c03copy.json', timeout=120)
    except Exception as e:   # the driver itself hung: some Ack/Nack call never returned
        cp = dict(copies=0, blocked=1, wrong=0, detail='the copy-under-contention driver did not finish within 120 s (%s)' % str(e)[:120])
    res.evaluations += cp['copies']; res.count('copies taken under contention', cp['copies'])
    # every distinct history observed on a copy, as a program of Message/World.v projected onto the copy
    # (Props/C03.v C03_settlement_is_per_message: what the racing goroutines do to the source is irrelevant for the copy)
    cpcases = []
    for key in sorted((cp.get('outcomes') or {})):
        ack, ok, ca, cn = [int(x) for x in key.split()]
        cpcases.append(dict(ops=[dict(op=0, i=0, a=1, b=0, payload=[112]), dict(op=2, i=0, a=0, b=0), dict(op=3, i=1, a=(0 if ack else 1), b=0),
                                 dict(op=3, i=1, a=2, b=0), dict(op=3, i=1, a=3, b=0)],
                            res=[['id', 0], ['id', 1], ['res', ok], ['res', 2 if ca else 3], ['res', 2 if cn else 3]]))
    if cpcases:
        check_world_cases(pid, 'copyrace', cpcases, res, 'a Copy() taken while two goroutines settle the source')
        res.count('distinct histories of copies taken under contention', len(cpcases))
    # ---- worlds of several messages: NewMessage / zero value / Copy() of messages in any state / settle calls / metadata / contexts
    wd, _ = C.run_harness(binary, ['c03world', '-cases', '400' if tier == 'quick' else '4000', '-seed', str(seed)], pid, 'c03world.json', timeout=120)
    check_world_cases(pid, 'world', wd, res, 'NewMessage, zero values, Copy(), settle calls, metadata writes and contexts interleaved')
    res.evaluations += len(wd); res.count('multi-message programs (Copy / metadata / context)', len(wd))
    ncopy = 0
    for c in wd:
        settled_before_copy = False; settled = set()
        for o in c['ops']:
            if o['op'] == 3 and o['a'] < 2: settled.add(o['i'])
            if o['op'] == 2 and o['i'] in settled: settled_before_copy = True
        if settled_before_copy:
            ncopy += 1
            res.nontrivial.add(('world', tuple((o['op'], o['i'], o['a']) for o in c['ops'])))
    res.count('... of which copy an already settled message', ncopy)
    if wd:
        res.sample(dict(kind='multi-message program', **describe_world(wd[0])), limit=4)
    if cp['blocked']:
        res.violations.append(dict(signature='C03/call-does-not-return-on-copy', what='a call on a fresh Copy() did not return: ' + cp.get('detail', ''), case=cp))
    if cp['wrong']:
        res.violations.append(dict(signature='C03/copy-not-fresh', what='a fresh Copy() taken under contention is not an unsettled first-wins message: ' + cp.get('detail', ''), case=cp))
    return res

def search(ctx, res):
    out = C.Result()
    for k in range(1, 4):
        r = run(dict(ctx, tier='quick'), conc_cases=1500, seed_offset=1000 * k)
        out.evaluations += r.evaluations; out.nontrivial |= r.nontrivial; out.violations += r.violations
        if r.violations:
            break
    return out

def replay(ctx, data):
    C.log('replay: re-running the scenario family of the recorded case')
    return run(ctx)
