"""Manifest fragment for C19."""
CHECKS = {
 'C19': dict(
  text=('Theorems about a hand-written executable model of Timeout, CorrelationID, Recoverer, IgnoreErrors, InstantAck, Throttle, closed CircuitBreaker, '
        'DelayOnError (and the attempt loop of Retry) as transformers of handlers over explicit message state (typed metadata, context as a stack of '
        'timeout layers, settlement): per middleware, for EVERY inner handler, outputs/error/panic value/message are the inner ones except the one '
        'documented effect (deadline visible and <= timeout; correlation id copied only where missing, never overwritten, nothing else touched; panic -> '
        'error carrying the value, nil included, never escaping; errors listed by pkg/errors cause -> success; Ack before the call; delay keys only, successes '
        'untouched); for every chain and script the message context after the call is the context before; Retry around any chain of them makes the same '
        'number of attempts as the bare Retry; the DelayOnError schedule min(Initial*(num/den)^(k-1), Max) for rational multipliers >= 1 (closed form where '
        'the products are whole ns, per-step law and bounds otherwise); Duplicator runs the handler twice iff the first call succeeded and RandomFail / RandomPanic are transparent or short-circuit by the draw; Throttle starts spaced by the period over a ticker clock model, for every assignment of live / ended / ending message contexts. The two defects '
        '(D2 multiplier truncated, D3 Timeout leaves the context cancelled) are _refuted theorems for the pinned variant and repaired by two fix: commits. '
        'Tied to the code on every run: ~1250 cases of random chains of the REAL middlewares (alone, stacked, under the real Retry; one chain value shared by '
        '1/2/4 messages in flight; 1..8 invocations on the same message) around scripted handlers, compared with the model on everything observable and judged '
        'by the clause-wise acceptor; Throttle start times (messages with live, already ended and ending-while-waiting contexts, alone and interleaved through one value) judged by the spacing predicate of the theorem.'),
  note=('Trusted: Coq kernel + vm_compute; Go defer/recover, context cancellation/deadline, time.Ticker, gobreaker (closed), pkg/errors as modelled; the Go harness '
        '(scripted handler, pointer/identity decoding, canonicalisation of delay metadata) and checks/c19.py. Every acceptor the check evaluates on implementation traces is linked to the model by a theorem (C19_chain_model_accepted for whole cases, C19_extra_case_model_accepted, C19_throttle_*_model_accepted, C19_deadline_model_accepted); Duplicator, RandomFail and RandomPanic are modelled, proved (runs twice iff the first call succeeded / transparent or short-circuit by the draw) and tied with a mirrored math/rand; Recoverer and InstantAck are composed with the Router model of C02 (Nack / Acked). Proved as one theorem (C19_model_accepted): the repaired model passes the acceptor the check evaluates, for every chain, script and message; Retry anywhere in the chain keeps the attempt count; deadline lower bound over a clock model; messages arriving with a deadline. Partial: Throttle rate and the deadline lower bound on the implementation are '
        'wall-clock lower bounds; IEEE rounding excluded by dyadic multipliers; chains with a second Retry inside the first are compared with the model but not judged.'),
  technique='Coq proof (frame lemmas for arbitrary inner handlers, simulation + induction over chains and the retry loop, nia for the schedule, invariant of the ticker model) + differential correspondence check on the real middlewares + executable clause-wise acceptor',
  design_ref='DESIGN.md section 7 C12/C13/C19'),
}
