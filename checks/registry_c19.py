"""Manifest fragment for C19."""
CHECKS = {
 'C19': dict(
  text='(to be completed)',
  note='(to be completed)',
  technique='Coq proof + differential correspondence check on the real middlewares',
  design_ref='DESIGN.md section 7 C12/C13/C19'),
}
