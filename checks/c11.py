"""C11 — Persistent GoChannel replays the whole topic to every subscription exactly once."""
from . import common as C, gochan as G
TRUSTED_BASE = G.TRUSTED_BASE
ASSUMPTIONS = G.ASSUMPTIONS + [
    'judged at quiescence for subscriptions created before Close that stayed open and settled everything they received; "exactly once" only for subscriptions that never Nacked',
]

def classify(res, scs, reps, mons):
    G.replay_mismatches(res, scs, reps)
    for sc, mo in zip(scs, mons):
        if not sc['persistent']: continue
        for x, p, code in mo['replay']:
            sig = 'C11/missed' if code == 8 else 'C11/not-exactly-once'
            res.violations.append(dict(signature=sig, what='%s: subscription %d, message %d' % (G.VNAME[code], x, p), case=G.readable(sc, mo['hist'])))
        for i, code in mo['content']:
            if code == 5:
                res.violations.append(dict(signature='C11/replayed-content-differs', what='persistent mode: a delivered/replayed copy differs from the message that was published (UUID/payload/metadata)', case=G.readable(sc, mo['hist'], upto=i)))
        late = sum(1 for s in sc['subs'] if s['start_at'] > 0)
        res.count('late subscriptions', late)

def dup(ctx, res):
    """non-unique / empty UUIDs: every successfully published message is replayed, not one per UUID"""
    binary = C.build_harness()
    r, _ = C.run_harness(binary, ['gochan-d9', '-seed', str(ctx['seed'])], ctx['pid'], 'dup.json', timeout=120)
    for d in r.get('dup') or []:
        res.evaluations += 1; res.count('non-unique UUID scenario')
        if sorted(d['early']) != sorted(d['published']):
            res.violations.append(dict(signature='C11/non-unique-uuid-live-delivery', what='messages sharing a UUID: the subscriber that existed received %s of published %s' % (d['early'], d['published']), case=d))
        if d['persistent'] and sorted(d['late']) != sorted(d['published']):
            res.violations.append(dict(signature='C11/non-unique-uuid-replay', what='persistent mode, messages sharing a UUID: a later subscription was replayed %s of published %s' % (d['late'], d['published']), case=d))

def run(ctx, seed_offset=0, ncases=None):
    res = C.Result()
    scs, reps, mons = G.run_family(ctx, res, seed_offset=seed_offset, ncases=ncases, persistent_only=True)
    classify(res, scs, reps, mons)
    dup(ctx, res)
    G.samples(res, scs, mons)
    res.rule = G.RULE + ' C11 runs the persistent configurations only and over-weights subscriptions that start while publishers are active.'
    return res

def search(ctx, res):
    out = C.Result()
    for k in range(1, 3):
        r = run(dict(ctx, tier='quick'), seed_offset=1000 * k, ncases=80)
        out.evaluations += r.evaluations; out.nontrivial |= r.nontrivial; out.violations += r.violations
        if r.violations: break
    return out

def replay(ctx, data):
    return run(ctx)
