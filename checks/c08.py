"""C08 — Router routes per handler: right function, right topic, unmodified outputs."""
from . import common as C, wiring as W

TRUSTED_BASE = W.TRUSTED_BASE
ASSUMPTIONS = W.ASSUMPTIONS
WHAT = ('a delivery was not routed as the property prescribes (c08_monitor: exactly the started handlers subscribed on that subscriber+topic run, each its own function once, '
        'context values of that handler inside the function and on produced messages, one Publish call on that handler\'s publisher and topic with the chain\'s outputs unmodified in order, '
        'Nack and no Publish for outputs in a handler without publisher)')

def run(ctx, seed_offset=0):
    res = C.Result()
    quick = ctx['tier'] == 'quick'
    c2 = dict(ctx, seed=ctx['seed'] + seed_offset)
    progs = W.run_harness(c2, ['-random', '420' if quick else '2500', '-seqlen', '3' if quick else '5', '-maxh', '6', '-maxr', '12'], 'c08_%d' % seed_offset)
    good = W.evaluate(c2, res, progs, 'c08_lviolations', 'c08_%d' % seed_offset, 'C08', WHAT)
    rnd = [p for p in good if p['kind'] == 'random']
    for p in rnd[:1] + rnd[7:8]:
        res.sample(W.describe(p))
    res.rule = ('registration programs on a real Router: 1..6 handlers (AddHandler, AddNoPublisherHandler, nil publisher; duplicate and empty names) over pools of 1..3 subscriber objects x 4 topics '
                '(shared subscriptions fan out) and 1..3 publisher objects x 4 publish topics, 0..12 middleware/decorator registrations interleaved before/after Run and RunHandlers, '
                'deliveries in concurrent batches of 1..4 with every output shape (none, fresh, the consumed object, duplicates, error with outputs, panic), publisher accept/error/panic, '
                'and re-delivery of objects published earlier (context keys already present); plus all middleware registration sequences up to length 3/5 over {router, A, B}; '
                'non-trivial = at least one copy was handled; distinct by the program\'s wiring and registration shape.')
    return res

def search(ctx, res):
    out = C.Result()
    for k in range(1, 3):
        r = run(dict(ctx, tier='quick'), seed_offset=1000 * k)
        out.evaluations += r.evaluations; out.nontrivial |= r.nontrivial; out.violations += r.violations
        if r.violations: break
    return out

def replay(ctx, data):
    return run(ctx)
