"""C04 — GoChannel delivers every published message to every current subscriber."""
from . import common as C, gochan as G
TRUSTED_BASE = G.TRUSTED_BASE
ASSUMPTIONS = G.ASSUMPTIONS + [
    '"is delivered" is judged at quiescence of the scenario (no hook event for 300 ms) for subscriptions that stayed open and settled everything they received',
]
SIG = {3: 'C04/duplicate-without-nack', 4: 'C04/redelivery-after-ack', 5: 'C04/content-differs', 6: 'C04/context', 7: 'C04/wrong-topic', 8: 'C04/not-delivered'}

def classify(res, scs, reps, mons):
    G.replay_mismatches(res, scs, reps)
    for sc, mo in zip(scs, mons):
        for i, code in mo['dup'] + mo['content']:
            res.violations.append(dict(signature=SIG[code], what=G.VNAME[code], case=G.readable(sc, mo['hist'], upto=i)))
        for x, p, code in mo['delivered']:
            res.violations.append(dict(signature=SIG[code], what='%s: subscription %d, message %d' % (G.VNAME[code], x, p), case=G.readable(sc, mo['hist'])))
        # redelivery after every Nack until an Ack: a subscription that stayed open and Nacked its
        # last delivery of a message must have received it again by quiescence
        G.redelivery_check(res, sc, mo, 'C04/no-redelivery-after-nack')
        nn = sum(1 for t, _ in mo['hist'] if t.startswith('ANack'))
        res.count('nacks', nn); res.count('deliveries', sum(1 for t, _ in mo['hist'] if t.startswith('ARecv')))

def run(ctx, seed_offset=0, ncases=None):
    res = C.Result()
    scs, reps, mons = G.run_family(ctx, res, seed_offset=seed_offset, ncases=ncases)
    classify(res, scs, reps, mons)
    if not seed_offset:
        binary = C.build_harness()
        r, _ = C.run_harness(binary, ['gochan-d9', '-seed', str(ctx['seed'])], ctx['pid'], 'dup.json', timeout=180)
        for d in r.get('dup') or []:
            res.evaluations += 1; res.count('empty / non-unique UUID scenario')
            # "delivered, with identical UUID, payload and metadata": also for messages with an empty or a repeated UUID
            if sorted(d['early']) != sorted(d['published']):
                res.violations.append(dict(signature='C04/non-unique-or-empty-uuid-delivery-differs', what='published (uuid|payload) %s but the subscription that existed received %s' % (d['published'], d['early']), case=d))
    G.samples(res, scs, mons)
    res.rule = G.RULE
    return res

def search(ctx, res):
    out = C.Result()
    for k in range(1, 3):
        r = run(dict(ctx, tier='quick'), seed_offset=1000 * k, ncases=80)
        out.evaluations += r.evaluations; out.nontrivial |= r.nontrivial; out.violations += r.violations
        if r.violations: break
    return out

def replay(ctx, data):
    return run(ctx)
