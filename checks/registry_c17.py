"""Manifest text for C17 (merged by bin/mkmanifest)."""
CHECKS = {
 'C17': dict(
  text=('Theorems for EVERY consumed message (any UUID/payload/metadata incl. nil map and pre-existing counters), configuration and destination behaviour '
        '(accept / error / panic) about a hand-written model of the four relay handlers (forwardMessage + envelope wrap/unwrap + Publisher decorator, the fan-in and '
        'fan-out pass-through handlers, the requeuer handler with delay, topic generation and the Go-int retries counter) COMPOSED with the C02 model of '
        'Router.handleMessage: one call on the computed destination with the copy intact (requeuer: counter exactly +1 below MaxInt64, 0 when missing/malformed) and '
        'nowhere else, once per delivery; Ack iff the destination accepted, only after its successful return; Nack on error or panic; invalid envelopes never forwarded and '
        'settled per AckWhenCannotUnwrap; wrap->unwrap and Publisher->Forwarder end to end restore topic and message (exactly for valid UTF-8). Refuted with witnesses: '
        'non-UTF-8 strings through the JSON envelope (known finding), counter at MaxInt64, nil metadata map at the requeuer, same-object redelivery counting attempts. '
        'Redelivery (any number of attempts, by induction): from a GoChannel-like source every attempt relays an intact copy of the ORIGINAL, the destination accepts at most once, nothing is relayed after an Ack, '
        'the requeuer counter rises once per successful requeue over any number of rounds; FanIn/FanOut stream and per-source multiset preservation under faults at any index; the relay as consumer of a GoChannel '
        'subscription composed with the Layer A invariant (at most once per publication, acked => relayed, nacked => offered again); the global codec law has a concrete injective instance. Round proofs 2: the composed system GoChannel Layer A + relay-as-consumer (CHandle = one handle per received copy deciding LAck/LNack) refines Layer A and has relay_consumer as an INVARIANT, so the over-GoChannel theorems hold with no hypothesis on the consumer, and - glued to Layer B as in ReplayCompose - per PUBLICATION; the envelope codec oracle is instantiated with the C16 JSON model (escaping, base64, field mapping): round trip and Publisher->Forwarder end to end hold exactly on the real wire format under the single assumption framing_ok, and the non-UTF-8 refutation follows from the non-injectivity of JSON escaping. Tied to the code on every run: ~1500 generated '
        'cases through the REAL Forwarder (+ its Publisher), FanIn, Requeuer and FanOut (real internal GoChannel) on real Routers with scripted source and destination, '
        '1..8 messages in flight, destination faults at every call index, 26 envelope shapes (valid-but-odd, truncated, wrong types, missing topic), metadata edge cases; '
        'per-message traces compared with the model and judged by the proved acceptor.'),
  note=('Trusted: Coq kernel + vm_compute; encoding/json and strconv as oracles with stated laws (supplied per case from the real libraries); the C02 Router model; '
        'GoChannel as fan-out destination only as "refuses iff closed, one Copy per subscriber"; scripted collaborators, message hook stamps, string interning. '
        'Handler invocation inside private routers (FanIn, FanOut) is not observable. Known finding: non-UTF-8 strings do not survive the forwarder envelope.'),
  technique='Coq proof (case analysis over handler outcomes composed with the C02 handle model; induction for metadata maps and batches) + differential correspondence check on the real components',
  design_ref='DESIGN.md section 7 C15/C17 (notes/deliver/C17/design.md)'),
}
