CHECKS = {
 'C08': dict(
  text=('Theorems over ALL registration programs (any number of handlers, any interleaving of AddHandler / AddNoPublisherHandler / Router.AddMiddleware / Handler.AddMiddleware / '
        'Add*Decorators / Run / RunHandlers) and ALL deliveries about a hand-written executable model of the Router\'s registration state and dispatch (message/router.go, router_context.go), '
        'layered on the C02 model of handleMessage: a message on (subscriber, topic) is processed by exactly the started handlers subscribed there, each once, by its own function only; '
        'one Publish call on that handler\'s publisher and topic with the chain\'s outputs unmodified in order and nowhere else; outputs in a handler without publisher (AddNoPublisherHandler or a nil publisher, which gets the same stand-in: nothing is ever called on nil) => Nack and no Publish; '
        'context values inside the function and on produced messages, the own context of each produced message (user values, cancellation) untouched; programs include Handler.Stop, re-added names and failing decorator constructors. Run/AddPlugin/Handlers() are modelled around the registration machine (plugins once, in order, before any handler, an error aborts Run; a Router program amounts to a Wiring program). Tied to the code on every run: ~500 generated programs (1..6 handlers sharing/not sharing subscribers, topics, publishers; '
        'registrations before/after Run and RunHandlers; concurrent deliveries; re-delivered objects) run on a real Router; every per-copy trace is compared with the model and judged by the proved acceptor c08_monitor.'),
  note=('Trusted: Coq kernel + vm_compute; Go closures/recover/goroutine dispatch as modelled; the scripted fan-out subscriber, publishers, tagging middlewares/decorators and the interning of strings; '
        'internal.StructName is exercised, not modelled. As coded, an EMPTY handler value (e.g. the publish topic of a no-publisher handler) is not set in the context, so a value already present '
        'on a re-delivered object survives (stated in C08_context_values, witnessed by C08_context_empty_value_inherits); for messages arriving without router keys the five values are exactly the handler\'s (C08_context_values_fresh).'),
  technique='Coq proof (invariant of a registration state machine by induction over programs, list inductions over chains/decorator lists, refinement to a declarative spec) + differential correspondence check on a real Router',
  design_ref='DESIGN.md section 7 C08/C09'),
}
