"""C07 — GoChannel Close and subscription cancel always terminate safely."""
from . import common as C, gochan as G
TRUSTED_BASE = G.TRUSTED_BASE + [
    'termination on the implementation is a watchdog verdict (Close / cancel / Publish-after-Close-signal must return within 2-3 s after everything else is quiescent); '
    'in the models it is the absence of stuck states (GoChannel/SubProofs.teardown_never_stuck, GoChannel/RegProofs progress) - see the theorem names ending in _partial',
]
ASSUMPTIONS = G.ASSUMPTIONS

def classify(res, scs, reps, mons):
    G.replay_mismatches(res, scs, reps)
    for sc, rp, mo in zip(scs, reps, mons):
        case = lambda: G.readable(sc, mo['hist'])
        for p in sc.get('panics') or []:
            sig = 'C07/panic-nil-map-publish-after-close(D7)' if 'nil map' in p else 'C07/panic'
            res.violations.append(dict(signature=sig, what='panic inside GoChannel: ' + p, case=case()))
        for h in sc.get('hung') or []:
            res.violations.append(dict(signature='C07/hang:' + h, what=h, case=case()))
        for kind, text in G.liveness_verdicts(sc, rp['mapped']):
            if kind == 'cancel-not-completed':
                res.violations.append(dict(signature='C07/cancel-not-completed', what=text, case=case()))
        if sc.get('leaked'):
            res.violations.append(dict(signature='C07/goroutine-leak', what='%d Pub/Sub goroutine(s) alive after Close returned and every context was cancelled' % sc['leaked'],
                                       case=dict(case(), dump=(sc.get('leak_dump') or '')[:1500])))
        for e in sc['events']:
            if e['p'] == 'api.publish_after_close.ret' and e['k'][0] == 'true':
                res.violations.append(dict(signature='C07/publish-after-close-succeeds', what='Publish after Close returned nil', case=case()))
            if e['p'] == 'api.publish_after_close_empty.ret' and e['k'][0] == 'true':
                res.violations.append(dict(signature='C07/publish-after-close-succeeds', what='Publish without messages after Close returned nil', case=case()))
            if e['p'] == 'api.subscribe_after_close.ret' and e['k'][0] == 'true':
                res.violations.append(dict(signature='C07/subscribe-after-close-succeeds', what='Subscribe after Close returned a channel', case=case()))
            if e['p'] == 'api.close.ret' and e['k'][1] != 'true':
                res.violations.append(dict(signature='C07/close-error', what='Close returned an error', case=case()))
        # "After Close has returned every output channel is closed" - for EVERY Close call that
        # returns, also one that overlaps a Close in progress: each subscription created before
        # that return has stamped the close of its output channel before it
        created, closed_out = {}, {}
        for e in sc['events']:
            if e['p'] == 'gochannel.subscribe.created': created.setdefault(e['k'][1], e['seq'])
            elif e['p'] == 'gochannel.sub.close.closing_output': closed_out.setdefault(e['k'][0], e['seq'])
            elif e['p'] == 'api.close.ret':
                open_ = [u for u, sq in created.items() if sq < e['seq'] and not (u in closed_out and closed_out[u] < e['seq'])]
                if open_:
                    res.violations.append(dict(signature='C07/close-returned-with-open-output-channel', what='Close call %s returned while the output channel of %d subscription(s) was still open' % (e['k'][0], len(open_)), case=case()))
                    break
        # "cancelling one subscription leaves the others working": the delivery acceptor on the
        # subscriptions that were NOT cancelled, in scenarios where some subscription was
        cancelled = any(t.startswith('ACancel') for t, _ in mo['hist'])
        if cancelled:
            for i, code in mo['dup']:
                res.violations.append(dict(signature='C07/cancel-affects-other-subscription', what='after another subscription was cancelled a subscription received a message again although it had not Nacked it (' + G.VNAME[code] + ')', case=G.readable(sc, mo['hist'], upto=i)))
            for x, p, code in mo['delivered']:
                res.violations.append(dict(signature='C07/cancel-affects-other-subscription', what='subscription %d did not receive message %d although only another subscription was cancelled' % (x, p), case=case()))
        # the models reached a panic state while replaying what the code did
        for i, (code, pan) in rp['A'].items():
            if pan and not (sc.get('panics')):
                res.mismatches.append(dict(kind='GoChannel/Sub.v reaches a panic state on the recorded schedule but the implementation did not panic', case=dict(scenario=sc['id'], subscription=i)))
        if rp['B'] and rp['B'][1] and not sc.get('panics'):
            res.mismatches.append(dict(kind='GoChannel/Reg.v reaches a panic state on the recorded schedule but the implementation did not panic', case=dict(scenario=sc['id'])))
        res.count('closers=%d' % sc['closers']); res.count('close mid-run' if sc['close_after'] >= 0 else 'close at end')
        if cancelled: res.count('with cancel')

def run(ctx, seed_offset=0, ncases=None):
    res = C.Result()
    scs, reps, mons = G.run_family(ctx, res, seed_offset=seed_offset, ncases=ncases)
    classify(res, scs, reps, mons)
    G.samples(res, scs, mons)
    res.rule = G.RULE
    if not seed_offset:
        binary = C.build_harness()
        r, _ = C.run_harness(binary, ['gochan-d9', '-seed', str(ctx['seed'])], ctx['pid'], 'precancel.json', timeout=180)
        for pc in r.get('pre_cancelled') or []:
            res.evaluations += 1; res.count('subscribe with an already cancelled context, then Close')
            if not pc['close_returned']:
                res.violations.append(dict(signature='C07/close-hangs-after-subscribe-with-cancelled-context', what='Close did not return within 3 s after a Subscribe whose context was already cancelled', case=pc))
            elif not pc['chan_closed']:
                res.violations.append(dict(signature='C07/cancelled-subscription-channel-not-closed', what='the channel of a subscription whose context was cancelled before Subscribe was never closed', case=pc))
            elif not (pc['publish_returned'] and pc['second_subscribe_ok'] and pc['second_received']):
                res.violations.append(dict(signature='C07/cancel-affects-other-subscription', what='after a Subscribe with an already cancelled context a normal subscription no longer works', case=pc))
    from . import c07deco
    c07deco.run_into(ctx, res, seed_offset)
    if ctx['tier'] == 'thorough' and not seed_offset:
        r2 = C.Result()
        s2, p2, m2 = G.run_family(ctx, r2, ncases=150, forced_rounds=2, race=True)
        classify(r2, s2, p2, m2)
        res.violations += r2.violations; res.extra.update({k: v for k, v in r2.extra.items() if k == 'race_detector'})
    return res

def search(ctx, res):
    out = C.Result()
    for k in range(1, 3):
        r = run(dict(ctx, tier='quick'), seed_offset=1000 * k, ncases=80)
        out.evaluations += r.evaluations; out.nontrivial |= r.nontrivial; out.violations += r.violations
        if r.violations: break
    return out

def replay(ctx, data):
    return run(ctx)
