"""C17 — Relay components (Forwarder, FanIn, FanOut, Requeuer) neither lose nor invent."""
from . import common as C

HEADER = 'From WM Require Import Base.Prelude Message.Model Handler.RouterHandle Relay.Model Relay.Redelivery Corr.C17.\nOpen Scope N_scope.\n'
PB = ['PubAccept', 'PubError', 'PubPanic']
ST = ['Unsettled', 'Acked', 'Nacked']
SIG_UTF8 = 'C17/forwarder-json-envelope-alters-non-utf8-strings'

TRUSTED_BASE = [
    'modelled, not verified (Section variables of Relay/Model.v, supplied per case by the harness from the real libraries): '
    'encoding/json on the forwarder envelope (dec = json.Unmarshal into the documented wire struct; assumed law dec (enc e) = Some (san_env e), '
    'san = what json.Marshal does to a Go string, san s = "" <-> s = ""; exercised on every envelope the real forwarder.Publisher produces, not proved); '
    'strconv.Atoi / Itoa (Atoi returns 64-bit ints, Atoi (Itoa z) = z, Atoi "" fails); Go int is 64 bit',
    'the Router part is the C02 model Handler/RouterHandle.v (handle), composed, not re-modelled; recover() of a panicking destination / nil-map assignment as in C02',
    'Relay/Model.v is hand-written from components/forwarder/{forwarder,publisher,envelope}.go, components/fanin/fanin.go, pubsub/gochannel/fanout.go, '
    'components/requeuer/requeuer.go and tied to them by this check; GoChannel as the fan-out destination is modelled only as "refuses iff closed, one message.Copy() per subscriber" (its own protocol is C04/C05)',
    'strings (topics, UUIDs, metadata keys/values, payloads) are interned injectively by the harness; metadata is compared as a finite map (order-insensitive, nil distinguished from empty in the model comparison, not in the property acceptor)',
    'the handler invocation of FanIn / FanOut / a Requeuer on its own router is not observable (private router) and is inserted by the check; FanOut: the Publish call on the internal GoChannel is observed through the existing gochannel.publish.snapshot stamp',
    'time: the requeuer delay is checked as a lower bound (destination entered no earlier than Delay after delivery); a message context that is done while the delay runs is generated only with Delay = 200 ms and a context cancelled before delivery, so that the select has exactly one ready case',
]
TRUSTED_BASE += [
    'round "proofs": redelivery is modelled as a source that hands a fresh message.Copy() of the original to the component after every Nack until an Ack (Relay/Redelivery.v, FreshCopy) - '
    'that GoChannel does exactly this is Layer A (GoChannel/Sub.v, SubProofs.v: no_duplicate_without_nack, redelivery_after_nack), composed in Relay/OverGoChannel.v under the hypothesis '
    'relay_consumer (the subscription\'s consumer settles every copy with the relay\'s verdict); tied on every run by real Requeuer / Forwarder / FanIn instances fed by a real GoChannel whose destination '
    'fails the first 0..11 attempts of each message (error or panic) and by forwarder.Publisher -> GoChannel -> Forwarder -> GoChannel(BlockPublishUntilSubscriberAck) -> a subscriber that nacks the first 0..3 copies',
    'in the redelivery scenarios the handler invocation is not observable (inserted), and for the Forwarder the settlement of the consumed copy inside the destination call is not sampled (the copy is internal to GoChannel)',
]
TRUSTED_BASE += [
    'round "proofs 2": the composed system Relay/Consumer.v (GoChannel Layer A + the relay as consumer, one handle per received copy deciding LAck/LNack) is a model-level composition: '
    'its parts are tied separately (Layer A by the GoChannel schedule replays of C04/C05, the relay per delivery and per redelivery history by this check); relay_consumer is now an invariant, not a hypothesis; '
    'the Layer B glue (permutation between LSpawn labels and Layer B Senders) is a hypothesis as in GoChannel/ReplayCompose.v',
    'C17_*_json theorems: encoding/json on the envelope is the Gallina model coq/Value/Json.v proved in C16 (tied to the real library by the C16 check); left assumed: framing_ok (the scanner splits the objects the encoder wrote '
    'into their members) and that the interning table str_of/id_of is a bijection between string ids and byte strings with "" = 0',
]
TRUSTED_BASE += [
    'round "proofs 3": the liveness premise of C17_outbox_at_least_once ("one of the destination\'s attempts accepts") is an assumption about the environment; the source is the GoChannel-like redelivery model of Relay/Redelivery.v '
    '(tied by the redelivery scenarios), not the Layer A transition system (for which at-most-once / acked=>relayed are proved in Relay/ConsumerProofs.v, termination of the redelivery loop is not); '
    'forwarder configuration defaults are observed through components/forwarder/export_relay_verif.go (build tag verif)',
]
ASSUMPTIONS = [
    'per-message independence of handleMessage instances is structural (C02); the harness runs 1..8 messages in flight through each component, all of them inside the destination Publish call at the same time, and compares every per-message trace',
    'Requeuer counter at MaxInt64 wraps to MinInt64 (modelled as coded; theorem C17_requeuer_counter_at_maxint_refuted); a message with a nil Metadata map is never requeued (Metadata.Set panics, the Router Nacks; theorem C17_requeuer_nil_metadata_refuted); both are accepted by the acceptor as coded and reported in the design notes, not as violations',
]


def nlist(l):
    return C.coq_list([C.coq_N(x) for x in l])


def meta_term(m, nil):
    if nil:
        return 'None'
    return '(Some %s)' % C.coq_list(['(%s, %s)' % (C.coq_N(k), C.coq_N(v)) for k, v in m])


def msg_term(m):
    return '(Msg %s %s %s)' % (C.coq_N(m['u']), C.coq_N(m['p']), meta_term(m['m'], m['nil']))


def env_term(e):
    if e is None:
        return 'None'
    return '(Some (Env %s %s %s %s))' % (C.coq_N(e['t']), C.coq_N(e['u']), C.coq_N(e['p']), meta_term(e['m'], e['nil']))


def msg_ids(m):
    ids = {m['u'], m['p']}
    for k, v in m['m']:
        ids.add(k); ids.add(v)
    return ids


def event_term(e, delay_ms):
    k = e[0]
    if k == 'call': return 'ECall'
    if k == 'delay': return '(EDelay %s)' % C.coq_Z(delay_ms if e[1] else 0)
    if k == 'pub': return '(EPub %s %s %s)' % (C.coq_N(e[1]), C.coq_list([msg_term(m) for m in e[2]]), ST[e[3]])
    if k == 'pubret': return '(EPubRet %s)' % C.coq_bool(e[1])
    if k == 'pubpanic': return 'EPubPanic'
    if k == 'settle': return '(ESettle %s)' % C.coq_bool(e[1])
    return None


def comp_term(c):
    if c['comp'] == 'forwarder':
        return '(KForwarder %s)' % C.coq_bool(c['ackbad'])
    if c['comp'] == 'fanin':
        return '(KFanIn %s)' % C.coq_N(c['target'])
    g = ['(GConst %s)' % C.coq_N(c['genarg']), '(GMeta %s)' % C.coq_N(c['genarg']), 'GFail'][c['gen']]
    return '(KRequeuer %s %s)' % (g, C.coq_Z(c['delay_ms']))


def relay_term(c, atoi, canon):
    ids = msg_ids(c['msg']) | {0}
    for e in c['trace']:
        if e[0] == 'pub':
            for m in e[2]:
                ids |= msg_ids(m)
    ids = sorted(ids)
    at = C.coq_list(['(%s, %s)' % (C.coq_N(i), C.coq_Z(atoi[i])) for i in ids if i in atoi])
    it = C.coq_list(['(%s, %s)' % (C.coq_Z(atoi[i]), C.coq_N(i)) for i in ids if i in canon])
    tr = [event_term(e, c['delay_ms']) for e in c['trace']]
    if c['nocall']:
        tr = ['ECall'] + tr
    orig = 'None' if c['orig'] is None else '(Some (%s, %s))' % (C.coq_N(c['orig']['t']), msg_term(c['orig']['m']))
    return '(RC %s %s %s %s %s %s %s %s %s %s %s %s)' % (
        comp_term(c), C.coq_N(c['src']), msg_term(c['msg']), C.coq_bool(c['ctxdone']), PB[c['pub']], env_term(c['dec']),
        at, it, C.coq_N(c['rk']), orig, C.coq_list(tr), ST[c['final']])


def fpub_term(c, san):
    ids = {c['t'], c['cfg'], c['dflt']}
    for m in c['ms'] or []:
        ids |= msg_ids(m)
    st = C.coq_list(['(%s, %s)' % (C.coq_N(i), C.coq_N(san[i])) for i in sorted(ids) if i in san])
    calls = C.coq_list(['(%s, %s)' % (C.coq_N(k['topic']), C.coq_list([env_term(e) for e in (k['envs'] or [])])) for k in (c['calls'] or [])])
    return '(FC %s %s %s %s %s %s %s %s)' % (C.coq_N(c['dflt']), C.coq_N(c['cfg']), C.coq_N(c['t']), C.coq_list([msg_term(m) for m in (c['ms'] or [])]),
                                             PB[c['pub']], st, calls, C.coq_bool(c['ok']))


def fanout_term(c):
    got = C.coq_list(['(%s, %s)' % (C.coq_N(g['t']), msg_term(g['m'])) for g in c['got']])
    return '(FO %s %s %d %s %s %s %s)' % (C.coq_N(c['src']), msg_term(c['msg']), c['nsubs'], C.coq_bool(c['closed']), got,
                                          C.coq_list([ST[x] for x in c['seen']]), ST[c['final']])


def show_msg(m, tab):
    return dict(uuid=tab[m['u']], payload=tab[m['p']], metadata=('nil' if m['nil'] else {tab[k]: tab[v] for k, v in m['m']}))


def show_trace(tr, tab):
    out = []
    for e in tr:
        if e[0] == 'pub':
            out.append(['pub', tab[e[1]], [show_msg(m, tab) for m in e[2]], 'seen=' + ST[e[3]]])
        else:
            out.append(e)
    return out


def describe_relay(c, tab):
    d = dict(component=c['comp'], id=c['id'], kind=c['kind'], consumed_from=tab[c['src']], consumed=show_msg(c['msg'], tab),
             destination_behaviour=PB[c['pub']], in_flight=c['flight'], observed_trace=show_trace(c['trace'], tab), final=ST[c['final']])
    if c['comp'] == 'forwarder':
        d['AckWhenCannotUnwrap'] = c['ackbad']
        d['envelope_decodes_to'] = None if c['dec'] is None else dict(topic=tab[c['dec']['t']], **show_msg(c['dec'], tab))
        if c['orig'] is not None:
            d['published_through_forwarder_Publisher'] = dict(topic=tab[c['orig']['t']], message=show_msg(c['orig']['m'], tab))
    if c['comp'] == 'fanin':
        d['target_topic'] = tab[c['target']]
    if c['comp'] == 'requeuer':
        d['generate_publish_topic'] = ['constant %s' % tab[c['genarg']], 'metadata[%s], error when empty' % tab[c['genarg']], 'always an error'][c['gen']]
        d['delay_ms'] = c['delay_ms']; d['message_context_done'] = c['ctxdone']
    return d


def split_attempts(trace):
    """the flat trace of a redelivery history -> one list of events per attempt (an attempt ends with its settle)"""
    out, cur = [], []
    for e in trace:
        cur.append(e)
        if e[0] == 'settle':
            out.append(cur); cur = []
    if cur:
        out.append(cur)
    return out


def redeliv_term(c, atoi, canon):
    ids = msg_ids(c['msg']) | {0}
    for e in c['trace']:
        if e[0] == 'pub':
            for m in e[2]:
                ids |= msg_ids(m)
    ids = sorted(ids)
    at = C.coq_list(['(%s, %s)' % (C.coq_N(i), C.coq_Z(atoi[i])) for i in ids if i in atoi])
    it = C.coq_list(['(%s, %s)' % (C.coq_Z(atoi[i]), C.coq_N(i)) for i in ids if i in canon])
    comp = {'forwarder': '(KForwarder %s)' % C.coq_bool(c['ackbad']), 'requeuer': '(KRequeuer (GConst %s) (0)%%Z)' % C.coq_N(c['target']), 'fanin': '(KFanIn %s)' % C.coq_N(c['target'])}[c['comp']]
    obs = []
    for a in split_attempts(c['trace']):
        st = [e for e in a if e[0] == 'settle']
        final = 'Unsettled' if not st else ('Acked' if st[-1][1] else 'Nacked')
        obs.append('(%s, %s)' % (final, C.coq_list(['ECall'] + [event_term(e, 0) for e in a])))   # the handler invocation is not observable here
    beh = C.coq_list(['(false, %s)' % PB[b] for b in c['beh']])
    return '(RD %s %s %s %s %s %s %s %s %s %s)' % (comp, C.coq_N(c['src']), msg_term(c['msg']), beh, env_term(c['dec']), at, it, C.coq_N(c['rk']),
                                                 C.coq_list(obs), msg_term(c['after']))


def describe_redeliv(c, tab):
    return dict(component=c['comp'], id=c['id'], source='real GoChannel, topic %s' % tab[c['src']],
                original=None if c['msg'] is None else show_msg(c['msg'], tab), destination_behaviour_per_attempt=[PB[b] for b in c['beh']],
                attempts=[show_trace(a, tab) for a in split_attempts(c['trace'])], in_flight=c['flight'])


def describe_fanout(c, tab):
    return dict(component='fanout', id=c['id'], topic=tab[c['src']], consumed=show_msg(c['msg'], tab), subscribers_of_topic=c['nsubs'],
                internal_pubsub_closed=c['closed'], received=[dict(topic=tab[g['t']], **show_msg(g['m'], tab)) for g in c['got']],
                consumed_seen_inside_publish=[ST[x] for x in c['seen']], final=ST[c['final']] if c['final'] >= 0 else 'not taken', in_flight=c['flight'])


def counter_class(c, tab, atoi, rk):
    v = dict((k, x) for k, x in c['msg']['m']).get(rk)
    if c['msg']['nil']: return 'nil-metadata'
    if v is None: return 'missing'
    if v not in atoi: return 'malformed'
    z = atoi[v]
    if z == 2 ** 63 - 1: return 'maxint'
    if z == -2 ** 63: return 'minint'
    if z < 0: return 'negative'
    if abs(z) > 2 ** 31: return 'large'
    return 'small'


def run_once(ctx, res, seed, size, tag):
    pid = ctx['pid']
    binary = C.build_harness()
    data, _ = C.run_harness(binary, ['c17', '-seed', str(seed), '-size', str(size)], pid, 'c17_%s.json' % tag)
    tab = data['tab']                     # %q-quoted Go strings (display only)
    atoi = {int(i): int(v) for i, v in data['atoi']}
    canon = set(data['canon'])
    san = {int(a): int(b) for a, b in data['san']}
    for s in data['stray']:
        res.violations.append(dict(signature='C17/invented', what='a destination received a message that belongs to no consumed message: ' + s, case=s))
    for n in data['notes']:
        res.extra.setdefault('notes', []).append(n)
    # ---- relay cases
    good = []
    for c in data['relay']:
        res.evaluations += 1
        res.count('component=' + c['comp'])
        res.count('destination=' + PB[c['pub']])
        res.count('in_flight=%d' % c['flight'])
        if c['comp'] == 'forwarder':
            res.count('envelope=' + c['kind'].split('+')[0])
            res.count('AckWhenCannotUnwrap=%s' % c['ackbad'])
        else:
            res.count('metadata=' + c['kind'].split('/')[1].split('+')[0])
        if c['comp'] == 'requeuer':
            res.count('retries_counter=' + counter_class(c, tab, atoi, c['rk']))
            res.count('requeuer_topic_fn=%s delay_ms=%d ctx_done=%s' % (['const', 'metadata', 'fails'][c['gen']], c['delay_ms'], c['ctxdone']))
        bad = [e for e in c['trace'] if event_term(e, 0) is None]
        if bad:
            res.violations.append(dict(signature='C17/' + bad[0][0], what='unexpected observation %s (message not taken by the component)' % bad[0][0], case=describe_relay(c, tab)))
            continue
        if c['final'] == 0:
            res.violations.append(dict(signature='C17/unsettled', what='consumed message was neither acked nor nacked within 10 s', case=describe_relay(c, tab)))
            continue
        good.append(c)
        npub = sum(1 for e in c['trace'] if e[0] == 'pub')
        res.nontrivial.add((c['comp'], c['kind'], c['pub'], npub, c['final'], c['ackbad'], c['gen'], c['delay_ms'], c['ctxdone'],
                            counter_class(c, tab, atoi, c['rk']) if c['comp'] == 'requeuer' else '', min(len(c['msg']['m']), 7)))
    for part, chunk in enumerate(C.chunks(good, 250)):
        r = C.coq_eval(pid, 'cases_%s_relay_%d' % (tag, part), HEADER + 'Definition cases : list relay_case := %s.\n' % C.coq_list([relay_term(c, atoi, canon) for c in chunk]),
                       [('R_mis', 'relay_mismatches cases'), ('R_vio', 'relay_violations cases'), ('R_e2e', 'e2e_violations cases')])
        for i in r['R_vio']:
            c = chunk[i]
            res.violations.append(dict(signature='C17/monitor/' + c['comp'],
                                       what='%s: trace rejected by the C17 acceptor (one call / one settle as the last event / relayed copy intact and on the computed topic, exactly once / Ack only after the destination accepted / Nack on failure / invalid envelope never forwarded and settled per AckWhenCannotUnwrap / delay)' % c['comp'],
                                       case=describe_relay(c, tab)))
        for i in r['R_e2e']:
            c = chunk[i]
            ids = msg_ids(c['orig']['m']) | {c['orig']['t']}
            if any(x in san for x in ids):
                res.violations.append(dict(signature=SIG_UTF8, what='forwarder: a topic/UUID/metadata string that is not valid UTF-8 does not survive the JSON envelope (replaced by U+FFFD; colliding keys lose an entry)', case=describe_relay(c, tab)))
            else:
                res.violations.append(dict(signature='C17/forwarder-end-to-end', what='forwarder: a message published through forwarder.Publisher did not arrive intact on the topic it was published to', case=describe_relay(c, tab)))
        for i in r['R_mis']:
            c = chunk[i]
            res.mismatches.append(dict(kind='Corr.C17.relay_mismatch (Relay/Model.v run vs the real %s on a Router)' % c['comp'],
                                       explained_by_violation=(i in r['R_vio']), case=describe_relay(c, tab)))
    # ---- forwarder.Publisher
    fp = data['fpub']
    for c in fp:
        res.evaluations += 1
        res.count('fpub: messages=%d topic_empty=%s wrapped_publisher=%s' % (min(len(c['ms'] or []), 3), c['t'] == 0, PB[c['pub']]))
        res.nontrivial.add(('fpub', len(c['ms'] or []), c['t'] == 0, c['pub'], c['cfg'] == 0))
    for part, chunk in enumerate(C.chunks(fp, 250)):
        r = C.coq_eval(pid, 'cases_%s_fpub_%d' % (tag, part), HEADER + 'Definition cases : list fpub_case := %s.\n' % C.coq_list([fpub_term(c, san) for c in chunk]),
                       [('R_mis', 'fpub_mismatches cases')])
        for i in r['R_mis']:
            c = chunk[i]
            res.mismatches.append(dict(kind='Corr.C17.fpub_mismatch (fpub_publish vs forwarder.Publisher.Publish)',
                                       case=dict(config_topic=tab[c['cfg']], topic=tab[c['t']], messages=[show_msg(m, tab) for m in (c['ms'] or [])], wrapped_publisher=PB[c['pub']],
                                                 calls=c['calls'], returned_nil=c['ok'])))
    # ---- FanOut
    fo = []
    for c in data['fanout']:
        res.evaluations += 1
        res.count('component=fanout')
        res.count('fanout: subscribers=%d closed=%s in_flight=%d' % (c['nsubs'], c['closed'], c['flight']))
        if c['final'] <= 0:
            res.violations.append(dict(signature='C17/unsettled', what='fan-out: consumed message not taken / not settled', case=describe_fanout(c, tab)))
            continue
        fo.append(c)
        res.nontrivial.add(('fanout', c['nsubs'], c['closed'], c['msg']['nil'], min(len(c['msg']['m']), 7), c['final']))
    if fo:
        r = C.coq_eval(pid, 'cases_%s_fanout' % tag, HEADER + 'Definition cases : list fanout_case := %s.\n' % C.coq_list([fanout_term(c) for c in fo]),
                       [('R_mis', 'fanout_mismatches cases'), ('R_vio', 'fanout_violations cases')])
        for i in r['R_vio']:
            res.violations.append(dict(signature='C17/monitor/fanout', what='fan-out: subscribers of the topic did not each get exactly one intact copy (or another topic got one), or the consumed message was settled wrongly / before the internal Pub/Sub took it',
                                       case=describe_fanout(fo[i], tab)))
        for i in r['R_mis']:
            res.mismatches.append(dict(kind='Corr.C17.fanout_mismatch (run CFanOut + fanout_deliver vs the real FanOut)', explained_by_violation=(i in r['R_vio']), case=describe_fanout(fo[i], tab)))
    # ---- redelivery from a real GoChannel source (round "proofs")
    rd = []
    for c in data.get('redeliv') or []:
        res.evaluations += 1
        res.count('redelivery: %s attempts=%s in_flight=%d' % (c['comp'], min(len(c['beh']), 6), c['flight']))
        bad = [e for e in c['trace'] if event_term(e, 0) is None]
        if bad or c['msg'] is None:
            res.violations.append(dict(signature='C17/redelivery/' + (bad[0][0] if bad else 'not-published'),
                                       what='redelivery: %s' % ('the message was never acked although the destination accepts the last scripted attempt' if bad and bad[0][0] == 'never-acked' else 'message not taken'),
                                       case=describe_redeliv(c, tab)))
            continue
        rd.append(c)
        res.nontrivial.add(('redeliv', c['comp'], tuple(c['beh']), c['msg']['nil'], min(len(c['msg']['m']), 7)))
    for part, chunk in enumerate(C.chunks(rd, 150)):
        r = C.coq_eval(pid, 'cases_%s_redeliv_%d' % (tag, part), HEADER + 'Definition cases : list redeliv_case := %s.\n' % C.coq_list([redeliv_term(c, atoi, canon) for c in chunk]),
                       [('R_mis', 'redeliv_mismatches cases'), ('R_vio', 'redeliv_violations cases')])
        for i in r['R_vio']:
            c = chunk[i]
            res.violations.append(dict(signature='C17/redelivery/' + c['comp'],
                                       what='%s fed by a real GoChannel: redelivery history rejected (every attempt relays an intact copy of the ORIGINAL - requeuer: counter +1, never accumulating -, no attempt after an Ack, accepted at most once)' % c['comp'],
                                       case=describe_redeliv(c, tab)))
        for i in r['R_mis']:
            c = chunk[i]
            res.mismatches.append(dict(kind='Corr.C17.redeliv_mismatch (Relay/Redelivery.v redeliver FreshCopy vs the real %s behind a real GoChannel)' % c['comp'],
                                       explained_by_violation=(i in r['R_vio']), case=describe_redeliv(c, tab)))
    ch = data.get('chain') or []
    for c in ch:
        res.evaluations += 1
        res.count('chain Publisher->GoChannel->Forwarder->GoChannel->subscriber: nacks=%d' % c['nacks'])
        res.nontrivial.add(('chain', c['nacks'], c['msg']['nil'], min(len(c['msg']['m']), 7)))
    if ch:
        r = C.coq_eval(pid, 'cases_%s_chain' % tag, HEADER + 'Definition cases : list chain_case := %s.\n' % C.coq_list(
            ['(CH %s %s %d %s %s)' % (C.coq_N(c['topic']), msg_term(c['msg']), c['nacks'], C.coq_list(['(%s, %s)' % (C.coq_N(g['t']), msg_term(g['m'])) for g in c['got']]), ST[c['final']]) for c in ch]),
                       [('R_vio', 'chain_violations cases')])
        for i in r['R_vio']:
            c = ch[i]
            res.violations.append(dict(signature='C17/forwarder-chain', what='forwarder.Publisher -> GoChannel -> Forwarder -> GoChannel -> subscriber: the subscriber did not get exactly nacks+1 intact copies on the topic published to',
                                       case=dict(id=c['id'], topic=tab[c['topic']], published=show_msg(c['msg'], tab), nacks=c['nacks'],
                                                 received=[dict(topic=tab[g['t']], **show_msg(g['m'], tab)) for g in c['got']], order=c['order'])))
    # ---- constructors
    fic = data['fanin_cfg']; rqc = data['requeuer_cfg']
    t1 = C.coq_list(['(FIC %s %s %s %s %s)' % (C.coq_bool(c['sub']), C.coq_bool(c['pub']), nlist(c['sources'] or []), C.coq_N(c['target']), C.coq_N(c['res'])) for c in fic])
    t2 = C.coq_list(['(RQC %s %s %s %s %s)' % (C.coq_bool(c['Sub']), C.coq_bool(c['Topic']), C.coq_bool(c['Pub']), C.coq_bool(c['Gen']), C.coq_N(c['Res'])) for c in rqc])
    r = C.coq_eval(pid, 'cases_%s_cfg' % tag, HEADER + 'Definition c1 : list fanin_cfg_case := %s.\nDefinition c2 : list requeuer_cfg_case := %s.\n' % (t1, t2),
                   [('R1', 'fanin_cfg_mismatches c1'), ('R2', 'requeuer_cfg_mismatches c2')])
    res.evaluations += len(fic) + len(rqc)
    for c in fic:
        res.nontrivial.add(('fanin_cfg', c['sub'], c['pub'], len(c['sources'] or []), c['res']))
        res.count('NewFanIn=%s' % ['ok', 'error', 'panic'][c['res']])
    for i in r['R1']:
        res.mismatches.append(dict(kind='Corr.C17.fanin_cfg_mismatch (fanin_new vs NewFanIn)', case=dict(fic[i], sources=[tab[x] for x in (fic[i]['sources'] or [])], target=tab[fic[i]['target']])))
    for i in r['R2']:
        res.mismatches.append(dict(kind='Corr.C17.requeuer_cfg_mismatch (requeuer_new vs NewRequeuer)', case=rqc[i]))
    # ---- forwarder / publisher configuration (round "proofs 3")
    fc = data.get('fwd_cfg') or []
    if fc:
        terms = ['(FWC %s %s %s %s %s %s %s %s %s %s %s %s)' % (
            C.coq_N(c['dflt']), C.coq_N(c['topic']), C.coq_Z(c['timeout_ns']), C.coq_N(c['obs_topic']), C.coq_Z(c['obs_timeout_ns']),
            C.coq_bool(c['valid_raw']), C.coq_bool(c['valid_after']), C.coq_bool(c['new_ok']),
            'None' if c['sub_topic'] < 0 else '(Some %s)' % C.coq_N(c['sub_topic']),
            C.coq_N(c['pub_topic']), C.coq_bool(c['pub_valid_raw']), C.coq_N(max(c['pub_send_topic'], 0))) for c in fc]
        r = C.coq_eval(pid, 'cases_%s_fwdcfg' % tag, HEADER + 'Definition cases : list fwdcfg_case := %s.\n' % C.coq_list(terms), [('R_mis', 'fwdcfg_mismatches cases')])
        res.evaluations += len(fc)
        for c in fc:
            res.nontrivial.add(('fwdcfg', c['topic'] == 0, c['timeout_ns']))
            res.count('forwarder config: topic_empty=%s close_timeout_ns=%d run=%s' % (c['topic'] == 0, c['timeout_ns'], c['sub_topic'] >= 0))
        for i in r['R_mis']:
            res.mismatches.append(dict(kind='Corr.C17.fwdcfg_mismatch (Relay/Config.v vs forwarder Config/PublisherConfig setDefaults, Validate, NewForwarder)',
                                       case=dict(fc[i], topic=tab[fc[i]['topic']], obs_topic=tab[fc[i]['obs_topic']])))
    return data, tab, good, fo


def run(ctx):
    tier, seed = ctx['tier'], ctx['seed']
    res = C.Result()
    rounds = [(seed, 1)] if tier == 'quick' else [(seed + k, 3) for k in range(6)]
    for n, (sd, size) in enumerate(rounds):
        data, tab, good, fo = run_once(ctx, res, sd, size, 'r%d' % n)
        if n == 0:
            picks = [c for c in good if c['comp'] == 'forwarder' and c['kind'] == 'e2e/valid'][:1] + \
                    [c for c in good if c['comp'] == 'forwarder' and c['kind'].startswith('malformed/truncated')][:1] + \
                    [c for c in good if c['comp'] == 'requeuer' and any(e[0] == 'pub' for e in c['trace']) and len(c['msg']['m']) < 5][:1]
            for c in picks:
                res.sample(describe_relay(c, tab))
            if fo:
                res.sample(describe_fanout(fo[len(fo) // 2], tab))
    res.rule = ('every case is one consumed message through a REAL Forwarder / FanIn / Requeuer / FanOut running on a real Router (own or supplied), scripted source subscriber, scripted destination publisher '
                '(accept / error / panic per call, also exactly one failing call at every index 0..5 of a sequential run; FanOut: its real internal GoChannel with 0..3 subscribers per topic, open or closed underneath); '
                '1..8 messages in flight, all of them inside the destination call at once; forwarder inputs: envelopes made by the REAL forwarder.Publisher (1..4 messages per call, empty topic, failing wrapped publisher), '
                'hand-written envelopes valid in unusual ways (permuted / unknown / duplicate / differently-cased fields, nulls, only a topic, duplicate metadata keys) and 17 kinds of malformed or invalid ones '
                '(truncated at a random byte, wrong field types, not base64, missing / empty / null topic, non-JSON, trailing garbage); messages: nil / empty / up to 50 metadata keys, empty key, empty value, unicode, '
                'keys that collide with or are prefixes/extensions of the requeuer key, 30 retries-counter spellings (missing, 0, -1, +7, 007, blanks, hex, MaxInt64, MinInt64, out of range, non-ASCII digits); '
                'redelivery: Requeuer / Forwarder / FanIn (3 source topics) behind a REAL GoChannel source, destination failing the first 0..11 attempts per message, 1..8 messages in flight, and a full chain Publisher->GoChannel->Forwarder->GoChannel->nacking subscriber; '
                'requeuer topic from a constant / a metadata key (also the counter key itself) / always failing, Delay 0 or 200 ms with live or cancelled message context; NewFanIn / NewRequeuer configurations. '
                'non-trivial = distinct (component, input class, destination behaviour, number of publishes, settlement, configuration, counter class, metadata size).')
    return res


def search(ctx, res):
    out = C.Result()
    for k in range(1, 4):
        r = C.Result()
        run_once(ctx, r, ctx['seed'] + 1000 * k, 2, 's%d' % k)
        out.evaluations += r.evaluations; out.nontrivial |= r.nontrivial; out.violations += r.violations
        if [v for v in r.violations if v['signature'] != SIG_UTF8]:
            break
    return out


def replay(ctx, data):
    return run(ctx)
