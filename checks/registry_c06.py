"""MANIFEST fragment for C06 (merged by bin/mkmanifest)."""
CHECKS = {
 'C06': dict(
  text=('Theorems over ALL schedules, any number of handlers, messages and Close callers about a hand-written thread-level transition system of the Router close protocol '
        '(Router.Close, waitForHandlers, Run\'s tail, the handler loops, handleClose, handleMessage, the subscriber decorator\'s pump; timeouts fire at any moment): a Close call that returns nil '
        'implies no handler invocation in progress, no message left in the pipeline, all loops ended - and it stays so (invariant proof: wait-group counters = number of goroutines they stand for, lock ownership, '
        'what a finished waiter knows); Run returns only after the close completed; concurrent/repeated Close is exclusive and never panics; with any number of RunHandlers calls competing for handlersLock some lock user can always move (no lock-order deadlock between closedLock and handlersLock; refuted for the variant where RunHandlers takes closedLock under handlersLock) and a Close call takes at most seven steps; TERMINATION without a fairness assumption: a measure over all threads that every system label strictly decreases, so every run of system labels is finite and a maximal one ends with every Close call returned or legitimately waiting (then the timeout returns the error in three steps of that call alone); '
        'handleClose never finishes without closing the subscriber; the general stuck-state theorem (a waiting Close with no system step enabled implies a running handler, a subscriber blocked in its own Close(), or the early context cancel); the executable API acceptor is PROVED to accept every trace of the repaired model (simulation relation); the pinned behaviours D5 (concurrent waits), D6 (ctx.Done wins the select), D12 (nil after a timed-out Close) and D16 (a handler added but never started blocks Close until the timeout) are refuted by witness schedules. '
        'Tied to the code on every run: a real Router with scripted subscribers (honouring / ignoring the context), publishers and handlers under 98 forced schedules (a message parked at each of 8 points of its path x '
        'Close / outwaited Close / timeout + second Close / 3 concurrent Closes / context cancel / both) and random schedules; the stamped hook log is replayed label by label on the model and an API-level acceptor judges the history.'),
  note=('Trusted: Coq kernel + vm_compute; Go runtime semantics of Mutex/WaitGroup/channels/select/context/time.After as modelled; subscriber contract (Close() returns, the channel closes after Close() or context end); '
        'hook stamp discipline + Python mapper; the API acceptor (Router/CloseMonitor.v) judges implementation histories and is proved to accept all model traces (C06_acceptor_accepts_model). '
        'Known finding: after the Run context was cancelled before Close, subscribers are not closed. '
        'AddHandler/RunHandlers/Stop concurrent with Close are outside the model (C10).'),
  technique='Coq proof (invariants over a thread-level LTS, refutation witnesses by vm_compute) + schedule-replay correspondence check with forced interleavings + executable API acceptor',
  design_ref='DESIGN.md section 7 C06/C10'),
}
