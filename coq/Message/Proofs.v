(** Proofs about the Message settlement models (sequential and concurrent). *)
From WM Require Import Base.Prelude Message.Model Message.Conc.

(** * Sequential model *)

Definition chan_ok (m : mstate) : Prop :=
  match st m with
  | Unsettled => ackc m <> CClosed /\ nackc m <> CClosed
  | Acked => ackc m = CClosed /\ nackc m <> CClosed
  | Nacked => ackc m <> CClosed /\ nackc m = CClosed
  end /\ panicked m = false.

Lemma chan_ok_init c : chan_ok (init c).
Proof. destruct c; cbv; intuition congruence. Qed.

Lemma step_chan_ok m o : chan_ok m -> chan_ok (fst (step m o)).
Proof.
  destruct m as [s a n p]; unfold chan_ok; simpl; intros [H Hp]; subst p.
  destruct o, s; simpl; try (split; [assumption|reflexivity]).
  - destruct a; simpl; intuition congruence.
  - destruct n; simpl; intuition congruence.
Qed.

(** the result of a step is what the first-wins specification expects from the settlement
    state before it, and the settlement moves exactly as [decide] says *)
Lemma step_expect m o : chan_ok m -> snd (step m o) = expect (st m) o.
Proof.
  destruct m as [s a n p]; unfold chan_ok; simpl; intros [H Hp]; subst p.
  destruct o, s; simpl; try reflexivity.
  all: try (destruct a; simpl; intuition congruence).
  all: try (destruct n; simpl; intuition congruence).
Qed.

Lemma step_decide m o : st (fst (step m o)) = decide (st m) o.
Proof.
  destruct m as [s a n p]. destruct o, s; simpl; try reflexivity.
  - destruct (close_chan a); reflexivity.
  - destruct (close_chan n); reflexivity.
Qed.

Lemma run_cons s o ops :
  run s (o :: ops) = (fst (run (fst (step s o)) ops), snd (step s o) :: snd (run (fst (step s o)) ops)).
Proof. simpl. destruct (step s o) as [s1 r]. simpl. destruct (run s1 ops). reflexivity. Qed.

Lemma run_chan_ok ops : forall m, chan_ok m -> chan_ok (fst (run m ops)).
Proof.
  induction ops as [|o ops IH]; intros m Hm; [exact Hm|].
  rewrite run_cons. simpl. apply IH. now apply step_chan_ok.
Qed.

Lemma run_first_wins ops : forall m, chan_ok m ->
  first_wins (st m) (combine ops (snd (run m ops))) = true.
Proof.
  induction ops as [|o ops IH]; intros m Hm; [reflexivity|].
  rewrite run_cons. simpl. rewrite step_expect by assumption.
  assert (Hr : forall r, res_eqb r r = true) by (intros [[]| | |]; reflexivity).
  rewrite Hr. simpl. rewrite <- step_decide. apply IH. now apply step_chan_ok.
Qed.

Lemma run_length ops : forall m, length (snd (run m ops)) = length ops.
Proof.
  induction ops as [|o ops IH]; intros m; [reflexivity|].
  rewrite run_cons. simpl. now rewrite IH.
Qed.

(** once decided, the state never changes again *)
Lemma step_decided_fixed m o : st m <> Unsettled -> fst (step m o) = m.
Proof. destruct m as [s a n p]; destruct o, s; simpl; congruence. Qed.

Lemma run_decided_fixed ops : forall m, st m <> Unsettled -> fst (run m ops) = m.
Proof.
  induction ops as [|o ops IH]; intros m Hm; [reflexivity|].
  rewrite run_cons. simpl. rewrite step_decided_fixed by assumption. now apply IH.
Qed.

Lemma run_app ops1 : forall m ops2,
  run m (ops1 ++ ops2) =
  (fst (run (fst (run m ops1)) ops2), snd (run m ops1) ++ snd (run (fst (run m ops1)) ops2)).
Proof.
  induction ops1 as [|o ops1 IH]; intros m ops2.
  - simpl. now destruct (run m ops2).
  - rewrite <- app_comm_cons. rewrite !run_cons. rewrite IH. reflexivity.
Qed.

(** * Concurrent model *)

Definition holds_lock (p : pc) : bool :=
  match p with PLocked _ | PSetting _ | PUnlocking _ _ => true | _ => false end.

Definition auto_of (p : pc) : tstate :=
  match p with
  | PIdle => TIdle
  | PWant o | PLocked o | PSetting o => TInv o
  | PUnlocking o r => TLin o r
  end.

Definition pc_op (p : pc) : option op :=
  match p with
  | PIdle => None
  | PWant o | PLocked o | PSetting o | PUnlocking o _ => Some o
  end.

Record Inv (c : ctor) (s : cstate) : Prop := {
  i_owner : forall t, owner s = Some t <-> holds_lock (tpc (thr s t)) = true;
  i_ops : forall t o, pc_op (tpc (thr s t)) = Some o -> is_read o = false;
  i_abs : chan_ok (abs s);
  i_setting : forall t o, tpc (thr s t) = PSetting o ->
                st (ms s) = decide Unsettled o;
  i_lin : run (init c) (lin_ops (hist s)) = (abs s, lin_res (hist s));
  i_auto : forall t, tauto t (hist s) = auto_of (tpc (thr s t))
}.

Lemma inv_init c progs : Inv c (cinit c progs).
Proof.
  constructor; simpl; intros; try discriminate; try reflexivity.
  - split; discriminate.
  - unfold abs; simpl. apply chan_ok_init.
Qed.

Lemma eta_unsettled m : st m = Unsettled ->
  MS Unsettled (ackc m) (nackc m) (panicked m) = m.
Proof. destruct m; simpl; intros ->; reflexivity. Qed.

Lemma res_eqb_refl r : res_eqb r r = true.
Proof. destruct r as [[]| | |]; reflexivity. Qed.
Lemma op_eqb_refl o : op_eqb o o = true.
Proof. destruct o; reflexivity. Qed.

(** mutual exclusion: two lock holders are the same thread *)
Lemma mutex c s t1 t2 : Inv c s ->
  holds_lock (tpc (thr s t1)) = true -> holds_lock (tpc (thr s t2)) = true -> t1 = t2.
Proof.
  intros I H1 H2. apply (i_owner _ _ I) in H1. apply (i_owner _ _ I) in H2. congruence.
Qed.

Lemma abs_owner_not_setting s t :
  owner s = Some t -> (forall o, tpc (thr s t) <> PSetting o) -> abs s = ms s.
Proof. unfold abs. intros -> H. destruct (tpc (thr s t)); try reflexivity. now destruct (H o). Qed.

Lemma abs_no_owner s : owner s = None -> abs s = ms s.
Proof. unfold abs. now intros ->. Qed.

(** reads only look at the channels, which the abstraction does not touch *)
Lemma step_read_abs s o : is_read o = true ->
  step (abs s) o = (abs s, snd (step (ms s) o)).
Proof.
  unfold abs. destruct (owner s) as [t|]; [|destruct o; try discriminate; reflexivity].
  destruct (tpc (thr s t)); destruct o; try discriminate; reflexivity.
Qed.

Lemma lin_snoc c h m rs o r m' :
  run (init c) (lin_ops h) = (m, rs) -> step m o = (m', r) ->
  run (init c) (lin_ops h ++ [o]) = (m', rs ++ [r]).
Proof.
  intros H1 H2. rewrite run_app, H1. simpl. rewrite H2. reflexivity.
Qed.

Lemma abs_upd_nonholder c s t th' m h' : Inv c s ->
  holds_lock (tpc (thr s t)) = false ->
  abs (CS m (owner s) (upd (thr s) t th') h') =
  match owner s with
  | Some t0 => match tpc (thr s t0) with
               | PSetting _ => MS Unsettled (ackc m) (nackc m) (panicked m)
               | _ => m end
  | None => m end.
Proof.
  intros I Hh. unfold abs; simpl.
  pose proof (i_owner _ _ I) as Hown.
  destruct (owner s) as [t0|]; [|reflexivity].
  updt t t0; [|reflexivity].
  assert (holds_lock (tpc (thr s t)) = true) by (apply Hown; reflexivity). congruence.
Qed.

Theorem step_inv c s t s' : Inv c s -> cstep s t = Some s' -> Inv c s'.
Proof.
  intros I Hs. unfold cstep in Hs.
  pose proof (i_owner _ _ I) as Hown.
  pose proof (i_ops _ _ I) as Hops.
  pose proof (i_abs _ _ I) as Habs.
  pose proof (i_setting _ _ I) as Hset.
  pose proof (i_lin _ _ I) as Hlin.
  pose proof (i_auto _ _ I) as Haut.
  destruct (tpc (thr s t)) as [|o|o|o|o r] eqn:Epc.
  - (* PIdle *)
    destruct (prog (thr s t)) as [|o rest] eqn:Epr; [discriminate|].
    destruct (is_read o) eqn:Erd; inversion Hs; subst s'; clear Hs.
    + (* atomic read *)
      assert (Habs' : abs (CS (ms s) (owner s) (upd (thr s) t (TH PIdle rest))
                (ERet t o (snd (step (ms s) o)) :: ELin t o (snd (step (ms s) o)) :: EInv t o :: hist s))
              = abs s).
      { erewrite abs_upd_nonholder; [reflexivity|exact I|now rewrite Epc]. }
      constructor; simpl.
      * intros t'. updt t t'; simpl; [|apply Hown].
        rewrite Hown, Epc. reflexivity.
      * intros t' o'. updt t t'; simpl; [discriminate|apply Hops].
      * rewrite Habs'. exact Habs.
      * intros t' o'. updt t t'; simpl; [discriminate|apply Hset].
      * rewrite Habs'. rewrite app_nil_r. simpl. rewrite !app_nil_r.
        eapply lin_snoc; [exact Hlin|]. now apply step_read_abs.
      * intros t'. updt t t'; simpl.
        -- rewrite Haut, Epc. simpl. rewrite !Nat.eqb_refl. simpl.
           rewrite op_eqb_refl. rewrite op_eqb_refl, res_eqb_refl. reflexivity.
        -- assert (Ht : Nat.eqb t t' = false) by (apply Nat.eqb_neq; congruence).
           rewrite !Ht. apply Haut.
    + (* invoke Ack/Nack *)
      assert (Habs' : abs (CS (ms s) (owner s) (upd (thr s) t (TH (PWant o) rest)) (EInv t o :: hist s))
              = abs s).
      { erewrite abs_upd_nonholder; [reflexivity|exact I|now rewrite Epc]. }
      constructor; simpl.
      * intros t'. updt t t'; simpl; [|apply Hown].
        rewrite Hown, Epc. reflexivity.
      * intros t' o'. updt t t'; simpl; [congruence|apply Hops].
      * rewrite Habs'. exact Habs.
      * intros t' o'. updt t t'; simpl; [discriminate|apply Hset].
      * rewrite Habs'. rewrite !app_nil_r. exact Hlin.
      * intros t'. updt t t'; simpl.
        -- rewrite Haut, Epc. simpl. rewrite Nat.eqb_refl. reflexivity.
        -- assert (Ht : Nat.eqb t t' = false) by (apply Nat.eqb_neq; congruence).
           rewrite Ht. apply Haut.
  - (* PWant: acquire *)
    destruct (owner s) as [t0|] eqn:Eo; [discriminate|]. inversion Hs; subst s'; clear Hs.
    assert (Hnone : forall t', holds_lock (tpc (thr s t')) = false).
    { intros t'. destruct (holds_lock (tpc (thr s t'))) eqn:E; [|reflexivity].
      apply Hown in E. discriminate. }
    constructor; simpl.
    * intros t'. updt t t'; simpl; [intuition congruence|].
      rewrite Hnone. split; [congruence|discriminate].
    * intros t' o'. updt t t'; simpl; [|apply Hops].
      intros [= <-]. apply (Hops t). now rewrite Epc.
    * unfold abs; simpl. rewrite upd_same. simpl.
      rewrite <- (abs_no_owner s Eo). exact Habs.
    * intros t' o'. updt t t'; simpl; [discriminate|apply Hset].
    * unfold abs at 1; simpl. rewrite upd_same. simpl.
      rewrite <- (abs_no_owner s Eo). exact Hlin.
    * intros t'. updt t t'; simpl; [|apply Haut]. rewrite Haut, Epc. reflexivity.
  - (* PLocked: guards *)
    assert (Eo : owner s = Some t) by (apply Hown; now rewrite Epc).
    assert (Ea : abs s = ms s).
    { apply (abs_owner_not_setting s t Eo). rewrite Epc. discriminate. }
    assert (Hrd : is_read o = false) by (apply (Hops t); now rewrite Epc).
    destruct (guard (ms s) o) as [r|] eqn:Eg; inversion Hs; subst s'; clear Hs.
    + (* already decided *)
      assert (Habs' : abs (CS (ms s) (owner s) (upd (thr s) t (TH (PUnlocking o r) (prog (thr s t))))
                  (ELin t o r :: hist s)) = ms s).
      { unfold abs; simpl. rewrite Eo, upd_same. reflexivity. }
      constructor; simpl.
      * intros t'. updt t t'; simpl; [intuition congruence|apply Hown].
      * intros t' o'. updt t t'; simpl; [congruence|apply Hops].
      * rewrite Habs', <- Ea. exact Habs.
      * intros t' o'. updt t t'; simpl; [discriminate|apply Hset].
      * rewrite Habs'. eapply lin_snoc; [exact Hlin|]. rewrite Ea.
        unfold guard in Eg. destruct (ms s) as [sst a n p].
        destruct o, sst; simpl in *; try discriminate; inversion Eg; reflexivity.
      * intros t'. updt t t'; simpl.
        -- rewrite Haut, Epc. simpl. rewrite Nat.eqb_refl, op_eqb_refl. reflexivity.
        -- assert (Ht : Nat.eqb t t' = false) by (apply Nat.eqb_neq; congruence).
           rewrite Ht. apply Haut.
    + (* unsettled: write ackSentType, go on to close the channel *)
      assert (Hst : st (ms s) = Unsettled).
      { unfold guard in Eg. destruct o, (st (ms s)); simpl in *; congruence. }
      assert (Habs' : abs (CS (set_type (ms s) o) (owner s)
                   (upd (thr s) t (TH (PSetting o) (prog (thr s t)))) (hist s)) = ms s).
      { unfold abs; simpl. rewrite Eo, upd_same. simpl.
        destruct o; try discriminate; simpl; now apply eta_unsettled. }
      constructor; simpl.
      * intros t'. updt t t'; simpl; [intuition congruence|apply Hown].
      * intros t' o'. updt t t'; simpl; [congruence|apply Hops].
      * rewrite Habs', <- Ea. exact Habs.
      * intros t' o'. updt t t'; simpl.
        -- intros [= <-]. destruct o; try discriminate; reflexivity.
        -- intros Hs'. exfalso.
           assert (t' = t); [|congruence].
           eapply mutex; [exact I| |]; [rewrite Hs'|rewrite Epc]; reflexivity.
      * rewrite Habs', <- Ea. exact Hlin.
      * intros t'. updt t t'; simpl; [|apply Haut]. rewrite Haut, Epc. reflexivity.
  - (* PSetting: close the channel = linearisation point of the winner *)
    assert (Eo : owner s = Some t) by (apply Hown; now rewrite Epc).
    assert (Hrd : is_read o = false) by (apply (Hops t); now rewrite Epc).
    assert (Hst : st (ms s) = decide Unsettled o) by (now apply (Hset t)).
    assert (Ea : abs s = MS Unsettled (ackc (ms s)) (nackc (ms s)) (panicked (ms s))).
    { unfold abs. now rewrite Eo, Epc. }
    destruct (do_close (ms s) o) as [m' r] eqn:Ec. inversion Hs; subst s'; clear Hs.
    assert (Habs' : abs (CS m' (owner s) (upd (thr s) t (TH (PUnlocking o r) (prog (thr s t))))
                (ELin t o r :: hist s)) = m').
    { unfold abs; simpl. rewrite Eo, upd_same. reflexivity. }
    assert (Hstep : step (abs s) o = (m', r)).
    { rewrite Ea. destruct (ms s) as [sst a n p]. simpl in *.
      destruct o; try discriminate; simpl in *; subst sst.
      - destruct (close_chan a); inversion Ec; reflexivity.
      - destruct (close_chan n); inversion Ec; reflexivity. }
    constructor; simpl.
    * intros t'. updt t t'; simpl; [intuition congruence|apply Hown].
    * intros t' o'. updt t t'; simpl; [congruence|apply Hops].
    * rewrite Habs'. replace m' with (fst (step (abs s) o)) by now rewrite Hstep.
      now apply step_chan_ok.
    * intros t' o'. updt t t'; simpl; [discriminate|].
      intros Hs'. exfalso. assert (t' = t); [|congruence].
      eapply mutex; [exact I| |]; [rewrite Hs'|rewrite Epc]; reflexivity.
    * rewrite Habs'. eapply lin_snoc; [exact Hlin|exact Hstep].
    * intros t'. updt t t'; simpl.
      -- rewrite Haut, Epc. simpl. rewrite Nat.eqb_refl, op_eqb_refl. reflexivity.
      -- assert (Ht : Nat.eqb t t' = false) by (apply Nat.eqb_neq; congruence).
         rewrite Ht. apply Haut.
  - (* PUnlocking: release and return *)
    assert (Eo : owner s = Some t) by (apply Hown; now rewrite Epc).
    assert (Ea : abs s = ms s).
    { apply (abs_owner_not_setting s t Eo). rewrite Epc. discriminate. }
    inversion Hs; subst s'; clear Hs.
    constructor; simpl.
    * intros t'. updt t t'; simpl; [intuition congruence|].
      split; [discriminate|]. intros Hh. exfalso.
      assert (t' = t); [|congruence].
      eapply mutex; [exact I|exact Hh|rewrite Epc; reflexivity].
    * intros t' o'. updt t t'; simpl; [discriminate|apply Hops].
    * unfold abs; simpl. rewrite <- Ea. exact Habs.
    * intros t' o'. updt t t'; simpl; [discriminate|].
      intros Hs'. exfalso. assert (t' = t); [|congruence].
      eapply mutex; [exact I| |]; [rewrite Hs'|rewrite Epc]; reflexivity.
    * unfold abs at 1; simpl. rewrite !app_nil_r, <- Ea. exact Hlin.
    * intros t'. updt t t'; simpl.
      -- rewrite Haut, Epc. simpl. rewrite Nat.eqb_refl, op_eqb_refl, res_eqb_refl. reflexivity.
      -- assert (Ht : Nat.eqb t t' = false) by (apply Nat.eqb_neq; congruence).
         rewrite Ht. apply Haut.
Qed.

Theorem crun_inv c sched : forall s, Inv c s -> Inv c (crun s sched).
Proof.
  induction sched as [|t sched IH]; intros s I; simpl; [exact I|].
  destruct (cstep s t) as [s'|] eqn:E; [|now apply IH].
  apply IH. eapply step_inv; eassumption.
Qed.

(** * The statements used by Props/C03.v *)

Theorem first_wins_seq c ops :
  let '(m, rs) := run (init c) ops in
  seq_monitor (combine ops rs) = true
  /\ length rs = length ops
  /\ panicked m = false
  /\ (ackc m = CClosed <-> st m = Acked)
  /\ (nackc m = CClosed <-> st m = Nacked)
  /\ ~ (ackc m = CClosed /\ nackc m = CClosed).
Proof.
  pose proof (run_first_wins ops (init c) (chan_ok_init c)) as H1.
  pose proof (run_length ops (init c)) as H2.
  pose proof (run_chan_ok ops (init c) (chan_ok_init c)) as H3.
  destruct (run (init c) ops) as [m rs]. simpl in *.
  assert (Hst : st (init c) = Unsettled) by (destruct c; reflexivity).
  rewrite Hst in H1. unfold seq_monitor.
  destruct H3 as [H3 Hp]. destruct (st m); intuition congruence.
Qed.

Theorem decided_forever c ops1 ops2 :
  st (fst (run (init c) ops1)) <> Unsettled ->
  fst (run (init c) (ops1 ++ ops2)) = fst (run (init c) ops1).
Proof. intros H. rewrite run_app. simpl. now apply run_decided_fixed. Qed.

Theorem linearizable c progs sched :
  let s := crun (cinit c progs) sched in
  (* the linearisation points, in execution order, form a legal sequential history
     of the atomic object ... *)
  snd (run (init c) (lin_ops (hist s))) = lin_res (hist s)
  (* ... each lies between the invocation and the response of its call and carries the
     result that call returns ... *)
  /\ (forall t, tauto t (hist s) <> TErr)
  (* ... nothing panicked, and the lock is held by at most one thread *)
  /\ panicked (ms s) = false
  /\ (forall t1 t2, holds_lock (tpc (thr s t1)) = true ->
                    holds_lock (tpc (thr s t2)) = true -> t1 = t2).
Proof.
  intros s. assert (I : Inv c s) by (apply crun_inv, inv_init).
  repeat split.
  - now rewrite (i_lin _ _ I).
  - intros t. rewrite (i_auto _ _ I). destruct (tpc (thr s t)); discriminate.
  - pose proof (i_abs _ _ I) as [_ Hp]. unfold abs in Hp.
    destruct (owner s) as [t|]; [|exact Hp]. destruct (tpc (thr s t)); exact Hp.
  - intros t1 t2. eapply mutex; exact I.
Qed.

(** all callers observe the same winner: in any history accepted by the first-wins
    acceptor it is impossible that an Ack and a Nack both returned true, and nothing panicked *)
Lemma res_eqb_eq a b : res_eqb a b = true -> a = b.
Proof.
  destruct a as [[]| | |], b as [[]| | |]; simpl; intros H; try discriminate; reflexivity.
Qed.

Lemma first_wins_fixed h : forall w, w <> Unsettled -> first_wins w h = true ->
  forall o r, In (o, r) h -> r = expect w o.
Proof.
  induction h as [|[o r] h IH]; intros w Hw Hf o' r' Hin; [destruct Hin|].
  simpl in Hf. apply andb_true_iff in Hf as [Hr Hf]. apply res_eqb_eq in Hr.
  destruct Hin as [[= -> ->]|Hin]; [exact Hr|].
  assert (Hd : decide w o = w) by (destruct w, o; simpl; congruence).
  rewrite Hd in Hf. now apply (IH w).
Qed.

Lemma first_wins_no_panic h : forall w, first_wins w h = true ->
  forall o, ~ In (o, RPanic) h.
Proof.
  induction h as [|[o r] h IH]; intros w Hf o' Hin; [destruct Hin|].
  simpl in Hf. apply andb_true_iff in Hf as [Hr Hf]. apply res_eqb_eq in Hr.
  destruct Hin as [[= -> ->]|Hin]; [destruct o', w; discriminate|].
  eapply IH; eassumption.
Qed.

Lemma first_wins_one_winner h : forall w, first_wins w h = true ->
  In (OpAck, RBool true) h -> In (OpNack, RBool true) h -> False.
Proof.
  induction h as [|[o r] h IH]; intros w Hf HA HN; [destruct HA|].
  simpl in Hf. apply andb_true_iff in Hf as [Hr Hf]. apply res_eqb_eq in Hr.
  destruct (decide w o) eqn:Ed.
  - (* still undecided: the head is a read *)
    assert (w = Unsettled /\ is_read o = true) as [-> Hro]
      by (destruct w, o; simpl in Ed; try discriminate; split; reflexivity).
    destruct HA as [[= -> ->]|HA]; [discriminate|].
    destruct HN as [[= -> ->]|HN]; [discriminate|].
    eapply IH; eassumption.
  - (* decided: acked *)
    assert (Hx : forall o' r', In (o', r') h -> r' = expect Acked o').
    { intros o' r'. apply (first_wins_fixed h Acked); [discriminate|exact Hf]. }
    destruct HN as [[= -> ->]|HN].
    + destruct w; simpl in Ed, Hr; discriminate.
    + apply Hx in HN. discriminate.
  - (* decided: nacked *)
    assert (Hx : forall o' r', In (o', r') h -> r' = expect Nacked o').
    { intros o' r'. apply (first_wins_fixed h Nacked); [discriminate|exact Hf]. }
    destruct HA as [[= -> ->]|HA].
    + destruct w; simpl in Ed, Hr; discriminate.
    + apply Hx in HA. discriminate.
Qed.

(** * Same winner for all concurrent callers *)

Lemma op_eqb_eq a b : op_eqb a b = true -> a = b.
Proof. destruct a, b; simpl; intros H; try discriminate; reflexivity. Qed.

Lemma tauto_step_err t e : tauto_step t TErr e = TErr.
Proof. destruct e as [t' o|t' o r|t' o r]; simpl; destruct (Nat.eqb t' t); reflexivity. Qed.

Lemma tauto_lin t h : forall o r, tauto t h = TLin o r -> In (ELin t o r) h.
Proof.
  induction h as [|e h IH]; intros o r H; [discriminate|].
  simpl in H. destruct e as [t' o'|t' o' r'|t' o' r']; simpl in H;
    destruct (Nat.eqb t' t) eqn:Et.
  - destruct (tauto t h); discriminate.
  - right. now apply IH.
  - apply Nat.eqb_eq in Et. subst t'.
    destruct (tauto t h) as [|o''| |]; try discriminate.
    destruct (op_eqb o' o''); [|discriminate]. inversion H; subst. now left.
  - right. now apply IH.
  - destruct (tauto t h) as [| |o'' r''|]; try discriminate.
    destruct (op_eqb o' o'' && res_eqb r' r''); discriminate.
  - right. now apply IH.
Qed.

Lemma ret_has_lin t h : tauto t h <> TErr ->
  forall o r, In (ERet t o r) h -> In (ELin t o r) h.
Proof.
  induction h as [|e h IH]; intros Hne o r Hin; [destruct Hin|].
  assert (Hne' : tauto t h <> TErr).
  { intros E. apply Hne. simpl. rewrite E. apply tauto_step_err. }
  destruct Hin as [->|Hin]; [|right; now apply IH].
  right. simpl in Hne. rewrite Nat.eqb_refl in Hne.
  destruct (tauto t h) as [| |o' r'|] eqn:Ea; try (now destruct Hne).
  destruct (op_eqb o o') eqn:Eo; [|now destruct Hne].
  destruct (res_eqb r r') eqn:Er; [|now destruct Hne].
  apply op_eqb_eq in Eo. apply res_eqb_eq in Er. subst. now apply tauto_lin.
Qed.

Lemma combine_app {A B} (l1 : list A) : forall (l1' : list B) l2 l2',
  length l1 = length l1' ->
  combine (l1 ++ l2) (l1' ++ l2') = combine l1 l1' ++ combine l2 l2'.
Proof.
  induction l1 as [|x l1 IH]; intros [|y l1'] l2 l2' H; simpl in *; try discriminate.
  - reflexivity.
  - f_equal. apply IH. congruence.
Qed.

Lemma lin_in_combine h t o r :
  In (ELin t o r) h -> In (o, r) (combine (lin_ops h) (lin_res h)).
Proof.
  induction h as [|e h IH]; intros Hin; [destruct Hin|].
  assert (Hlen : length (lin_ops h) = length (lin_res h)).
  { clear. induction h as [|e h IH]; [reflexivity|].
    simpl. rewrite !app_length, IH. destruct e; reflexivity. }
  simpl. destruct Hin as [->|Hin].
  - rewrite combine_app by exact Hlen. apply in_or_app. right. now left.
  - destruct e; rewrite ?app_nil_r; try (now apply IH).
    rewrite combine_app by exact Hlen. apply in_or_app. left. now apply IH.
Qed.

Theorem same_winner c progs sched :
  let s := crun (cinit c progs) sched in
  (forall t1 t2, In (ERet t1 OpAck (RBool true)) (hist s) ->
                 In (ERet t2 OpNack (RBool true)) (hist s) -> False)
  /\ (forall t o, ~ In (ERet t o RPanic) (hist s)).
Proof.
  intros s. destruct (linearizable c progs sched) as (Hlin & Haut & _ & _). fold s in Hlin, Haut.
  pose proof (run_first_wins (lin_ops (hist s)) (init c) (chan_ok_init c)) as Hfw.
  rewrite Hlin in Hfw.
  split.
  - intros t1 t2 H1 H2.
    apply ret_has_lin in H1; [|apply Haut]. apply ret_has_lin in H2; [|apply Haut].
    apply lin_in_combine in H1. apply lin_in_combine in H2.
    eapply first_wins_one_winner; eassumption.
  - intros t o H. apply ret_has_lin in H; [|apply Haut]. apply lin_in_combine in H.
    eapply first_wins_no_panic; eassumption.
Qed.
