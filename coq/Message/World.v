(** Model of message objects as a program sees them (message/message.go: NewMessage, the zero
    value, Copy, Ack/Nack/Acked/Nacked, Metadata Set/Get through the message's map, SetContext /
    Context, UUID and Payload): a world of any number of messages, created by NewMessage, by
    &Message{} or by Copy() of an existing one.  Every message carries its own C03 settlement
    state ([Message/Model.v] [mstate]); the metadata map is a REFERENCE into a heap of maps (Go
    maps are references: two messages holding the same map would see each other's Set), Copy()
    allocates a fresh map and Sets every entry of the source into it; the context is a field
    (0 = nil, which Context() reports as context.Background()).  Strings are numbers (interned by
    the harness, 0 = "" = absent key).  Executable; no proofs here.

    Not modelled: in-place writes into the bytes of Payload (Copy() shares the slice: the bytes
    are the same array), Equals. *)
From WM Require Import Base.Prelude Message.Model.

Record mobj := MO {
  o_uuid : N;
  o_payload : list N;
  o_meta : option nat;       (* reference of the metadata map; None = nil map (zero value) *)
  o_set : mstate;            (* ack / noAck channels + ackSentType *)
  o_ctx : N                  (* 0 = nil *)
}.

Record world := W {
  w_n : nat;                 (* messages allocated so far: ids 0 .. w_n - 1 *)
  w_obj : nat -> mobj;
  w_nm : nat;                (* metadata maps allocated so far *)
  w_meta : nat -> N -> N     (* map reference -> key -> value (0 = absent) *)
}.

Definition dummy_obj : mobj := MO 0 [] None (init CtorZero) 0.
Definition wempty : world := W 0 (fun _ => dummy_obj) 0 (fun _ _ => 0%N).

Inductive wop :=
| WNew (uuid : N) (payload : list N)     (* NewMessage(uuid, payload) *)
| WZero                                  (* &message.Message{} *)
| WCopy (i : nat)                        (* message i .Copy() *)
| WSettle (i : nat) (o : op)             (* Ack / Nack / receive on Acked() / Nacked() of message i *)
| WMetaSet (i : nat) (k v : N)           (* message i .Metadata.Set(k, v) *)
| WMetaGet (i : nat) (k : N)             (* message i .Metadata.Get(k) *)
| WSetCtx (i : nat) (c : N)              (* message i .SetContext(c) *)
| WGetCtx (i : nat)                      (* message i .Context(): 0 = context.Background() *)
| WContent (i : nat).                    (* message i .UUID, .Payload *)

Inductive wres :=
| WId (i : nat)                          (* the new message *)
| WRes (r : res)
| WUnit
| WVal (v : N)
| WCont (uuid : N) (payload : list N)
| WPanic                                 (* assignment to an entry of a nil map *)
| WBad.                                  (* no such message: not a program *)

Definition set_set (o : mobj) (m : mstate) : mobj := MO (o_uuid o) (o_payload o) (o_meta o) m (o_ctx o).
Definition set_ctx (o : mobj) (c : N) : mobj := MO (o_uuid o) (o_payload o) (o_meta o) (o_set o) c.

Definition updN (f : N -> N) (k v : N) : N -> N := fun k' => if N.eqb k' k then v else f k'.

(** Metadata.Get through message i's map; a nil map reads as empty *)
Definition meta_get (w : world) (i : nat) (k : N) : N :=
  match o_meta (w_obj w i) with Some r => w_meta w r k | None => 0%N end.

Definition wstep (w : world) (o : wop) : world * wres :=
  let n := w_n w in
  match o with
  | WNew u p =>
      (W (S n) (upd (w_obj w) n (MO u p (Some (w_nm w)) (init CtorNew) 0))
         (S (w_nm w)) (upd (w_meta w) (w_nm w) (fun _ => 0%N)), WId n)
  | WZero =>
      (W (S n) (upd (w_obj w) n (MO 0 [] None (init CtorZero) 0)) (w_nm w) (w_meta w), WId n)
  | WCopy i =>
      if Nat.ltb i n then
        let src := w_obj w i in
        (* msg := NewMessage(m.UUID, m.Payload); for k, v := range m.Metadata { msg.Metadata.Set(k, v) }:
           a fresh map that ends up with exactly the entries of the source (none for a nil map);
           fresh channels, ackSentType = noAckSent; the context is not propagated *)
        (W (S n) (upd (w_obj w) n (MO (o_uuid src) (o_payload src) (Some (w_nm w)) (init CtorCopy) 0))
           (S (w_nm w)) (upd (w_meta w) (w_nm w) (meta_get w i)), WId n)
      else (w, WBad)
  | WSettle i op =>
      if Nat.ltb i n then
        let '(m', r) := step (o_set (w_obj w i)) op in
        (W n (upd (w_obj w) i (set_set (w_obj w i) m')) (w_nm w) (w_meta w), WRes r)
      else (w, WBad)
  | WMetaSet i k v =>
      if Nat.ltb i n then
        match o_meta (w_obj w i) with
        | Some r => (W n (w_obj w) (w_nm w) (upd (w_meta w) r (updN (w_meta w r) k v)), WUnit)
        | None => (w, WPanic)
        end
      else (w, WBad)
  | WMetaGet i k => if Nat.ltb i n then (w, WVal (meta_get w i k)) else (w, WBad)
  | WSetCtx i c =>
      if Nat.ltb i n then (W n (upd (w_obj w) i (set_ctx (w_obj w i) c)) (w_nm w) (w_meta w), WUnit)
      else (w, WBad)
  | WGetCtx i => if Nat.ltb i n then (w, WVal (o_ctx (w_obj w i))) else (w, WBad)
  | WContent i => if Nat.ltb i n then (w, WCont (o_uuid (w_obj w i)) (o_payload (w_obj w i))) else (w, WBad)
  end.

Fixpoint wrun (w : world) (ops : list wop) : world * list wres :=
  match ops with
  | [] => (w, [])
  | o :: ops' =>
      let '(w1, r) := wstep w o in
      let '(w2, rs) := wrun w1 ops' in
      (w2, r :: rs)
  end.

(** ** projections *)
(** the Ack/Nack/read calls made on message [j], in order *)
Definition settle_proj (j : nat) (ops : list wop) : list op :=
  flat_map (fun o => match o with WSettle i op => if Nat.eqb i j then [op] else [] | _ => [] end) ops.
(** ... paired with what they returned (calls on a message that does not exist are not calls) *)
Definition settle_hist (j : nat) (ops : list wop) (rs : list wres) : list (op * res) :=
  flat_map (fun p => match p with
                     | (WSettle i o, WRes r) => if Nat.eqb i j then [(o, r)] else []
                     | _ => [] end) (combine ops rs).

Definition is_ctx_op (o : wop) : bool :=
  match o with WSetCtx _ _ | WGetCtx _ => true | _ => false end.
Definition strip_ctx (ops : list wop) : list wop := filter (fun o => negb (is_ctx_op o)) ops.

(** ** the acceptor for an observed world history (operations + results of the REAL messages):
    every message, projected onto its own Ack/Nack/read calls, is a first-wins history — a
    Copy() included, whatever state its source was in, whatever happened to other messages *)
Definition world_monitor (ops : list wop) (rs : list wres) : bool :=
  forallb (fun j => seq_monitor (settle_hist j ops rs)) (seq 0 (length ops)).
