(** Model of message.Message settlement (message/message.go: Ack, Nack, Acked, Nacked,
    NewMessage, Copy, zero value).  Sequential, executable.  No proofs here. *)
From WM Require Import Base.Prelude.

Inductive settle := Unsettled | Acked | Nacked.
(** a Go channel of struct{} that is only ever closed, never sent on *)
Inductive chanst := CNil | COpen | CClosed.

Record mstate := MS { st : settle; ackc : chanst; nackc : chanst; panicked : bool }.

(** how the message object was built *)
Inductive ctor := CtorNew | CtorCopy | CtorZero.
Definition init (c : ctor) : mstate :=
  match c with
  | CtorNew | CtorCopy => MS Unsettled COpen COpen false   (* NewMessage makes both channels *)
  | CtorZero => MS Unsettled CNil CNil false               (* &message.Message{} *)
  end.

Inductive op := OpAck | OpNack | OpReadAcked | OpReadNacked.

(** results: a bool for Ack/Nack, for a (non-blocking) receive on the channel whether
    it is closed ([RClosed]) or the receive would block ([RBlocks]); [RPanic] if the call
    panicked. *)
Inductive res := RBool (b : bool) | RClosed | RBlocks | RPanic.

(** [close(ch)] with the closedchan substitution for a nil channel, as coded:
    if m.ack == nil { m.ack = closedchan } else { close(m.ack) } ;
    closing a closed channel panics. *)
Definition close_chan (c : chanst) : chanst * bool :=
  match c with
  | CNil => (CClosed, false)
  | COpen => (CClosed, false)
  | CClosed => (CClosed, true)
  end.

Definition read_chan (c : chanst) : res :=
  match c with CClosed => RClosed | _ => RBlocks end.

Definition step (s : mstate) (o : op) : mstate * res :=
  match o with
  | OpAck =>
      match st s with
      | Nacked => (s, RBool false)
      | Acked => (s, RBool true)
      | Unsettled =>
          let '(c, p) := close_chan (ackc s) in
          (MS Acked c (nackc s) (panicked s || p), if p then RPanic else RBool true)
      end
  | OpNack =>
      match st s with
      | Acked => (s, RBool false)
      | Nacked => (s, RBool true)
      | Unsettled =>
          let '(c, p) := close_chan (nackc s) in
          (MS Nacked (ackc s) c (panicked s || p), if p then RPanic else RBool true)
      end
  | OpReadAcked => (s, read_chan (ackc s))
  | OpReadNacked => (s, read_chan (nackc s))
  end.

Fixpoint run (s : mstate) (ops : list op) : mstate * list res :=
  match ops with
  | [] => (s, [])
  | o :: ops' =>
      let '(s1, r) := step s o in
      let '(s2, rs) := run s1 ops' in
      (s2, r :: rs)
  end.

Definition run_from (c : ctor) (ops : list op) : list res := snd (run (init c) ops).

(** The property as an executable acceptor over an observed (operation, result) history of
    ONE message used sequentially: the first Ack/Nack decides; afterwards Ack returns true iff
    acked, Nack iff nacked; reads report closed exactly for the decided channel; nothing
    panics.  This is the oracle applied to implementation histories. *)
Definition expect (w : settle) (o : op) : res :=
  match o, w with
  | OpAck, Nacked => RBool false
  | OpAck, _ => RBool true
  | OpNack, Acked => RBool false
  | OpNack, _ => RBool true
  | OpReadAcked, Acked => RClosed
  | OpReadAcked, _ => RBlocks
  | OpReadNacked, Nacked => RClosed
  | OpReadNacked, _ => RBlocks
  end.

Definition decide (w : settle) (o : op) : settle :=
  match w, o with
  | Unsettled, OpAck => Acked
  | Unsettled, OpNack => Nacked
  | _, _ => w
  end.

Definition res_eqb (a b : res) : bool :=
  match a, b with
  | RBool x, RBool y => Bool.eqb x y
  | RClosed, RClosed | RBlocks, RBlocks | RPanic, RPanic => true
  | _, _ => false
  end.

Fixpoint first_wins (w : settle) (h : list (op * res)) : bool :=
  match h with
  | [] => true
  | (o, r) :: h' => res_eqb r (expect w o) && first_wins (decide w o) h'
  end.

Definition seq_monitor (h : list (op * res)) : bool := first_wins Unsettled h.
