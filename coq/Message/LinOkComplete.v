(** The converse of Message/LinOkProofs.v: whatever stamped call history [lin_ok] accepts HAS a
    linearization — a permutation of the calls that respects the real-time order (no call is
    placed before one that returned before it was invoked) and whose sequential run on the C03
    model, from any constructor, gives every call its observed result. *)
From Coq Require Import Sorting.Sorted Sorting.Permutation.
From WM Require Import Base.Prelude Message.Model Message.Conc Message.Proofs Message.Monitor.

(** * insertion sort of tagged calls *)
Definition tc := (N * call)%type.
Definition le' (a b : tc) : Prop := (fst a <= fst b)%N.

Fixpoint ins (x : tc) (l : list tc) : list tc :=
  match l with
  | [] => [x]
  | y :: l' => if N.leb (fst x) (fst y) then x :: l else y :: ins x l'
  end.
Fixpoint isort (l : list tc) : list tc :=
  match l with [] => [] | x :: l' => ins x (isort l') end.

Lemma ins_perm x l : Permutation (ins x l) (x :: l).
Proof.
  induction l as [|y l IH]; simpl; [reflexivity|].
  destruct (N.leb (fst x) (fst y)); [reflexivity|].
  rewrite IH. apply perm_swap.
Qed.

Lemma isort_perm l : Permutation (isort l) l.
Proof. induction l as [|x l IH]; simpl; [reflexivity|]. rewrite ins_perm. now constructor. Qed.

Lemma ins_hdrel a x l : HdRel le' a l -> le' a x -> HdRel le' a (ins x l).
Proof.
  intros H Hx. destruct l as [|y l]; simpl; [now constructor|].
  destruct (N.leb (fst x) (fst y)); constructor; [exact Hx|]. now inversion H.
Qed.

Lemma ins_sorted x l : Sorted le' l -> Sorted le' (ins x l).
Proof.
  induction 1 as [|y l Hs IH Hh]; simpl; [repeat constructor|].
  destruct (N.leb (fst x) (fst y)) eqn:E.
  - constructor; [now constructor|]. constructor. now apply N.leb_le.
  - constructor; [exact IH|]. apply ins_hdrel; [exact Hh|].
    apply N.leb_gt in E. unfold le'. lia.
Qed.

Lemma isort_sorted l : StronglySorted le' (isort l).
Proof.
  apply Sorted_StronglySorted.
  - intros a b c H1 H2. unfold le' in *. lia.
  - induction l as [|x l IH]; simpl; [constructor|now apply ins_sorted].
Qed.

(** * sequential histories *)
Definition okU (c : call) : Prop := is_read (c_op c) = true /\ c_res c = RBlocks.
Definition okW (w : settle) (c : call) : Prop := c_res c = expect w (c_op c).
Definition hist_of (l : list call) : list (op * res) := map (fun c => (c_op c, c_res c)) l.

Lemma fw_after w l : w <> Unsettled -> Forall (okW w) l -> first_wins w (hist_of l) = true.
Proof.
  intros Hw. induction 1 as [|c l Hc _ IH]; simpl; [reflexivity|].
  rewrite Hc, res_eqb_refl. simpl.
  assert (Hd : decide w (c_op c) = w) by (destruct w, (c_op c); simpl; congruence).
  now rewrite Hd.
Qed.

Lemma fw_allU l : Forall okU l -> first_wins Unsettled (hist_of l) = true.
Proof.
  induction 1 as [|c l [Hr Hb] _ IH]; simpl; [reflexivity|].
  rewrite Hb. destruct (c_op c); try discriminate; simpl; exact IH.
Qed.

Lemma fw_sorted w D (lt : list tc) : w <> Unsettled -> StronglySorted le' lt ->
  (exists e, In e lt /\ fst e = D) ->
  Forall (fun e => ((fst e < D)%N -> okU (snd e))
                   /\ (fst e = D -> c_op (snd e) = win_op w /\ c_res (snd e) = RBool true)
                   /\ ((D < fst e)%N -> okW w (snd e))) lt ->
  first_wins Unsettled (hist_of (map snd lt)) = true.
Proof.
  intros Hw. induction lt as [|e lt IH]; intros Hs Hex Hg.
  - destruct Hex as (e & [] & _).
  - inversion Hs as [|? ? Hs' Hall]; subst. inversion Hg as [|? ? (G1 & G2 & G3) Hg']; subst.
    destruct (N.lt_trichotomy (fst e) D) as [Hlt|[Heq|Hgt]].
    + destruct (G1 Hlt) as [Hr Hb]. simpl. rewrite Hb.
      destruct (c_op (snd e)); try discriminate; simpl; apply IH; auto;
        destruct Hex as (e0 & [<-|Hin] & He0); try lia; eauto.
    + destruct (G2 Heq) as [Ho Hr]. simpl. rewrite Ho, Hr.
      assert (Hl : Forall (okW w) (map snd lt)).
      { apply Forall_forall. intros c Hc. apply in_map_iff in Hc as (x & <- & Hx).
        rewrite Forall_forall in Hall, Hg'. specialize (Hall x Hx). unfold le' in Hall.
        destruct (Hg' x Hx) as (_ & X2 & X3).
        destruct (N.eq_dec (fst x) D) as [E|E].
        - destruct (X2 E) as [Xo Xr]. unfold okW. rewrite Xo, Xr. destruct w; try congruence; reflexivity.
        - apply X3. lia. }
      destruct w; [congruence| |]; simpl; apply fw_after; try discriminate; exact Hl.
    + exfalso. destruct Hex as (e0 & [<-|Hin] & He0); [lia|].
      rewrite Forall_forall in Hall. specialize (Hall e0 Hin). unfold le' in Hall. lia.
Qed.

Lemma fw_run l : forall m, chan_ok m -> first_wins (st m) (hist_of l) = true ->
  snd (run m (map c_op l)) = map c_res l.
Proof.
  induction l as [|c l IH]; intros m Hm H; [reflexivity|].
  simpl in H. apply andb_true_iff in H as [H1 H2]. apply res_eqb_eq in H1.
  simpl map. rewrite run_cons. cbn [snd]. rewrite step_expect by exact Hm. rewrite <- H1.
  f_equal. apply IH; [now apply step_chan_ok|]. now rewrite step_decide.
Qed.

Definition rt (a b : call) : Prop := ~ (c_ret b < c_inv a)%N.

Lemma rt_sorted lt : StronglySorted le' lt ->
  Forall (fun e => (3 * c_inv (snd e) <= fst e <= 3 * c_ret (snd e) + 2)%N) lt ->
  StronglySorted rt (map snd lt).
Proof.
  induction 1 as [|a lt Hs IH Hall]; intros Hb; simpl; [constructor|].
  inversion Hb as [|? ? Ba Hb']; subst. constructor; [now apply IH|].
  apply Forall_forall. intros c Hc. apply in_map_iff in Hc as (x & <- & Hx).
  rewrite Forall_forall in Hall, Hb'. specialize (Hall x Hx). specialize (Hb' x Hx).
  unfold le' in Hall. unfold rt. lia.
Qed.

(** * reading the acceptor backwards *)
Lemma maxN_ge l x : In x l -> (x <= maxN l)%N.
Proof.
  unfold maxN.
  assert (G : forall l a, (a <= fold_left N.max l a)%N /\ forall y, In y l -> (y <= fold_left N.max l a)%N).
  { induction l0 as [|z l0 IH]; intros a; simpl; [split; [lia|intros y []]|].
    destruct (IH (N.max a z)) as [I1 I2]. split; [lia|].
    intros y [<-|Hy]; [lia|now apply I2]. }
  intros H. now apply (G l 0%N).
Qed.

Lemma minN_le l : forall a, exists m, minN (a :: l) = Some m /\ (m <= a)%N /\ forall y, In y l -> (m <= y)%N.
Proof.
  unfold minN. simpl. induction l as [|z l IH]; intros a; simpl.
  - exists a. repeat split; [lia|intros y []].
  - destruct (IH (N.min z a)) as (m & Hm & H1 & H2). exists m. repeat split; [exact Hm|lia|].
    intros y [<-|Hy]; [lia|now apply H2].
Qed.

Lemma is_op_eq o c : is_op o c = true -> c_op c = o.
Proof. unfold is_op. destruct o, (c_op c); intros H; try discriminate; reflexivity. Qed.

Definition obs_le (lo : N) (w : settle) (c : call) : Prop :=
  match observes w c with
  | None => False
  | Some false => is_op (win_read w) c = true -> (c_inv c <= lo)%N
  | Some true => (lo < c_ret c)%N
  end.

Lemma try_decider_elim w L i : try_decider w L i = true ->
  exists d lo, nth_error L i = Some d /\ c_op d = win_op w /\ c_res d = RBool true
    /\ (c_inv d <= lo < c_ret d)%N
    /\ forall c, In c (remove_nth i L) -> obs_le lo w c.
Proof.
  unfold try_decider. destruct (nth_error L i) as [d|]; [|discriminate].
  cbv zeta. intros H.
  apply andb_true_iff in H as [H H2]. apply andb_true_iff in H as [Ho Hr].
  apply andb_true_iff in H2 as [Hf Hb].
  match type of Hb with below (N.max _ (maxN ?pre)) (minN (?a :: ?post)) = true =>
    set (PRE := pre) in *; set (POST := post) in *;
    destruct (minN_le POST a) as (m & Hm & Hma & Hmp) end.
  rewrite Hm in Hb. unfold below in Hb. apply N.ltb_lt in Hb.
  exists d, (N.max (c_inv d) (maxN PRE)).
  split; [reflexivity|]. split; [now apply is_op_eq|].
  split; [unfold is_res in Hr; now apply res_eqb_eq in Hr|].
  split; [lia|].
  intros c Hc. unfold obs_le.
  rewrite forallb_forall in Hf.
  assert (Hin : In (c, observes w c) (map (fun c => (c, observes w c)) (remove_nth i L)))
    by (apply in_map_iff; eauto).
  specialize (Hf _ Hin). simpl in Hf.
  destruct (observes w c) as [[|]|] eqn:Eo; [| |discriminate].
  - assert (In (c_ret c) POST).
    { apply in_flat_map. exists (c, Some true). split; [exact Hin|]. simpl. now left. }
    specialize (Hmp _ H). lia.
  - intros Hwr. assert (In (c_inv c) PRE).
    { apply in_flat_map. exists (c, Some false). split; [exact Hin|]. simpl. rewrite Hwr. now left. }
    apply maxN_ge in H. lia.
Qed.

Lemma perm_remove_nth {A} (L : list A) : forall i d, nth_error L i = Some d ->
  Permutation (d :: remove_nth i L) L.
Proof.
  induction L as [|x L IH]; intros i d H; [destruct i; discriminate|].
  destruct i; simpl in *.
  - inversion H. reflexivity.
  - rewrite perm_swap. constructor. now apply IH.
Qed.

(** the tag of a call other than the decider: 3 * (its linearisation stamp) + class *)
Definition tagc (w : settle) (c : call) : N :=
  match observes w c with
  | Some true => 3 * c_ret c + 2
  | Some false => if is_op (win_read w) c then 3 * c_inv c else 3 * c_inv c + 2
  | None => 0
  end%N.


Lemma good_rest w lo c : w <> Unsettled -> (c_inv c <= c_ret c)%N -> obs_le lo w c ->
  (((tagc w c < 3 * lo + 1)%N -> okU c)
   /\ (tagc w c = (3 * lo + 1)%N -> c_op c = win_op w /\ c_res c = RBool true)
   /\ ((3 * lo + 1 < tagc w c)%N -> okW w c))
  /\ (3 * c_inv c <= tagc w c <= 3 * c_ret c + 2)%N.
Proof.
  intros Hw Hi Hobs. destruct c as [ci cr o r]. unfold obs_le, tagc, okU, okW in *.
  destruct w; [congruence| |]; destruct o; destruct r as [[|]| | |];
    cbn -[N.mul N.add N.lt N.le] in *; try (now destruct Hobs);
    try (specialize (Hobs eq_refl));
    (split; [split; [|split]|]); intros;
    first [ lia | exfalso; lia | (split; reflexivity) | reflexivity ].
Qed.

Lemma map_snd_tag (f : call -> N) l : map snd (map (fun c => (f c, c)) l) = l.
Proof. induction l as [|x l IH]; simpl; [reflexivity|now rewrite IH]. Qed.

(** * the theorem *)
Theorem lin_ok_complete h : (forall c, In c h -> (c_inv c <= c_ret c)%N) -> lin_ok h = true ->
  exists l, Permutation l h
    /\ StronglySorted (fun a b => ~ (c_ret b < c_inv a)%N) l
    /\ forall c0 : ctor, snd (run (init c0) (map c_op l)) = map c_res l.
Proof.
  intros Hwf H. unfold lin_ok in H. apply andb_true_iff in H as [_ H]. cbv zeta in H.
  assert (Hrun : forall l, first_wins Unsettled (hist_of l) = true ->
            forall c0 : ctor, snd (run (init c0) (map c_op l)) = map c_res l).
  { intros l Hl c0. apply fw_run; [apply chan_ok_init|]. now destruct c0. }
  assert (Hdec : forall w, w <> Unsettled ->
            existsb (try_decider w h) (seq 0 (length h)) = true ->
            exists l, Permutation l h /\ StronglySorted rt l /\ first_wins Unsettled (hist_of l) = true).
  { intros w Hw He. apply existsb_exists in He as (i & _ & Hi).
    apply try_decider_elim in Hi as (d & lo & Hn & Hdo & Hdr & Hdl & Hrest).
    set (rest := remove_nth i h) in *.
    set (tagged := ((3 * lo + 1)%N, d) :: map (fun c => (tagc w c, c)) rest).
    assert (Hperm : Permutation (map snd tagged) h).
    { simpl. rewrite map_snd_tag. now apply perm_remove_nth. }
    assert (Hgood : forall c, In c rest -> _) by
      (intros c Hc; apply (good_rest w lo c Hw);
       [apply Hwf; eapply Permutation_in; [exact Hperm|]; simpl; rewrite map_snd_tag; now right
       |now apply Hrest]).
    assert (HdIn : In d h) by (eapply nth_error_In; eauto).
    exists (map snd (isort tagged)). split; [|split].
    - rewrite <- Hperm. apply Permutation_map, isort_perm.
    - apply rt_sorted; [apply isort_sorted|].
      apply Forall_forall. intros e He. apply (Permutation_in _ (isort_perm tagged)) in He.
      destruct He as [<-|He]; [cbn [fst snd]; specialize (Hwf d HdIn); lia|].
      apply in_map_iff in He as (c & <- & Hc). cbn [fst snd]. apply (Hgood c Hc).
    - apply (fw_sorted w (3 * lo + 1)%N); [exact Hw|apply isort_sorted| |].
      + exists ((3 * lo + 1)%N, d). split; [|reflexivity].
        apply (Permutation_in _ (Permutation_sym (isort_perm tagged))). now left.
      + apply Forall_forall. intros e He. apply (Permutation_in _ (isort_perm tagged)) in He.
        destruct He as [<-|He]; cbn [fst snd].
        * split; [intros; lia|split; [intros _; split; assumption|intros; lia]].
        * apply in_map_iff in He as (c & <- & Hc). cbn [fst snd]. apply (Hgood c Hc). }
  destruct (existsb (fun c => is_op OpAck c && is_res (RBool true) c) h) eqn:Ea;
    destruct (existsb (fun c => is_op OpNack c && is_res (RBool true) c) h) eqn:En;
    simpl in H; try discriminate.
  - destruct (Hdec Acked) as (l & P & S & F); [discriminate|exact H|].
    exists l. split; [exact P|split; [exact S|now apply Hrun]].
  - destruct (Hdec Nacked) as (l & P & S & F); [discriminate|exact H|].
    exists l. split; [exact P|split; [exact S|now apply Hrun]].
  - (* nobody settled: only reads that block; any order sorted by invocation *)
    set (tagged := map (fun c => ((3 * c_inv c)%N, c)) h).
    exists (map snd (isort tagged)). split; [|split].
    + transitivity (map snd tagged); [apply Permutation_map, isort_perm|].
      unfold tagged. now rewrite map_snd_tag.
    + apply rt_sorted; [apply isort_sorted|].
      apply Forall_forall. intros e He. apply (Permutation_in _ (isort_perm tagged)) in He.
      apply in_map_iff in He as (c & <- & Hc). cbn [fst snd]. specialize (Hwf c Hc). lia.
    + apply Hrun. apply fw_allU. apply Forall_forall. intros c Hc.
      apply in_map_iff in Hc as (e & <- & He). apply (Permutation_in _ (isort_perm tagged)) in He.
      apply in_map_iff in He as (c & <- & Hc). simpl.
      rewrite forallb_forall in H. specialize (H c Hc).
      apply andb_true_iff in H as [H1 H2]. unfold is_res in H2. apply res_eqb_eq in H2.
      unfold okU. split; [|exact H2].
      unfold is_op in H1. destruct (c_op c); try reflexivity; discriminate.
Qed.
