(** [lin_ok], the linearizability acceptor applied to implementation histories, accepts the
    stamped call history of EVERY quiescent state of the thread-level model (any constructor,
    any number of goroutines, programs, schedules). *)
From WM Require Import Base.Prelude Message.Model Message.Conc Message.Proofs Message.Monitor.
From WM Require Import Message.ConcCalls.

(** * stamps, the decision, legality of the linearisation order *)
Lemma len_cons e h : len (e :: h) = N.succ (len h).
Proof. unfold len. simpl length. now rewrite Nat2N.inj_succ. Qed.

Definition wst (h : list event) : settle :=
  match dec h with None => Unsettled | Some (_, w) => w end.

Definition is_lin (e : event) : bool := match e with ELin _ _ _ => true | _ => false end.

Lemma dec_cons_nonlin e h : is_lin e = false -> dec (e :: h) = dec h.
Proof. intros H. simpl. destruct (dec h); [reflexivity|]. destruct e; try reflexivity; discriminate. Qed.

Lemma dec_decided h : forall T w, dec h = Some (T, w) -> w <> Unsettled.
Proof.
  induction h as [|e h IH]; intros T w H; [discriminate|].
  simpl in H. destruct (dec h) as [[T' w']|] eqn:E.
  - inversion H; subst. now apply (IH T).
  - destruct e as [t o|t o r|t o r]; try discriminate.
    destruct o; simpl in H; inversion H; discriminate.
Qed.

Lemma wst_cons_lin t o r h : wst (ELin t o r :: h) = decide (wst h) o.
Proof.
  unfold wst. simpl. destruct (dec h) as [[T w]|] eqn:E.
  - pose proof (dec_decided h T w E). destruct w, o; try reflexivity; congruence.
  - destruct o; reflexivity.
Qed.

Lemma wst_cons_nonlin e h : is_lin e = false -> wst (e :: h) = wst h.
Proof. intros H. unfold wst. now rewrite dec_cons_nonlin. Qed.

Fixpoint legal (h : list event) : Prop :=
  match h with
  | [] => True
  | ELin _ o r :: h' => r = expect (wst h') o /\ legal h'
  | _ :: h' => legal h'
  end.

Lemma st_run_wst c h : st (fst (run (init c) (lin_ops h))) = wst h.
Proof.
  induction h as [|e h IH]; [destruct c; reflexivity|].
  destruct e as [t o|t o r|t o r]; simpl lin_ops; rewrite ?app_nil_r.
  - rewrite wst_cons_nonlin by reflexivity. exact IH.
  - rewrite run_app. cbn [fst]. rewrite wst_cons_lin, <- IH.
    rewrite run_cons. cbn [fst run]. apply step_decide.
  - rewrite wst_cons_nonlin by reflexivity. exact IH.
Qed.

Lemma legal_of_run c h : snd (run (init c) (lin_ops h)) = lin_res h -> legal h.
Proof.
  induction h as [|e h IH]; intros H; [exact I|].
  destruct e as [t o|t o r|t o r]; simpl in H; rewrite ?app_nil_r in H; simpl legal.
  - now apply IH.
  - rewrite run_app in H. cbn [snd] in H.
    rewrite run_cons in H. cbn [snd fst run] in H.
    apply app_inj_tail in H as [H1 H2].
    split; [|now apply IH].
    rewrite <- H2, <- st_run_wst with (c := c). apply step_expect.
    apply run_chan_ok, chan_ok_init.
  - now apply IH.
Qed.

(** * the invariant on histories *)
Definition R (h : list event) (b : N) (o : op) (r : res) : Prop :=
  match dec h with
  | None => is_read o = true /\ r = RBlocks
  | Some (T, w) => ((b < T)%N -> is_read o = true /\ r = RBlocks)
                   /\ (b = T -> o = win_op w /\ r = RBool true)
                   /\ ((T < b)%N -> r = expect w o)
  end.

Record Inv2 (h : list event) : Prop := {
  j_T : forall T w, dec h = Some (T, w) -> (0 < T <= len h)%N /\ w <> Unsettled;
  j_calls : forall c, In c (calls_of h) ->
              exists b, (c_inv c < b < c_ret c)%N /\ (c_ret c <= len h)%N /\ R h b (c_op c) (c_res c);
  j_lin : forall t o r, tauto t h = TLin o r ->
              (inv_stamp t h < lin_stamp t h <= len h)%N /\ R h (lin_stamp t h) o r;
  j_inv : forall t o, tauto t h = TInv o -> (inv_stamp t h <= len h)%N;
  j_dec : forall T w, dec h = Some (T, w) ->
            (exists c, In c (calls_of h) /\ (c_inv c < T < c_ret c)%N
                       /\ c_op c = win_op w /\ c_res c = RBool true)
            \/ (exists t, tauto t h = TLin (win_op w) (RBool true) /\ lin_stamp t h = T)
}.

Lemma R_cons_nonlin e h b o r : is_lin e = false -> R (e :: h) b o r <-> R h b o r.
Proof. intros H. unfold R. rewrite dec_cons_nonlin by exact H. tauto. Qed.

Lemma tauto_tail t e h : tauto t (e :: h) <> TErr -> tauto t h <> TErr.
Proof. intros H E. apply H. simpl. rewrite E. apply tauto_step_err. Qed.

Lemma eqb_false a b : a <> b -> Nat.eqb a b = false.
Proof. intros H. now apply Nat.eqb_neq. Qed.

Lemma expect_unsettled o : expect Unsettled o = if is_read o then RBlocks else RBool true.
Proof. destruct o; reflexivity. Qed.

Lemma inv2_nil : Inv2 [].
Proof. constructor; simpl; intros; try discriminate; try contradiction. Qed.

Lemma inv2_cons e h : (forall t, tauto t (e :: h) <> TErr) -> legal (e :: h) -> Inv2 h -> Inv2 (e :: h).
Proof.
  intros Hta Hleg [JT JC JL JI JD].
  assert (Hlen := len_cons e h).
  destruct e as [t o|t o r|t o r].
  - (* EInv t o *)
    assert (Hd : dec (EInv t o :: h) = dec h) by (now apply dec_cons_nonlin).
    assert (HR : forall b o' r', R (EInv t o :: h) b o' r' <-> R h b o' r')
      by (intros; now apply R_cons_nonlin).
    constructor.
    + intros T w E. rewrite Hd in E. destruct (JT T w E). split; [lia|assumption].
    + intros c Hc. simpl in Hc. destruct (JC c Hc) as (b & H1 & H2 & H3).
      exists b. rewrite HR. repeat split; try lia; assumption.
    + intros t' o' r' E. simpl in E. simpl inv_stamp. simpl lin_stamp.
      destruct (Nat.eq_dec t t') as [->|Hne].
      * rewrite Nat.eqb_refl in E. destruct (tauto t' h); discriminate.
      * rewrite (eqb_false _ _ Hne) in *. destruct (JL t' o' r' E) as [H1 H2].
        rewrite HR. split; [lia|exact H2].
    + intros t' o' E. simpl in E. simpl inv_stamp.
      destruct (Nat.eq_dec t t') as [->|Hne].
      * rewrite Nat.eqb_refl. unfold stampN. lia.
      * rewrite (eqb_false _ _ Hne) in *. specialize (JI t' o' E). lia.
    + intros T w E. rewrite Hd in E. destruct (JD T w E) as [(c & H1 & H2)|(t0 & H1 & H2)].
      * left. exists c. split; [exact H1|exact H2].
      * right. exists t0. simpl. destruct (Nat.eq_dec t t0) as [->|Hne].
        -- exfalso. apply (Hta t0). simpl. rewrite Nat.eqb_refl, H1. reflexivity.
        -- rewrite (eqb_false _ _ Hne). split; assumption.
  - (* ELin t o r *)
    simpl in Hleg. destruct Hleg as [Hr Hleg].
    assert (Hti : exists o', tauto t h = TInv o' /\ o = o').
    { specialize (Hta t). simpl in Hta. rewrite Nat.eqb_refl in Hta.
      destruct (tauto t h) as [|o'| |]; try (now destruct Hta).
      exists o'. split; [reflexivity|]. destruct (op_eqb o o') eqn:Eo; [|now destruct Hta].
      now apply op_eqb_eq. }
    destruct Hti as (o' & Hti & <-).
    assert (Htl : tauto t (ELin t o r :: h) = TLin o r).
    { simpl. rewrite Nat.eqb_refl, Hti, op_eqb_refl. reflexivity. }
    assert (Hoth : forall t', t' <> t -> tauto t' (ELin t o r :: h) = tauto t' h
                                         /\ inv_stamp t' (ELin t o r :: h) = inv_stamp t' h
                                         /\ lin_stamp t' (ELin t o r :: h) = lin_stamp t' h).
    { intros t' Hne. simpl. rewrite (eqb_false t t') by congruence. repeat split. }
    assert (Hinvt : inv_stamp t (ELin t o r :: h) = inv_stamp t h) by reflexivity.
    assert (Hlint : lin_stamp t (ELin t o r :: h) = stampN h) by (simpl; now rewrite Nat.eqb_refl).
    pose proof (JI t o Hti) as Hib.
    destruct (dec h) as [[T w]|] eqn:Ed.
    + (* already decided *)
      assert (Hd : dec (ELin t o r :: h) = Some (T, w)) by (simpl; now rewrite Ed).
      assert (Hw : wst h = w) by (unfold wst; now rewrite Ed).
      assert (HR : forall b o' r', R (ELin t o r :: h) b o' r' <-> R h b o' r').
      { intros. unfold R. rewrite Hd, Ed. tauto. }
      destruct (JT T w eq_refl) as [HT Hwn].
      constructor.
      * intros T' w' E. rewrite Hd in E. inversion E; subst. split; [lia|assumption].
      * intros c Hc. simpl in Hc. destruct (JC c Hc) as (b & H1 & H2 & H3).
        exists b. rewrite HR. repeat split; try lia; assumption.
      * intros t' o' r' E. destruct (Nat.eq_dec t' t) as [->|Hne].
        -- rewrite Htl in E. inversion E; subst o' r'. rewrite Hinvt, Hlint.
           unfold stampN. split; [lia|]. unfold R. rewrite Hd.
           repeat split; try (intros; unfold stampN in *; lia).
           intros _. rewrite Hr, Hw. reflexivity.
        -- destruct (Hoth t' Hne) as (A1 & A2 & A3). rewrite A1 in E. rewrite A2, A3.
           destruct (JL t' o' r' E) as [H1 H2]. rewrite HR. split; [lia|exact H2].
      * intros t' o' E. destruct (Nat.eq_dec t' t) as [->|Hne].
        -- rewrite Htl in E. discriminate.
        -- destruct (Hoth t' Hne) as (A1 & A2 & A3). rewrite A1 in E. rewrite A2.
           specialize (JI t' o' E). lia.
      * intros T' w' E. rewrite Hd in E. inversion E; subst T' w'.
        destruct (JD T w eq_refl) as [(c & H1 & H2)|(t0 & H1 & H2)].
        -- left. exists c. split; [exact H1|exact H2].
        -- right. exists t0. destruct (Nat.eq_dec t0 t) as [->|Hne].
           ++ rewrite Hti in H1. discriminate.
           ++ destruct (Hoth t0 Hne) as (A1 & A2 & A3). rewrite A1, A3. split; assumption.
    + (* undecided so far *)
      assert (Hw : wst h = Unsettled) by (unfold wst; now rewrite Ed).
      rewrite Hw, expect_unsettled in Hr.
      destruct (is_read o) eqn:Ero.
      * (* a read that blocks *)
        assert (Hd : dec (ELin t o r :: h) = None) by (simpl; now rewrite Ed, Ero).
        assert (HR : forall b o' r', R (ELin t o r :: h) b o' r' <-> R h b o' r').
        { intros. unfold R. rewrite Hd, Ed. tauto. }
        constructor.
        -- intros T' w' E. rewrite Hd in E. discriminate.
        -- intros c Hc. simpl in Hc. destruct (JC c Hc) as (b & H1 & H2 & H3).
           exists b. rewrite HR. repeat split; try lia; assumption.
        -- intros t' o' r' E. destruct (Nat.eq_dec t' t) as [->|Hne].
           ++ rewrite Htl in E. inversion E; subst o' r'. rewrite Hinvt, Hlint.
              unfold stampN. split; [lia|]. unfold R. rewrite Hd. split; assumption.
           ++ destruct (Hoth t' Hne) as (A1 & A2 & A3). rewrite A1 in E. rewrite A2, A3.
              destruct (JL t' o' r' E) as [H1 H2]. rewrite HR. split; [lia|exact H2].
        -- intros t' o' E. destruct (Nat.eq_dec t' t) as [->|Hne].
           ++ rewrite Htl in E. discriminate.
           ++ destruct (Hoth t' Hne) as (A1 & A2 & A3). rewrite A1 in E. rewrite A2.
              specialize (JI t' o' E). lia.
        -- intros T' w' E. rewrite Hd in E. discriminate.
      * (* the deciding Ack / Nack *)
        set (T := stampN h). set (w := decide Unsettled o).
        assert (Hd : dec (ELin t o r :: h) = Some (T, w)) by (simpl; now rewrite Ed, Ero).
        assert (Hwo : o = win_op w /\ w <> Unsettled)
          by (subst w; destruct o; try discriminate; split; (reflexivity || discriminate)).
        assert (HRold : forall b o' r', (b <= len h)%N -> R h b o' r' -> R (ELin t o r :: h) b o' r').
        { intros b o' r' Hb Hold. unfold R in *. rewrite Hd. rewrite Ed in Hold.
          subst T. unfold stampN. split; [intros _; exact Hold|split; intros; lia]. }
        constructor.
        -- intros T' w' E. rewrite Hd in E. inversion E; subst T' w'.
           subst T. unfold stampN. split; [lia|apply Hwo].
        -- intros c Hc. simpl in Hc. destruct (JC c Hc) as (b & H1 & H2 & H3).
           exists b. repeat split; try lia. apply HRold; [lia|exact H3].
        -- intros t' o' r' E. destruct (Nat.eq_dec t' t) as [->|Hne].
           ++ rewrite Htl in E. inversion E; subst o' r'. rewrite Hinvt, Hlint.
              fold T. subst T. unfold stampN. split; [lia|]. unfold R. rewrite Hd.
              repeat split; try (intros; unfold stampN in *; lia); [apply Hwo|exact Hr].
           ++ destruct (Hoth t' Hne) as (A1 & A2 & A3). rewrite A1 in E. rewrite A2, A3.
              destruct (JL t' o' r' E) as [H1 H2]. split; [lia|]. apply HRold; [lia|exact H2].
        -- intros t' o' E. destruct (Nat.eq_dec t' t) as [->|Hne].
           ++ rewrite Htl in E. discriminate.
           ++ destruct (Hoth t' Hne) as (A1 & A2 & A3). rewrite A1 in E. rewrite A2.
              specialize (JI t' o' E). lia.
        -- intros T' w' E. rewrite Hd in E. inversion E; subst T' w'.
           right. exists t. rewrite Htl, Hlint. destruct Hwo as [<- _]. rewrite Hr. split; reflexivity.
  - (* ERet t o r *)
    assert (Hd : dec (ERet t o r :: h) = dec h) by (now apply dec_cons_nonlin).
    assert (HR : forall b o' r', R (ERet t o r :: h) b o' r' <-> R h b o' r')
      by (intros; now apply R_cons_nonlin).
    assert (Htl : tauto t h = TLin o r).
    { specialize (Hta t). simpl in Hta. rewrite Nat.eqb_refl in Hta.
      destruct (tauto t h) as [| |o' r'|]; try (now destruct Hta).
      destruct (op_eqb o o') eqn:Eo; [|now destruct Hta].
      destruct (res_eqb r r') eqn:Er; [|now destruct Hta].
      apply op_eqb_eq in Eo. apply res_eqb_eq in Er. now subst. }
    assert (Hoth : forall t', t' <> t -> tauto t' (ERet t o r :: h) = tauto t' h).
    { intros t' Hne. simpl. now rewrite (eqb_false t t') by congruence. }
    assert (Htt : tauto t (ERet t o r :: h) = TIdle).
    { simpl. rewrite Nat.eqb_refl, Htl, op_eqb_refl, res_eqb_refl. reflexivity. }
    destruct (JL t o r Htl) as [Hb HRt].
    constructor.
    + intros T w E. rewrite Hd in E. destruct (JT T w E). split; [lia|assumption].
    + intros c Hc. simpl in Hc. apply in_app_or in Hc as [Hc|[<-|[]]].
      * destruct (JC c Hc) as (b & H1 & H2 & H3).
        exists b. rewrite HR. repeat split; try lia; assumption.
      * exists (lin_stamp t h). simpl. rewrite HR. unfold stampN. repeat split; try lia. exact HRt.
    + intros t' o' r' E. simpl inv_stamp. simpl lin_stamp. destruct (Nat.eq_dec t' t) as [->|Hne].
      * rewrite Htt in E. discriminate.
      * rewrite Hoth in E by exact Hne. destruct (JL t' o' r' E) as [H1 H2].
        rewrite HR. split; [lia|exact H2].
    + intros t' o' E. simpl inv_stamp. destruct (Nat.eq_dec t' t) as [->|Hne].
      * rewrite Htt in E. discriminate.
      * rewrite Hoth in E by exact Hne. specialize (JI t' o' E). lia.
    + intros T w E. rewrite Hd in E. destruct (JD T w E) as [(c & H1 & H2)|(t0 & H1 & H2)].
      * left. exists c. split; [|exact H2]. simpl. apply in_or_app. now left.
      * destruct (Nat.eq_dec t0 t) as [->|Hne].
        -- left. rewrite Htl in H1. inversion H1; subst o r.
           exists (Call (inv_stamp t h) (stampN h) (win_op w) (RBool true)).
           split; [simpl; apply in_or_app; right; now left|]. simpl. unfold stampN.
           repeat split; lia.
        -- right. exists t0. rewrite Hoth by exact Hne. split; assumption.
Qed.

Lemma inv2_all h : (forall t, tauto t h <> TErr) -> legal h -> Inv2 h.
Proof.
  induction h as [|e h IH]; intros Hta Hleg; [apply inv2_nil|].
  apply inv2_cons; [exact Hta|exact Hleg|]. apply IH.
  - intros t. eapply tauto_tail, Hta.
  - destruct e; simpl in Hleg; tauto.
Qed.

(** * from the invariant to the acceptor *)
Lemma maxN_lt l T : (0 < T)%N -> (forall x, In x l -> (x < T)%N) -> (maxN l < T)%N.
Proof.
  unfold maxN. intros H0.
  assert (G : forall l a, (a < T)%N -> (forall x, In x l -> (x < T)%N) -> (fold_left N.max l a < T)%N).
  { induction l0 as [|y l0 IH]; intros a Ha Hl; simpl; [exact Ha|].
    apply IH; [|intros; apply Hl; now right]. specialize (Hl y (or_introl eq_refl)). lia. }
  intros Hl. now apply G.
Qed.

Lemma minN_gt l : forall a T, (T < a)%N -> (forall x, In x l -> (T < x)%N) ->
  exists m, minN (a :: l) = Some m /\ (T < m)%N.
Proof.
  unfold minN. simpl. induction l as [|y l IH]; intros a T Ha Hl; simpl; [eauto|].
  apply IH; [|intros; apply Hl; now right]. specialize (Hl y (or_introl eq_refl)). lia.
Qed.

Lemma in_remove_nth {A} (x : A) l : forall i, In x (remove_nth i l) -> In x l.
Proof.
  induction l as [|y l IH]; intros i H; [destruct i; exact H|].
  destruct i; simpl in H; [now right|]. destruct H as [->|H]; [now left|right; eapply IH; eauto].
Qed.

Lemma is_op_of o c : c_op c = o -> is_op o c = true.
Proof. intros <-. unfold is_op. destruct (c_op c); reflexivity. Qed.

Definition Rw (T : N) (w : settle) (b : N) (o : op) (r : res) : Prop :=
  ((b < T)%N -> is_read o = true /\ r = RBlocks)
  /\ (b = T -> o = win_op w /\ r = RBool true)
  /\ ((T < b)%N -> r = expect w o).

Definition obs_ok (T : N) (w : settle) (c : call) : Prop :=
  match observes w c with
  | None => False
  | Some false => is_op (win_read w) c = true -> (c_inv c < T)%N
  | Some true => (T < c_ret c)%N
  end.

Lemma classify T w c b : w <> Unsettled -> (c_inv c < b < c_ret c)%N -> Rw T w b (c_op c) (c_res c) ->
  obs_ok T w c /\ c_res c <> RPanic /\ ~ (c_op c = lose_op w /\ c_res c = RBool true).
Proof.
  intros Hw Hb (H1 & H2 & H3). destruct c as [ci cr o r]. unfold obs_ok. simpl in *.
  destruct (N.lt_trichotomy b T) as [Hlt|[Heq|Hgt]].
  - destruct (H1 Hlt) as [Hro ->].
    destruct w; try congruence; destruct o; try discriminate; cbn;
      (split; [first [lia | intros; lia]|split; [discriminate|intros [? ?]; discriminate]]).
  - destruct (H2 Heq) as [-> ->].
    destruct w; try congruence; cbn;
      (split; [first [lia | intros; lia]|split; [discriminate|intros [? ?]; discriminate]]).
  - rewrite (H3 Hgt).
    destruct w; try congruence; destruct o; cbn;
      (split; [first [lia | intros; lia]|split; [discriminate|intros [? ?]; discriminate]]).
Qed.

Lemma try_decider_intro L i d w T :
  nth_error L i = Some d -> c_op d = win_op w -> c_res d = RBool true ->
  (0 < T)%N -> (c_inv d < T < c_ret d)%N ->
  (forall c, In c L -> obs_ok T w c) -> try_decider w L i = true.
Proof.
  intros Hn Hop Hres H0 Hd Hall. unfold try_decider. rewrite Hn.
  rewrite (is_op_of _ _ Hop). unfold is_res at 1. rewrite Hres. simpl andb.
  assert (Hrest : forall c, In c (remove_nth i L) -> obs_ok T w c)
    by (intros c Hc; apply Hall; eapply in_remove_nth; eauto).
  cbv zeta. apply andb_true_intro. split.
  - apply forallb_forall. intros p Hp. apply in_map_iff in Hp as (c & <- & Hc). simpl.
    specialize (Hrest c Hc). unfold obs_ok in Hrest. destruct (observes w c); [reflexivity|destruct Hrest].
  - match goal with |- below (N.max _ (maxN ?pre)) (minN (?a :: ?post)) = true =>
      assert (Hpre : (maxN pre < T)%N); [|destruct (minN_gt post a T) as (m & Hm & Hlt)] end.
    + apply maxN_lt; [exact H0|]. intros x Hx.
      apply in_flat_map in Hx as (p & Hp & Hx). apply in_map_iff in Hp as (c & <- & Hc).
      specialize (Hrest c Hc). unfold obs_ok in Hrest. simpl in Hx.
      destruct (observes w c) as [[|]|]; try destruct Hx.
      destruct (is_op (win_read w) c); [|destruct Hx]. destruct Hx as [<-|[]]. now apply Hrest.
    + lia.
    + intros x Hx.
      apply in_flat_map in Hx as (p & Hp & Hx). apply in_map_iff in Hp as (c & <- & Hc).
      specialize (Hrest c Hc). unfold obs_ok in Hrest. simpl in Hx.
      destruct (observes w c) as [[|]|]; try (now destruct Hx). destruct Hx as [<-|[]]. exact Hrest.
    + rewrite Hm. unfold below. apply N.ltb_lt. lia.
Qed.

Lemma existsb_false {A} (f : A -> bool) l : (forall x, In x l -> f x = false) -> existsb f l = false.
Proof.
  intros H. destruct (existsb f l) eqn:E; [|reflexivity].
  apply existsb_exists in E as (x & Hx & Hf). rewrite (H x Hx) in Hf. discriminate.
Qed.

Theorem lin_ok_of_inv2 h : Inv2 h -> (forall t, tauto t h = TIdle) -> lin_ok (calls_of h) = true.
Proof.
  intros [JT JC JL JI JD] Hq. unfold lin_ok.
  destruct (dec h) as [[T w]|] eqn:Ed.
  - (* decided *)
    destruct (JT T w eq_refl) as [HT Hw].
    assert (Hcl : forall c, In c (calls_of h) ->
              obs_ok T w c /\ c_res c <> RPanic /\ ~ (c_op c = lose_op w /\ c_res c = RBool true)).
    { intros c Hc. destruct (JC c Hc) as (b & H1 & _ & H3). unfold R in H3. rewrite Ed in H3.
      eapply classify; eauto. }
    destruct (JD T w eq_refl) as [(d & Hd & Hdt & Hdo & Hdr)|(t0 & H1 & _)];
      [|rewrite Hq in H1; discriminate].
    assert (Hnp : forallb (fun c => negb (is_res RPanic c)) (calls_of h) = true).
    { apply forallb_forall. intros c Hc. destruct (Hcl c Hc) as (_ & Hp & _).
      unfold is_res. destruct (c_res c) as [[]| | |]; try reflexivity. now destruct Hp. }
    rewrite Hnp. rewrite andb_true_l. cbv zeta.
    assert (Hwin : existsb (fun c => is_op (win_op w) c && is_res (RBool true) c) (calls_of h) = true).
    { apply existsb_exists. exists d. split; [exact Hd|].
      rewrite (is_op_of _ _ Hdo). unfold is_res. now rewrite Hdr. }
    assert (Hlose : existsb (fun c => is_op (lose_op w) c && is_res (RBool true) c) (calls_of h) = false).
    { apply existsb_false. intros c Hc. destruct (Hcl c Hc) as (_ & _ & Hn).
      destruct (is_op (lose_op w) c) eqn:Eo; [|reflexivity].
      destruct (is_res (RBool true) c) eqn:Er; [|reflexivity].
      exfalso. apply Hn. split.
      - unfold is_op in Eo. destruct (lose_op w), (c_op c); try discriminate; reflexivity.
      - unfold is_res in Er. now apply res_eqb_eq in Er. }
    assert (Hdecider : existsb (try_decider w (calls_of h)) (seq 0 (length (calls_of h))) = true).
    { apply In_nth_error in Hd as [i Hi]. apply existsb_exists. exists i. split.
      - apply in_seq. split; [lia|]. simpl. apply nth_error_Some. congruence.
      - eapply try_decider_intro; eauto; [lia|]. intros c Hc. apply (Hcl c Hc). }
    destruct w; [congruence| |]; simpl win_op in *; simpl lose_op in *.
    + rewrite Hwin, Hlose. simpl. exact Hdecider.
    + rewrite Hwin, Hlose. simpl. exact Hdecider.
  - (* nobody settled *)
    assert (Hcl : forall c, In c (calls_of h) -> is_read (c_op c) = true /\ c_res c = RBlocks).
    { intros c Hc. destruct (JC c Hc) as (b & _ & _ & H3). unfold R in H3. now rewrite Ed in H3. }
    assert (Hnp : forallb (fun c => negb (is_res RPanic c)) (calls_of h) = true).
    { apply forallb_forall. intros c Hc. destruct (Hcl c Hc) as [_ Hr]. unfold is_res. now rewrite Hr. }
    rewrite Hnp. rewrite andb_true_l. cbv zeta.
    assert (Hno : forall o, is_read o = false ->
              existsb (fun c => is_op o c && is_res (RBool true) c) (calls_of h) = false).
    { intros o Ho. apply existsb_false. intros c Hc. destruct (Hcl c Hc) as [Hr _].
      unfold is_op. destruct o, (c_op c); try discriminate; reflexivity. }
    rewrite (Hno OpAck eq_refl), (Hno OpNack eq_refl). simpl.
    apply forallb_forall. intros c Hc. destruct (Hcl c Hc) as [Hr Hb].
    unfold is_op, is_res. rewrite Hb. destruct (c_op c); try discriminate; reflexivity.
Qed.

(** * the statement used by Props/C03.v *)
Theorem lin_ok_model_accepted c progs sched :
  let s := crun (cinit c progs) sched in
  quiescent s -> lin_ok (calls_of (hist s)) = true.
Proof.
  intros s Hq. assert (I : Inv c s) by (apply crun_inv, inv_init).
  apply lin_ok_of_inv2.
  - apply inv2_all.
    + intros t. rewrite (i_auto _ _ I). destruct (tpc (thr s t)); discriminate.
    + apply (legal_of_run c). now rewrite (i_lin _ _ I).
  - intros t. rewrite (i_auto _ _ I), (Hq t). reflexivity.
Qed.
