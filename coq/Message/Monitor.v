(** Executable linearizability acceptor for complete concurrent histories of ONE message
    (the oracle applied to implementation histories in the concurrent C03 scenarios).
    A call is (invocation stamp, response stamp, operation, result); stamps are positions in
    one total order, all distinct.

    For this object the state changes at most once, at the linearisation point t* of the
    deciding call d.  A history is linearizable iff there is a successful Ack (or Nack) d and
    a point t* inside d's interval such that every call that observed "undecided" was invoked
    before t* and every call that observed "decided" returned after t*. *)
From WM Require Import Base.Prelude Message.Model.

Record call := Call { c_inv : N; c_ret : N; c_op : op; c_res : res }.

Definition is_res (r : res) (c : call) : bool := res_eqb (c_res c) r.
Definition is_op (o : op) (c : call) : bool :=
  match o, c_op c with
  | OpAck, OpAck | OpNack, OpNack | OpReadAcked, OpReadAcked | OpReadNacked, OpReadNacked => true
  | _, _ => false
  end.

Definition maxN (l : list N) : N := fold_left N.max l 0%N.
(** [None] = no upper bound *)
Definition minN (l : list N) : option N :=
  fold_left (fun a x => match a with None => Some x | Some y => Some (N.min x y) end) l None.

Definition below (lo : N) (hi : option N) : bool :=
  match hi with None => true | Some h => N.ltb lo h end.

(** classification of the calls of a history whose winner is [w] (Acked or Nacked) *)
Definition win_op (w : settle) : op := match w with Nacked => OpNack | _ => OpAck end.
Definition lose_op (w : settle) : op := match w with Nacked => OpAck | _ => OpNack end.
Definition win_read (w : settle) : op := match w with Nacked => OpReadNacked | _ => OpReadAcked end.
Definition lose_read (w : settle) : op := match w with Nacked => OpReadAcked | _ => OpReadNacked end.

(** does the call observe "decided"?  [Some true] post, [Some false] pre, [None] = the result
    is impossible with winner [w] *)
Definition observes (w : settle) (c : call) : option bool :=
  if is_op (win_op w) c then
    (if is_res (RBool true) c then Some true else None)
  else if is_op (lose_op w) c then
    (if is_res (RBool false) c then Some true else None)
  else if is_op (win_read w) c then
    (if is_res RClosed c then Some true else if is_res RBlocks c then Some false else None)
  else
    (if is_res RBlocks c then Some false else None).

(** removing one occurrence by position *)
Fixpoint remove_nth {A} (n : nat) (l : list A) : list A :=
  match l, n with
  | [], _ => []
  | _ :: l', O => l'
  | x :: l', S n' => x :: remove_nth n' l'
  end.

Definition try_decider (w : settle) (h : list call) (i : nat) : bool :=
  match nth_error h i with
  | None => false
  | Some d =>
      is_op (win_op w) d && is_res (RBool true) d &&
      let rest := remove_nth i h in
      let obs := map (fun c => (c, observes w c)) rest in
      forallb (fun p => match snd p with None => false | Some _ => true end) obs &&
      let pre := flat_map (fun p => match snd p with Some false => [c_inv (fst p)] | _ => [] end) obs in
      (* a reader of the LOSING channel constrains nothing *)
      let pre := flat_map (fun p : call * option bool =>
                    match snd p with
                    | Some false => if is_op (win_read w) (fst p) then [c_inv (fst p)] else []
                    | _ => [] end) obs in
      let post := flat_map (fun p => match snd p with Some true => [c_ret (fst p)] | _ => [] end) obs in
      let lo := N.max (c_inv d) (maxN pre) in
      let hi := minN (c_ret d :: post) in
      below lo hi
  end.

Definition lin_ok (h : list call) : bool :=
  forallb (fun c => negb (is_res RPanic c)) h &&
  let ack_won := existsb (fun c => is_op OpAck c && is_res (RBool true) c) h in
  let nack_won := existsb (fun c => is_op OpNack c && is_res (RBool true) c) h in
  if ack_won && nack_won then false
  else if ack_won then existsb (try_decider Acked h) (seq 0 (length h))
  else if nack_won then existsb (try_decider Nacked h) (seq 0 (length h))
  else (* nobody settled: only reads, all of which block *)
    forallb (fun c => (is_op OpReadAcked c || is_op OpReadNacked c) && is_res RBlocks c) h.
