(** Proofs about Message/World.v: Copy(), metadata maps, contexts and the per-message
    independence of settlement. *)
From WM Require Import Base.Prelude Message.Model Message.Conc Message.Proofs Message.World.

Lemma wrun_cons w o ops :
  wrun w (o :: ops) =
  (fst (wrun (fst (wstep w o)) ops), snd (wstep w o) :: snd (wrun (fst (wstep w o)) ops)).
Proof. simpl. destruct (wstep w o) as [w1 r]. simpl. destruct (wrun w1 ops). reflexivity. Qed.

Lemma wrun_length ops : forall w, length (snd (wrun w ops)) = length ops.
Proof.
  induction ops as [|o ops IH]; intros w; [reflexivity|].
  rewrite wrun_cons. simpl. now rewrite IH.
Qed.

Ltac ltb_cases i n :=
  let E := fresh "E" in
  destruct (Nat.ltb i n) eqn:E; [apply Nat.ltb_lt in E | apply Nat.ltb_ge in E].

(** the number of messages only grows, by at most one per operation *)
Lemma wstep_n w o : w_n w <= w_n (fst (wstep w o)) <= S (w_n w).
Proof.
  destruct o as [u p| |i|i op|i k v|i k|i c|i|i]; simpl; try lia.
  all: ltb_cases i (w_n w); simpl; try lia.
  - destruct (step (o_set (w_obj w i)) op); simpl; lia.
  - destruct (o_meta (w_obj w i)); simpl; lia.
Qed.

(** a message that does not exist yet: calls on it are not calls *)
Lemma wstep_hist_unalloc w o j : w_n w <= j -> settle_hist j [o] [snd (wstep w o)] = [].
Proof.
  intros Hj. destruct o as [u p| |i|i op|i k v|i k|i c|i|i]; try reflexivity.
  unfold settle_hist. simpl. ltb_cases i (w_n w); simpl.
  - destruct (step (o_set (w_obj w i)) op). simpl.
    assert (Hne : Nat.eqb i j = false) by (apply Nat.eqb_neq; lia). now rewrite Hne.
  - reflexivity.
Qed.

(** one operation, seen from an existing message [j]: its settlement moves exactly by its own
    Ack/Nack/read calls, and those calls return what its own C03 state machine says *)
Lemma wstep_own w o j : j < w_n w ->
  o_set (w_obj (fst (wstep w o)) j) = fst (run (o_set (w_obj w j)) (settle_proj j [o]))
  /\ settle_hist j [o] [snd (wstep w o)]
     = combine (settle_proj j [o]) (snd (run (o_set (w_obj w j)) (settle_proj j [o]))).
Proof.
  intros Hj. unfold settle_hist, settle_proj.
  destruct o as [u p| |i|i op|i k v|i k|i c|i|i]; simpl.
  - rewrite upd_other by lia. split; reflexivity.
  - rewrite upd_other by lia. split; reflexivity.
  - ltb_cases i (w_n w); simpl; [rewrite upd_other by lia|]; split; reflexivity.
  - ltb_cases i (w_n w); simpl.
    + destruct (step (o_set (w_obj w i)) op) as [m' r] eqn:Es. simpl.
      destruct (Nat.eq_dec i j) as [->|Hne].
      * rewrite upd_same, Nat.eqb_refl. simpl. rewrite Es. simpl. split; reflexivity.
      * rewrite upd_other by congruence.
        assert (Hf : Nat.eqb i j = false) by now apply Nat.eqb_neq. rewrite Hf. split; reflexivity.
    + assert (Hf : Nat.eqb i j = false) by (apply Nat.eqb_neq; lia). rewrite Hf. split; reflexivity.
  - ltb_cases i (w_n w); simpl; [destruct (o_meta (w_obj w i)); simpl|]; split; reflexivity.
  - ltb_cases i (w_n w); simpl; split; reflexivity.
  - ltb_cases i (w_n w); simpl; [|split; reflexivity].
    destruct (Nat.eq_dec i j) as [->|Hne]; [rewrite upd_same|rewrite upd_other by congruence];
      split; reflexivity.
  - ltb_cases i (w_n w); simpl; split; reflexivity.
  - ltb_cases i (w_n w); simpl; split; reflexivity.
Qed.

Lemma settle_proj_cons j o ops : settle_proj j (o :: ops) = settle_proj j [o] ++ settle_proj j ops.
Proof. unfold settle_proj. simpl. now rewrite app_nil_r. Qed.

Lemma settle_hist_cons j o ops r rs :
  settle_hist j (o :: ops) (r :: rs) = settle_hist j [o] [r] ++ settle_hist j ops rs.
Proof. unfold settle_hist. simpl. now rewrite app_nil_r. Qed.

(** * every message is its own first-wins state machine *)
Theorem settle_own ops : forall w j, j < w_n w ->
  let m0 := o_set (w_obj w j) in
  o_set (w_obj (fst (wrun w ops)) j) = fst (run m0 (settle_proj j ops))
  /\ settle_hist j ops (snd (wrun w ops))
     = combine (settle_proj j ops) (snd (run m0 (settle_proj j ops))).
Proof.
  induction ops as [|o ops IH]; intros w j Hj; [split; reflexivity|].
  cbv zeta. rewrite wrun_cons. cbn [fst snd].
  destruct (wstep_own w o j Hj) as [H1 H2].
  assert (Hj' : j < w_n (fst (wstep w o))) by (pose proof (wstep_n w o); lia).
  destruct (IH (fst (wstep w o)) j Hj') as [I1 I2]. cbv zeta in I1, I2.
  rewrite settle_proj_cons, settle_hist_cons, run_app. cbn [fst snd].
  rewrite H1 in I1, I2. split; [exact I1|].
  rewrite combine_app by (now rewrite run_length). now rewrite H2, I2.
Qed.

(** ... also the messages created on the way (by NewMessage, &Message{} or Copy()): from a world
    whose messages are in consistent states, every message's own call history is first-wins *)
Lemma wstep_alloc w o j : w_n w <= j -> j < w_n (fst (wstep w o)) ->
  exists c, o_set (w_obj (fst (wstep w o)) j) = init c.
Proof.
  intros H1 H2. destruct o as [u p| |i|i op|i k v|i k|i c|i|i]; simpl in *.
  - assert (j = w_n w) by lia. subst j. rewrite upd_same. now exists CtorNew.
  - assert (j = w_n w) by lia. subst j. rewrite upd_same. now exists CtorZero.
  - ltb_cases i (w_n w); simpl in *; [|lia].
    assert (j = w_n w) by lia. subst j. rewrite upd_same. now exists CtorCopy.
  - ltb_cases i (w_n w); simpl in *; [|lia].
    destruct (step (o_set (w_obj w i)) op); simpl in *; lia.
  - ltb_cases i (w_n w); simpl in *; [|lia]. destruct (o_meta (w_obj w i)); simpl in *; lia.
  - ltb_cases i (w_n w); simpl in *; lia.
  - ltb_cases i (w_n w); simpl in *; lia.
  - ltb_cases i (w_n w); simpl in *; lia.
  - ltb_cases i (w_n w); simpl in *; lia.
Qed.

Lemma hist_first_wins ops : forall w j,
  (j < w_n w -> chan_ok (o_set (w_obj w j))) ->
  first_wins (if Nat.ltb j (w_n w) then st (o_set (w_obj w j)) else Unsettled)
             (settle_hist j ops (snd (wrun w ops))) = true.
Proof.
  induction ops as [|o ops IH]; intros w j Hok; [reflexivity|].
  ltb_cases j (w_n w).
  - destruct (settle_own (o :: ops) w j E) as [_ ->].
    apply run_first_wins. now apply Hok.
  - rewrite wrun_cons. simpl snd. rewrite settle_hist_cons.
    rewrite wstep_hist_unalloc by exact E. simpl.
    specialize (IH (fst (wstep w o)) j).
    ltb_cases j (w_n (fst (wstep w o))).
    + destruct (wstep_alloc w o j E E0) as [c Hc]. rewrite Hc in IH.
      assert (Hu : st (init c) = Unsettled) by (destruct c; reflexivity). rewrite Hu in IH.
      apply IH. intros _. apply chan_ok_init.
    + apply IH. intros; lia.
Qed.

Theorem world_accepted ops : world_monitor ops (snd (wrun wempty ops)) = true.
Proof.
  unfold world_monitor. apply forallb_forall. intros j _.
  apply (hist_first_wins ops wempty j). simpl. intros; lia.
Qed.

(** * Copy() *)
Theorem copy_fresh w i : i < w_n w ->
  let w' := fst (wstep w (WCopy i)) in
  let j := w_n w in
  snd (wstep w (WCopy i)) = WId j
  /\ w_n w' = S j
  (* the copy: unsettled, its own two open channels, whatever the source's settlement *)
  /\ o_set (w_obj w' j) = MS Unsettled COpen COpen false
  (* same UUID, payload, metadata entries; the context is not propagated *)
  /\ o_uuid (w_obj w' j) = o_uuid (w_obj w i)
  /\ o_payload (w_obj w' j) = o_payload (w_obj w i)
  /\ (forall k, meta_get w' j k = meta_get w i k)
  /\ o_ctx (w_obj w' j) = 0%N
  (* its own metadata map, a new one *)
  /\ o_meta (w_obj w' j) = Some (w_nm w)
  (* every message that existed is untouched, the source included *)
  /\ (forall i', i' < w_n w -> w_obj w' i' = w_obj w i').
Proof.
  intros Hi. simpl. apply Nat.ltb_lt in Hi. rewrite Hi. simpl.
  rewrite upd_same. simpl. unfold meta_get at 1. simpl. rewrite !upd_same. simpl.
  rewrite upd_same.
  repeat split; try reflexivity.
  intros i' Hi'. rewrite upd_other by lia. reflexivity.
Qed.

(** the heap discipline: every message's map exists and no two messages hold the same map *)
Record WInv (w : world) : Prop := {
  wi_bound : forall i r, i < w_n w -> o_meta (w_obj w i) = Some r -> r < w_nm w;
  wi_inj : forall i j r, i < w_n w -> j < w_n w ->
             o_meta (w_obj w i) = Some r -> o_meta (w_obj w j) = Some r -> i = j
}.

Lemma winv_empty : WInv wempty.
Proof. constructor; simpl; intros; lia. Qed.

Lemma wstep_inv w o : WInv w -> WInv (fst (wstep w o)).
Proof.
  intros [Hb Hi].
  assert (Halloc : forall ob, o_meta ob = Some (w_nm w) ->
            WInv (W (S (w_n w)) (upd (w_obj w) (w_n w) ob) (S (w_nm w))
                    (upd (w_meta w) (w_nm w) (fun _ => 0%N))) /\
            forall mm, WInv (W (S (w_n w)) (upd (w_obj w) (w_n w) ob) (S (w_nm w)) mm)).
  { intros ob Hob.
    assert (G : forall mm, WInv (W (S (w_n w)) (upd (w_obj w) (w_n w) ob) (S (w_nm w)) mm)).
    { intros mm. constructor; simpl.
      - intros i r Hlt. updt (w_n w) i; intros H; [rewrite Hob in H; inversion H; lia|].
        assert (r < w_nm w) by (apply (Hb i); [lia|exact H]). lia.
      - intros i j r Hi' Hj'. updt (w_n w) i; updt (w_n w) j; intros H1 H2; try reflexivity.
        + rewrite Hob in H1. inversion H1; subst r.
          assert (w_nm w < w_nm w) by (apply (Hb j); [lia|exact H2]). lia.
        + rewrite Hob in H2. inversion H2; subst r.
          assert (w_nm w < w_nm w) by (apply (Hb i); [lia|exact H1]). lia.
        + apply (Hi i j r); try lia; assumption. }
    split; [apply G|exact G]. }
  destruct o as [u p| |i|i op|i k v|i k|i c|i|i]; simpl.
  - apply (Halloc (MO u p (Some (w_nm w)) (init CtorNew) 0) eq_refl).
  - constructor; simpl.
    + intros i r Hlt. updt (w_n w) i; intros H; [discriminate|]. apply (Hb i); [lia|exact H].
    + intros i j r Hi' Hj'. updt (w_n w) i; updt (w_n w) j; intros H1 H2;
        try discriminate; try reflexivity. apply (Hi i j r); try lia; assumption.
  - ltb_cases i (w_n w); simpl; [|constructor; assumption].
    apply (Halloc (MO (o_uuid (w_obj w i)) (o_payload (w_obj w i)) (Some (w_nm w)) (init CtorCopy) 0) eq_refl).
  - ltb_cases i (w_n w); simpl; [|constructor; assumption].
    destruct (step (o_set (w_obj w i)) op) as [m' r0]. simpl.
    constructor; simpl.
    + intros i' r Hlt. updt i i'; simpl; intros H; apply (Hb _ r Hlt H).
    + intros i1 i2 r H1 H2. updt i i1; updt i i2; simpl; intros G1 G2; try reflexivity;
        eapply Hi; eauto.
  - ltb_cases i (w_n w); simpl; [|constructor; assumption].
    destruct (o_meta (w_obj w i)); simpl; constructor; assumption.
  - ltb_cases i (w_n w); simpl; constructor; assumption.
  - ltb_cases i (w_n w); simpl; [|constructor; assumption].
    constructor; simpl.
    + intros i' r Hlt. updt i i'; simpl; intros H; apply (Hb _ r Hlt H).
    + intros i1 i2 r H1 H2. updt i i1; updt i i2; simpl; intros G1 G2; try reflexivity;
        eapply Hi; eauto.
  - ltb_cases i (w_n w); simpl; constructor; assumption.
  - ltb_cases i (w_n w); simpl; constructor; assumption.
Qed.

Lemma wrun_inv ops : forall w, WInv w -> WInv (fst (wrun w ops)).
Proof.
  induction ops as [|o ops IH]; intros w I; [exact I|].
  rewrite wrun_cons. simpl. apply IH. now apply wstep_inv.
Qed.

(** in every world a program can reach: a Metadata.Set through one message never shows through
    another — in particular not between a Copy() and its source, in either direction — and
    touches nothing else of any message *)
Theorem metadata_not_shared ops0 i j k v :
  let w := fst (wrun wempty ops0) in
  i < w_n w -> j < w_n w -> i <> j ->
  let w' := fst (wstep w (WMetaSet i k v)) in
  (forall k', meta_get w' j k' = meta_get w j k')
  /\ (forall i', w_obj w' i' = w_obj w i')
  /\ (o_meta (w_obj w i) <> None -> forall k', meta_get w' i k' = if N.eqb k' k then v else meta_get w i k').
Proof.
  intros w Hi Hj Hne w'.
  assert (I : WInv w) by (apply wrun_inv, winv_empty).
  subst w'. simpl. apply Nat.ltb_lt in Hi. rewrite Hi. apply Nat.ltb_lt in Hi.
  destruct (o_meta (w_obj w i)) as [r|] eqn:Er; simpl.
  - repeat split.
    + intros k'. unfold meta_get. simpl.
      destruct (o_meta (w_obj w j)) as [r'|] eqn:Er'; [|reflexivity].
      assert (r' <> r).
      { intros ->. apply Hne. eapply (wi_inj _ I); eauto. }
      now rewrite upd_other.
    + intros _ k'. unfold meta_get. simpl. rewrite Er. rewrite upd_same. reflexivity.
  - repeat split. intros H. now destruct H.
Qed.

(** settling a message changes nothing but that message's settlement: not another message (a
    copy, its source), not its own content, metadata or context *)
Theorem settle_touches_only_settlement w i op : i < w_n w ->
  let w' := fst (wstep w (WSettle i op)) in
  (forall j, j <> i -> w_obj w' j = w_obj w j)
  /\ o_uuid (w_obj w' i) = o_uuid (w_obj w i) /\ o_payload (w_obj w' i) = o_payload (w_obj w i)
  /\ o_meta (w_obj w' i) = o_meta (w_obj w i) /\ o_ctx (w_obj w' i) = o_ctx (w_obj w i)
  /\ w_meta w' = w_meta w /\ w_n w' = w_n w
  /\ o_set (w_obj w' i) = fst (step (o_set (w_obj w i)) op).
Proof.
  intros Hi. simpl. apply Nat.ltb_lt in Hi. rewrite Hi.
  destruct (step (o_set (w_obj w i)) op) as [m' r]. simpl. rewrite upd_same. simpl.
  repeat split. intros j Hj. now rewrite upd_other.
Qed.

(** * SetContext / Context do not matter for settlement *)
Lemma settle_proj_strip j ops : settle_proj j (strip_ctx ops) = settle_proj j ops.
Proof.
  induction ops as [|o ops IH]; [reflexivity|].
  unfold settle_proj, strip_ctx in *. destruct o; simpl; rewrite ?IH; reflexivity.
Qed.

(** whatever contexts are set on whatever messages, at whatever points of the program: every
    message ends in the same settlement state and each of its Ack/Nack/read calls returns the
    same result as in the program with all SetContext/Context calls removed; and a message
    nobody set a context on reports Background *)
Theorem context_irrelevant ops w j : j < w_n w ->
  o_set (w_obj (fst (wrun w ops)) j) = o_set (w_obj (fst (wrun w (strip_ctx ops))) j)
  /\ settle_hist j ops (snd (wrun w ops)) = settle_hist j (strip_ctx ops) (snd (wrun w (strip_ctx ops))).
Proof.
  intros Hj.
  destruct (settle_own ops w j Hj) as [A1 A2].
  destruct (settle_own (strip_ctx ops) w j Hj) as [B1 B2].
  rewrite settle_proj_strip in B1, B2. split; congruence.
Qed.

Theorem context_default_background ops u p :
  let w := fst (wrun wempty ops) in
  snd (wrun w [WNew u p; WGetCtx (w_n w)]) = [WId (w_n w); WVal 0%N].
Proof.
  intros w. simpl. assert (H : Nat.ltb (w_n w) (S (w_n w)) = true) by (apply Nat.ltb_lt; lia).
  rewrite H. simpl. rewrite upd_same. reflexivity.
Qed.
