(** Thread-level transition system for concurrent Ack/Nack/Acked()/Nacked() on ONE message
    (message/message.go).  One step per synchronisation operation:

      Ack:  m.ackMutex.Lock()                      PWant   -> PLocked
            guards on ackSentType; ackSentType=ack PLocked -> PSetting   (or -> PUnlocking r)
            close(m.ack) / closedchan substitution PSetting -> PUnlocking
            deferred Unlock, return                PUnlocking -> PIdle

    A receive on Acked()/Nacked() is a single atomic step (Go channel operations are atomic).
    Any number of threads (total map), each running any finite program; the scheduler is the
    list of thread ids fed to [crun].  A ghost history records invocation, linearisation
    point and response of every call.  No proofs here. *)
From WM Require Import Base.Prelude Message.Model.

Inductive pc :=
| PIdle
| PWant (o : op)
| PLocked (o : op)
| PSetting (o : op)
| PUnlocking (o : op) (r : res).

Record thread := TH { tpc : pc; prog : list op }.

Inductive event :=
| EInv (t : tid) (o : op)
| ELin (t : tid) (o : op) (r : res)
| ERet (t : tid) (o : op) (r : res).

Record cstate := CS {
  ms : mstate;
  owner : option tid;
  thr : tid -> thread;
  hist : list event           (* newest first *)
}.

Definition is_read (o : op) : bool :=
  match o with OpReadAcked | OpReadNacked => true | _ => false end.

Definition cinit (c : ctor) (progs : tid -> list op) : cstate :=
  CS (init c) None (fun t => TH PIdle (progs t)) [].

Definition set_thr (s : cstate) (t : tid) (th : thread) : cstate :=
  CS (ms s) (owner s) (upd (thr s) t th) (hist s).

(** the guard part of Ack/Nack, executed right after the lock was taken *)
Definition guard (m : mstate) (o : op) : option res :=
  match o, st m with
  | OpAck, Nacked => Some (RBool false)
  | OpAck, Acked => Some (RBool true)
  | OpNack, Acked => Some (RBool false)
  | OpNack, Nacked => Some (RBool true)
  | _, _ => None
  end.

Definition set_type (m : mstate) (o : op) : mstate :=
  match o with
  | OpAck => MS Acked (ackc m) (nackc m) (panicked m)
  | OpNack => MS Nacked (ackc m) (nackc m) (panicked m)
  | _ => m
  end.

Definition do_close (m : mstate) (o : op) : mstate * res :=
  match o with
  | OpAck => let '(c, p) := close_chan (ackc m) in
             (MS (st m) c (nackc m) (panicked m || p), if p then RPanic else RBool true)
  | OpNack => let '(c, p) := close_chan (nackc m) in
              (MS (st m) (ackc m) c (panicked m || p), if p then RPanic else RBool true)
  | _ => (m, RPanic)
  end.

Definition cstep (s : cstate) (t : tid) : option cstate :=
  let th := thr s t in
  match tpc th with
  | PIdle =>
      match prog th with
      | [] => None
      | o :: rest =>
          if is_read o then
            let r := snd (step (ms s) o) in
            Some (CS (ms s) (owner s) (upd (thr s) t (TH PIdle rest))
                     (ERet t o r :: ELin t o r :: EInv t o :: hist s))
          else
            Some (CS (ms s) (owner s) (upd (thr s) t (TH (PWant o) rest))
                     (EInv t o :: hist s))
      end
  | PWant o =>
      match owner s with
      | Some _ => None
      | None => Some (CS (ms s) (Some t) (upd (thr s) t (TH (PLocked o) (prog th))) (hist s))
      end
  | PLocked o =>
      match guard (ms s) o with
      | Some r => Some (CS (ms s) (owner s) (upd (thr s) t (TH (PUnlocking o r) (prog th)))
                           (ELin t o r :: hist s))
      | None => Some (CS (set_type (ms s) o) (owner s)
                         (upd (thr s) t (TH (PSetting o) (prog th))) (hist s))
      end
  | PSetting o =>
      let '(m', r) := do_close (ms s) o in
      Some (CS m' (owner s) (upd (thr s) t (TH (PUnlocking o r) (prog th)))
               (ELin t o r :: hist s))
  | PUnlocking o r =>
      Some (CS (ms s) None (upd (thr s) t (TH PIdle (prog th))) (ERet t o r :: hist s))
  end.

(** run a schedule; a thread id whose thread is not enabled is skipped, so EVERY list of
    thread ids is a schedule and the theorems quantify over all of them *)
Fixpoint crun (s : cstate) (sched : list tid) : cstate :=
  match sched with
  | [] => s
  | t :: sched' => match cstep s t with Some s' => crun s' sched' | None => crun s sched' end
  end.

(** strict replay, used by the correspondence check: every label must be enabled *)
Fixpoint creplay (s : cstate) (sched : list tid) : option cstate :=
  match sched with
  | [] => Some s
  | t :: sched' => match cstep s t with Some s' => creplay s' sched' | None => None end
  end.

(** projections of the ghost history (the list is newest first; results are oldest first) *)
Fixpoint lin_ops (h : list event) : list op :=
  match h with
  | [] => []
  | e :: h' => lin_ops h' ++ match e with ELin _ o _ => [o] | _ => [] end
  end.
Fixpoint lin_res (h : list event) : list res :=
  match h with
  | [] => []
  | e :: h' => lin_res h' ++ match e with ELin _ _ r => [r] | _ => [] end
  end.

(** per-thread well-bracketing automaton: Inv, then Lin with the same op, then Ret with the
    same op and the same result *)
Inductive tstate := TIdle | TInv (o : op) | TLin (o : op) (r : res) | TErr.

Definition op_eqb (a b : op) : bool :=
  match a, b with
  | OpAck, OpAck | OpNack, OpNack | OpReadAcked, OpReadAcked | OpReadNacked, OpReadNacked => true
  | _, _ => false
  end.

Definition tauto_step (t : tid) (a : tstate) (e : event) : tstate :=
  match e with
  | EInv t' o => if Nat.eqb t' t then match a with TIdle => TInv o | _ => TErr end else a
  | ELin t' o r => if Nat.eqb t' t then
                     match a with TInv o' => if op_eqb o o' then TLin o r else TErr | _ => TErr end
                   else a
  | ERet t' o r => if Nat.eqb t' t then
                     match a with
                     | TLin o' r' => if op_eqb o o' && res_eqb r r' then TIdle else TErr
                     | _ => TErr end
                   else a
  end.

Fixpoint tauto (t : tid) (h : list event) : tstate :=
  match h with
  | [] => TIdle
  | e :: h' => tauto_step t (tauto t h') e
  end.

(** the abstract (atomic) state a concurrent state represents: a winner that has written
    ackSentType but not yet closed its channel has not taken effect yet *)
Definition abs (s : cstate) : mstate :=
  match owner s with
  | Some t => match tpc (thr s t) with
              | PSetting _ => MS Unsettled (ackc (ms s)) (nackc (ms s)) (panicked (ms s))
              | _ => ms s
              end
  | None => ms s
  end.
