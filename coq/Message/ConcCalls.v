(** From a ghost history of the thread-level model (Message/Conc.v) to the stamped call history
    that the linearizability acceptor [lin_ok] (Message/Monitor.v) judges: stamps are positions
    in the history (oldest event = 1), a call = (stamp of its EInv, stamp of its ERet, op,
    result).  This is what the harness's c03.inv / c03.ret stamps are for the implementation.
    No proofs here. *)
From WM Require Import Base.Prelude Message.Model Message.Conc Message.Monitor.

Definition len (h : list event) : N := N.of_nat (length h).
(** the stamp of an event put on top of [h] (histories are newest first) *)
Definition stampN (h : list event) : N := N.succ (len h).

(** stamp of thread [t]'s latest invocation / linearisation point *)
Fixpoint inv_stamp (t : tid) (h : list event) : N :=
  match h with
  | [] => 0
  | EInv t' _ :: h' => if Nat.eqb t' t then stampN h' else inv_stamp t h'
  | _ :: h' => inv_stamp t h'
  end.
Fixpoint lin_stamp (t : tid) (h : list event) : N :=
  match h with
  | [] => 0
  | ELin t' _ _ :: h' => if Nat.eqb t' t then stampN h' else lin_stamp t h'
  | _ :: h' => lin_stamp t h'
  end.

(** the completed calls, in the order of their responses *)
Fixpoint calls_of (h : list event) : list call :=
  match h with
  | [] => []
  | ERet t o r :: h' => calls_of h' ++ [Call (inv_stamp t h') (stampN h') o r]
  | _ :: h' => calls_of h'
  end.

(** the first Ack/Nack linearisation point: its stamp and the settlement it decides *)
Fixpoint dec (h : list event) : option (N * settle) :=
  match h with
  | [] => None
  | e :: h' =>
      match dec h' with
      | Some x => Some x
      | None => match e with
                | ELin _ o _ => if is_read o then None else Some (stampN h', decide Unsettled o)
                | _ => None
                end
      end
  end.

(** every thread is between calls *)
Definition quiescent (s : cstate) : Prop := forall t, tpc (thr s t) = PIdle.
