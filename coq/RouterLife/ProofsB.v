(** Proofs about the Router lifecycle model, part B: Close, the remaining labels, the theorems. *)
From WM Require Import Base.Prelude Base.Count RouterLife.Model RouterLife.Inv RouterLife.ProofsA.
From RecordUpdate Require Import RecordSet.
Import RecordSetNotations.

Lemma sinv_closeErr s b : SInv s -> SInv (s <| closeErr := b |>). Proof. intros I. irrel I. Qed.

(** D16 repair: Close (holding handlersLock, so nobody is inside RunHandlers) releases and removes the
    handlers that were never started *)
Lemma sinv_close_unstarted s : SInv s -> lockpc s = None -> SInv (close_unstarted s).
Proof.
  intros I Q. unfold close_unstarted. destruct (fix16 s); [|exact I].
  destruct (no_mid s None I Q) as [N1 N2]; try discriminate.
  assert (RP : forall h, h < nexth s -> removable (hs s h) = true -> pendh (hs s h) = true).
  { intros h Hh R. unfold removable in R. apply andb_true_iff in R as [R1 R2]. apply negb_true_iff in R2.
    pose proof (i_inmap _ I h Hh) as IM. rewrite R1 in IM. symmetry in IM. apply andb_true_iff in IM as [_ IM].
    destruct (i_hrec _ I h). unfold pendh. rewrite IM.
    destruct (h_loop (hs s h)) eqn:L; try reflexivity; exfalso;
      (assert (X : h_started (hs s h) = true) by (apply r_loop; congruence); congruence). }
  destruct (cnt_sub (fun h => pendh (hs s h)) (fun h => removable (hs s h)) (nexth s) RP) as [CS CL].
  pose proof I as I0. dI I. constructor; unfold lockpc in *; simpl; try assumption.
  - intros h Hh. now rewrite (J4 h Hh).
  - intros h. destruct (removable (hs s h)) eqn:R; auto. destruct (J5 h). unfold removable in R.
    apply andb_true_iff in R as [R1 R2]. apply negb_true_iff in R2.
    constructor; simpl; auto.
  - intros h Hh. destruct (removable (hs s h)) eqn:R; simpl; auto. now rewrite andb_false_r.
  - intros h. destruct (removable (hs s h)); simpl; auto.
  - intros h X. apply J8 in X. destruct (removable (hs s h)); simpl; auto.
  - intros h X. apply J9 in X. destruct (removable (hs s h)); simpl; auto.
  - intros h. destruct (removable (hs s h)); simpl; auto.
  - intros X h Hh. destruct (removable (hs s h)) eqn:R; simpl; [discriminate|auto].
  - intros t h a X. destruct (J18 t h a X) as [A B]. split; auto. destruct (removable (hs s h)); simpl; auto.
  - intros t h a X. pose proof (J19 t h a X). destruct (removable (hs s h)); simpl; auto.
  - rewrite J21, <- CS. apply cnt_ext. intros h Hh. destruct (removable (hs s h)) eqn:R; unfold pendh; simpl.
    + rewrite ?andb_false_r; reflexivity.
    + rewrite ?andb_true_r; reflexivity.
  - rewrite J22. simpl. apply Nat.ltb_ge. rewrite J21. exact CL.
Qed.

(** ** Close, executed by a client thread or by the watcher *)
Ltac thr_others F :=
  try (intros t'; upds; simpl; auto; try solve [intuition (congruence || discriminate)]);
  try solve [split; [discriminate|]; intros X; destruct F as (_ & F & _); rewrite F in X by assumption; discriminate].

Lemma k_acquire_thr s t : SInv s -> thr s t = TClose KWantH -> hlock s = None ->
  SInv (set_t (s <| hlock := Some (OThr t) |>) t (TClose KCheck)).
Proof.
  intros I E H. free_facts I H.
  apply (sinv_relock s); auto; relock_fin.
  all: try (intros t'; upds; simpl; auto; try solve [intuition (congruence || discriminate)]).
Qed.

Lemma k_move_thr s t p p' : SInv s -> thr s t = TClose p -> kl p = true -> kl p' = true ->
  SInv (set_t s t (TClose p')).
Proof.
  intros I E K K'.
  assert (H : hlock s = Some (OThr t)). { apply hl_of_thr; auto. now rewrite E. }
  pose proof (lockpc_closer_thr s t p H E) as Q. held_facts I H Q.
  pose proof (i_hl_main _ I) as A1. pose proof (i_hl_wat _ I) as A3.
  apply (sinv_relock s); auto; simpl; unfold lockpc; simpl; rewrite ?H, ?upd_same; simpl; auto.
  - intros t'. upds; simpl; [rewrite K'; split; congruence|].
    destruct F as (_ & F & _). rewrite F by assumption. split; congruence.
  - intros h X. rewrite N1 in X. discriminate.
  - discriminate.
  - discriminate.
  - intros h X Y. destruct (N2 h X Y).
  - tauto.
  - intros t'. upds; [right; repeat split; discriminate|left; reflexivity].
Qed.

Lemma k_release_thr s t p ok : SInv s -> thr s t = TClose p -> kl p = true ->
  SInv (set_t (s <| hlock := None |>) t (TClose (KRet ok))).
Proof.
  intros I E K.
  assert (H : hlock s = Some (OThr t)). { apply hl_of_thr; auto. now rewrite E. }
  pose proof (lockpc_closer_thr s t p H E) as Q. held_facts I H Q.
  destruct F as (F1 & F2 & F3).
  apply (sinv_relock s); auto; simpl; unfold lockpc; simpl; auto.
  all: try solve [ rewrite ?F1, ?F3; split; discriminate ].
  all: try solve [ intros h X; rewrite N1 in X; discriminate ].
  all: try solve [ discriminate ].
  all: try solve [ intros h X Y; destruct (N2 h X Y) ].
  all: try solve [ tauto ].
  all: try solve [ intros t'; upds; simpl; [split; discriminate|]; rewrite F2 by assumption; split; discriminate ].
  all: try solve [ intros t'; upds; [right; repeat split; discriminate|left; reflexivity] ].
  all: try solve [ intros X; rewrite F1 in X; discriminate ].
Qed.

Lemma sinv_wat_move s w' : SInv s -> wat_hl (wat s) = false -> wat_hl w' = false -> SInv (s <| wat := w' |>).
Proof.
  intros I E1 E2. dI I. constructor; unfold lockpc in *; simpl in *; try assumption.
  rewrite E2. rewrite J3, E1. reflexivity.
Qed.

Lemma hl_of_wat s : SInv s -> wat_hl (wat s) = true -> hlock s = Some OWatch.
Proof. intros I E. now apply (i_hl_wat _ I). Qed.

Lemma k_acquire_wat s : SInv s -> wat s = WClose KWantH -> hlock s = None ->
  SInv (s <| hlock := Some OWatch |> <| wat := WClose KCheck |>).
Proof.
  intros I E H. free_facts I H.
  apply (sinv_relock s); auto; simpl; unfold lockpc; simpl; auto.
  all: try solve [ rewrite ?F1, ?F3; split; discriminate ].
  all: try solve [ intros h X; rewrite N1 in X; discriminate ].
  all: try solve [ discriminate ].
  all: try solve [ intros h X Y; destruct (N2 h X Y) ].
  all: try solve [ tauto ].
  all: try solve [ intros t'; rewrite F2; split; discriminate ].
  all: try solve [ intros X; rewrite F1 in X; discriminate ].
Qed.

Lemma k_move_wat s p p' : SInv s -> wat s = WClose p -> kl p = true -> kl p' = true ->
  SInv (s <| wat := WClose p' |>).
Proof.
  intros I E K K'. dI I. constructor; unfold lockpc in *; simpl in *; try assumption.
  rewrite K'. rewrite J3, E. simpl. rewrite K. reflexivity.
Qed.

Lemma k_release_wat s p : SInv s -> wat s = WClose p -> kl p = true ->
  SInv (s <| hlock := None |> <| wat := WDone |>).
Proof.
  intros I E K.
  assert (H : hlock s = Some OWatch). { apply hl_of_wat; auto. now rewrite E. }
  pose proof (lockpc_watch s H) as Q. held_facts I H Q. destruct F as (F1 & F2).
  apply (sinv_relock s); auto; simpl; unfold lockpc; simpl; auto.
  all: try solve [ rewrite ?F1; split; discriminate ].
  all: try solve [ intros h X; rewrite N1 in X; discriminate ].
  all: try solve [ discriminate ].
  all: try solve [ intros h X Y; destruct (N2 h X Y) ].
  all: try solve [ tauto ].
  all: try solve [ intros t'; rewrite F2; split; discriminate ].
  all: try solve [ intros X; rewrite F1 in X; discriminate ].
Qed.

Lemma become_main s t : SInv s -> thr s t = TRunCheck -> isRunning s = false ->
  SInv (set_t s t TMain <| isRunning := true |> <| mainp := RWatch |> <| maint := t |>).
Proof.
  intros I E R.
  assert (M : mainp s = RNone).
  { destruct (mainp s) eqn:X; auto; exfalso; assert (isRunning s = true) by (apply (i_isrun _ I); congruence); congruence. }
  assert (Hl : hlock s <> Some (OThr t)). { intros X. apply (i_hl_thr _ I) in X. rewrite E in X. discriminate. }
  assert (Hm : hlock s <> Some OMain). { intros X. apply (i_hl_main _ I) in X. rewrite M in X. discriminate. }
  assert (LP : lockpc (set_t s t TMain <| isRunning := true |> <| mainp := RWatch |> <| maint := t |>) = lockpc s).
  { unfold lockpc; simpl. destruct (hlock s) as [[|t'|]|]; try congruence. rewrite upd_other; congruence. }
  dI I. constructor; rewrite ?LP; simpl; try assumption.
  all: try solve [ split; [intros X; congruence | discriminate] ].
  all: try solve [ intros t'; upds; simpl; auto; try solve [split; congruence]; eauto ].
  all: try solve [ rewrite M in *; simpl in *; intros X; apply J11 in X; discriminate ].
  all: try solve [ discriminate ].
  - split; [discriminate|reflexivity].
  - intros t0 X. updt t t0; [split; [reflexivity|discriminate]|]. destruct (J16 t0 X) as [_ Y]. congruence.
  - intros t0. updt t t0; [discriminate|apply J17].
  - intros t0 h a X. updt t t0; [intuition discriminate|eauto].
  - intros t0 h a X. updt t t0; [discriminate|eauto].
  - intros t0 h r X. updt t t0; [discriminate|eauto].
Qed.

Lemma sinv_add s pub hon sub m : SInv s -> hlock s = None ->
  SInv (set_h s (nexth s) (h0 <| h_pub := pub |> <| h_hon := hon |> <| h_sub := sub |> <| h_inmap := true |>)
          <| nexth := S (nexth s) |> <| hwg := S (hwg s) |> <| maplen := m |>).
Proof.
  intros I H. free_facts I H.
  pose proof I as I0. dI I. constructor; unfold lockpc in *; simpl in *; rewrite ?H in *; try assumption.
  - intros h' Hh'. rewrite upd_other by lia. apply J4. lia.
  - intros h'. upds; auto. constructor; simpl; try congruence; try (split; congruence); intuition congruence.
  - intros h' Hh'. upds; auto. apply J6. lia.
  - intros h'. upds; simpl; auto. discriminate.
  - discriminate.
  - discriminate.
  - intros h'. upds; simpl; auto. discriminate.
  - intros X. rewrite F1 in X. discriminate.
  - lia.
  - intros X h' Hh'. rewrite upd_other by lia. auto.
  - intros t h' a X. destruct (J18 t h' a X) as [Y Z]. split; [lia|]. rewrite upd_other by lia. exact Z.
  - intros t h' a X. destruct (J18 t h' a (or_intror X)) as [Y _]. rewrite upd_other by lia. eauto.
  - match goal with |- _ = cnt ?f _ + _ =>
      assert (X : cnt f (nexth s) = cnt (fun h1 => pendh (hs s h1)) (nexth s))
        by (apply cnt_ext; intros h' Hh'; rewrite upd_other by lia; reflexivity) end.
    rewrite X, upd_same. simpl. lia.
Qed.

Lemma step_add s pub hon sub s' evs : SInv s -> step s (LAdd pub hon sub) = Some (s', evs) -> SInv s'.
Proof.
  intros I H. unfold step in H. destruct (hlock s) eqn:HL; [discriminate|].
  pose proof (sinv_add s pub hon sub (S (maplen s)) I HL) as I1.
  cbv zeta in H. simpl fix14 in H. simpl hadded in H. simpl wat in H.
  destruct (fix14 s).
  - destruct (Nat.eqb (hadded s) 0); injection H as <- <-; [apply sinv_hadded|]; exact I1.
  - destruct (wat s) eqn:W; injection H as <- <-; try exact I1.
    apply sinv_wat_move; [exact I1| simpl; rewrite W; reflexivity | reflexivity].
Qed.

Lemma step_calls s l s' evs : SInv s ->
  (exists t, l = LRunCall t \/ (exists par, l = LRHCall t par) \/ (exists h, l = LStopCall t h) \/ l = LCloseCall t) ->
  step s l = Some (s', evs) -> SInv s'.
Proof.
  intros I (t & [-> | [(par & ->) | [(h & ->) | ->]]]) H; simpl in H; destr H; injection H as <- <-;
    apply sinv_set_t; auto; try (rewrite Heqt0; reflexivity); try reflexivity; try discriminate;
    try solve [intros; discriminate]; try solve [intros ? ? [X|X]; discriminate].
  - intros h' a [X|X]; [|discriminate]. injection X as <- <-. bools. split; [assumption|]. intros E; exact E.
Qed.

(** ** the RunHandlers loop body, for either executor *)
Lemma holder_facts s me par p : SInv s -> holder s me par p ->
  lockpc s = Some p /\ (forall h, p <> HMid1 h -> h_mid (hs s h) = false)
  /\ (forall h, p <> HMid2 h -> h_started (hs s h) = true -> h_loop (hs s h) <> LNone).
Proof.
  intros I Hh. pose proof (lockpc_holder _ _ _ _ Hh) as Q. split; [exact Q|]. split.
  - intros h N. destruct (h_mid (hs s h)) eqn:E; [|reflexivity]. apply (i_mid _ I) in E. congruence.
  - intros h N E1 E2. pose proof (i_spawn _ I h E1 E2). congruence.
Qed.

Lemma rh_pick_ok s me par h :
  SInv s -> holder s me par HLoop -> h < nexth s -> h_inmap (hs s h) = true -> h_started (hs s h) = false ->
  SInv (setpc (set_h s h
     (let x1 := hs s h <| h_par := par |> <| h_subOpen := true |> <| h_subs := S (h_subs (hs s h)) |> <| h_mid := true |> in
      if fix4 s then x1 <| h_stopFn := true |> <| h_stoppedSet := true |> else x1)) me par (HMid1 h)).
Proof.
  intros I Hh Hlt Him Hst.
  destruct (holder_facts s me par HLoop I Hh) as (Q & N1 & N2).
  pose proof (N1 h ltac:(discriminate)) as Mh.
  pose proof (i_hrec _ I h) as R. pose proof (i_inmap _ I h Hlt) as IM.
  assert (Hl : h_loop (hs s h) = LNone).
  { destruct R. destruct (h_loop (hs s h)) eqn:X; auto; exfalso;
      assert (h_started (hs s h) = true) by (apply r_loop; congruence); congruence. }
  assert (Hs0 : h_subs (hs s h) = 0). { destruct R. rewrite (r_subs0 Hst), Mh. reflexivity. }
  assert (Rm : h_removed (hs s h) = false).
  { rewrite Him in IM. symmetry in IM. apply andb_true_iff in IM as [_ IM]. now apply negb_true_iff in IM. }
  eapply sinv_locked_move; eauto; try reflexivity.
  - destruct R. destruct (fix4 s) eqn:F4; constructor; simpl; rewrite ?Hl, ?Hs0, ?Rm in *; simpl; auto;
      try solve [intuition (congruence || discriminate)].
  - destruct (fix4 s); simpl; rewrite Hl, Rm; simpl; exact Him.
  - destruct (fix4 s); simpl; intros; congruence.
  - destruct (fix4 s); simpl; intros X; destruct R; rewrite (r_sch X) in Hst; discriminate.
  - destruct (fix4 s); simpl; reflexivity.
  - destruct (fix4 s); reflexivity.
  - intros h' X. updt h h'; [reflexivity|]. rewrite N1 in X by discriminate. discriminate.
  - intros h' X. injection X as <-. rewrite upd_same. destruct (fix4 s); reflexivity.
  - intros h' X. discriminate.
  - intros h' X Y. exfalso. updt h h'.
    + destruct (fix4 s); simpl in X; congruence.
    + eapply N2; eauto. discriminate.
Qed.

Lemma rh_mid1 s me par h :
  SInv s -> holder s me par (HMid1 h) ->
  SInv (setpc (set_h s h (hs s h <| h_started := true |> <| h_startedCh := true |> <| h_mid := false |>)) me par (HMid2 h)).
Proof.
  intros I Hh.
  destruct (holder_facts s me par _ I Hh) as (Q & N1 & N2).
  pose proof (i_mid1 _ I h Q) as Mh.
  pose proof (i_hrec _ I h) as R.
  assert (Hlt : h < nexth s). { eapply touched_lt; eauto. intros X. rewrite X in Mh. discriminate. }
  pose proof (i_inmap _ I h Hlt) as IM.
  assert (Hst : h_started (hs s h) = false).
  { destruct (h_started (hs s h)) eqn:X; auto. destruct R. destruct (r_subs1 X). congruence. }
  assert (Hl : h_loop (hs s h) = LNone).
  { destruct R. destruct (h_loop (hs s h)) eqn:X; auto; exfalso;
      assert (h_started (hs s h) = true) by (apply r_loop; congruence); congruence. }
  apply (sinv_locked_move s me par (HMid1 h) (HMid2 h) h _ I Hh);
  [ reflexivity | reflexivity | exact Hlt
  | destruct R; constructor; simpl; rewrite ?Hl in *; simpl; auto; try solve [intuition (congruence || discriminate)];
    intros _; rewrite (r_subs0 Hst), Mh; auto
  | simpl; exact IM
  | simpl; auto | simpl; auto
  | unfold pendh; simpl; rewrite Hl; reflexivity
  | reflexivity
  | intros h' X; exfalso; updt h h'; [discriminate|]; rewrite N1 in X; [discriminate|congruence]
  | intros h' X; discriminate
  | intros h' X; injection X as <-; rewrite upd_same; simpl; auto
  | intros h' X Y; updt h h'; [reflexivity|]; exfalso; eapply N2; eauto; discriminate ].
Qed.

Lemma rh_mid2 s me par h :
  SInv s -> holder s me par (HMid2 h) ->
  SInv (setpc (set_h s h
     ((if fix4 s then hs s h else hs s h <| h_stopFn := true |> <| h_stoppedSet := true |>)
        <| h_loop := LRange |> <| h_hc := CSelect |>)) me par HLoop).
Proof.
  intros I Hh.
  destruct (holder_facts s me par _ I Hh) as (Q & N1 & N2).
  destruct (i_mid2 _ I h Q) as [Hst Hl].
  pose proof (i_hrec _ I h) as R.
  assert (Hlt : h < nexth s). { eapply touched_lt; eauto. intros X. rewrite X in Hst. discriminate. }
  pose proof (i_inmap _ I h Hlt) as IM.
  apply (sinv_locked_move s me par (HMid2 h) HLoop h _ I Hh);
  [ reflexivity | reflexivity | exact Hlt
  | destruct R; destruct (fix4 s) eqn:F4; constructor; simpl; rewrite ?Hl in *; simpl; auto;
      try solve [intuition (congruence || discriminate)]
  | destruct (fix4 s); simpl; rewrite IM, Hl; reflexivity
  | destruct (fix4 s); simpl; auto
  | destruct (fix4 s); simpl; auto
  | destruct (fix4 s); unfold pendh; simpl; rewrite Hl; reflexivity
  | destruct (fix4 s); reflexivity
  | intros h' X; exfalso; updt h h';
    [ destruct (fix4 s); simpl in X; rewrite N1 in X; discriminate | rewrite N1 in X; discriminate ]
  | intros h' X; discriminate
  | intros h' X; discriminate
  | intros h' X Y; exfalso; updt h h';
    [ destruct (fix4 s); simpl in Y; discriminate | eapply N2; eauto; congruence ] ].
Qed.

Lemma holder_thr s t par p : SInv s -> thr s t = TRH par p -> rhl p = true -> holder s (OThr t) par p.
Proof. intros I E R. split; [|exact E]. apply hl_of_thr; auto. now rewrite E. Qed.
Lemma holder_main s p par : SInv s -> mainp s = RRH p -> rhl p = true -> holder s OMain par p.
Proof. intros I E R. split; [|exact E]. apply hl_of_main; auto. now rewrite E. Qed.

(** HLoop -> HFail: the lock holder only changes its pc *)
Lemma rh_fail_thr s t par : SInv s -> thr s t = TRH par HLoop -> SInv (set_t s t (TRH par HFail)).
Proof.
  intros I E.
  assert (H : hlock s = Some (OThr t)). { apply hl_of_thr; auto. now rewrite E. }
  pose proof (lockpc_thr s t par _ H E) as Q. held_facts I H Q. destruct F as (F1 & F2 & F3).
  apply (sinv_relock s); auto; simpl; unfold lockpc; simpl; rewrite ?H, ?upd_same; auto.
  all: try solve [ rewrite ?F1, ?F3; split; discriminate ].
  all: try solve [ intros h X; rewrite N1 in X; discriminate ].
  all: try solve [ discriminate ].
  all: try solve [ intros h X Y; destruct (N2 h X Y) ].
  all: try solve [ tauto ].
  all: try solve [ intros t'; upds; simpl; [split; congruence|]; rewrite F2 by assumption; split; congruence ].
  all: try solve [ intros t'; upds; [right; repeat split; discriminate|left; reflexivity] ].
  all: try solve [ apply (i_hl_main _ I) ]. all: try solve [ apply (i_hl_wat _ I) ].
Qed.

Lemma rh_fail_main s : SInv s -> mainp s = RRH HLoop -> SInv (s <| mainp := RRH HFail |>).
Proof.
  intros I E.
  assert (H : hlock s = Some OMain). { apply hl_of_main; auto. now rewrite E. }
  pose proof (lockpc_main s _ H E) as Q. held_facts I H Q. destruct F as (F2 & F3).
  rewrite E in *; simpl in *.
  apply (sinv_relock s); auto; simpl; unfold lockpc; simpl; rewrite ?H; auto.
  all: try solve [ split; congruence ].
  all: try solve [ intros h X; rewrite N1 in X; discriminate ].
  all: try solve [ discriminate ].
  all: try solve [ intros h X Y; destruct (N2 h X Y) ].
  all: try solve [ tauto ].
  all: try solve [ intros t'; rewrite F2; split; congruence ].
  all: try solve [ apply (i_hl_thr _ I) ]. all: try solve [ apply (i_hl_wat _ I) ].
  all: try solve [ intuition congruence ].
Qed.

Lemma step_lt s t c s' evs : SInv s -> step s (LT t c) = Some (s', evs) -> SInv s'.
Proof.
  intros I H. unfold step in H. destruct (thr s t) eqn:E; try discriminate.
  - (* TRunCheck *)
    destruct c; try discriminate. destruct (isRunning s) eqn:R.
    + injection H as <- <-. apply sinv_set_t; auto; rewrite ?E; try reflexivity; try discriminate;
        try solve [intros; discriminate]; try solve [intros ? ? [X|X]; discriminate].
    + destruct (mainp s) eqn:M; try discriminate. injection H as <- <-. now apply become_main.
  - (* TRH *)
    destruct (rh_step s (OThr t) par p c) as [[[s1 p'] evs1]|] eqn:RH; [|discriminate].
    injection H as <- <-. unfold rh_step in RH.
    destruct p, c; try discriminate.
    + (* HCheck *) injection RH as <- <- <-.
      apply sinv_set_t; auto; rewrite ?E; try reflexivity; try (destruct (isRunning s); discriminate);
        try (destruct (isRunning s); reflexivity);
        try solve [intros; destruct (isRunning s); discriminate];
        try solve [intros ? ? [X|X]; destruct (isRunning s); discriminate].
    + (* HWant *) destruct (hlock s) eqn:HL; [discriminate|]. injection RH as <- <- <-. now apply rh_acquire_thr.
    + (* HLoop CStep *) destruct (all_started s); [|discriminate]. injection RH as <- <- <-.
      eapply rh_release_thr; eauto.
    + (* HLoop CPick *)
      destruct (Nat.ltb h (nexth s) && h_inmap (hs s h) && negb (h_started (hs s h))) eqn:G; [|discriminate].
      bools. destruct ok; injection RH as <- <- <-.
      * apply (rh_pick_ok s (OThr t) par h); auto. apply holder_thr; auto.
      * now apply rh_fail_thr.
    + (* HMid1 *) injection RH as <- <- <-. apply (rh_mid1 s (OThr t) par h); auto. apply holder_thr; auto.
    + (* HMid2 *) injection RH as <- <- <-. apply (rh_mid2 s (OThr t) par h); auto. apply holder_thr; auto.
    + (* HFail *) injection RH as <- <- <-. eapply rh_release_thr; eauto.
  - (* TStopRead *)
    destruct c; try discriminate. destruct (h_started (hs s h)) eqn:S; injection H as <- <-.
    + apply sinv_set_t; auto; rewrite ?E; try reflexivity; try discriminate; try solve [intros; discriminate].
      * intros h' a [X|X]; [discriminate|]. injection X as <- <-. apply (i_stop _ I t h after). now left.
      * intros h' a X. injection X as <- <-. exact S.
    + apply sinv_set_t; auto; rewrite ?E; try reflexivity; try discriminate; try solve [intros; discriminate];
        try solve [intros ? ? [X|X]; discriminate].
      intros h' r X F4. exfalso. injection X as <- -> <-.
      destruct (i_stop _ I t h true (or_introl E)) as [_ Y]. specialize (Y eq_refl).
      destruct (i_hrec _ I h) as [R1 _ _ _ _ _ _ _ _ _]. rewrite (R1 Y) in S. discriminate.
  - (* TStopCall *)
    destruct c; try discriminate.
    assert (Hlt : h < nexth s) by (apply (i_stop _ I t h after); now right).
    destruct (h_stopFn (hs s h)) eqn:S; injection H as <- <-.
    + apply sinv_set_t.
      * seth I h.
      * simpl. rewrite E. reflexivity.
      * reflexivity.
      * discriminate.
      * discriminate.
      * intros ? ? [X|X]; discriminate.
      * intros; discriminate.
      * intros h' r X _. now injection X as _ _ <-.
    + apply sinv_set_t; auto; rewrite ?E; try reflexivity; try discriminate; try solve [intros; discriminate];
        try solve [intros ? ? [X|X]; discriminate].
      intros h' r X F4. exfalso. injection X as <- -> <-.
      pose proof (i_stopcall _ I t h true E) as Y.
      destruct (i_hrec _ I h) as [_ _ R3 _ _ _ _ _ _ _]. destruct (R3 F4 (or_introl Y)). congruence.
  - (* TClose *)
    destruct (cl_step s (OThr t) p c) as [[s1 p']|] eqn:CL; [|discriminate].
    injection H as <- <-. unfold cl_step in CL. destruct p, c; try discriminate.
    + destruct (clock s); [discriminate|]. injection CL as <- <-.
      apply sinv_set_t; [now apply sinv_clock| simpl; rewrite E; reflexivity | reflexivity | discriminate | discriminate
                        | intros ? ? [X|X]; discriminate | intros; discriminate | intros; discriminate].
    + destruct (hlock s) eqn:HL; [discriminate|]. injection CL as <- <-. now apply k_acquire_thr.
    + destruct (closedF s); injection CL as <- <-.
      * change (SInv ((set_t (s <| hlock := None |>) t (TClose (KRet (negb (closeErr s))))) <| clock := None |>)).
        apply sinv_clock. eapply k_release_thr; eauto.
      * change (SInv ((set_t (close_unstarted s) t (TClose KWait)) <| closedF := true |> <| closingCh := true |> <| wremoved := wremoved s || false |>)).
        apply sinv_wremoved, sinv_closingCh, sinv_closedF.
        assert (HL : hlock s = Some (OThr t)) by (apply hl_of_thr; auto; now rewrite E).
        apply (k_move_thr _ t KCheck); auto.
        -- apply sinv_close_unstarted; auto. eapply lockpc_closer_thr; eauto.
        -- unfold close_unstarted. destruct (fix16 s); exact E.
    + destruct (Nat.eqb (hwg s) 0 && none_inflight s); [|discriminate]. injection CL as <- <-.
      eapply k_move_thr; eauto.
    + injection CL as <- <-.
      change (SInv ((set_t s t (TClose (KFinish false))) <| closeErr := true |>)).
      apply sinv_closeErr. eapply k_move_thr; eauto.
    + injection CL as <- <-.
      change (SInv ((set_t (s <| hlock := None |>) t (TClose (KRet ok))) <| closedCh := true |> <| clock := None |>)).
      apply sinv_clock, sinv_closedCh. eapply k_release_thr; eauto.
Qed.

Lemma step_main s c s' evs : SInv s -> step s (LMain c) = Some (s', evs) -> SInv s'.
Proof.
  intros I H. unfold step in H. destruct (mainp s) eqn:E; try discriminate.
  - (* RWatch *)
    destruct c; try discriminate. destruct (hlock s) eqn:HL; [discriminate|]. injection H as <- <-.
    change (SInv ((s <| mainp := RRH HWant |>) <| wat := if Nat.eqb (maplen s) 0 then WPre else WWait |>)).
    assert (W : wat_hl (wat s) = false) by (apply (free_lock s I HL)).
    apply sinv_wat_move; [|exact W|destruct (Nat.eqb (maplen s) 0); reflexivity].
    apply sinv_main_move; auto; rewrite ?E; try reflexivity; try discriminate.
    intros X. apply (i_running _ I) in X. rewrite E in X. discriminate.
  - (* RRH *)
    destruct (rh_step s OMain PRun p c) as [[[s1 p'] evs1]|] eqn:RH; [|discriminate].
    unfold rh_step in RH. destruct p, c; try discriminate.
    + (* HCheck: never reached by Run, but harmless *)
      injection RH as <- <- <-. destruct (isRunning s); injection H as <- <-.
      * apply sinv_main_move; auto; rewrite ?E; try reflexivity; try discriminate.
        intros X. apply (i_running _ I) in X. rewrite E in X. discriminate.
      * change (SInv ((s <| mainp := RDone false |>) <| rcancel := true |>)). apply sinv_rcancel.
        apply sinv_main_move; auto; rewrite ?E; try reflexivity; try discriminate.
        intros X. apply (i_running _ I) in X. rewrite E in X. discriminate.
    + (* HWant *) destruct (hlock s) eqn:HL; [discriminate|]. injection RH as <- <- <-. injection H as <- <-.
      now apply rh_acquire_main.
    + (* HLoop CStep *) destruct (all_started s) eqn:A; [|discriminate]. injection RH as <- <- <-. injection H as <- <-.
      now apply rh_release_main_ok.
    + (* HLoop CPick *)
      destruct (Nat.ltb h (nexth s) && h_inmap (hs s h) && negb (h_started (hs s h))) eqn:G; [|discriminate].
      bools. destruct ok; injection RH as <- <- <-; injection H as <- <-.
      * apply (rh_pick_ok s OMain PRun h); auto. apply holder_main; auto.
      * now apply rh_fail_main.
    + (* HMid1 *) injection RH as <- <- <-. injection H as <- <-. apply (rh_mid1 s OMain PRun h); auto. apply holder_main; auto.
    + (* HMid2 *) injection RH as <- <- <-. injection H as <- <-. apply (rh_mid2 s OMain PRun h); auto. apply holder_main; auto.
    + (* HFail *) injection RH as <- <- <-. injection H as <- <-. now apply rh_release_main_fail.
  - destruct c; try discriminate. injection H as <- <-.
    change (SInv ((s <| mainp := RWaitClosing |>) <| runningCh := true |>)).
    assert (I1 : SInv (s <| mainp := RWaitClosing |>)).
    { apply sinv_main_move; auto; rewrite ?E; try reflexivity; try discriminate. }
    dI I1. constructor; unfold lockpc in *; simpl in *; auto.
  - destruct c; try discriminate. destruct (closingCh s); [|discriminate]. injection H as <- <-.
    change (SInv ((s <| mainp := RWaitClosed |>) <| rcancel := true |>)). apply sinv_rcancel.
    apply sinv_main_move; auto; rewrite ?E; try reflexivity; try discriminate.
  - destruct c; try discriminate. destruct (closedCh s); [|discriminate]. injection H as <- <-.
    apply sinv_main_move; auto; rewrite ?E; try reflexivity; try discriminate.
Qed.

Lemma step_watch s c s' evs : SInv s -> step s (LWatch c) = Some (s', evs) -> SInv s'.
Proof.
  intros I H. unfold step in H. destruct (wat s) eqn:E; try discriminate.
  - destruct c; try discriminate. injection H as <- <-. apply sinv_wat_move; auto. now rewrite E.
  - destruct c; try discriminate.
    + destruct (hadded s); [discriminate|]. injection H as <- <-.
      change (SInv ((s <| hadded := n |>) <| wat := WWait |>)). apply sinv_wat_move; [now apply sinv_hadded| simpl; now rewrite E|reflexivity].
    + destruct (closedCh s); [|discriminate]. injection H as <- <-. apply sinv_wat_move; auto. now rewrite E.
    + destruct (fix15 s && (cctx s || rcancel s)); [|discriminate]. injection H as <- <-. apply sinv_wat_move; auto. now rewrite E.
  - destruct c; try discriminate. destruct (Nat.eqb (hwg s) 0); [|discriminate]. injection H as <- <-.
    apply sinv_wat_move; auto. now rewrite E.
  - destruct c; try discriminate. destruct (clock s); [discriminate|]. injection H as <- <-.
    apply sinv_wat_move; auto; [now rewrite E|destruct (closedF s); reflexivity].
  - destruct (cl_step s OWatch p c) as [[s1 p']|] eqn:CL; [|discriminate].
    unfold cl_step in CL. destruct p, c; try discriminate.
    + destruct (clock s); [discriminate|]. injection CL as <- <-. injection H as <- <-.
      change (SInv ((s <| clock := Some OWatch |>) <| wat := WClose KWantH |>)).
      apply sinv_wat_move; [now apply sinv_clock|simpl; now rewrite E|reflexivity].
    + destruct (hlock s) eqn:HL; [discriminate|]. injection CL as <- <-. injection H as <- <-. now apply k_acquire_wat.
    + destruct (closedF s); injection CL as <- <-; injection H as <- <-.
      * change (SInv ((s <| hlock := None |> <| wat := WDone |>) <| clock := None |>)).
        apply sinv_clock. eapply k_release_wat; eauto.
      * change (SInv ((close_unstarted s <| wat := WClose KWait |>) <| closedF := true |> <| closingCh := true |> <| wremoved := wremoved s || (fix16 s && negb (all_started s)) |>)).
        apply sinv_wremoved, sinv_closingCh, sinv_closedF.
        assert (HL : hlock s = Some OWatch) by (apply hl_of_wat; auto; now rewrite E).
        apply (k_move_wat _ KCheck); auto.
        -- apply sinv_close_unstarted; auto. now apply lockpc_watch.
        -- unfold close_unstarted. destruct (fix16 s); exact E.
    + destruct (Nat.eqb (hwg s) 0 && none_inflight s); [|discriminate]. injection CL as <- <-. injection H as <- <-.
      eapply k_move_wat; eauto.
    + injection CL as <- <-. injection H as <- <-.
      change (SInv ((s <| wat := WClose (KFinish false) |>) <| closeErr := true |>)).
      apply sinv_closeErr. eapply k_move_wat; eauto.
    + injection CL as <- <-. injection H as <- <-.
      change (SInv ((s <| hlock := None |> <| wat := WDone |>) <| closedCh := true |> <| clock := None |>)).
      apply sinv_clock, sinv_closedCh. eapply k_release_wat; eauto.
Qed.

Theorem step_sinv s l s' evs : SInv s -> step s l = Some (s', evs) -> SInv s'.
Proof.
  intros I H. destruct l.
  - eapply step_add; eauto.
  - eapply step_calls; [exact I | exists t; left; reflexivity | exact H].
  - eapply step_calls; [exact I | exists t; right; left; exists par; reflexivity | exact H].
  - eapply step_calls; [exact I | exists t; right; right; left; exists h; reflexivity | exact H].
  - eapply step_calls; [exact I | exists t; right; right; right; reflexivity | exact H].
  - eapply step_cancel; eauto.
  - eapply step_obs; [exact I | right; exists h; right; right; reflexivity | exact H].
  - eapply step_obs; [exact I | left; reflexivity | exact H].
  - eapply step_obs; [exact I | right; exists h; left; reflexivity | exact H].
  - eapply step_obs; [exact I | right; exists h; right; left; reflexivity | exact H].
  - eapply step_subend; eauto.
  - eapply step_recv; eauto.
  - eapply step_publish; eauto.
  - eapply step_subctx; eauto.
  - eapply step_lt; eauto.
  - eapply step_main; eauto.
  - eapply step_watch; eauto.
  - eapply step_loop; eauto.
  - eapply step_hc; eauto.
Qed.

Theorem run_sinv ls : forall s, SInv s -> SInv (run s ls).
Proof.
  induction ls as [|l ls IH]; intros s I; simpl; [exact I|].
  destruct (step s l) as [[s' evs]|] eqn:E; [|now apply IH]. apply IH. eapply step_sinv; eauto.
Qed.

Theorem reachable_sinv f4 f14 f15 f16 ls : SInv (run (rinit f4 f14 f15 f16) ls).
Proof. apply run_sinv, sinv_init. Qed.
