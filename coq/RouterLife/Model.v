(** Router lifecycle (start / RunHandlers / Stop / self-close) as a thread-level transition
    system, written from message/router.go:

      Run                 l.366-404   [RunCheck] isRunning check-and-set; [RWatch] watchAllHandlersStopped
                                      (RLock; len(handlers)==0; RUnlock; go watcher); RunHandlers inline;
                                      close(running); <-closingInProgressCh; cancel(); <-closedCh; return nil
      RunHandlers         l.408-475   isRunning read; handlersLock.Lock; for every handler of the map that
                                      is not started: Subscribe; started=true; close(startedCh); stopFn=...;
                                      stopped=make; go loop  - IN THE CODE'S ORDER ([fix4] = the D4 repair:
                                      stopFn/stopped assigned before close(startedCh)); deferred Unlock
      handler goroutine   l.453-472   h.run (go handleClose; range messagesCh; publisher.Close);
                                      handlersWg.Done; handlersLock.Lock; delete; Unlock; close(stopped); cancel
      handleClose                     select { routersCloseCh -> subscriber.Close | ctx.Done -> poll routersCloseCh: closed -> subscriber.Close }; stopFn()
      watcher             l.479-516   [hasNoHandlersYet] select { <-handlerAdded | <-closedCh };
                                      handlersWg.Wait; IsClosed; Close
      AddHandler          l.279-336   Lock; handlersWg.Add(1); insert; NON-BLOCKING send on handlerAdded
                                      ([fix14] = the D14 repair: the channel has a buffer of one); Unlock
      Close               l.545-572   closedLock; handlersLock; closed?; closed=true; close(closingInProgressCh);
                                      waitForHandlers (abstracted: all loops done and nothing in flight, or
                                      the CloseTimeout fires); close(closedCh); unlocks
      Handler.Stop        l.693-699   racy read of started ("handler is not started" panic); stopFn()
      Handler.Stopped     l.702-704   returns h.stopped (nil before it is assigned)

    One step per synchronisation operation; straight-line code is folded into the preceding
    step; a run of consecutive releasing operations (close(closedCh); Unlock; Unlock) is one step.
    Clients and the environment are LABELS (AddHandler, Run, RunHandlers, Stop, Close, cancel,
    observing Running/Started/Stopped, the subscription ending, a message arriving), enabled at
    any time: a theorem over all label lists is a theorem over all client programs, any number
    of handlers / calls / threads, and all schedules.  Every step also emits the API-level events
    the property monitor (RouterLife/Monitor.v) judges.  No proofs here. *)
From WM Require Import Base.Prelude Base.Count.
From RecordUpdate Require Import RecordSet.
Import RecordSetNotations.

Definition hid := nat.       (* handler, numbered in the order of AddHandler *)
Definition pubid := nat.     (* publisher object *)

(** which context the handler's subscription context is derived from *)
Inductive parent :=
| PRun        (* Run's own derived context: cancelled by the client's cancel or by Run's cancel() *)
| PClient     (* RunHandlers(ctx) called by a client with the context it gave to Run *)
| PBg.        (* RunHandlers(ctx) called with some other context that is never cancelled *)

(** handler goroutine (l.453-472 + handler.run) *)
Inductive lpc :=
| LNone             (* not spawned *)
| LRange            (* for msg := range h.messagesCh *)
| LPubClose         (* channel seen closed; about to publisher.Close() *)
| LWgDone           (* about to handlersWg.Done() *)
| LDelete           (* about to handlersLock.Lock(); delete; Unlock *)
| LCloseStopped     (* about to close(h.stopped); deferred cancel() *)
| LDone.
Inductive cpc := CNone | CSelect | CDone.     (* handleClose *)

Record hst := HS {
  h_pub : option pubid;        (* None: AddNoPublisherHandler (disabledPublisher) *)
  h_hon : bool;                (* the subscriber closes the subscription when its context is done *)
  h_par : parent;
  h_sub : nat;                 (* the Subscriber OBJECT (several handlers may share one: its Close() ends all their subscriptions) *)
  h_inmap : bool;              (* present in r.handlers *)
  h_started : bool;            (* h.started *)
  h_startedCh : bool;          (* h.startedCh is closed *)
  h_stopFn : bool;             (* h.stopFn assigned *)
  h_stoppedSet : bool;         (* h.stopped assigned (non-nil) *)
  h_stoppedCh : bool;          (* h.stopped is closed *)
  h_cancel : bool;             (* the handler's own cancel() / stopFn() was called *)
  h_subOpen : bool;            (* the subscription's message channel is open *)
  h_subs : nat;                (* successful Subscribe calls for this handler (ghost) *)
  h_inflight : nat;            (* messages received by the loop whose handleMessage has not finished *)
  h_mid : bool;                (* ghost: Subscribe returned, h.started not yet set *)
  h_stopreq : bool;            (* ghost: a Stop() call on this handler reached stopFn() *)
  h_envend : bool;             (* ghost: the environment ended this handler's subscription *)
  h_removed : bool;            (* Close released and removed it because it was never started (D16 repair) *)
  h_loop : lpc;
  h_hc : cpc
}.
#[export] Instance eta_hst : Settable _ := settable! HS
  <h_pub; h_hon; h_par; h_sub; h_inmap; h_started; h_startedCh; h_stopFn; h_stoppedSet; h_stoppedCh;
   h_cancel; h_subOpen; h_subs; h_inflight; h_mid; h_stopreq; h_envend; h_removed; h_loop; h_hc>.

Definition h0 : hst := HS None false PRun 0 false false false false false false false false 0 0 false false false false LNone CNone.

Inductive owner := OMain | OThr (t : tid) | OWatch.

(** RunHandlers (executed inline by Run and by any number of client threads) *)
Inductive rhpc :=
| HCheck            (* about to read r.isRunning *)
| HWant             (* before handlersLock.Lock() *)
| HLoop             (* holds the lock, between two handlers *)
| HMid1 (h : hid)   (* Subscribe returned: about to set started / close(startedCh) *)
| HMid2 (h : hid)   (* about to assign the rest and [go] the handler goroutine *)
| HFail             (* Subscribe failed: about to return the error (deferred Unlock) *)
| HRet (ok : bool).

(** Close (executed by the watcher and by any number of client threads) *)
Inductive clpc :=
| KWantC            (* before closedLock.Lock() *)
| KWantH            (* before handlersLock.Lock() *)
| KCheck            (* holds both: if r.closed ... *)
| KWait             (* closed=true, closingInProgressCh closed: in waitForHandlers *)
| KFinish (ok : bool)   (* about to close(closedCh) and unlock both *)
| KRet (ok : bool).

Inductive rpc :=
| RNone
| RWatch            (* isRunning set; about to read len(handlers) and spawn the watcher *)
| RRH (p : rhpc)
| RCloseRunning     (* about to close(r.running) *)
| RWaitClosing      (* <-r.closingInProgressCh *)
| RWaitClosed       (* <-r.closedCh *)
| RDone (ok : bool).

Inductive wpc :=
| WNone
| WPre              (* spawned with hasNoHandlersYet, has not reached the select yet *)
| WSelect           (* blocked in select { <-handlerAdded | <-closedCh } *)
| WWait             (* handlersWg.Wait() *)
| WIsClosed         (* r.IsClosed() *)
| WClose (p : clpc)
| WDone.

Inductive stopres := StopOk | StopNotStarted | StopNilPanic.

Inductive tpc :=
| TNone
| TRunCheck                                  (* Run called: about to check-and-set isRunning *)
| TMain                                      (* this client is inside THE Run (see [mainp]) *)
| TRunDone (ok : bool)
| TRH (par : parent) (p : rhpc)
| TStopRead (h : hid) (after : bool)         (* Stop called; [after]: Started() was closed at the call *)
| TStopCall (h : hid) (after : bool)
| TStopDone (h : hid) (after : bool) (r : stopres)
| TClose (p : clpc).

Record rstate := RS {
  fix4 : bool;                 (* D4 repaired *)
  fix14 : bool;                (* D14 repaired *)
  fix15 : bool;                (* D15 repaired: the watcher's select also waits for the Run context *)
  fix16 : bool;                (* D16 repaired: Close releases and removes the handlers that were never started *)
  nexth : nat;
  hs : hid -> hst;
  isRunning : bool;
  runningCh : bool;            (* r.running is closed *)
  hlock : option owner;        (* handlersLock (write side) *)
  clock : option owner;        (* closedLock *)
  hwg : nat;                   (* handlersWg counter *)
  hadded : nat;                (* signals buffered in handlerAdded (always 0 unless fix14) *)
  maplen : nat;                (* len(r.handlers) *)
  closingCh : bool;            (* closingInProgressCh closed *)
  closedCh : bool;
  closedF : bool;              (* r.closed *)
  closeErr : bool;             (* r.closeErr set: a Close timed out (D12 repair: later Close calls return it) *)
  cctx : bool;                 (* the client cancelled the context it gave to Run *)
  rcancel : bool;              (* Run called its own cancel() *)
  pubClosed : pubid -> bool;
  mainp : rpc;
  maint : tid;                 (* the client thread that is inside the main Run *)
  wat : wpc;
  thr : tid -> tpc;
  run_n : nat;                 (* ghost: handlers registered when Run's RunHandlers took the lock *)
  panicked : bool;             (* runtime panic inside a router goroutine (negative WaitGroup counter) *)
  wremoved : bool              (* ghost: the WATCHER's own Close released and removed a handler, i.e. a handler was added
                                  while the router was closing itself (the property's quantifier excludes this) *)
}.
#[export] Instance eta_rstate : Settable _ := settable! RS
  <fix4; fix14; fix15; fix16; nexth; hs; isRunning; runningCh; hlock; clock; hwg; hadded; maplen; closingCh;
   closedCh; closedF; closeErr; cctx; rcancel; pubClosed; mainp; maint; wat; thr; run_n; panicked; wremoved>.

Definition rinit (f4 f14 f15 f16 : bool) : rstate :=
  RS f4 f14 f15 f16 0 (fun _ => h0) false false None None 0 0 0 false false false false false false
     (fun _ => false) RNone 0 WNone (fun _ => TNone) 0 false false.

(** API-level events (what a client / the scripted collaborators can see) *)
Inductive aev :=
| AAdd (h : hid) (pub : option pubid)
| ARunCall (t : tid)
| ARunRet (t : tid) (ok : bool)
| ARunningObs
| ASubscribe (h : hid) (ok : bool)          (* the subscriber's Subscribe was called for handler h *)
| ARHCall (t : tid)
| ARHRet (t : tid) (ok : bool)
| AStartedObs (h : hid)
| AStopCall (t : tid) (h : hid)
| AStopRet (t : tid) (r : stopres)
| AStoppedGet (h : hid) (nonnil : bool)
| AStoppedObs (h : hid)
| ACancel
| ACloseCall (t : tid)
| ACloseRet (t : tid) (ok : bool)
| ASubEnd (h : hid)
| AProcessed (h : hid) (ok : bool)          (* a message of h went through: published / acked, or failed *)
| APubClose (p : pubid)
| AWeak                                     (* a subscription that does not follow the Run context was set up
                                               (subscriber ignoring its context / RunHandlers with a foreign context) *)
| AProbeStuck (h : hid)                     (* harness watchdog: a probe message was not taken *)
| ARunHung.                                 (* harness watchdog: Run did not return *)

Inductive choice :=
| CStep                         (* the deterministic next step / first select branch *)
| CAlt                          (* second select branch; Close: the CloseTimeout fires *)
| CCtx                          (* watcher (D15 repair): the <-ctx.Done() branch of its select *)
| CPick (h : hid) (ok : bool).  (* RunHandlers: next handler of the map iteration; Subscribe succeeds? *)

Inductive label :=
| LAdd (pub : option pubid) (hon : bool) (sub : nat)
| LRunCall (t : tid)
| LRHCall (t : tid) (par : parent)
| LStopCall (t : tid) (h : hid)
| LCloseCall (t : tid)
| LCancel
| LStoppedGet (h : hid)
| LObsRunning
| LObsStarted (h : hid)
| LObsStopped (h : hid)
| LSubEnd (h : hid)              (* the environment ends the subscription (connection lost) *)
| LRecv (h : hid)                (* the loop receives a message; handleMessage is spawned *)
| LPublish (h : hid)             (* a handleMessage of h publishes its output / settles *)
| LSubCtx (h : hid)              (* a context-honouring subscriber closes the subscription *)
| LT (t : tid) (c : choice)
| LMain (c : choice)
| LWatch (c : choice)
| LLoop (h : hid)
| LHC (h : hid) (closing : bool).

Definition set_h (s : rstate) (h : hid) (x : hst) : rstate := s <| hs := upd (hs s) h x |>.
Definition set_t (s : rstate) (t : tid) (p : tpc) : rstate := s <| thr := upd (thr s) t p |>.

Definition parent_done (s : rstate) (p : parent) : bool :=
  match p with PRun => cctx s || rcancel s | PClient => cctx s | PBg => false end.
Definition hctx_done (s : rstate) (h : hid) : bool :=
  h_cancel (hs s h) || parent_done s (h_par (hs s h)).

(** every handler of the map is started: the map iteration of RunHandlers has nothing left *)
Definition all_started (s : rstate) : bool :=
  forallb (fun h => negb (h_inmap (hs s h)) || h_started (hs s h)) (seq 0 (nexth s)).
Definition none_inflight (s : rstate) : bool :=
  forallb (fun h => Nat.eqb (h_inflight (hs s h)) 0) (seq 0 (nexth s)).

(** Close (D16 repair, under both locks): for every handler of the map that was never started:
    handlersWg.Done(); delete(r.handlers, name) *)
Definition removable (x : hst) : bool := h_inmap x && negb (h_started x).
Definition close_unstarted (s : rstate) : rstate :=
  if fix16 s then
    let k := cnt (fun h => removable (hs s h)) (nexth s) in
    s <| hs := fun h => if removable (hs s h) then hs s h <| h_inmap := false |> <| h_removed := true |> else hs s h |>
      <| hwg := hwg s - k |> <| maplen := maplen s - k |> <| panicked := panicked s || Nat.ltb (hwg s) k |>
  else s.

(** subscriber.Close() called by handler h's handleClose: ends the subscriptions of ALL handlers that
    use the same Subscriber object *)
Definition close_sub (s : rstate) (h : hid) : rstate :=
  s <| hs := fun h' => if Nat.eqb (h_sub (hs s h')) (h_sub (hs s h)) then hs s h' <| h_subOpen := false |> else hs s h' |>.

Definition rh_step (s : rstate) (me : owner) (par : parent) (p : rhpc) (c : choice)
  : option (rstate * rhpc * list aev) :=
  match p, c with
  | HCheck, CStep => Some (s, if isRunning s then HWant else HRet false, [])
  | HWant, CStep =>
      match hlock s with
      | None => Some (s <| hlock := Some me |>, HLoop, [])
      | Some _ => None
      end
  | HLoop, CPick h ok =>
      let x := hs s h in
      if Nat.ltb h (nexth s) && h_inmap x && negb (h_started x) then
        if ok then
          let x1 := x <| h_par := par |> <| h_subOpen := true |> <| h_subs := S (h_subs x) |> <| h_mid := true |> in
          let x2 := if fix4 s then x1 <| h_stopFn := true |> <| h_stoppedSet := true |> else x1 in
          Some (set_h s h x2, HMid1 h, [ASubscribe h true])
        else Some (s, HFail, [ASubscribe h false])
      else None
  | HLoop, CStep =>
      if all_started s then Some (s <| hlock := None |>, HRet true, []) else None
  | HMid1 h, CStep =>
      Some (set_h s h (hs s h <| h_started := true |> <| h_startedCh := true |> <| h_mid := false |>), HMid2 h, [])
  | HMid2 h, CStep =>
      let x := hs s h in
      let x1 := if fix4 s then x else x <| h_stopFn := true |> <| h_stoppedSet := true |> in
      Some (set_h s h (x1 <| h_loop := LRange |> <| h_hc := CSelect |>), HLoop, [])
  | HFail, CStep => Some (s <| hlock := None |>, HRet false, [])
  | _, _ => None
  end.

Definition cl_step (s : rstate) (me : owner) (p : clpc) (c : choice) : option (rstate * clpc) :=
  match p, c with
  | KWantC, CStep =>
      match clock s with None => Some (s <| clock := Some me |>, KWantH) | Some _ => None end
  | KWantH, CStep =>
      match hlock s with None => Some (s <| hlock := Some me |>, KCheck) | Some _ => None end
  | KCheck, CStep =>
      if closedF s then Some (s <| hlock := None |> <| clock := None |>, KRet (negb (closeErr s)))
      else Some (close_unstarted s <| closedF := true |> <| closingCh := true |>
                   <| wremoved := wremoved s || (match me with OWatch => fix16 s && negb (all_started s) | _ => false end) |>, KWait)
  | KWait, CStep =>
      if Nat.eqb (hwg s) 0 && none_inflight s then Some (s, KFinish true) else None
  | KWait, CAlt => Some (s <| closeErr := true |>, KFinish false)
  | KFinish ok, CStep =>
      Some (s <| closedCh := true |> <| hlock := None |> <| clock := None |>, KRet ok)
  | _, _ => None
  end.

Definition step (s : rstate) (l : label) : option (rstate * list aev) :=
  match l with
  | LAdd pub hon sub =>
      match hlock s with
      | Some _ => None
      | None =>
          let h := nexth s in
          let s1 := set_h s h (h0 <| h_pub := pub |> <| h_hon := hon |> <| h_sub := sub |> <| h_inmap := true |>)
                      <| nexth := S h |> <| hwg := S (hwg s) |> <| maplen := S (maplen s) |> in
          (* select { case r.handlerAdded <- struct{}{}: default: } *)
          let s2 := if fix14 s
                    then (if Nat.eqb (hadded s1) 0 then s1 <| hadded := 1 |> else s1)
                    else match wat s1 with WSelect => s1 <| wat := WWait |> | _ => s1 end in
          Some (s2, AAdd h pub :: if hon then [] else [AWeak])
      end
  | LRunCall t =>
      match thr s t with TNone => Some (set_t s t TRunCheck, [ARunCall t]) | _ => None end
  | LRHCall t par =>
      match thr s t with
      | TNone => Some (set_t s t (TRH par HCheck), ARHCall t :: match par with PBg => [AWeak] | _ => [] end)
      | _ => None
      end
  | LStopCall t h =>
      match thr s t with
      | TNone => if Nat.ltb h (nexth s)
                 then Some (set_t s t (TStopRead h (h_startedCh (hs s h))), [AStopCall t h]) else None
      | _ => None
      end
  | LCloseCall t =>
      match thr s t with TNone => Some (set_t s t (TClose KWantC), [ACloseCall t]) | _ => None end
  | LCancel => Some (s <| cctx := true |>, [ACancel])
  | LStoppedGet h =>
      if Nat.ltb h (nexth s) then Some (s, [AStoppedGet h (h_stoppedSet (hs s h))]) else None
  | LObsRunning => if runningCh s then Some (s, [ARunningObs]) else None
  | LObsStarted h => if Nat.ltb h (nexth s) && h_startedCh (hs s h) then Some (s, [AStartedObs h]) else None
  | LObsStopped h =>
      if Nat.ltb h (nexth s) && h_stoppedSet (hs s h) && h_stoppedCh (hs s h) then Some (s, [AStoppedObs h]) else None
  | LSubEnd h =>
      if h_subOpen (hs s h) then Some (set_h s h (hs s h <| h_subOpen := false |> <| h_envend := true |>), [ASubEnd h]) else None
  | LRecv h =>
      let x := hs s h in
      match h_loop x with
      | LRange => if h_subOpen x then Some (set_h s h (x <| h_inflight := S (h_inflight x) |>), []) else None
      | _ => None
      end
  | LPublish h =>
      let x := hs s h in
      match h_inflight x with
      | O => None
      | S n =>
          let ok := match h_pub x with None => true | Some p => negb (pubClosed s p) end in
          Some (set_h s h (x <| h_inflight := n |>), [AProcessed h ok])
      end
  | LSubCtx h =>
      let x := hs s h in
      if h_subOpen x && h_hon x && hctx_done s h
      then Some (set_h s h (x <| h_subOpen := false |>), []) else None
  | LT t c =>
      match thr s t with
      | TRunCheck =>
          match c with
          | CStep =>
              if isRunning s then Some (set_t s t (TRunDone false), [ARunRet t false])
              else match mainp s with
                   | RNone => Some (set_t s t TMain <| isRunning := true |> <| mainp := RWatch |> <| maint := t |>, [])
                   | _ => None
                   end
          | _ => None
          end
      | TRH par p =>
          match rh_step s (OThr t) par p c with
          | Some (s', p', evs) =>
              Some (set_t s' t (TRH par p'),
                    evs ++ match p' with HRet ok => [ARHRet t ok] | _ => [] end)
          | None => None
          end
      | TStopRead h a =>
          match c with
          | CStep => if h_started (hs s h) then Some (set_t s t (TStopCall h a), [])
                     else Some (set_t s t (TStopDone h a StopNotStarted), [AStopRet t StopNotStarted])
          | _ => None
          end
      | TStopCall h a =>
          match c with
          | CStep => if h_stopFn (hs s h)
                     then Some (set_t (set_h s h (hs s h <| h_cancel := true |> <| h_stopreq := true |>)) t (TStopDone h a StopOk), [AStopRet t StopOk])
                     else Some (set_t s t (TStopDone h a StopNilPanic), [AStopRet t StopNilPanic])
          | _ => None
          end
      | TClose p =>
          match cl_step s (OThr t) p c with
          | Some (s', p') =>
              Some (set_t s' t (TClose p'), match p' with KRet ok => [ACloseRet t ok] | _ => [] end)
          | None => None
          end
      | _ => None
      end
  | LMain c =>
      match mainp s with
      | RWatch =>
          match c, hlock s with
          | CStep, None =>
              Some (s <| wat := if Nat.eqb (maplen s) 0 then WPre else WWait |> <| mainp := RRH HWant |>, [])
          | _, _ => None
          end
      | RRH p =>
          match rh_step s OMain PRun p c with
          | Some (s', p', evs) =>
              match p' with
              | HRet true => Some (s' <| mainp := RCloseRunning |>, evs)
              | HRet false => Some (s' <| rcancel := true |> <| mainp := RDone false |>, evs ++ [ARunRet (maint s) false])
              | HLoop => Some ((match p with HWant => s' <| run_n := nexth s |> | _ => s' end) <| mainp := RRH p' |>, evs)
              | _ => Some (s' <| mainp := RRH p' |>, evs)
              end
          | None => None
          end
      | RCloseRunning =>
          match c with CStep => Some (s <| runningCh := true |> <| mainp := RWaitClosing |>, []) | _ => None end
      | RWaitClosing =>
          match c with
          | CStep => if closingCh s then Some (s <| rcancel := true |> <| mainp := RWaitClosed |>, []) else None
          | _ => None
          end
      | RWaitClosed =>
          match c with
          | CStep => if closedCh s then Some (s <| mainp := RDone true |>, [ARunRet (maint s) true]) else None
          | _ => None
          end
      | _ => None
      end
  | LWatch c =>
      match wat s with
      | WPre => match c with CStep => Some (s <| wat := WSelect |>, []) | _ => None end
      | WSelect =>
          match c with
          | CStep => match hadded s with
                     | S n => Some (s <| hadded := n |> <| wat := WWait |>, [])
                     | O => None
                     end
          | CAlt => if closedCh s then Some (s <| wat := WDone |>, []) else None
          | CCtx => if fix15 s && (cctx s || rcancel s) then Some (s <| wat := WWait |>, []) else None
          | _ => None
          end
      | WWait =>
          match c with
          | CStep => if Nat.eqb (hwg s) 0 then Some (s <| wat := WIsClosed |>, []) else None
          | _ => None
          end
      | WIsClosed =>
          match c, clock s with
          | CStep, None => Some (s <| wat := if closedF s then WDone else WClose KWantC |>, [])
          | _, _ => None
          end
      | WClose p =>
          match cl_step s OWatch p c with
          | Some (s', KRet _) => Some (s' <| wat := WDone |>, [])
          | Some (s', p') => Some (s' <| wat := WClose p' |>, [])
          | None => None
          end
      | _ => None
      end
  | LLoop h =>
      let x := hs s h in
      match h_loop x with
      | LRange => if h_subOpen x then None else Some (set_h s h (x <| h_loop := LPubClose |>), [])
      | LPubClose =>
          match h_pub x with
          | Some p => Some (set_h s h (x <| h_loop := LWgDone |>) <| pubClosed := upd (pubClosed s) p true |>, [APubClose p])
          | None => Some (set_h s h (x <| h_loop := LWgDone |>), [])
          end
      | LWgDone =>
          match hwg s with
          | S n => Some (set_h s h (x <| h_loop := LDelete |>) <| hwg := n |>, [])
          | O => Some (set_h s h (x <| h_loop := LDelete |>) <| panicked := true |>, [])
          end
      | LDelete =>
          match hlock s with
          | None => Some (set_h s h (x <| h_loop := LCloseStopped |> <| h_inmap := false |>) <| maplen := pred (maplen s) |>, [])
          | Some _ => None
          end
      | LCloseStopped =>
          Some (set_h s h (x <| h_loop := LDone |> <| h_stoppedCh := true |> <| h_cancel := true |>), [])
      | _ => None
      end
  | LHC h closing =>
      match h_hc (hs s h) with
      | CSelect =>
          if closing then
            if closingCh s then
              let s1 := close_sub s h in
              Some (set_h s1 h (hs s1 h <| h_hc := CDone |> <| h_cancel := true |>), [])
            else None
          else
            (* case <-ctx.Done(): then the non-blocking poll of routersCloseCh (D6 repair): still close the subscriber *)
            if hctx_done s h then
              let s1 := if closingCh s then close_sub s h else s in
              Some (set_h s1 h (hs s1 h <| h_hc := CDone |> <| h_cancel := true |>), [])
            else None
      | _ => None
      end
  end.

(** run a schedule; labels that are not enabled are skipped, so EVERY label list is a schedule *)
Fixpoint run (s : rstate) (ls : list label) : rstate :=
  match ls with
  | [] => s
  | l :: ls' => match step s l with Some (s', _) => run s' ls' | None => run s ls' end
  end.

(** the API history a schedule produces *)
Fixpoint hist (s : rstate) (ls : list label) : list aev :=
  match ls with
  | [] => []
  | l :: ls' => match step s l with Some (s', evs) => evs ++ hist s' ls' | None => hist s ls' end
  end.
