(** "Stop ends that handler only" as ONE reachable-state theorem.  Ghost flags of the model:
    [h_stopreq] (a Stop() call on the handler reached stopFn()), [h_envend] (the environment ended
    its subscription).  Invariant [RInv]: a subscription that has ended, a cancelled handler
    context and a closed publisher each have a REASON - the handler itself was stopped / ended
    by the environment, or something global happened (Run context cancelled, Run's own cancel,
    the router closing). *)
From WM Require Import Base.Prelude Base.Count RouterLife.Model RouterLife.Inv RouterLife.ProofsA RouterLife.ProofsB.
From RecordUpdate Require Import RecordSet.
Import RecordSetNotations.

Definition glob (s : rstate) : bool := cctx s || rcancel s || closingCh s.
Definition reason (x : hst) : bool := h_stopreq x || h_envend x.

Record RInv (s : rstate) : Prop := {
  q_sub : forall h, h_subs (hs s h) = 1 -> h_subOpen (hs s h) = false -> reason (hs s h) = true \/ glob s = true;
  q_cancel : forall h, h_cancel (hs s h) = true -> reason (hs s h) = true \/ glob s = true;
  q_pub : forall p, pubClosed s p = true ->
          glob s = true \/ exists h, h < nexth s /\ h_pub (hs s h) = Some p /\ reason (hs s h) = true
}.

Lemma rinv_init f4 f14 f15 f16 : RInv (rinit f4 f14 f15 f16).
Proof. constructor; simpl; intros; discriminate. Qed.

(** handler records, publishers untouched; the global reasons only grow *)
Lemma rinv_mono s s' : RInv s -> hs s' = hs s -> pubClosed s' = pubClosed s -> nexth s' = nexth s ->
  (glob s = true -> glob s' = true) -> RInv s'.
Proof.
  intros [A B C] E1 E2 E3 G. constructor; rewrite ?E1, ?E2, ?E3.
  - intros h X Y. destruct (A h X Y); auto.
  - intros h X. destruct (B h X); auto.
  - intros p X. destruct (C p X) as [|(h & H1 & H2 & H3)]; auto. right. exists h. auto.
Qed.

(** one handler record changes *)
Definition okupd (s : rstate) (old x : hst) : Prop :=
  (h_subs x = 1 -> h_subOpen x = false -> reason x = true \/ glob s = true)
  /\ (h_cancel x = true -> reason x = true \/ glob s = true)
  /\ h_pub x = h_pub old /\ (reason old = true -> reason x = true).

Lemma rinv_upd s s' h x : RInv s -> hs s' = upd (hs s) h x -> pubClosed s' = pubClosed s -> nexth s' = nexth s ->
  (glob s = true -> glob s' = true) -> okupd s (hs s h) x -> RInv s'.
Proof.
  intros [A B C] E1 E2 E3 G (O1 & O2 & O3 & O4). constructor; rewrite ?E1, ?E2, ?E3.
  - intros h' X Y. updt h h'; [destruct (O1 X Y)|destruct (A h' X Y)]; auto.
  - intros h' X. updt h h'; [destruct (O2 X)|destruct (B h' X)]; auto.
  - intros p X. destruct (C p X) as [|(h' & H1 & H2 & H3)]; auto. right. exists h'.
    updt h h'; auto. rewrite O3. auto.
Qed.

Ltac gmono :=
  unfold glob; simpl; try (intros X; exact X);
  intros X; repeat (apply orb_true_iff in X; destruct X as [X|X]); rewrite ?X, ?orb_true_r; reflexivity.

Lemma okupd_same s h x : RInv s ->
  h_subs x = h_subs (hs s h) -> h_subOpen x = h_subOpen (hs s h) -> h_cancel x = h_cancel (hs s h) ->
  h_pub x = h_pub (hs s h) -> h_stopreq x = h_stopreq (hs s h) -> h_envend x = h_envend (hs s h) ->
  okupd s (hs s h) x.
Proof.
  intros [A B C] E1 E2 E3 E4 E5 E6. unfold okupd, reason. rewrite E1, E2, E3, E4, E5, E6.
  repeat split; auto. apply A. apply B.
Qed.

Lemma rh_rframe s me par p c s1 p' e : RInv s -> rh_step s me par p c = Some (s1, p', e) -> RInv s1.
Proof.
  intros R X. unfold rh_step in X. destruct p, c; try discriminate X; destr X; injection X as <- _ _; try exact R.
  all: try solve [eapply rinv_mono; [exact R|reflexivity|reflexivity|reflexivity|gmono]].
  all: eapply rinv_upd; [exact R|reflexivity|reflexivity|reflexivity|gmono|].
  all: try solve [apply okupd_same; auto].
  all: destruct R as [A B C]; unfold okupd, reason; simpl; repeat split; auto; try discriminate; try apply B.
Qed.

Lemma rinv_close_unstarted s : RInv s -> RInv (close_unstarted s).
Proof.
  intros [A B C]. unfold close_unstarted. destruct (fix16 s); [|constructor; assumption].
  constructor; simpl.
  - intros h X Y. destruct (removable (hs s h)); simpl in *; apply A; auto.
  - intros h X. destruct (removable (hs s h)); simpl in *; apply B; auto.
  - intros p X. destruct (C p X) as [|(h & H1 & H2 & H3)]; auto. right. exists h.
    destruct (removable (hs s h)); simpl; auto.
Qed.

Lemma cl_rframe s me p c s1 p' : RInv s -> cl_step s me p c = Some (s1, p') -> RInv s1.
Proof.
  intros R X. pose proof (rinv_close_unstarted s R) as R'.
  unfold cl_step in X. destruct p, c; try discriminate X; destr X; injection X as <- _; try exact R.
  all: first [eapply rinv_mono; [exact R|reflexivity|reflexivity|reflexivity|gmono]
             |eapply rinv_mono; [exact R'|reflexivity|reflexivity|reflexivity|]].
  all: unfold glob, close_unstarted; destruct (fix16 s); simpl; intros G; rewrite ?orb_true_r; auto.
Qed.

Lemma hctx_reason s h : RInv s -> hctx_done s h = true -> reason (hs s h) = true \/ glob s = true.
Proof.
  intros [A B C] X. unfold hctx_done in X. apply orb_true_iff in X as [X|X]; [now apply B|].
  right. unfold parent_done in X. unfold glob. destruct (h_par (hs s h)); try discriminate X.
  - rewrite X. reflexivity.
  - rewrite X. reflexivity.
Qed.

(** a handler whose loop has left the range has an ended subscription, hence a reason *)
Lemma past_reason s h : SInv s -> RInv s -> past_range (h_loop (hs s h)) = true -> reason (hs s h) = true \/ glob s = true.
Proof.
  intros I R P. destruct (i_hrec _ I h). apply (q_sub _ R).
  - assert (L : h_loop (hs s h) <> LNone) by (intros X; rewrite X in P; discriminate).
    destruct (r_loop L) as (S & _). now destruct (r_subs1 S).
  - now apply r_past.
Qed.

Theorem step_rinv s l s' evs : SInv s -> RInv s -> step s l = Some (s', evs) -> RInv s'.
Proof.
  intros I R H. destruct l; unfold step in H.
  - (* LAdd *)
    destruct (hlock s); [discriminate|]. cbv zeta in H.
    assert (R1 : RInv (set_h s (nexth s) (h0 <| h_pub := pub |> <| h_hon := hon |> <| h_sub := sub |> <| h_inmap := true |>)
                         <| nexth := S (nexth s) |> <| hwg := S (hwg s) |> <| maplen := S (maplen s) |>)).
    { destruct R as [A B C]. constructor; simpl.
      - intros h X Y. updt (nexth s) h; [discriminate|]. destruct (A h X Y); auto.
      - intros h X. updt (nexth s) h; [discriminate|]. destruct (B h X); auto.
      - intros p X. destruct (C p X) as [|(h & H1 & H2 & H3)]; auto. right. exists h.
        rewrite upd_other by lia. repeat split; auto. }
    simpl fix14 in H. simpl hadded in H. simpl wat in H.
    destr H; injection H as <- <-; try exact R1; (eapply rinv_mono; [exact R1|reflexivity|reflexivity|reflexivity|gmono]).
  - destr H; injection H as <- <-; (eapply rinv_mono; [exact R|reflexivity|reflexivity|reflexivity|gmono]).
  - destr H; injection H as <- <-; (eapply rinv_mono; [exact R|reflexivity|reflexivity|reflexivity|gmono]).
  - destr H; injection H as <- <-; (eapply rinv_mono; [exact R|reflexivity|reflexivity|reflexivity|gmono]).
  - destr H; injection H as <- <-; (eapply rinv_mono; [exact R|reflexivity|reflexivity|reflexivity|gmono]).
  - injection H as <- <-. eapply rinv_mono; [exact R|reflexivity|reflexivity|reflexivity|gmono].
  - destr H; injection H as <- <-; exact R.
  - destr H; injection H as <- <-; exact R.
  - destr H; injection H as <- <-; exact R.
  - destr H; injection H as <- <-; exact R.
  - (* LSubEnd *) destr H; injection H as <- <-.
    eapply rinv_upd; [exact R|reflexivity|reflexivity|reflexivity|gmono|]. destruct R as [A B C].
    unfold okupd, reason; simpl; repeat split; auto; rewrite ?orb_true_r; auto.
  - (* LRecv *) destr H; injection H as <- <-; (eapply rinv_upd; [exact R|reflexivity|reflexivity|reflexivity|gmono|]; apply okupd_same; auto).
  - (* LPublish *) destr H; injection H as <- <-; (eapply rinv_upd; [exact R|reflexivity|reflexivity|reflexivity|gmono|]; apply okupd_same; auto).
  - (* LSubCtx *) destr H; injection H as <- <-. bools.
    eapply rinv_upd; [exact R|reflexivity|reflexivity|reflexivity|gmono|].
    pose proof (hctx_reason s h R H0) as HR. destruct R as [A B C].
    unfold okupd; simpl; repeat split; auto.
  - (* LT *)
    destruct (thr s t) eqn:E; try discriminate H.
    + destr H; injection H as <- <-; (eapply rinv_mono; [exact R|reflexivity|reflexivity|reflexivity|gmono]).
    + destruct (rh_step s (OThr t) par p c) as [[[s1 p'] e1]|] eqn:RH; [|discriminate]. injection H as <- <-.
      apply (rh_rframe _ _ _ _ _ _ _ _ R) in RH. eapply rinv_mono; [exact RH|reflexivity|reflexivity|reflexivity|gmono].
    + destr H; injection H as <- <-; (eapply rinv_mono; [exact R|reflexivity|reflexivity|reflexivity|gmono]).
    + destr H; injection H as <- <-.
      * eapply rinv_upd; [exact R|reflexivity|reflexivity|reflexivity|gmono|]. destruct R as [A B C].
        unfold okupd, reason; simpl; repeat split; auto.
      * eapply rinv_mono; [exact R|reflexivity|reflexivity|reflexivity|gmono].
    + destruct (cl_step s (OThr t) p c) as [[s1 p']|] eqn:CL; [|discriminate]. injection H as <- <-.
      apply (cl_rframe _ _ _ _ _ _ R) in CL. eapply rinv_mono; [exact CL|reflexivity|reflexivity|reflexivity|gmono].
  - (* LMain *)
    destruct (mainp s) eqn:E; try discriminate H.
    + destr H; injection H as <- <-; (eapply rinv_mono; [exact R|reflexivity|reflexivity|reflexivity|gmono]).
    + destruct (rh_step s OMain PRun p c) as [[[s1 p'] e1]|] eqn:RH; [|discriminate].
      apply (rh_rframe _ _ _ _ _ _ _ _ R) in RH.
      destruct p'; try destruct ok; destruct p; injection H as <- <-;
        (eapply rinv_mono; [exact RH|reflexivity|reflexivity|reflexivity|gmono]).
    + destr H; injection H as <- <-; (eapply rinv_mono; [exact R|reflexivity|reflexivity|reflexivity|gmono]).
    + destr H; injection H as <- <-; (eapply rinv_mono; [exact R|reflexivity|reflexivity|reflexivity|gmono]).
    + destr H; injection H as <- <-; (eapply rinv_mono; [exact R|reflexivity|reflexivity|reflexivity|gmono]).
  - (* LWatch *)
    destruct (wat s) eqn:E; try discriminate H.
    5: { destruct (cl_step s OWatch p c) as [[s1 p']|] eqn:CL; [|discriminate].
         apply (cl_rframe _ _ _ _ _ _ R) in CL.
         destruct p'; injection H as <- <-; (eapply rinv_mono; [exact CL|reflexivity|reflexivity|reflexivity|gmono]). }
    all: destr H; injection H as <- <-; (eapply rinv_mono; [exact R|reflexivity|reflexivity|reflexivity|gmono]).
  - (* LLoop *)
    destruct (h_loop (hs s h)) eqn:EL; try discriminate H.
    + destr H; injection H as <- <-; (eapply rinv_upd; [exact R|reflexivity|reflexivity|reflexivity|gmono|]; apply okupd_same; auto).
    + assert (PR : reason (hs s h) = true \/ glob s = true) by (apply past_reason; auto; now rewrite EL).
      assert (Hlt : h < nexth s) by (eapply touched_lt; eauto; intros X; rewrite X in EL; discriminate).
      destruct (h_pub (hs s h)) eqn:EP; injection H as <- <-.
      * destruct R as [A B C]. constructor; simpl.
        -- intros h' X Y. updt h h'; simpl in *; [destruct (A h X Y)|destruct (A h' X Y)]; auto.
        -- intros h' X. updt h h'; simpl in *; [destruct (B h X)|destruct (B h' X)]; auto.
        -- intros p' X. unfold upd in X at 1. destruct (Nat.eqb p' p) eqn:Q.
           ++ apply Nat.eqb_eq in Q. subst p'. destruct PR as [PR|PR]; auto. right. exists h.
              rewrite upd_same. simpl. auto.
           ++ destruct (C p' X) as [|(h' & H1 & H2 & H3)]; auto. right. exists h'.
              updt h h'; simpl; auto.
      * eapply rinv_upd; [exact R|reflexivity|reflexivity|reflexivity|gmono|]. apply okupd_same; auto.
    + destruct (hwg s); injection H as <- <-; (eapply rinv_upd; [exact R|reflexivity|reflexivity|reflexivity|gmono|]; apply okupd_same; auto).
    + destr H; injection H as <- <-; (eapply rinv_upd; [exact R|reflexivity|reflexivity|reflexivity|gmono|]; apply okupd_same; auto).
    + assert (PR : reason (hs s h) = true \/ glob s = true) by (apply past_reason; auto; now rewrite EL).
      injection H as <- <-. eapply rinv_upd; [exact R|reflexivity|reflexivity|reflexivity|gmono|]. destruct R as [A B C].
      unfold okupd; simpl; repeat split; auto.
  - (* LHC *)
    destruct (h_hc (hs s h)) eqn:EH; try discriminate H.
    assert (RC : closingCh s = true -> RInv (close_sub s h)).
    { intros CC. assert (G : glob s = true) by (unfold glob; rewrite CC, ?orb_true_r; reflexivity).
      destruct R as [A B C]. constructor; unfold close_sub; simpl.
      - intros; right; exact G.
      - intros; right; exact G.
      - intros; left; exact G. }
    destruct closing.
    + destruct (closingCh s) eqn:CC; [|discriminate]. injection H as <- <-.
      eapply rinv_upd; [exact (RC eq_refl)|reflexivity|reflexivity|reflexivity|gmono|].
      unfold okupd, glob, close_sub; simpl; rewrite CC, ?orb_true_r; repeat split; auto.
    + destruct (hctx_done s h) eqn:HD; [|discriminate].
      pose proof (hctx_reason s h R HD) as HR.
      destruct (closingCh s) eqn:CC; injection H as <- <-.
      * eapply rinv_upd; [exact (RC eq_refl)|reflexivity|reflexivity|reflexivity|gmono|].
        unfold okupd, glob, close_sub; simpl; rewrite CC, ?orb_true_r; repeat split; auto.
      * eapply rinv_upd; [exact R|reflexivity|reflexivity|reflexivity|gmono|].
        destruct R as [A B C]. unfold okupd; simpl; repeat split; auto.
Qed.

Theorem run_rinv ls : forall s, SInv s -> RInv s -> SInv (run s ls) /\ RInv (run s ls).
Proof.
  induction ls as [|l ls IH]; intros s I R; simpl; [split; assumption|].
  destruct (step s l) as [[s' evs]|] eqn:E; [|now apply IH]. apply IH.
  - eapply step_sinv; eauto.
  - eapply step_rinv; eauto.
Qed.

(** Stop ends that handler only: in EVERY reachable state, whatever was done to other handlers
    (Stop calls, subscriptions ended), a started handler h2 that was not stopped itself and whose
    subscription was not ended by the environment - while nothing global happened (Run context
    not cancelled, router not closing) - is still in its receive loop with its subscription
    open and its own context live, takes its next message, and its publisher is open unless a
    handler SHARING that publisher was stopped / ended. *)
Theorem stop_is_local f4 f14 f15 f16 ls :
  let s := run (rinit f4 f14 f15 f16) ls in
  forall h2, h_loop (hs s h2) <> LNone -> reason (hs s h2) = false -> glob s = false ->
    h_loop (hs s h2) = LRange /\ h_subOpen (hs s h2) = true /\ h_cancel (hs s h2) = false
    /\ step s (LRecv h2) <> None
    /\ (forall p, h_pub (hs s h2) = Some p ->
          (forall h1, h1 < nexth s -> h_pub (hs s h1) = Some p -> reason (hs s h1) = false) ->
          pubClosed s p = false).
Proof.
  intros s h2 L NR NG.
  destruct (run_rinv ls (rinit f4 f14 f15 f16) (sinv_init _ _ _ _) (rinv_init _ _ _ _)) as [I R]. fold s in I, R.
  destruct (i_hrec _ I h2).
  destruct (r_loop L) as (St & _). destruct (r_subs1 St) as [Su _].
  assert (SO : h_subOpen (hs s h2) = true).
  { destruct (h_subOpen (hs s h2)) eqn:X; auto. destruct (q_sub _ R h2 Su X); congruence. }
  assert (LR : h_loop (hs s h2) = LRange).
  { destruct (h_loop (hs s h2)) eqn:X; try congruence; try reflexivity;
      (assert (P : h_subOpen (hs s h2) = false) by (apply r_past; reflexivity); congruence). }
  repeat split; auto.
  - destruct (h_cancel (hs s h2)) eqn:X; auto. destruct (q_cancel _ R h2 X); congruence.
  - simpl. rewrite LR, SO. discriminate.
  - intros p Hp Hsh. destruct (pubClosed s p) eqn:X; auto.
    destruct (q_pub _ R p X) as [G|(h1 & H1 & H2 & H3)]; [congruence|].
    rewrite (Hsh h1 H1 H2) in H3. discriminate.
Qed.
