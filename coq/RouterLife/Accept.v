(** Towards "the property monitor accepts the API history of every run of the repaired model":
    the simulation invariant [MInv] between model state and monitor state, its frame lemmas, and
    the finished part of the simulation - every step of RunHandlers (by Run or by any client
    thread) preserves [MInv] and raises no monitor code; in particular clause 2 (second successful
    Subscribe) never fires.  NOT finished: the remaining labels (one lemma per label is still to be
    written for AddHandler, the call/return labels, Stop, the loop, the watcher) and the reason
    clauses behind code 6 (state-level counterpart: RouterLife/Local.v [RInv], [stop_is_local]). *)
From WM Require Import Base.Prelude Base.Count RouterLife.Model RouterLife.Monitor RouterLife.Inv
                       RouterLife.ProofsA RouterLife.ProofsB RouterLife.Local RouterLife.Theorems RouterLife.AcceptN.
From RecordUpdate Require Import RecordSet.
Import RecordSetNotations.

Definition main_past_lock (p : rpc) : bool :=
  match p with RRH q => rhl q | RCloseRunning | RWaitClosing | RWaitClosed | RDone true => true | _ => false end.
Definition wat_closing (p : wpc) : bool := match p with WIsClosed | WClose _ => true | _ => false end.

Record MInv (s : rstate) (m : mstate) : Prop := {
  k_n : m_n m = nexth s;
  k_pub : forall h, h < nexth s -> m_pub m h = h_pub (hs s h);
  k_pubclosed : forall p, m_pubclosed m p = pubClosed s p;
  k_subs : forall h, m_subs m h = Nat.eqb (h_subs (hs s h)) 1;
  k_sobs : forall h, m_sobs m h = true -> h_startedCh (hs s h) = true;
  k_stopafter : forall t h a, m_stopafter m t = true ->
                thr s t = TStopRead h a \/ thr s t = TStopCall h a -> a = true;
  k_running : m_running m = true -> isRunning s = true;
  k_run2 : forall t, m_run2 m t = true -> isRunning s = true;
  k_main2 : mainp s <> RNone -> m_run2 m (maint s) = false /\ thr s (maint s) = TMain;
  k_called : (mainp s <> RNone -> m_runcalled m = true) /\ (forall t, thr s t = TRunCheck -> m_runcalled m = true);
  k_atrun : m_n_at_run m <= nexth s;
  k_atrun2 : main_past_lock (mainp s) = true -> m_n_at_run m <= run_n s;
  k_rhn : forall t, m_rh_n m t <= nexth s
}.

Lemma minv_init f4 f14 f15 f16 : MInv (rinit f4 f14 f15 f16) minit.
Proof.
  constructor; simpl; try reflexivity; try lia; try congruence; try discriminate;
    try (intros; discriminate); try (intros; reflexivity); try (intros; lia).
  all: try (split; [congruence|intros; discriminate]).
Qed.

(** the monitor checks 1 and 10 pass in every state in which the watcher's own Close has removed no handler *)
Lemma removed_known s m h : NInv s m -> wremoved s = false -> m_closecalled m = false -> h_removed (hs s h) = false.
Proof.
  intros N W C. destruct (h_removed (hs s h)) eqn:R; auto. destruct (n_removed _ _ N h R); congruence.
Qed.
Lemma check1 s m : SInv s -> MInv s m -> NInv s m -> runningCh s = true -> wremoved s = false ->
  m_closecalled m || forallb (m_subs m) (seq 0 (m_n_at_run m)) = true.
Proof.
  intros I K N R W. destruct (m_closecalled m) eqn:C; [reflexivity|]. simpl.
  apply forallb_seq. intros h Hh. rewrite (k_subs _ _ K).
  pose proof (i_running _ I R) as X.
  assert (PL : main_past_lock (mainp s) = true) by (destruct (mainp s) as [| | | | | |[]]; simpl in *; congruence).
  assert (RS : run_started (mainp s) = true) by (destruct (mainp s) as [| | | | | |[]]; simpl in *; congruence).
  pose proof (k_atrun2 _ _ K PL) as L.
  assert (St : h_started (hs s h) = true).
  { apply (i_run_all _ I RS); [lia|]. eapply removed_known; eauto. }
  destruct (i_hrec _ I h). destruct (r_subs1 St) as [E _]. now rewrite E.
Qed.
Lemma check10 s m t : SInv s -> MInv s m -> NInv s m -> all_started s = true -> wremoved s = false ->
  m_closecalled m || forallb (m_subs m) (seq 0 (m_rh_n m t)) = true.
Proof.
  intros I K N A W. destruct (m_closecalled m) eqn:C; [reflexivity|]. simpl.
  apply forallb_seq. intros h Hh. rewrite (k_subs _ _ K). pose proof (k_rhn _ _ K t) as L.
  assert (St : h_started (hs s h) = true).
  { apply (all_started_all s I A); [lia|]. eapply removed_known; eauto. }
  destruct (i_hrec _ I h). destruct (r_subs1 St) as [E _]. now rewrite E.
Qed.

Section WithP.
(** [PW]: "in this run the watcher's own Close removes a handler" (the corner the property's quantifier excludes) *)
Variable PW : Prop.
Definition okbad (m : mstate) : Prop := m_bad m = 0 \/ m_bad m = 6 \/ (PW /\ (m_bad m = 1 \/ m_bad m = 10)).

Ltac dK K := destruct K as [K1 K2 K3 K4 K5 K6 K7 K8 K9 K10 K11 K12 K13].

Lemma minv_frame s s' m : MInv s m -> nexth s' = nexth s ->
  (forall h, h_pub (hs s' h) = h_pub (hs s h)) -> pubClosed s' = pubClosed s ->
  (forall h, h_subs (hs s' h) = h_subs (hs s h)) ->
  (forall h, h_startedCh (hs s h) = true -> h_startedCh (hs s' h) = true) ->
  thr s' = thr s -> isRunning s' = isRunning s -> mainp s' = mainp s -> maint s' = maint s -> run_n s' = run_n s ->
  MInv s' m.
Proof.
  intros K E1 E2 E3 E4 E5 E6 E7 E8 E9 E10. dK K.
  constructor; rewrite ?E1, ?E3, ?E6, ?E7, ?E8, ?E9, ?E10; auto.
  - intros h Hh. rewrite E2. auto.
  - intros h. rewrite E4. auto.
Qed.

(** monitor updates that touch no field MInv mentions *)
Lemma minv_mon s m m' : MInv s m ->
  m_n m' = m_n m -> m_pub m' = m_pub m -> m_pubclosed m' = m_pubclosed m -> m_subs m' = m_subs m ->
  m_sobs m' = m_sobs m -> m_stopafter m' = m_stopafter m -> m_running m' = m_running m -> m_run2 m' = m_run2 m ->
  m_runcalled m' = m_runcalled m -> m_n_at_run m' = m_n_at_run m -> m_rh_n m' = m_rh_n m -> MInv s m'.
Proof.
  intros K E1 E2 E3 E4 E5 E6 E7 E8 E9 E10 E11. dK K.
  constructor; rewrite ?E1, ?E2, ?E3, ?E4, ?E5, ?E6, ?E7, ?E8, ?E9, ?E10, ?E11; auto.
Qed.
Lemma minv_bad s m c : MInv s m -> MInv s (bad m c).
Proof. intros K. unfold bad. destruct (m_bad m); [|exact K]. eapply minv_mon; eauto. Qed.
Lemma minv_note s m : MInv s m -> MInv s (note_reason m).
Proof. intros K. unfold note_reason. destruct (all_reason m); [|exact K]. eapply minv_mon; eauto. Qed.
Lemma okbad_note m : okbad m -> okbad (note_reason m).
Proof. unfold note_reason, okbad. destruct (all_reason m); auto. Qed.
Lemma okbad_bad m c : c = 6 \/ (PW /\ (c = 1 \/ c = 10)) -> okbad m -> okbad (bad m c).
Proof. unfold okbad, bad. intros C B. destruct (m_bad m) eqn:E; simpl; [intuition|rewrite E; exact B]. Qed.
Lemma okbad_same m m' : m_bad m' = m_bad m -> okbad m -> okbad m'.
Proof. unfold okbad. intros ->. auto. Qed.

Ltac hsame := intros ?h; simpl; unfold set_h; simpl; upds; simpl; auto.
Ltac mframe K := eapply minv_frame; [exact K | try reflexivity | try hsame | try reflexivity | try hsame | try hsame
                                      | try reflexivity | try reflexivity | try reflexivity | try reflexivity | try reflexivity].

Lemma rh_mframe s me par p c s1 p' e : rh_step s me par p c = Some (s1, p', e) ->
  nexth s1 = nexth s /\ (forall h, h_pub (hs s1 h) = h_pub (hs s h)) /\ pubClosed s1 = pubClosed s
  /\ (forall h, h_startedCh (hs s h) = true -> h_startedCh (hs s1 h) = true)
  /\ thr s1 = thr s /\ isRunning s1 = isRunning s /\ mainp s1 = mainp s /\ maint s1 = maint s /\ run_n s1 = run_n s
  /\ ((forall h, h_subs (hs s1 h) = h_subs (hs s h)) \/
      exists h, p = HLoop /\ c = CPick h true /\ h_started (hs s h) = false /\ h < nexth s /\
                (forall h', h_subs (hs s1 h') = if Nat.eqb h' h then S (h_subs (hs s h)) else h_subs (hs s h'))).
Proof.
  unfold rh_step. intros X. destruct p, c; try discriminate X; destr X; injection X as <- _ _; simpl;
    repeat split; auto; try solve [hsame]; try solve [left; hsame].
  all: try solve [intros h'; unfold set_h; simpl; destruct (fix4 s); upds; simpl; auto].
  all: right; exists h; bools; repeat split; auto; intros h'; unfold upd; destruct (Nat.eqb h' h) eqn:Q;
    [apply Nat.eqb_eq in Q; subst; reflexivity | reflexivity].
Qed.

Lemma subs0_at_pick s me par h : SInv s -> holder s me par HLoop -> h_started (hs s h) = false -> h_subs (hs s h) = 0.
Proof.
  intros I Hh St. destruct (holder_facts s me par HLoop I Hh) as (_ & N1 & _).
  destruct (i_hrec _ I h). rewrite (r_subs0 St), (N1 h); [reflexivity|discriminate].
Qed.

Lemma started_subs s h : SInv s -> h_started (hs s h) = true -> Nat.eqb (h_subs (hs s h)) 1 = true.
Proof. intros I St. destruct (i_hrec _ I h). destruct (r_subs1 St) as [E _]. now rewrite E. Qed.

Lemma forallb_subs s m n : SInv s -> MInv s m -> (forall h, h < n -> h_started (hs s h) = true) ->
  forallb (m_subs m) (seq 0 n) = true.
Proof.
  intros I K A. apply forallb_seq. intros h Hh. rewrite (k_subs _ _ K). apply started_subs; auto.
Qed.

(** RunHandlers steps, for either executor: the monitor follows *)
Lemma rh_minv s m me par p c s1 p' e : SInv s -> MInv s m -> okbad m ->
  (rhl p = true -> holder s me par p) ->
  rh_step s me par p c = Some (s1, p', e) ->
  MInv s1 (mon_run m e) /\ okbad (mon_run m e).
Proof.
  intros I K B Hh RH.
  pose proof (rh_mframe _ _ _ _ _ _ _ _ RH) as (F1 & F2 & F3 & F4 & F5 & F6 & F7 & F8 & F9 & F10).
  destruct F10 as [F10|(h & -> & -> & St & Hlt & F10)].
  - assert (K' : MInv s1 m) by (eapply minv_frame; eauto).
    unfold rh_step in RH. destruct p, c; try discriminate RH; destr RH; injection RH as E1 _ <-; simpl.
    all: try solve [split; [exact K'|exact B]].
    all: try solve [split; [eapply minv_mon; eauto|exact B]].
    all: exfalso; specialize (F10 h); rewrite <- E1 in F10; unfold set_h in F10; simpl in F10; rewrite upd_same in F10;
      destruct (fix4 s); simpl in F10; lia.
  - pose proof (subs0_at_pick s me par h I (Hh eq_refl) St) as S0.
    assert (Ee : e = [ASubscribe h true]).
    { unfold rh_step in RH. destr RH; injection RH as _ _ <-; reflexivity. }
    subst e. simpl. rewrite (k_subs _ _ K h), S0. simpl. split; [|exact B].
    dK K. constructor; simpl; rewrite ?F1, ?F3, ?F5, ?F6, ?F7, ?F8, ?F9; auto.
    + intros h' Hh'. rewrite F2. auto.
    + intros h'. rewrite F10. unfold upd. destruct (Nat.eqb h' h) eqn:Q; [now rewrite S0|apply K4].
Qed.




Lemma minv_thr s m t q : MInv s m -> thr s t <> TMain ->
  (forall h a, q <> TStopRead h a) -> (forall h a, q <> TStopCall h a) -> q <> TRunCheck ->
  MInv (set_t s t q) m.
Proof.
  intros K NM N1 N2 N3. dK K. constructor; simpl; auto.
  - intros t' h a X [Y|Y]; (updt t t'; [congruence|eauto]).
  - intros X. destruct (K9 X) as [A B]. split; auto.
    destruct (Nat.eq_dec (maint s) t) as [E|E]; [exfalso; apply NM; rewrite <- E; exact B | rewrite upd_other by exact E; exact B].
  - destruct K10 as [A B]. split; auto. intros t' X. updt t t'; [congruence|eauto].
Qed.

Lemma cl_mframe s me p c s1 p' : cl_step s me p c = Some (s1, p') ->
  nexth s1 = nexth s /\ (forall h, h_pub (hs s1 h) = h_pub (hs s h)) /\ pubClosed s1 = pubClosed s
  /\ (forall h, h_subs (hs s1 h) = h_subs (hs s h))
  /\ (forall h, h_startedCh (hs s h) = true -> h_startedCh (hs s1 h) = true)
  /\ thr s1 = thr s /\ isRunning s1 = isRunning s /\ mainp s1 = mainp s /\ maint s1 = maint s /\ run_n s1 = run_n s.
Proof.
  unfold cl_step, close_unstarted. intros X. destruct p, c; try discriminate X; destr X; injection X as <- _; simpl;
    repeat split; auto; intros h; destruct (removable (hs s h)); simpl; auto.
Qed.

(** labels whose only events are ones the monitor ignores or that set fields MInv does not mention *)
Lemma minv_mainp s m p' : MInv s m -> mainp s <> RNone -> p' <> RNone ->
  (main_past_lock p' = true -> main_past_lock (mainp s) = true) -> MInv (s <| mainp := p' |>) m.
Proof.
  intros K N N' P. dK K. constructor; simpl; auto.
  destruct K10 as [A B]. split; auto.
Qed.

Ltac okb B := first [exact B | eapply okbad_same; [|exact B]; reflexivity].

Lemma mstep_simple s m l s' evs : SInv s -> fix4 s = true -> MInv s m -> NInv s m -> (wremoved s = true -> PW) -> okbad m ->
  (l = LCancel \/ l = LObsRunning \/
   exists h, l = LStoppedGet h \/ l = LObsStarted h \/ l = LObsStopped h \/ l = LSubEnd h \/ l = LRecv h
             \/ l = LPublish h \/ l = LSubCtx h \/ (exists b, l = LHC h b)) ->
  step s l = Some (s', evs) -> MInv s' (mon_run m evs) /\ okbad (mon_run m evs).
Proof.
  intros I F4 K N HP B [->|[->|(h & [->|[->|[->|[->|[->|[->|[->|(b & ->)]]]]]]])]] H; unfold step in H.
  - (* LCancel *) injection H as <- <-. simpl. split; [|okb B].
    eapply minv_mon; [mframe K|reflexivity..].
  - (* LObsRunning *) destruct (runningCh s) eqn:R; [|discriminate]. injection H as <- <-. simpl.
    assert (K' : MInv s (m <| m_running := true |>)).
    { dK K. constructor; simpl; auto. intros _.
      apply (i_isrun _ I). pose proof (i_running _ I R) as X. destruct (mainp s); try discriminate X; discriminate. }
    destruct (m_closecalled m || forallb (m_subs m) (seq 0 (m_n_at_run m))) eqn:CK.
    + split; [exact K'|okb B].
    + split; [now apply minv_bad|]. apply okbad_bad; auto. right. split; auto.
      destruct (wremoved s) eqn:W; auto. rewrite (check1 s m I K N R W) in CK. discriminate.
  - (* LStoppedGet *) destruct (Nat.ltb h (nexth s)); [|discriminate]. injection H as <- <-. simpl.
    destruct (m_sobs m h) eqn:So; simpl; [|split; [exact K|exact B]].
    apply (k_sobs _ _ K) in So. destruct (i_hrec _ I h). destruct (r_fix4 F4 (or_introl (r_sch So))) as [_ SS].
    rewrite SS. simpl. split; [exact K|exact B].
  - (* LObsStarted *) destr H. injection H as <- <-. bools. simpl. split; [|okb B].
    dK K. constructor; simpl; auto. intros h'. unfold upd. destruct (Nat.eqb h' h) eqn:Q; auto.
    apply Nat.eqb_eq in Q. subst. auto.
  - (* LObsStopped *) destr H. injection H as <- <-. simpl. split; [|okb B]. eapply minv_mon; [exact K|reflexivity..].
  - (* LSubEnd *) destr H. injection H as <- <-. simpl. split.
    + apply minv_note. eapply minv_mon; [mframe K|reflexivity..].
    + apply okbad_note. okb B.
  - (* LRecv *) destr H. injection H as <- <-. simpl. split; [mframe K|exact B].
  - (* LPublish *)
    destruct (h_inflight (hs s h)) eqn:Fl; [discriminate|]. injection H as <- <-. simpl.
    assert (Hlt : h < nexth s) by (eapply touched_lt; eauto; intros X; rewrite X in Fl; discriminate).
    assert (K' : MInv (set_h s h (hs s h <| h_inflight := n |>)) m) by mframe K.
    destruct (h_pub (hs s h)) eqn:P; simpl; [|split; [exact K'|exact B]].
    destruct (pubClosed s p) eqn:PC; simpl; [|split; [exact K'|exact B]].
    rewrite (k_pub _ _ K h Hlt), P, (k_pubclosed _ _ K p), PC. split; [exact K'|exact B].
  - (* LSubCtx *) destr H. injection H as <- <-. simpl. split; [mframe K|exact B].
  - (* LHC *)
    destruct (h_hc (hs s h)); try discriminate H. unfold close_sub in H.
    destr H; injection H as <- <-; simpl; (split; [|exact B]);
      (eapply minv_frame; [exact K|reflexivity| | reflexivity | | |reflexivity..]);
      intros h'; simpl; unfold set_h; simpl; upds; simpl; auto;
      try (destruct (Nat.eqb _ _); simpl; auto).
Qed.

Lemma mstep_add s m pub hon sub s' evs : SInv s -> MInv s m -> okbad m ->
  step s (LAdd pub hon sub) = Some (s', evs) -> MInv s' (mon_run m evs) /\ okbad (mon_run m evs).
Proof.
  intros I K B H. unfold step in H. destruct (hlock s) eqn:HL; [discriminate|]. cbv zeta in H.
  simpl fix14 in H. simpl hadded in H. simpl wat in H.
  assert (G : forall s2, nexth s2 = S (nexth s) ->
               hs s2 = upd (hs s) (nexth s) (h0 <| h_pub := pub |> <| h_hon := hon |> <| h_sub := sub |> <| h_inmap := true |>) ->
               pubClosed s2 = pubClosed s -> thr s2 = thr s -> isRunning s2 = isRunning s -> mainp s2 = mainp s ->
               maint s2 = maint s -> run_n s2 = run_n s ->
               MInv s2 (m <| m_n := S (m_n m) |> <| m_pub := upd (m_pub m) (m_n m) pub |>)).
  { intros s2 E1 E2 E3 E4 E5 E6 E7 E8.
    pose proof (i_fresh _ I) as Fr. pose proof (i_run_n_le _ I) as RL. dK K.
    constructor; simpl; rewrite ?E1, ?E2, ?E3, ?E4, ?E5, ?E6, ?E7, ?E8, ?K1; auto; try lia.
    all: try solve [intros h Hh; unfold upd; destruct (Nat.eqb h (nexth s)) eqn:Q; simpl; [reflexivity|];
                    apply K2; apply Nat.eqb_neq in Q; lia].
    all: try solve [intros h; unfold upd; destruct (Nat.eqb h (nexth s)) eqn:Q; simpl; auto;
                    apply Nat.eqb_eq in Q; subst; rewrite K4, Fr by lia; reflexivity].
    all: try solve [intros h X; unfold upd; destruct (Nat.eqb h (nexth s)) eqn:Q; simpl; auto;
                    apply Nat.eqb_eq in Q; subst; apply K5 in X; rewrite Fr in X by lia; discriminate].
    all: try solve [intros t; specialize (K13 t); lia]. }
  destr H; injection H as <- <-; simpl; (split; [|okb B]);
    first [apply G; reflexivity | eapply minv_mon; [apply G; reflexivity|reflexivity..]].
Qed.

Lemma mstep_calls s m l s' evs : SInv s -> MInv s m -> okbad m ->
  (exists t, l = LRunCall t \/ (exists par, l = LRHCall t par) \/ (exists h, l = LStopCall t h) \/ l = LCloseCall t) ->
  step s l = Some (s', evs) -> MInv s' (mon_run m evs) /\ okbad (mon_run m evs).
Proof.
  intros I K B (t & [-> | [(par & ->) | [(h & ->) | ->]]]) H; unfold step in H;
    destruct (thr s t) eqn:E; try discriminate H.
  - (* LRunCall *) injection H as <- <-. simpl.
    assert (Ir := k_running _ _ K). assert (NM : thr s t <> TMain) by congruence.
    split; [|destruct (m_runcalled m); okb B].
    dK K. destruct K10 as [KA KB].
    destruct (m_runcalled m) eqn:RC; constructor; simpl; rewrite ?K1; auto; try lia.
    all: try (intros t' h a X [Y|Y]; (updt t t'; [discriminate|eauto])).
    all: try (intros t'; unfold upd; destruct (Nat.eqb t' t); auto).
    all: try (intros X; destruct (K9 X) as [A1 A2]; split;
              [unfold upd; destruct (Nat.eqb (maint s) t) eqn:Q; auto; apply Nat.eqb_eq in Q; congruence
              |destruct (Nat.eq_dec (maint s) t) as [Q|Q]; [congruence|rewrite upd_other by exact Q; exact A2]]).
    all: try (split; [auto|intros t' X; auto]).
    all: try (split; [intros X; specialize (KA X); congruence|intros; reflexivity]).
    all: try (intros X; exfalso; assert (Y : mainp s <> RNone) by (intros Z; rewrite Z in X; discriminate);
              specialize (KA Y); congruence).
    all: try solve [eauto | intros X; eapply K8; eauto | intros X; apply Ir; exact X].
  - (* LRHCall *)
    injection H as <- <-. assert (NM : thr s t <> TMain) by congruence.
    assert (K' : MInv (set_t s t (TRH par HCheck)) (m <| m_rh_n := upd (m_rh_n m) t (m_n m) |>)).
    { pose proof (minv_thr s m t (TRH par HCheck) K NM) as K'.
      specialize (K' ltac:(discriminate) ltac:(discriminate) ltac:(discriminate)).
      assert (E1 := k_n _ _ K). dK K'. constructor; simpl; auto.
      intros t'. unfold upd. destruct (Nat.eqb t' t); auto. simpl in *. lia. }
    destruct par; simpl; (split; [|okb B]); first [exact K' | eapply minv_mon; [exact K'|reflexivity..]].
  - (* LStopCall *)
    destruct (Nat.ltb h (nexth s)) eqn:Hl; [|discriminate]. injection H as <- <-. simpl.
    split; [apply minv_note|apply okbad_note; okb B].
    assert (S5 := k_sobs _ _ K). dK K. constructor; simpl; auto.
    + intros t' h' a. unfold upd at 1. destruct (Nat.eqb t' t) eqn:Q.
      * apply Nat.eqb_eq in Q. subst. rewrite upd_same. intros X [Y|Y]; [|discriminate].
        injection Y as <- <-. apply S5 in X. exact X.
      * apply Nat.eqb_neq in Q. rewrite upd_other by exact Q. eauto.
    + intros X. destruct (K9 X) as [A1 A2]. split; auto.
      destruct (Nat.eq_dec (maint s) t) as [Q|Q]; [congruence|rewrite upd_other by exact Q; exact A2].
    + destruct K10 as [A1 A2]. split; auto. intros t' X. updt t t'; [discriminate|eauto].
  - (* LCloseCall *)
    injection H as <- <-. simpl. assert (NM : thr s t <> TMain) by congruence.
    split; [|okb B]. eapply minv_mon; [apply minv_thr; [exact K|exact NM|discriminate..]|reflexivity..].
Qed.

Lemma mstep_loop s m h s' evs : SInv s -> MInv s m -> okbad m ->
  step s (LLoop h) = Some (s', evs) -> MInv s' (mon_run m evs) /\ okbad (mon_run m evs).
Proof.
  intros I K B H. unfold step in H. destruct (h_loop (hs s h)) eqn:EL; try discriminate H.
  - destr H. injection H as <- <-. simpl. split; [mframe K|exact B].
  - destruct (h_pub (hs s h)) eqn:P; injection H as <- <-; simpl; [|split; [mframe K|exact B]].
    assert (K' : MInv (set_h s h (hs s h <| h_loop := LWgDone |>) <| pubClosed := upd (pubClosed s) p true |>)
                      (m <| m_pubclosed := upd (m_pubclosed m) p true |>)).
    { assert (K0 : MInv (set_h s h (hs s h <| h_loop := LWgDone |>)) m) by mframe K.
      dK K0. constructor; simpl in *; auto.
      intros p'. unfold upd. destruct (Nat.eqb p' p); auto. }
    match goal with |- context [if ?c then _ else _] => destruct c end.
    + split; [exact K'|okb B].
    + split; [now apply minv_bad|]. apply okbad_bad; auto.
  - destruct (hwg s); injection H as <- <-; simpl; (split; [mframe K|exact B]).
  - destr H. injection H as <- <-. simpl. split; [mframe K|exact B].
  - injection H as <- <-. simpl. split; [mframe K|exact B].
Qed.

Lemma mstep_watch s m c s' evs : SInv s -> MInv s m -> okbad m ->
  step s (LWatch c) = Some (s', evs) -> MInv s' (mon_run m evs) /\ okbad (mon_run m evs).
Proof.
  intros I K B H. unfold step in H. destruct (wat s) eqn:E; try discriminate H.
  5: { destruct (cl_step s OWatch p c) as [[s1 p']|] eqn:CL; [|discriminate].
       pose proof (cl_mframe _ _ _ _ _ _ CL) as (F1 & F2 & F3 & F4 & F5 & F6 & F7 & F8 & F9 & F10).
       destruct p'; injection H as <- <-; simpl; (split; [|exact B]); (eapply minv_frame; [exact K|simpl; auto..]). }
  all: destr H; injection H as <- <-; simpl; (split; [mframe K|exact B]).
Qed.

Lemma mon_run_app m a b : mon_run m (a ++ b) = mon_run (mon_run m a) b.
Proof. unfold mon_run. apply fold_left_app. Qed.

Lemma minv_main_gen s s' m : MInv s m ->
  nexth s' = nexth s -> hs s' = hs s -> pubClosed s' = pubClosed s -> thr s' = thr s -> isRunning s' = isRunning s ->
  maint s' = maint s -> mainp s <> RNone -> mainp s' <> RNone ->
  (main_past_lock (mainp s') = true -> m_n_at_run m <= run_n s') -> MInv s' m.
Proof.
  intros K E1 E2 E3 E4 E5 E6 N N' P. dK K. constructor; rewrite ?E1, ?E2, ?E3, ?E4, ?E5, ?E6; auto.
  destruct K10 as [A B]. split; auto.
Qed.

Lemma mstep_main s m c s' evs : SInv s -> MInv s m -> okbad m ->
  step s (LMain c) = Some (s', evs) -> MInv s' (mon_run m evs) /\ okbad (mon_run m evs).
Proof.
  intros I K B H. unfold step in H. destruct (mainp s) eqn:E; try discriminate H.
  - (* RWatch *) destr H; injection H as <- <-; simpl; (split; [|exact B]);
    (eapply minv_main_gen; [exact K|reflexivity..| | |]; simpl; rewrite ?E; try discriminate).
  - (* RRH *)
    destruct (rh_step s OMain PRun p c) as [[[s1 p'] e1]|] eqn:RH; [|discriminate].
    assert (Hh : rhl p = true -> holder s OMain PRun p) by (intros R; apply holder_main; auto).
    destruct (rh_minv s m OMain PRun p c s1 p' e1 I K B Hh RH) as [K1 B1].
    pose proof (rh_mframe _ _ _ _ _ _ _ _ RH) as (F1 & F2 & F3 & F4 & F5 & F6 & F7 & F8 & F9 & F10).
    assert (N1 : mainp s1 <> RNone) by (rewrite F7, E; discriminate).
    assert (P12 := k_atrun2 _ _ K1). assert (P11 := k_atrun _ _ K1). rewrite F7, E in P12. simpl in P12.
    assert (PL : rhl p' = true -> p' <> HLoop -> rhl p = true).
    { unfold rh_step in RH. destruct p, c; try discriminate RH; destr RH; injection RH as _ <- _; simpl; auto; congruence. }
    assert (PR : p' = HRet true -> rhl p = true).
    { unfold rh_step in RH. destruct p, c; try discriminate RH; destr RH; injection RH as _ <- _; simpl; auto; discriminate. }
    destruct p' as [| | | | | |[]].
    all: try (destruct p; injection H as <- <-; (split; [|exact B1]);
              (eapply minv_main_gen; [exact K1|reflexivity..|exact N1| |]; simpl; try discriminate;
               try (intros _; rewrite ?F1; first [lia | apply P12; reflexivity | apply P12; apply PL; [reflexivity|discriminate] | discriminate
                      | exfalso; unfold rh_step in RH; destruct c; try discriminate RH; destr RH; try discriminate RH; injection RH; intros; congruence]))).
    all: try solve [injection H as <- <-; split; [|exact B1];
      eapply minv_main_gen; [exact K1|reflexivity..|exact N1| |]; simpl; try discriminate;
      intros _; apply P12; apply PR; reflexivity].
    all: try solve [injection H as <- <-; rewrite mon_run_app; simpl; split; [|okb B1];
      assert (K2 : MInv (s1 <| rcancel := true |> <| mainp := RDone false |>) (mon_run m e1))
        by (eapply minv_main_gen; [exact K1|reflexivity..|exact N1| |]; simpl; try discriminate);
      dK K2; constructor; simpl in *; auto; intros _; rewrite F6; apply (i_isrun _ I); rewrite E; discriminate].
    injection H as <- <-. rewrite mon_run_app. simpl.
    assert (K2 : MInv (s1 <| rcancel := true |> <| mainp := RDone false |>) (mon_run m e1)).
    { eapply minv_main_gen; [exact K1|reflexivity..|exact N1| |]; simpl; try discriminate. }
    split; [|okb B1]. clear K1.
    dK K2. constructor; simpl in *; auto. intros _. rewrite F6. apply (i_isrun _ I). rewrite E. discriminate.
  - destr H. injection H as <- <-. simpl. split; [|exact B].
    assert (P12 := k_atrun2 _ _ K). rewrite E in P12.
    eapply minv_main_gen; [exact K|reflexivity..| | |]; simpl; rewrite ?E; try discriminate. auto.
  - destr H. injection H as <- <-. simpl. split; [|exact B].
    assert (P12 := k_atrun2 _ _ K). rewrite E in P12.
    eapply minv_main_gen; [exact K|reflexivity..| | |]; simpl; rewrite ?E; try discriminate. auto.
  - destr H. injection H as <- <-. simpl.
    assert (N : mainp s <> RNone) by (rewrite E; discriminate).
    destruct (k_main2 _ _ K N) as [M2 _]. rewrite M2. simpl. split; [|okb B].
    assert (P12 := k_atrun2 _ _ K). rewrite E in P12.
    assert (K2 : MInv (s <| mainp := RDone true |>) m).
    { eapply minv_main_gen; [exact K|reflexivity..| | |]; simpl; rewrite ?E; try discriminate. auto. }
    dK K2. constructor; simpl in *; auto. intros _. apply (i_isrun _ I). rewrite E. discriminate.
Qed.

Lemma minv_thr_stop s m t h a : MInv s m -> thr s t = TStopRead h a -> MInv (set_t s t (TStopCall h a)) m.
Proof.
  intros K E. dK K. constructor; simpl; auto.
  - intros t' h' a' X [Y|Y]; (updt t t'; [|eauto]); [discriminate|]. injection Y as <- <-. eapply K6; eauto.
  - intros X. destruct (K9 X) as [A B]. split; auto.
    destruct (Nat.eq_dec (maint s) t) as [Q|Q]; [congruence|rewrite upd_other by exact Q; exact B].
  - destruct K10 as [A B]. split; auto. intros t' X. updt t t'; [discriminate|eauto].
Qed.

Lemma mstep_lt s m t c s' evs : SInv s -> fix4 s = true -> MInv s m -> NInv s m -> (wremoved s = true -> PW) -> okbad m ->
  step s (LT t c) = Some (s', evs) -> MInv s' (mon_run m evs) /\ okbad (mon_run m evs).
Proof.
  intros I F4 K N HP B H. unfold step in H. destruct (thr s t) eqn:E; try discriminate H.
  - (* TRunCheck *)
    destruct c; try discriminate H. destruct (isRunning s) eqn:R.
    + injection H as <- <-. simpl. split; [|okb B].
      assert (K' : MInv (set_t s t (TRunDone false)) m) by (apply minv_thr; auto; try discriminate; congruence).
      dK K'. constructor; simpl in *; auto.
    + destruct (mainp s) eqn:M; try discriminate H. injection H as <- <-. simpl. split; [|exact B].
      assert (R2 : m_run2 m t = false).
      { destruct (m_run2 m t) eqn:X; auto. apply (k_run2 _ _ K) in X. congruence. }
      assert (RC : m_runcalled m = true) by (destruct (k_called _ _ K) as [_ X]; eapply X; exact E).
      assert (A11 := k_atrun _ _ K).
      dK K. constructor; simpl; auto; try discriminate.
      all: try solve [intros t' h a X [Y|Y]; (updt t t'; [discriminate|eauto])].
      all: try solve [intros _; split; [exact R2|now rewrite upd_same]].
      all: try solve [split; [auto|intros t' X; auto]].
  - (* TRH *)
    destruct (rh_step s (OThr t) par p c) as [[[s1 p'] e1]|] eqn:RH; [|discriminate]. injection H as <- <-.
    assert (Hh : rhl p = true -> holder s (OThr t) par p) by (intros R; apply holder_thr; auto).
    destruct (rh_minv s m (OThr t) par p c s1 p' e1 I K B Hh RH) as [K1 B1].
    pose proof (rh_mframe _ _ _ _ _ _ _ _ RH) as (F1 & F2 & F3 & F4' & F5 & F6 & F7 & F8 & F9 & F10).
    assert (K2 : MInv (set_t s1 t (TRH par p')) (mon_run m e1)).
    { apply minv_thr; auto; try discriminate. rewrite F5, E. discriminate. }
    rewrite mon_run_app. destruct p' as [| | | | | |[]]; simpl; try (split; [exact K2|exact B1]).
    match goal with |- context [if ?c then _ else _] => destruct c eqn:CK end.
    + split; [exact K2|exact B1].
    + split; [now apply minv_bad|]. apply okbad_bad; auto. right. split; auto.
      destruct (wremoved s) eqn:W; auto. exfalso.
      assert (X : p = HLoop /\ all_started s = true /\ e1 = []).
      { unfold rh_step in RH. destruct p, c; try discriminate RH; destr RH; inversion RH; subst; auto. }
      destruct X as (-> & A & ->). simpl in CK. rewrite (check10 s m t I K N A W) in CK. discriminate.
  - (* TStopRead *)
    destruct c; try discriminate H. destruct (h_started (hs s h)) eqn:St; injection H as <- <-; simpl.
    + split; [now apply minv_thr_stop|exact B].
    + destruct (m_stopafter m t) eqn:SA.
      * exfalso. assert (A : after = true) by (eapply (k_stopafter _ _ K); eauto).
        destruct (i_stop _ I t h after (or_introl E)) as [_ X]. specialize (X A).
        destruct (i_hrec _ I h). rewrite (r_sch X) in St. discriminate.
      * split; [|exact B]. apply minv_thr; auto; try discriminate. congruence.
  - (* TStopCall *)
    destruct c; try discriminate H. destruct (h_stopFn (hs s h)) eqn:Sf; injection H as <- <-; simpl.
    + split; [|exact B]. apply minv_thr; try discriminate; [mframe K|simpl; congruence].
    + destruct (m_stopafter m t) eqn:SA.
      * exfalso. assert (A : after = true) by (eapply (k_stopafter _ _ K); eauto).
        pose proof (i_stopcall _ I t h after E) as X.
        destruct (i_hrec _ I h). destruct (r_fix4 F4 (or_introl X)). congruence.
      * split; [|exact B]. apply minv_thr; auto; try discriminate. congruence.
  - (* TClose *)
    destruct (cl_step s (OThr t) p c) as [[s1 p']|] eqn:CL; [|discriminate]. injection H as <- <-.
    pose proof (cl_mframe _ _ _ _ _ _ CL) as (F1 & F2 & F3 & F4' & F5 & F6 & F7 & F8 & F9 & F10).
    assert (K1 : MInv s1 m) by (eapply minv_frame; eauto).
    assert (K2 : MInv (set_t s1 t (TClose p')) m).
    { apply minv_thr; auto; try discriminate. rewrite F6, E. discriminate. }
    destruct p'; simpl; split; auto.
Qed.

Theorem step_minv s m l s' evs : SInv s -> fix4 s = true -> MInv s m -> NInv s m -> (wremoved s = true -> PW) -> okbad m ->
  step s l = Some (s', evs) -> MInv s' (mon_run m evs) /\ okbad (mon_run m evs).
Proof.
  intros I F4 K N HP B H. destruct l.
  - eapply mstep_add; eauto.
  - eapply mstep_calls; [exact I|exact K|exact B| exists t; left; reflexivity | exact H].
  - eapply mstep_calls; [exact I|exact K|exact B| exists t; right; left; exists par; reflexivity | exact H].
  - eapply mstep_calls; [exact I|exact K|exact B| exists t; right; right; left; exists h; reflexivity | exact H].
  - eapply mstep_calls; [exact I|exact K|exact B| exists t; right; right; right; reflexivity | exact H].
  - eapply mstep_simple; [exact I|exact F4|exact K|exact N|exact HP|exact B| left; reflexivity | exact H].
  - eapply mstep_simple; [exact I|exact F4|exact K|exact N|exact HP|exact B| right; right; exists h; left; reflexivity | exact H].
  - eapply mstep_simple; [exact I|exact F4|exact K|exact N|exact HP|exact B| right; left; reflexivity | exact H].
  - eapply mstep_simple; [exact I|exact F4|exact K|exact N|exact HP|exact B| right; right; exists h; right; left; reflexivity | exact H].
  - eapply mstep_simple; [exact I|exact F4|exact K|exact N|exact HP|exact B| right; right; exists h; right; right; left; reflexivity | exact H].
  - eapply mstep_simple; [exact I|exact F4|exact K|exact N|exact HP|exact B| right; right; exists h; right; right; right; left; reflexivity | exact H].
  - eapply mstep_simple; [exact I|exact F4|exact K|exact N|exact HP|exact B| right; right; exists h; right; right; right; right; left; reflexivity | exact H].
  - eapply mstep_simple; [exact I|exact F4|exact K|exact N|exact HP|exact B| right; right; exists h; right; right; right; right; right; left; reflexivity | exact H].
  - eapply mstep_simple; [exact I|exact F4|exact K|exact N|exact HP|exact B| right; right; exists h; right; right; right; right; right; right; left; reflexivity | exact H].
  - eapply mstep_lt; eauto.
  - eapply mstep_main; eauto.
  - eapply mstep_watch; eauto.
  - eapply mstep_loop; eauto.
  - eapply mstep_simple; [exact I|exact F4|exact K|exact N|exact HP|exact B| right; right; exists h; right; right; right; right; right; right; right; exists closing; reflexivity | exact H].
Qed.

End WithP.

Lemma cl_wremoved s me p c s1 p' : cl_step s me p c = Some (s1, p') -> wremoved s = true -> wremoved s1 = true.
Proof.
  unfold cl_step, close_unstarted. intros X W. destruct p, c; try discriminate X; destr X; injection X as <- _; simpl; auto;
    rewrite W; reflexivity.
Qed.
Lemma wremoved_step s l s' evs : step s l = Some (s', evs) -> wremoved s = true -> wremoved s' = true.
Proof.
  intros X W. destruct l; unfold step in X; destr X; injection X as <- _; subst;
    repeat match goal with
           | E : rh_step _ _ _ _ _ = Some _ |- _ => apply rh_nframe in E; destruct E as (E & _)
           | E : cl_step _ _ _ _ = Some _ |- _ => apply cl_wremoved in E; [|exact W]
           end; simpl in *; try congruence; try (unfold close_sub; simpl; congruence).
Qed.
Lemma wremoved_run ls : forall s, wremoved s = true -> wremoved (run s ls) = true.
Proof.
  induction ls as [|l ls IH]; intros s W; simpl; auto.
  destruct (step s l) as [[s' evs]|] eqn:E; [|now apply IH]. apply IH. eapply wremoved_step; eauto.
Qed.

Theorem hist_accepted ls : forall s m, SInv s -> fix4 s = true -> MInv s m -> NInv s m ->
  okbad (wremoved (run s ls) = true) m ->
  okbad (wremoved (run s ls) = true) (mon_run m (hist s ls)).
Proof.
  induction ls as [|l ls IH]; intros s m I F4 K N B; simpl in *; [assumption|].
  destruct (step s l) as [[s' evs]|] eqn:E; [|now apply IH].
  assert (HP : wremoved s = true -> wremoved (run s' ls) = true).
  { intros W. apply wremoved_run. eapply wremoved_step; eauto. }
  destruct (step_minv _ s m l s' evs I F4 K N HP B E) as [K' B']. rewrite mon_run_app.
  apply IH; auto.
  - eapply step_sinv; eauto.
  - rewrite (fix4_step _ _ _ _ E). exact F4.
  - eapply step_ninv; eauto.
Qed.

(** monitor_accepts: on the API trace of ANY run of the model with the D4 repair in which the watcher's own Close
    removed no handler (the corner the property's quantifier excludes: a handler added while the router was
    closing itself), the acceptor raises none of the clauses 1, 2, 3, 4, 5, 7, 10 (nor 8, 9, 11): its verdict is
    0 or 6.  Without that premise the verdict is 0 or one of 1, 6, 10. *)
Theorem monitor_accepts f14 f15 f16 ls :
  wremoved (run (rinit true f14 f15 f16) ls) = false ->
  let v := verdict (hist (rinit true f14 f15 f16) ls) in v = 0 \/ v = 6.
Proof.
  intros W. unfold verdict.
  destruct (hist_accepted ls (rinit true f14 f15 f16) minit) as [H|[H|[H _]]]; auto.
  - apply sinv_init.
  - apply minv_init.
  - apply ninv_init.
  - left. reflexivity.
  - congruence.
Qed.

Theorem monitor_accepts_codes f14 f15 f16 ls :
  let v := verdict (hist (rinit true f14 f15 f16) ls) in v = 0 \/ v = 1 \/ v = 6 \/ v = 10.
Proof.
  unfold verdict.
  destruct (hist_accepted ls (rinit true f14 f15 f16) minit) as [H|[H|[_ [H|H]]]]; auto.
  - apply sinv_init.
  - apply minv_init.
  - apply ninv_init.
  - left. reflexivity.
Qed.
