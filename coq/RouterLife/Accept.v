(** Towards "the property monitor accepts the API history of every run of the repaired model":
    the simulation invariant [MInv] between model state and monitor state, its frame lemmas, and
    the finished part of the simulation - every step of RunHandlers (by Run or by any client
    thread) preserves [MInv] and raises no monitor code; in particular clause 2 (second successful
    Subscribe) never fires.  NOT finished: the remaining labels (one lemma per label is still to be
    written for AddHandler, the call/return labels, Stop, the loop, the watcher) and the reason
    clauses behind code 6 (state-level counterpart: RouterLife/Local.v [RInv], [stop_is_local]). *)
From WM Require Import Base.Prelude Base.Count RouterLife.Model RouterLife.Monitor RouterLife.Inv
                       RouterLife.ProofsA RouterLife.ProofsB RouterLife.Local.
From RecordUpdate Require Import RecordSet.
Import RecordSetNotations.

Definition main_past_lock (p : rpc) : bool :=
  match p with RRH q => rhl q | RCloseRunning | RWaitClosing | RWaitClosed | RDone true => true | _ => false end.
Definition wat_closing (p : wpc) : bool := match p with WIsClosed | WClose _ => true | _ => false end.

Record MInv (s : rstate) (m : mstate) : Prop := {
  k_n : m_n m = nexth s;
  k_pub : forall h, h < nexth s -> m_pub m h = h_pub (hs s h);
  k_pubclosed : forall p, m_pubclosed m p = pubClosed s p;
  k_subs : forall h, m_subs m h = Nat.eqb (h_subs (hs s h)) 1;
  k_sobs : forall h, m_sobs m h = true -> h_startedCh (hs s h) = true;
  k_stopafter : forall t h a, m_stopafter m t = true ->
                thr s t = TStopRead h a \/ thr s t = TStopCall h a -> a = true;
  k_running : m_running m = true -> isRunning s = true;
  k_run2 : forall t, m_run2 m t = true -> isRunning s = true;
  k_main2 : mainp s <> RNone -> m_run2 m (maint s) = false /\ thr s (maint s) = TMain;
  k_called : (mainp s <> RNone -> m_runcalled m = true) /\ (forall t, thr s t = TRunCheck -> m_runcalled m = true);
  k_atrun : m_n_at_run m <= nexth s;
  k_atrun2 : main_past_lock (mainp s) = true -> m_n_at_run m <= run_n s;
  k_rhn : forall t, m_rh_n m t <= nexth s
}.

Lemma minv_init f4 f14 f15 f16 : MInv (rinit f4 f14 f15 f16) minit.
Proof.
  constructor; simpl; try reflexivity; try lia; try congruence; try discriminate;
    try (intros; discriminate); try (intros; reflexivity); try (intros; lia).
  all: try (split; [congruence|intros; discriminate]).
Qed.

Definition okbad (m : mstate) : Prop := m_bad m = 0 \/ m_bad m = 6.

Ltac dK K := destruct K as [K1 K2 K3 K4 K5 K6 K7 K8 K9 K10 K11 K12 K13].

Lemma minv_frame s s' m : MInv s m -> nexth s' = nexth s ->
  (forall h, h_pub (hs s' h) = h_pub (hs s h)) -> pubClosed s' = pubClosed s ->
  (forall h, h_subs (hs s' h) = h_subs (hs s h)) ->
  (forall h, h_startedCh (hs s h) = true -> h_startedCh (hs s' h) = true) ->
  thr s' = thr s -> isRunning s' = isRunning s -> mainp s' = mainp s -> maint s' = maint s -> run_n s' = run_n s ->
  MInv s' m.
Proof.
  intros K E1 E2 E3 E4 E5 E6 E7 E8 E9 E10. dK K.
  constructor; rewrite ?E1, ?E3, ?E6, ?E7, ?E8, ?E9, ?E10; auto.
  - intros h Hh. rewrite E2. auto.
  - intros h. rewrite E4. auto.
Qed.

(** monitor updates that touch no field MInv mentions *)
Lemma minv_mon s m m' : MInv s m ->
  m_n m' = m_n m -> m_pub m' = m_pub m -> m_pubclosed m' = m_pubclosed m -> m_subs m' = m_subs m ->
  m_sobs m' = m_sobs m -> m_stopafter m' = m_stopafter m -> m_running m' = m_running m -> m_run2 m' = m_run2 m ->
  m_runcalled m' = m_runcalled m -> m_n_at_run m' = m_n_at_run m -> m_rh_n m' = m_rh_n m -> MInv s m'.
Proof.
  intros K E1 E2 E3 E4 E5 E6 E7 E8 E9 E10 E11. dK K.
  constructor; rewrite ?E1, ?E2, ?E3, ?E4, ?E5, ?E6, ?E7, ?E8, ?E9, ?E10, ?E11; auto.
Qed.
Lemma minv_bad s m c : MInv s m -> MInv s (bad m c).
Proof. intros K. unfold bad. destruct (m_bad m); [|exact K]. eapply minv_mon; eauto. Qed.
Lemma minv_note s m : MInv s m -> MInv s (note_reason m).
Proof. intros K. unfold note_reason. destruct (all_reason m); [|exact K]. eapply minv_mon; eauto. Qed.
Lemma okbad_note m : okbad m -> okbad (note_reason m).
Proof. unfold note_reason, okbad. destruct (all_reason m); auto. Qed.
Lemma okbad_bad6 m : okbad m -> okbad (bad m 6).
Proof. unfold okbad, bad. intros [E|E]; rewrite E; simpl; auto. Qed.

Ltac hsame := intros ?h; simpl; unfold set_h; simpl; upds; simpl; auto.
Ltac mframe K := eapply minv_frame; [exact K | try reflexivity | try hsame | try reflexivity | try hsame | try hsame
                                      | try reflexivity | try reflexivity | try reflexivity | try reflexivity | try reflexivity].

Lemma rh_mframe s me par p c s1 p' e : rh_step s me par p c = Some (s1, p', e) ->
  nexth s1 = nexth s /\ (forall h, h_pub (hs s1 h) = h_pub (hs s h)) /\ pubClosed s1 = pubClosed s
  /\ (forall h, h_startedCh (hs s h) = true -> h_startedCh (hs s1 h) = true)
  /\ thr s1 = thr s /\ isRunning s1 = isRunning s /\ mainp s1 = mainp s /\ maint s1 = maint s /\ run_n s1 = run_n s
  /\ ((forall h, h_subs (hs s1 h) = h_subs (hs s h)) \/
      exists h, p = HLoop /\ c = CPick h true /\ h_started (hs s h) = false /\ h < nexth s /\
                (forall h', h_subs (hs s1 h') = if Nat.eqb h' h then S (h_subs (hs s h)) else h_subs (hs s h'))).
Proof.
  unfold rh_step. intros X. destruct p, c; try discriminate X; destr X; injection X as <- _ _; simpl;
    repeat split; auto; try solve [hsame]; try solve [left; hsame].
  all: try solve [intros h'; unfold set_h; simpl; destruct (fix4 s); upds; simpl; auto].
  all: right; exists h; bools; repeat split; auto; intros h'; unfold upd; destruct (Nat.eqb h' h) eqn:Q;
    [apply Nat.eqb_eq in Q; subst; reflexivity | reflexivity].
Qed.

Lemma subs0_at_pick s me par h : SInv s -> holder s me par HLoop -> h_started (hs s h) = false -> h_subs (hs s h) = 0.
Proof.
  intros I Hh St. destruct (holder_facts s me par HLoop I Hh) as (_ & N1 & _).
  destruct (i_hrec _ I h). rewrite (r_subs0 St), (N1 h); [reflexivity|discriminate].
Qed.

Lemma started_subs s h : SInv s -> h_started (hs s h) = true -> Nat.eqb (h_subs (hs s h)) 1 = true.
Proof. intros I St. destruct (i_hrec _ I h). destruct (r_subs1 St) as [E _]. now rewrite E. Qed.

Lemma forallb_subs s m n : SInv s -> MInv s m -> (forall h, h < n -> h_started (hs s h) = true) ->
  forallb (m_subs m) (seq 0 n) = true.
Proof.
  intros I K A. apply forallb_seq. intros h Hh. rewrite (k_subs _ _ K). apply started_subs; auto.
Qed.

(** RunHandlers steps, for either executor: the monitor follows *)
Lemma rh_minv s m me par p c s1 p' e : SInv s -> MInv s m -> okbad m ->
  (rhl p = true -> holder s me par p) ->
  rh_step s me par p c = Some (s1, p', e) ->
  MInv s1 (mon_run m e) /\ okbad (mon_run m e).
Proof.
  intros I K B Hh RH.
  pose proof (rh_mframe _ _ _ _ _ _ _ _ RH) as (F1 & F2 & F3 & F4 & F5 & F6 & F7 & F8 & F9 & F10).
  destruct F10 as [F10|(h & -> & -> & St & Hlt & F10)].
  - assert (K' : MInv s1 m) by (eapply minv_frame; eauto).
    unfold rh_step in RH. destruct p, c; try discriminate RH; destr RH; injection RH as E1 _ <-; simpl.
    all: try solve [split; [exact K'|exact B]].
    all: try solve [split; [eapply minv_mon; eauto|exact B]].
    all: exfalso; specialize (F10 h); rewrite <- E1 in F10; unfold set_h in F10; simpl in F10; rewrite upd_same in F10;
      destruct (fix4 s); simpl in F10; lia.
  - pose proof (subs0_at_pick s me par h I (Hh eq_refl) St) as S0.
    assert (Ee : e = [ASubscribe h true]).
    { unfold rh_step in RH. destr RH; injection RH as _ _ <-; reflexivity. }
    subst e. simpl. rewrite (k_subs _ _ K h), S0. simpl. split; [|exact B].
    dK K. constructor; simpl; rewrite ?F1, ?F3, ?F5, ?F6, ?F7, ?F8, ?F9; auto.
    + intros h' Hh'. rewrite F2. auto.
    + intros h'. rewrite F10. unfold upd. destruct (Nat.eqb h' h) eqn:Q; [now rewrite S0|apply K4].
Qed.



