(** Who removed a handler: a Close called by a client, or the watcher's own Close (ghost [wremoved]).
    Invariant [NInv] between model state and monitor state; used to cover monitor clauses 1 and 10. *)
From WM Require Import Base.Prelude Base.Count RouterLife.Model RouterLife.Monitor RouterLife.Inv
                       RouterLife.ProofsA RouterLife.ProofsB.
From RecordUpdate Require Import RecordSet.
Import RecordSetNotations.

Record NInv (s : rstate) (m : mstate) : Prop := {
  n_removed : forall h, h_removed (hs s h) = true -> m_closecalled m = true \/ wremoved s = true;
  n_closers : forall t p, thr s t = TClose p -> m_closecalled m = true
}.

Lemma ninv_init f4 f14 f15 f16 : NInv (rinit f4 f14 f15 f16) minit.
Proof. constructor; simpl; intros; discriminate. Qed.

Lemma closecalled_step m e : m_closecalled m = true -> m_closecalled (mon_step m e) = true.
Proof.
  intros C. destruct e; simpl; unfold bad, note_reason; simpl;
    repeat match goal with |- context [if ?c then _ else _] => destruct c; simpl end;
    repeat match goal with |- context [match ?c with _ => _ end] => destruct c; simpl end; auto.
Qed.
Lemma closecalled_run es : forall m, m_closecalled m = true -> m_closecalled (mon_run m es) = true.
Proof. induction es as [|e es IH]; intros m C; simpl; auto. apply IH. now apply closecalled_step. Qed.

Lemma rh_nframe s me par p c s1 p' e : rh_step s me par p c = Some (s1, p', e) ->
  wremoved s1 = wremoved s /\ thr s1 = thr s /\ (forall h, h_removed (hs s1 h) = h_removed (hs s h)).
Proof.
  unfold rh_step. intros X. destruct p, c; try discriminate X; destr X; injection X as <- _ _; simpl;
    repeat split; auto; intros h'; unfold set_h; simpl; upds; simpl; auto.
Qed.

Lemma cl_nframe s me p c s1 p' : SInv s -> me <> OMain -> cl_step s me p c = Some (s1, p') ->
  (wremoved s = true -> wremoved s1 = true) /\ thr s1 = thr s
  /\ (forall h, h_removed (hs s1 h) = true ->
        h_removed (hs s h) = true \/ (exists t, me = OThr t) \/ wremoved s1 = true).
Proof.
  intros I NM X. unfold cl_step in X. destruct p, c; try discriminate X; destr X; injection X as <- _; simpl;
    repeat split; auto; try (intros W; rewrite W; reflexivity); try congruence.
  all: try solve [unfold close_unstarted; destruct (fix16 s); reflexivity].
  all: intros h R; unfold close_unstarted in *; destruct (fix16 s) eqn:F; simpl in *; auto.
  all: destruct (removable (hs s h)) eqn:Rm; simpl in *; auto.
  all: try solve [right; left; eexists; reflexivity].
  all: right; right.
  all: assert (Hlt : h < nexth s) by (eapply touched_lt; eauto; intros E; rewrite E in Rm; discriminate).
  all: assert (A : all_started s = false)
    by (unfold all_started; apply not_true_is_false; intros A; rewrite forallb_seq in A; specialize (A h Hlt);
        unfold removable in Rm; apply andb_true_iff in Rm as [R1 R2]; rewrite R1 in A; simpl in A;
        rewrite A in R2; discriminate).
  all: rewrite A; simpl; now rewrite orb_true_r.
Qed.

Lemma ninv_frame s s' m m' : NInv s m ->
  (m_closecalled m = true -> m_closecalled m' = true) -> (wremoved s = true -> wremoved s' = true) ->
  (forall h, h_removed (hs s' h) = true -> h_removed (hs s h) = true \/ m_closecalled m' = true \/ wremoved s' = true) ->
  (forall t p, thr s' t = TClose p -> (exists q, thr s t = TClose q) \/ m_closecalled m' = true) ->
  NInv s' m'.
Proof.
  intros [A B] C W R T. constructor.
  - intros h X. destruct (R h X) as [Y|[Y|Y]]; auto. destruct (A h Y); auto.
  - intros t p X. destruct (T t p X) as [[q Y]|Y]; auto. apply C. eapply B; eauto.
Qed.

Ltac nsame := intros ?h X; left; revert X; simpl; unfold set_h; simpl; upds; simpl; auto.
Ltac tsame := intros ?t ?p X; left; revert X; simpl; unfold set_t; simpl; upds; simpl; eauto; try discriminate.

Theorem step_ninv s m l s' evs : SInv s -> NInv s m -> step s l = Some (s', evs) -> NInv s' (mon_run m evs).
Proof.
  intros I N H.
  pose proof (closecalled_run evs m) as CM.
  destruct l; unfold step in H.
  all: try solve [destr H; injection H as <- <-; (eapply ninv_frame; [exact N|auto|simpl; auto|nsame|tsame])].
  { (* LAdd *)
    destruct (hlock s); [discriminate|]. cbv zeta in H. simpl fix14 in H. simpl hadded in H. simpl wat in H.
    destr H; injection H as <- <-; (eapply ninv_frame; [exact N|auto|simpl; auto| |tsame]);
      intros h X; left; revert X; simpl; unfold set_h; simpl; unfold upd; destruct (Nat.eqb h (nexth s)); simpl; auto; discriminate.
  }
  { (* LCloseCall *)
    destr H. injection H as <- <-. simpl.
    eapply ninv_frame; [exact N|auto|simpl; auto|nsame|]. intros t' p X. right. reflexivity.
  }
  { (* LT *)
    destruct (thr s t) eqn:E; try discriminate H.
    - destr H; injection H as <- <-; (eapply ninv_frame; [exact N|auto|simpl; auto|nsame|]);
        intros t' p X; left; revert X; simpl; (updt t t'; [discriminate|eauto]).
    - destruct (rh_step s (OThr t) par p c) as [[[s1 p'] e1]|] eqn:RH; [|discriminate]. injection H as <- <-.
      destruct (rh_nframe _ _ _ _ _ _ _ _ RH) as (F1 & F2 & F3).
      eapply ninv_frame; [exact N|auto|simpl; rewrite F1; auto| |].
      + intros hh X. left. simpl in X. now rewrite F3 in X.
      + intros t' q X. left. simpl in X. rewrite F2 in X. updt t t'; [discriminate X|eauto].
    - destr H; injection H as <- <-; (eapply ninv_frame; [exact N|auto|simpl; auto|nsame|]);
        intros t' p X; left; revert X; simpl; (updt t t'; [discriminate|eauto]).
    - destr H; injection H as <- <-; (eapply ninv_frame; [exact N|auto|simpl; auto|nsame|]);
        intros t' p X; left; revert X; simpl; (updt t t'; [discriminate|eauto]).
    - destruct (cl_step s (OThr t) p c) as [[s1 p']|] eqn:CL; [|discriminate]. injection H as <- <-.
      assert (NM : OThr t <> OMain) by discriminate.
      destruct (cl_nframe _ _ _ _ _ _ I NM CL) as (F1 & F2 & F3).
      assert (CC : m_closecalled m = true) by (eapply (n_closers _ _ N); eauto).
      eapply ninv_frame; [exact N|auto|simpl; auto| |].
      + intros h X. right. left. apply CM. exact CC.
      + intros t' q X. right. apply CM. exact CC.
  }
  { (* LMain *)
    destruct (mainp s) eqn:E; try discriminate H.
    all: try solve [destr H; injection H as <- <-; (eapply ninv_frame; [exact N|auto|simpl; auto|nsame|tsame])].
    destruct (rh_step s OMain PRun p c) as [[[s1 p'] e1]|] eqn:RH; [|discriminate].
    destruct (rh_nframe _ _ _ _ _ _ _ _ RH) as (F1 & F2 & F3).
    destruct p'; try destruct ok; destruct p; injection H as <- <-;
      (eapply ninv_frame; [exact N|auto|simpl; rewrite ?F1; auto| |]);
      try (intros hh X; left; simpl in X; now rewrite F3 in X);
      try (intros t' q X; left; simpl in X; rewrite F2 in X; eauto).
  }
  { (* LWatch *)
    destruct (wat s) eqn:E; try discriminate H.
    all: try solve [destr H; injection H as <- <-; (eapply ninv_frame; [exact N|auto|simpl; auto|nsame|tsame])].
    destruct (cl_step s OWatch p c) as [[s1 p']|] eqn:CL; [|discriminate].
    assert (NM : OWatch <> OMain) by discriminate.
    destruct (cl_nframe _ _ _ _ _ _ I NM CL) as (F1 & F2 & F3).
    destruct p'; injection H as <- <-; (eapply ninv_frame; [exact N|auto|simpl; auto| |]);
      try (intros h X; simpl in X; destruct (F3 h X) as [Y|[[t Y]|Y]]; [auto|discriminate|auto]);
      try (intros t' q X; left; simpl in X; rewrite F2 in X; eauto).
  }
  { (* LHC *)
    destruct (h_hc (hs s h)); try discriminate H. unfold close_sub in H.
    destr H; injection H as <- <-; (eapply ninv_frame; [exact N|auto|simpl; auto| |tsame]);
      intros hh X; left; revert X; simpl; unfold set_h; simpl; upds; simpl; auto;
      try (destruct (Nat.eqb _ _); simpl; auto).
  }
Qed.
