(** The C10 theorems, derived from the state invariant (ProofsA/B) or by case analysis of [step]. *)
From WM Require Import Base.Prelude Base.Count RouterLife.Model RouterLife.Inv RouterLife.ProofsA RouterLife.ProofsB.
From RecordUpdate Require Import RecordSet.
Import RecordSetNotations.

Section Reach.
  Variables (f4 f14 f15 f16 : bool) (ls : list label).
  Let s := run (rinit f4 f14 f15 f16) ls.
  Let I : SInv s := reachable_sinv f4 f14 f15 f16 ls.

  (** Running() closed => every handler registered when Run's RunHandlers took the lock
      ([run_n] of them) has been subscribed - exactly once - and started *)
  Lemma running_after_all_subscribed :
    runningCh s = true ->
    forall h, h < run_n s -> h_removed (hs s h) = false ->
      h < nexth s /\ h_started (hs s h) = true /\ h_startedCh (hs s h) = true /\ h_subs (hs s h) = 1.
  Proof.
    intros R h Hh Rm. pose proof (i_running _ I R) as C.
    assert (RS : run_started (mainp s) = true) by (destruct (mainp s) as [| | | | | |[]]; simpl in *; congruence).
    pose proof (i_run_all _ I RS h Hh Rm) as St. pose proof (i_run_n_le _ I).
    destruct (i_hrec _ I h). destruct (r_subs1 St). repeat split; auto. lia.
  Qed.

  (** however often and from however many goroutines RunHandlers is called: at most one
      successful Subscribe per handler, exactly one once it is started *)
  Lemma runhandlers_idempotent :
    forall h, h_subs (hs s h) <= 1 /\ (h_started (hs s h) = true -> h_subs (hs s h) = 1).
  Proof.
    intros h. destruct (i_hrec _ I h). split.
    - destruct (h_started (hs s h)) eqn:E; [destruct (r_subs1 eq_refl); lia|].
      rewrite (r_subs0 eq_refl). destruct (h_mid (hs s h)); lia.
    - intros E. now destruct (r_subs1 E).
  Qed.

  (** a second (third, ...) Run returns an error: at most one Run call ever gets past the check *)
  Lemma second_run_errors :
    (forall t ok, thr s t = TRunDone ok -> ok = false)
    /\ (forall t t', thr s t = TMain -> thr s t' = TMain -> t = t')
    /\ (isRunning s = true <-> mainp s <> RNone).
  Proof.
    repeat split.
    - intros t [] E; [destruct (i_rundone _ I t E)|reflexivity].
    - intros t t' E E'. destruct (i_tmain _ I t E), (i_tmain _ I t' E'). congruence.
    - apply (i_isrun _ I).
    - apply (i_isrun _ I).
  Qed.

  (** handlersWg never goes negative, handlersLock is owned by exactly the thread that is inside
      its critical section *)
  Lemma no_panic_and_mutex :
    panicked s = false
    /\ (forall t t', thr_hl (thr s t) = true -> thr_hl (thr s t') = true -> t = t')
    /\ (forall t, thr_hl (thr s t) = true -> main_hl (mainp s) = false /\ wat_hl (wat s) = false)
    /\ hwg s = cnt (fun h => pendh (hs s h)) (nexth s).
  Proof.
    repeat split.
    - apply (i_nopanic _ I).
    - intros t t' E E'. apply (i_hl_thr _ I) in E, E'. congruence.
    - apply (i_hl_thr _ I) in H. destruct (main_hl (mainp s)) eqn:X; auto. apply (i_hl_main _ I) in X. congruence.
    - apply (i_hl_thr _ I) in H. destruct (wat_hl (wat s)) eqn:X; auto. apply (i_hl_wat _ I) in X. congruence.
    - apply (i_cnt _ I).
  Qed.
End Reach.

Lemma rh_fix4 s me par p c s1 p' e : rh_step s me par p c = Some (s1, p', e) -> fix4 s1 = fix4 s.
Proof.
  unfold rh_step. intros X. destruct p, c; try discriminate X; destr X; injection X as <- _ _; simpl; first [reflexivity | assumption | congruence].
Qed.
Lemma cl_fix4 s me p c s1 p' : cl_step s me p c = Some (s1, p') -> fix4 s1 = fix4 s.
Proof.
  unfold cl_step, close_unstarted. intros X. destruct p, c; try discriminate X; destr X; injection X as <- _; simpl; first [reflexivity | assumption | congruence].
Qed.
Lemma fix4_step s l s' evs : step s l = Some (s', evs) -> fix4 s' = fix4 s.
Proof.
  intros X. destruct l; simpl in X; destr X; injection X as <- _; simpl;
    repeat match goal with
           | E : rh_step _ _ _ _ _ = Some _ |- _ => apply rh_fix4 in E
           | E : cl_step _ _ _ _ = Some _ |- _ => apply cl_fix4 in E
           end; simpl in *; try reflexivity; try assumption; try congruence.
Qed.
Lemma fix4_run ls : forall s, fix4 (run s ls) = fix4 s.
Proof.
  induction ls as [|l ls IH]; intros s; simpl; [reflexivity|].
  destruct (step s l) as [[s' evs]|] eqn:X; [|apply IH]. rewrite IH. eapply fix4_step; eauto.
Qed.

(** D4 repaired: once Started() is closed, stopFn and stopped are assigned; a Stop called after
    Started() was observed returns normally; Stopped() is non-nil and closes only when the
    handler goroutine is done *)
Lemma started_implies_stoppable f14 f15 f16 ls :
  let s := run (rinit true f14 f15 f16) ls in
  (forall h, h_startedCh (hs s h) = true ->
             h_started (hs s h) = true /\ h_stopFn (hs s h) = true /\ h_stoppedSet (hs s h) = true)
  /\ (forall t h r, thr s t = TStopDone h true r -> r = StopOk)
  /\ (forall h, h_stoppedCh (hs s h) = true <-> h_loop (hs s h) = LDone).
Proof.
  intros s. pose proof (reachable_sinv true f14 f15 f16 ls) as I. fold s in I.
  assert (F : fix4 s = true) by (subst s; now rewrite fix4_run).
  repeat split.
  - destruct (i_hrec _ I h). auto.
  - destruct (i_hrec _ I h). apply r_fix4; auto.
  - destruct (i_hrec _ I h). apply r_fix4; auto.
  - intros t h r E. eapply (i_stopdone _ I); eauto.
  - apply (i_hrec _ I h).
  - apply (i_hrec _ I h).
Qed.

(** ** Stop is local (step-level): what a Stop call changes, who can close a publisher, who can end a subscription *)
Lemma rh_frame s me par p c s1 p' e :
  rh_step s me par p c = Some (s1, p', e) ->
  pubClosed s1 = pubClosed s /\ cctx s1 = cctx s /\ rcancel s1 = rcancel s /\ closingCh s1 = closingCh s
  /\ (forall h, h_subOpen (hs s h) = true -> h_subOpen (hs s1 h) = true)
  /\ (forall h, h_cancel (hs s1 h) = h_cancel (hs s h)).
Proof.
  unfold rh_step. intros X. destruct p, c; try discriminate X; destr X; injection X as <- _ _; simpl;
    repeat split; intros; upds; simpl; auto.
Qed.
Lemma cl_frame s me p c s1 p' :
  cl_step s me p c = Some (s1, p') ->
  pubClosed s1 = pubClosed s /\ cctx s1 = cctx s /\ rcancel s1 = rcancel s
  /\ (forall h, h_subOpen (hs s1 h) = h_subOpen (hs s h))
  /\ (closingCh s = true -> closingCh s1 = true).
Proof.
  unfold cl_step, close_unstarted. intros X. destruct p, c; try discriminate X; destr X; injection X as <- _; simpl;
    repeat split; auto; intros h; destruct (removable (hs s h)); reflexivity.
Qed.

(** a Stop call on handler h changes nothing but h's own cancel flag *)
Lemma stop_frame s t h a c s' evs :
  thr s t = TStopRead h a \/ thr s t = TStopCall h a -> step s (LT t c) = Some (s', evs) ->
  (forall h', h' <> h -> hs s' h' = hs s h')
  /\ (hs s' h = hs s h \/ hs s' h = hs s h <| h_cancel := true |> <| h_stopreq := true |>).
Proof.
  intros [E|E] X; simpl in X; rewrite E in X; destruct c; try discriminate X; destr X; injection X as <- _; simpl.
  all: try (split; [intros; reflexivity|left; reflexivity]).
  split; [intros; now rewrite upd_other|right; now rewrite upd_same].
Qed.
Lemma stop_frame_globals s t h a c s' evs :
  thr s t = TStopRead h a \/ thr s t = TStopCall h a -> step s (LT t c) = Some (s', evs) ->
  (forall h', h' <> h -> hs s' h' = hs s h') /\ pubClosed s' = pubClosed s /\ cctx s' = cctx s /\ rcancel s' = rcancel s
  /\ closingCh s' = closingCh s /\ closedF s' = closedF s /\ hwg s' = hwg s /\ hlock s' = hlock s /\ mainp s' = mainp s /\ wat s' = wat s.
Proof.
  intros [E|E] X; simpl in X; rewrite E in X; destruct c; try discriminate X; destr X; injection X as <- _; simpl;
    repeat split; auto; intros; now rewrite upd_other.
Qed.

(** a publisher is closed only by the goroutine of a handler that uses it, when that handler's loop has ended *)
Lemma pub_closed_only_by_sharing s l s' evs p :
  step s l = Some (s', evs) -> pubClosed s p = false -> pubClosed s' p = true ->
  exists h, l = LLoop h /\ h_pub (hs s h) = Some p /\ h_loop (hs s h) = LPubClose /\ h_subOpen (hs s h) = h_subOpen (hs s h).
Proof.
  intros X P0 P1.
  destruct l; unfold step in X; destr X; injection X as <- _; subst;
    repeat match goal with
           | E : rh_step _ _ _ _ _ = Some _ |- _ => apply rh_frame in E; destruct E as (E & _)
           | E : cl_step _ _ _ _ = Some _ |- _ => apply cl_frame in E; destruct E as (E & _)
           end; simpl in *; try congruence.
  match goal with E : h_loop (hs s ?k) = LPubClose |- _ => exists k end.
  unfold upd in P1. destruct (Nat.eqb p p0) eqn:Q; [|congruence]. apply Nat.eqb_eq in Q. subst. auto.
Qed.

(** a subscription is ended only by the environment, by the context-honouring subscriber once the
    handler's context is done, or by the handleClose of a handler that uses the SAME Subscriber object
    once the ROUTER is closing *)
Lemma sub_closed_hc s h0 closing s' evs h :
  step s (LHC h0 closing) = Some (s', evs) -> h_subOpen (hs s h) = true -> h_subOpen (hs s' h) = false ->
  exists h' b, LHC h0 closing = LHC h' b /\ closingCh s = true /\ h_sub (hs s h) = h_sub (hs s h').
Proof.
  intros X P0 P1.
    unfold step in X. destruct (h_hc (hs s h0)) eqn:EH; try discriminate X.
    assert (G1 : h_subOpen (hs (set_h (close_sub s h0) h0 (hs (close_sub s h0) h0 <| h_hc := CDone |> <| h_cancel := true |>)) h) = false ->
                 h_sub (hs s h) = h_sub (hs s h0)).
    { intros Y. unfold set_h, close_sub in Y; simpl in Y.
      destruct (Nat.eq_dec h h0) as [->|N]; auto. rewrite upd_other in Y by assumption.
      destruct (Nat.eqb (h_sub (hs s h)) (h_sub (hs s h0))) eqn:Q; [now apply Nat.eqb_eq in Q|congruence]. }
    assert (G2 : h_subOpen (hs (set_h s h0 (hs s h0 <| h_hc := CDone |> <| h_cancel := true |>)) h) = false -> False).
    { intros Y. unfold set_h in Y; simpl in Y.
      destruct (Nat.eq_dec h h0) as [->|N]; [rewrite upd_same in Y; simpl in Y; congruence|].
      rewrite upd_other in Y by assumption. congruence. }
    exists h0, closing.
    destruct closing.
    - destruct (closingCh s) eqn:CC; [|discriminate]. injection X as <- _. auto.
    - destruct (hctx_done s h0); [|discriminate]. destruct (closingCh s) eqn:CC; injection X as <- _.
      + auto.
      + destruct (G2 P1).
Qed.

Lemma sub_closed_only_by s l s' evs h :
  step s l = Some (s', evs) -> h < nexth s -> h_subOpen (hs s h) = true -> h_subOpen (hs s' h) = false ->
  l = LSubEnd h \/ (l = LSubCtx h /\ hctx_done s h = true)
  \/ (exists h' b, l = LHC h' b /\ closingCh s = true /\ h_sub (hs s h) = h_sub (hs s h')).
Proof.
  intros X Hlt P0 P1.
  destruct l; try solve [right; right; eapply sub_closed_hc; eauto];
    unfold step in X; destr X; injection X as <- _; subst;
    repeat match goal with
           | E : rh_step _ _ _ _ _ = Some _ |- _ => apply rh_frame in E; destruct E as (_ & _ & _ & _ & E & _); specialize (E h P0)
           | E : cl_step _ _ _ _ = Some _ |- _ => apply cl_frame in E; destruct E as (_ & _ & _ & E & _); specialize (E h)
           end; simpl in *; try congruence;
    try (match goal with H : context [upd _ ?k _ h] |- _ => destruct (Nat.eq_dec h k) as [->|?];
           [rewrite ?upd_same in *|rewrite ?upd_other in * by assumption] end; simpl in *; try congruence).
  all: try lia.
  all: bools; eauto 6.
Qed.

(** the loop of a running handler whose subscription is open always accepts the next message *)
Lemma recv_enabled s h : h_loop (hs s h) = LRange -> h_subOpen (hs s h) = true -> step s (LRecv h) <> None.
Proof. intros E1 E2. simpl. rewrite E1, E2. discriminate. Qed.

(** the WaitGroup part of self-close: once every added handler's goroutine has passed
    handlersWg.Done() the counter is zero and a watcher blocked in Wait() can continue *)
Lemma all_ended_wg_zero f4 f14 f15 f16 ls :
  let s := run (rinit f4 f14 f15 f16) ls in
  (forall h, h < nexth s -> pendh (hs s h) = false) ->
  hwg s = 0 /\ (wat s = WWait -> step s (LWatch CStep) <> None).
Proof.
  intros s A. pose proof (reachable_sinv f4 f14 f15 f16 ls) as I. fold s in I.
  assert (Z : hwg s = 0). { rewrite (i_cnt _ I). apply cnt_zero. exact A. }
  split; [exact Z|]. intros W. simpl. rewrite W, Z. discriminate.
Qed.

(** Stop() takes no lock: both of its steps are enabled in EVERY state (whoever holds handlersLock) *)
Lemma stop_never_blocks s t h a :
  thr s t = TStopRead h a \/ thr s t = TStopCall h a -> step s (LT t CStep) <> None.
Proof.
  intros [E|E]; simpl; rewrite E.
  - destruct (h_started (hs s h)); discriminate.
  - destruct (h_stopFn (hs s h)); discriminate.
Qed.

Lemma rh_xf s me par p c s1 p' e : rh_step s me par p c = Some (s1, p', e) -> mainp s1 = mainp s.
Proof. unfold rh_step. intros X. destruct p, c; try discriminate X; destr X; injection X as <- _ _; reflexivity. Qed.
Lemma cl_xf s me p c s1 p' : cl_step s me p c = Some (s1, p') -> mainp s1 = mainp s.
Proof. unfold cl_step, close_unstarted. intros X. destruct p, c; try discriminate X; destr X; injection X as <- _; reflexivity. Qed.

(** Run returns an error only right after a Subscribe failed: a cancelled Run context is no reason *)
Lemma run_error_only_after_failed_subscribe s l s' evs :
  step s l = Some (s', evs) ->
  (mainp s' = RDone false -> mainp s <> RDone false -> mainp s = RRH HFail \/ mainp s = RRH HCheck)
  /\ (mainp s' = RRH HFail -> mainp s <> RRH HFail -> exists h, l = LMain (CPick h false) /\ evs = [ASubscribe h false]).
Proof.
  intros X. destruct l; unfold step in X.
  16: { destruct (mainp s) eqn:E; try discriminate X.
        - destr X; injection X as <- _; simpl; split; intros; congruence.
        - destruct (rh_step s OMain PRun p c) as [[[s1 p'] e1]|] eqn:RH; [|discriminate].
          unfold rh_step in RH. destruct p, c; try discriminate RH; destr RH; injection RH as <- <- <-;
            injection X as <- <-; simpl; split; intros; try congruence; eauto.
        - destr X; injection X as <- _; simpl; split; intros; congruence.
        - destr X; injection X as <- _; simpl; split; intros; congruence.
        - destr X; injection X as <- _; simpl; split; intros; congruence. }
  all: destr X; injection X as <- _; subst;
    repeat match goal with
           | E : rh_step _ _ _ _ _ = Some _ |- _ => apply rh_xf in E
           | E : cl_step _ _ _ _ = Some _ |- _ => apply cl_xf in E
           end; simpl in *; split; intros; try congruence.
Qed.
