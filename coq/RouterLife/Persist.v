(** The premises of self-close persist along internal labels, so [C10_self_close] can take them at the START of
    the internal run; and a run without a failed Subscribe makes Run return nil. *)
From WM Require Import Base.Prelude Base.Count RouterLife.Model RouterLife.Inv RouterLife.ProofsA RouterLife.ProofsB
                       RouterLife.ProofsW RouterLife.SelfClose RouterLife.Term.
From RecordUpdate Require Import RecordSet.
Import RecordSetNotations.

(** per handler: "past Done" and "started, following the Run context" *)
Definition follows (x : hst) : Prop := h_loop x <> LNone /\ h_hon x = true /\ h_par x <> PBg.

Lemma rh_persist s me par p c s1 p' e : SInv s -> (rhl p = true -> holder s me par p) ->
  rh_step s me par p c = Some (s1, p', e) ->
  nexth s1 = nexth s /\ cctx s1 = cctx s
  /\ (forall h, pendh (hs s h) = false -> pendh (hs s1 h) = false)
  /\ (forall h, follows (hs s h) -> follows (hs s1 h)).
Proof.
  intros I Hh RH. unfold rh_step in RH. destruct p, c; try discriminate RH; destr RH; injection RH as <- _ _; simpl;
    (split; [reflexivity|split; [reflexivity|split]]); auto.
  all: intros h' X; unfold set_h; simpl; upds; auto.
  all: try solve [exfalso; bools; destruct X as (L & _); destruct (i_hrec _ I h) as [? RL]; destruct (RL L); congruence].
  all: try solve [destruct X as (L & A & B'); unfold follows; destruct (fix4 s); simpl; repeat split; auto; discriminate].
  all: try solve [unfold pendh in *; simpl in *; destruct (fix4 s); simpl; exact X].
  all: destruct (holder_facts s me par (HMid2 h) I (Hh eq_refl)) as (Q & _ & _); destruct (i_mid2 _ I h Q) as [St Hl];
    unfold pendh in *; rewrite Hl in X; simpl in X; simpl; rewrite X; reflexivity.
Qed.

Lemma cl_persist s me p c s1 p' : cl_step s me p c = Some (s1, p') ->
  nexth s1 = nexth s /\ cctx s1 = cctx s /\ mainp s1 = mainp s
  /\ (forall h, pendh (hs s h) = false -> pendh (hs s1 h) = false)
  /\ (forall h, follows (hs s h) -> follows (hs s1 h)).
Proof.
  intros X. unfold cl_step, close_unstarted in X. destruct p, c; try discriminate X; destr X; injection X as <- _; simpl;
    (split; [reflexivity|split; [reflexivity|split; [reflexivity|split]]]); auto.
  all: intros h X; destruct (removable (hs s h)) eqn:R; simpl; auto.
  all: try (unfold pendh in *; simpl; now rewrite andb_false_r).
  all: unfold follows in *; simpl; auto.
Qed.

Lemma step_persist s l s' evs : SInv s -> internal l = true -> step s l = Some (s', evs) ->
  nexth s' = nexth s /\ (cctx s = true -> cctx s' = true) /\ (mainp s <> RNone -> mainp s' <> RNone)
  /\ (forall h, pendh (hs s h) = false -> pendh (hs s' h) = false)
  /\ (forall h, follows (hs s h) -> follows (hs s' h)).
Proof.
  intros I Hi H. destruct l; try discriminate Hi; unfold step in H.
  - (* LPublish *) destr H; injection H as <- _; simpl; (split; [reflexivity|split; [auto|split; [auto|split]]]);
      intros h' X; unfold set_h; simpl; upds; auto.
  - (* LSubCtx *) destr H; injection H as <- _; simpl; (split; [reflexivity|split; [auto|split; [auto|split]]]);
      intros h' X; unfold set_h; simpl; upds; auto.
  - (* LT *)
    destruct (thr s t) eqn:E; try discriminate H.
    + destr H; injection H as <- _; simpl; (split; [reflexivity|split; [auto|split; [try discriminate; auto|split]]]); auto.
    + destruct (rh_step s (OThr t) par p c) as [[[s1 p'] e1]|] eqn:RH; [|discriminate]. injection H as <- _.
      assert (Hh : rhl p = true -> holder s (OThr t) par p) by (intros R; apply holder_thr; auto).
      destruct (rh_persist _ _ _ _ _ _ _ _ I Hh RH) as (F1 & F2 & F3 & F4).
      assert (F5 : mainp s1 = mainp s) by (eapply rh_mu; eauto).
      simpl. split; [exact F1|]. split; [rewrite F2; auto|]. split; [rewrite F5; auto|]. split; [exact F3|exact F4].
    + destr H; injection H as <- _; simpl; (split; [reflexivity|split; [auto|split; [auto|split]]]); auto.
    + destr H; injection H as <- _; simpl; (split; [reflexivity|split; [auto|split; [auto|split]]]); auto;
        intros h' X; unfold set_h; simpl; upds; auto.
    + destruct (cl_step s (OThr t) p c) as [[s1 p']|] eqn:CL; [|discriminate]. injection H as <- _.
      destruct (cl_persist _ _ _ _ _ _ CL) as (F1 & F2 & F3 & F4 & F5).
      simpl. split; [exact F1|]. split; [rewrite F2; auto|]. split; [rewrite F3; auto|]. split; [exact F4|exact F5].
  - (* LMain *)
    destruct (mainp s) eqn:E; try discriminate H.
    2: { destruct (rh_step s OMain PRun p c) as [[[s1 p'] e1]|] eqn:RH; [|discriminate].
         assert (Hh : rhl p = true -> holder s OMain PRun p) by (intros R; apply holder_main; auto).
         destruct (rh_persist _ _ _ _ _ _ _ _ I Hh RH) as (F1 & F2 & F3 & F4).
         destruct p' as [| | | | | |[]]; try destruct p; injection H as <- _; simpl;
           (split; [exact F1|split; [rewrite F2; auto|split; [discriminate|split; [exact F3|exact F4]]]]). }
    all: destr H; injection H as <- _; simpl; (split; [reflexivity|split; [auto|split; [try discriminate; auto|split]]]); auto.
  - (* LWatch *)
    destruct (wat s) eqn:E; try discriminate H.
    5: { destruct (cl_step s OWatch p c) as [[s1 p']|] eqn:CL; [|discriminate].
         destruct (cl_persist _ _ _ _ _ _ CL) as (F1 & F2 & F3 & F4 & F5).
         destruct p'; injection H as <- _; simpl;
           (split; [exact F1|split; [rewrite F2; auto|split; [rewrite F3; auto|split; [exact F4|exact F5]]]]). }
    all: destr H; injection H as <- _; simpl; (split; [reflexivity|split; [auto|split; [auto|split]]]); auto.
  - (* LLoop *)
    destruct (h_loop (hs s h)) eqn:EL; try discriminate H.
    all: destr H; injection H as <- _; simpl; (split; [reflexivity|split; [auto|split; [auto|split]]]);
      intros h' X; unfold set_h; simpl; upds; auto.
    all: try solve [unfold pendh in *; simpl in *; rewrite EL in X; simpl in X; first [exact X | discriminate X | reflexivity]].
    all: try solve [unfold follows in *; simpl; intuition (congruence || discriminate)].
  - (* LHC *)
    destruct (h_hc (hs s h)); try discriminate H. unfold close_sub in H.
    destr H; injection H as <- _; simpl; (split; [reflexivity|split; [auto|split; [auto|split]]]);
      intros h' X; unfold set_h; simpl; upds; simpl; auto;
      try (destruct (Nat.eqb _ _); simpl; auto).
Qed.

Lemma irun_persist ls : forall s s', SInv s -> irun s ls = Some s' ->
  nexth s' = nexth s /\ (cctx s = true -> cctx s' = true) /\ (mainp s <> RNone -> mainp s' <> RNone)
  /\ (forall h, pendh (hs s h) = false -> pendh (hs s' h) = false)
  /\ (forall h, follows (hs s h) -> follows (hs s' h)).
Proof.
  induction ls as [|l ls IH]; intros s s' I H; simpl in H.
  - inversion H; subst. split; [reflexivity|]. split; [auto|]. split; [auto|]. split; auto.
  - destruct (internal l) eqn:Hi; [|discriminate]. destruct (step s l) as [[s1 e1]|] eqn:E; [|discriminate].
    destruct (step_persist _ _ _ _ I Hi E) as (A1 & A2 & A3 & A4 & A5).
    destruct (IH s1 s' (step_sinv _ _ _ _ I E) H) as (B1 & B2 & B3 & B4 & B5).
    split; [congruence|]. split; [auto|]. split; [auto|]. split; auto.
Qed.

(** C10_self_close with the premise at the START of the internal run *)
Theorem self_close_from_start f16 ls0 ls K s' :
  let s := run (rinit true true true f16) ls0 in
  tbounded K s -> irun s ls = Some s' -> mainp s <> RNone ->
  (0 < nexth s /\ all_past_done s) \/ (cctx s = true /\ all_follow_ctx s) ->
  length ls <= mu K s /\ (~ can_move s' -> exists ok, mainp s' = RDone ok).
Proof.
  intros s B H N0 Hyp.
  destruct (self_close_terminates f16 ls0 ls K s' B H) as [L T]. split; [exact L|].
  pose proof (reachable_sinv true true true f16 ls0) as I. fold s in I.
  destruct (irun_persist ls s s' I H) as (A1 & A2 & A3 & A4 & A5).
  intros NM. apply T; auto.
  destruct Hyp as [[Hn A]|[C F]].
  - left. rewrite A1. split; [exact Hn|]. intros h Hh. rewrite A1 in Hh. apply A4. apply A. exact Hh.
  - right. split; [auto|]. intros h Hh. rewrite A1 in Hh. apply (A5 h). apply F. exact Hh.
Qed.
