(** State invariant of the Router lifecycle model (RouterLife/Model.v): lock discipline,
    per-handler facts, the RunHandlers "in the middle of handler h" bookkeeping, the
    handlersWg count and the watcher.  Proved for every label (RouterLife/Proofs.v). *)
From WM Require Import Base.Prelude Base.Count RouterLife.Model.
From RecordUpdate Require Import RecordSet.
Import RecordSetNotations.

Definition rhl (p : rhpc) : bool :=
  match p with HLoop | HMid1 _ | HMid2 _ | HFail => true | _ => false end.
Definition kl (p : clpc) : bool :=                      (* holds handlersLock *)
  match p with KCheck | KWait | KFinish _ => true | _ => false end.
Definition kc (p : clpc) : bool :=                      (* holds closedLock *)
  match p with KWantH | KCheck | KWait | KFinish _ => true | _ => false end.
Definition main_hl (p : rpc) : bool := match p with RRH q => rhl q | _ => false end.
Definition thr_hl (p : tpc) : bool := match p with TRH _ q => rhl q | TClose q => kl q | _ => false end.
Definition wat_hl (p : wpc) : bool := match p with WClose q => kl q | _ => false end.
Definition thr_cl (p : tpc) : bool := match p with TClose q => kc q | _ => false end.
Definition wat_cl (p : wpc) : bool := match p with WClose q => kc q | _ => false end.

(** the RunHandlers pc of whoever holds handlersLock *)
Definition lockpc (s : rstate) : option rhpc :=
  match hlock s with
  | Some OMain => match mainp s with RRH p => Some p | _ => None end
  | Some (OThr t) => match thr s t with TRH _ p => Some p | _ => None end
  | _ => None
  end.

(** the Close pc of whoever holds handlersLock *)
Definition closerpc (s : rstate) : option clpc :=
  match hlock s with
  | Some (OThr t) => match thr s t with TClose p => Some p | _ => None end
  | Some OWatch => match wat s with WClose p => Some p | _ => None end
  | _ => None
  end.

Definition pend (p : lpc) : bool :=          (* counted in handlersWg *)
  match p with LNone | LRange | LPubClose | LWgDone => true | _ => false end.
Definition in_map_pc (p : lpc) : bool :=     (* still in r.handlers *)
  match p with LCloseStopped | LDone => false | _ => true end.
Definition pendh (x : hst) : bool := pend (h_loop x) && negb (h_removed x).
Definition past_range (p : lpc) : bool :=
  match p with LNone | LRange => false | _ => true end.

(** facts about one handler's record alone *)
Record HRec (f4 : bool) (x : hst) : Prop := {
  r_sch : h_startedCh x = true -> h_started x = true;
  r_loop : h_loop x <> LNone ->
           h_started x = true /\ h_startedCh x = true /\ h_stopFn x = true /\ h_stoppedSet x = true;
  r_fix4 : f4 = true -> h_started x = true \/ h_mid x = true -> h_stopFn x = true /\ h_stoppedSet x = true;
  r_subs1 : h_started x = true -> h_subs x = 1 /\ h_mid x = false;
  r_subs0 : h_started x = false -> h_subs x = (if h_mid x then 1 else 0);
  r_past : past_range (h_loop x) = true -> h_subOpen x = false;
  r_done : h_stoppedCh x = true <-> h_loop x = LDone;
  r_open : h_subOpen x = true -> h_subs x = 1;
  r_hc : h_loop x = LNone -> h_hc x = CNone;
  r_sch2 : h_started x = true -> h_startedCh x = true;
  r_removed : h_removed x = true -> h_started x = false /\ h_mid x = false
}.

Definition run_started (p : rpc) : bool :=
  match p with RCloseRunning | RWaitClosing | RWaitClosed | RDone true => true | _ => false end.
Definition run_closed_running (p : rpc) : bool :=
  match p with RWaitClosing | RWaitClosed | RDone true => true | _ => false end.
Definition wat_early (p : wpc) : bool :=
  match p with WNone | WPre | WSelect => true | _ => false end.
Definition main_early (p : rpc) : bool :=
  match p with RNone | RWatch => true | _ => false end.
Definition k_waiting (p : option clpc) : bool :=
  match p with Some KWait | Some (KFinish _) => true | _ => false end.

Record SInv (s : rstate) : Prop := {
  i_hl_main : hlock s = Some OMain <-> main_hl (mainp s) = true;
  i_hl_thr : forall t, hlock s = Some (OThr t) <-> thr_hl (thr s t) = true;
  i_hl_wat : hlock s = Some OWatch <-> wat_hl (wat s) = true;
  i_fresh : forall h, nexth s <= h -> hs s h = h0;
  i_hrec : forall h, HRec (fix4 s) (hs s h);
  i_inmap : forall h, h < nexth s -> h_inmap (hs s h) = in_map_pc (h_loop (hs s h)) && negb (h_removed (hs s h));
  i_mid : forall h, h_mid (hs s h) = true -> lockpc s = Some (HMid1 h);
  i_mid1 : forall h, lockpc s = Some (HMid1 h) -> h_mid (hs s h) = true;
  i_mid2 : forall h, lockpc s = Some (HMid2 h) ->
           h_started (hs s h) = true /\ h_loop (hs s h) = LNone;
  i_spawn : forall h, h_started (hs s h) = true -> h_loop (hs s h) = LNone -> lockpc s = Some (HMid2 h);
  i_running : runningCh s = true -> run_closed_running (mainp s) = true;
  i_run_n : main_hl (mainp s) = true -> run_n s = nexth s;
  i_run_n_le : run_n s <= nexth s;
  i_run_all : run_started (mainp s) = true -> forall h, h < run_n s -> h_removed (hs s h) = false -> h_started (hs s h) = true;
  i_isrun : isRunning s = true <-> mainp s <> RNone;
  i_tmain : forall t, thr s t = TMain -> t = maint s /\ mainp s <> RNone;
  i_rundone : forall t, thr s t <> TRunDone true;
  i_stop : forall t h a, thr s t = TStopRead h a \/ thr s t = TStopCall h a ->
           h < nexth s /\ (a = true -> h_startedCh (hs s h) = true);
  i_stopcall : forall t h a, thr s t = TStopCall h a -> h_started (hs s h) = true;
  i_stopdone : forall t h r, thr s t = TStopDone h true r -> fix4 s = true -> r = StopOk;
  i_cnt : hwg s = cnt (fun h => pendh (hs s h)) (nexth s);
  i_nopanic : panicked s = false
}.

Definition run_saw_closing (p : rpc) : bool :=
  match p with RWaitClosed | RDone true => true | _ => false end.

(** closedLock, the handlerAdded signal, the watcher and the closer: what the self-close argument needs *)
Record WInv (s : rstate) : Prop := {
  i_cl_thr : forall t, clock s = Some (OThr t) -> thr_cl (thr s t) = true;
  i_cl_wat : clock s = Some OWatch -> wat_cl (wat s) = true;
  i_cl_main : clock s <> Some OMain;
  i_sig : fix14 s = true -> hadded s <= 1 /\ (0 < nexth s -> wat_early (wat s) = true -> hadded s = 1);
  i_wat0 : wat s = WNone <-> main_early (mainp s) = true;
  i_watdone : wat s = WDone -> closedF s = true;
  i_closing : closedF s = closingCh s;
  i_closedch : closedCh s = true -> closedF s = true;
  i_closer : closedF s = true -> closedCh s = false -> k_waiting (closerpc s) = true;
  i_kw : k_waiting (closerpc s) = true -> closedF s = true;
  i_mclosing : run_saw_closing (mainp s) = true -> closingCh s = true;
  i_noret_main : forall ok, mainp s <> RRH (HRet ok);
  i_noret_wat : forall ok, wat s <> WClose (KRet ok)
}.
