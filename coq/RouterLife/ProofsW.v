(** The watcher / closer invariant [WInv] holds for every label (self-close argument). *)
From WM Require Import Base.Prelude Base.Count RouterLife.Model RouterLife.Inv RouterLife.ProofsA RouterLife.ProofsB.
From RecordUpdate Require Import RecordSet.
Import RecordSetNotations.

Ltac dW W := destruct W as [W1 W2 W3 W4 W5 W6 W7 W8 W9 W10 W11 W12 W13].

Lemma winv_init f4 f14 f15 f16 : WInv (rinit f4 f14 f15 f16).
Proof.
  constructor; unfold closerpc; simpl; try congruence; try discriminate; try (intros; discriminate);
    try (split; congruence); try (intros; split; [lia|intros; lia]).
Qed.

(** nothing the invariant mentions changes *)
Lemma winv_ext s s' : WInv s ->
  clock s' = clock s -> thr s' = thr s -> wat s' = wat s -> mainp s' = mainp s -> fix14 s' = fix14 s ->
  nexth s' = nexth s -> hadded s' = hadded s -> closedF s' = closedF s -> closingCh s' = closingCh s ->
  closedCh s' = closedCh s -> hlock s' = hlock s -> WInv s'.
Proof.
  intros W E1 E2 E3 E4 E5 E6 E7 E8 E9 E10 E11. dW W.
  constructor; unfold closerpc in *; rewrite ?E1, ?E2, ?E3, ?E4, ?E5, ?E6, ?E7, ?E8, ?E9, ?E10, ?E11; assumption.
Qed.

(** a client thread that holds neither lock moves to a pc that holds neither *)
Lemma winv_set_t s t p : WInv s -> hlock s <> Some (OThr t) ->
  thr_cl (thr s t) = false -> thr_cl p = false -> WInv (set_t s t p).
Proof.
  intros W Hl H2 H3.
  dW W. constructor; rewrite ?closerpc_set_t by assumption; simpl; try assumption.
  intros t' E. updt t t'; [apply W1 in E; congruence|auto].
Qed.

Lemma not_holder s t : SInv s -> thr_hl (thr s t) = false -> hlock s <> Some (OThr t).
Proof. intros I H E. apply (i_hl_thr _ I) in E. congruence. Qed.

Ltac wext W := eapply winv_ext; [exact W | reflexivity ..].

Lemma wstep_simple s l s' evs : WInv s ->
  (l = LCancel \/ l = LObsRunning \/
   exists h, l = LStoppedGet h \/ l = LObsStarted h \/ l = LObsStopped h \/ l = LSubEnd h \/ l = LRecv h
             \/ l = LPublish h \/ l = LSubCtx h \/ l = LLoop h \/ (exists b, l = LHC h b)) ->
  step s l = Some (s', evs) -> WInv s'.
Proof.
  intros W [->|[->|(h & [->|[->|[->|[->|[->|[->|[->|[->|(b & ->)]]]]]]]])]] H;
    simpl in H; destr H; injection H as <- <-; try exact W; wext W.
Qed.

Lemma wstep_add s pub hon sub s' evs : WInv s -> step s (LAdd pub hon sub) = Some (s', evs) -> WInv s'.
Proof.
  intros W H. unfold step in H. destruct (hlock s) eqn:HL; [discriminate|].
  cbv zeta in H. simpl fix14 in H. simpl hadded in H. simpl wat in H.
  dW W. destruct (fix14 s) eqn:F.
  - destruct (W4 eq_refl) as [A B].
    destruct (Nat.eqb (hadded s) 0) eqn:Z; injection H as <- <-; bools;
      constructor; unfold closerpc in *; simpl; rewrite ?HL in *; try assumption;
      intros _; split; try lia; intros; lia.
  - destruct (wat s) eqn:Wt; injection H as <- <-;
      constructor; unfold closerpc in *; simpl; rewrite ?HL, ?Wt in *; simpl in *; try assumption;
      try congruence; try discriminate; try (intros; discriminate); try (intros X; apply W2 in X; discriminate);
      try (split; [discriminate|auto]).
    all: try solve [intros X; apply W5 in X; discriminate | apply W5 | intros ok; discriminate].
Qed.

Ltac wfin :=
  try assumption; try discriminate; try congruence; try (intros; discriminate); try lia;
  try solve [split; [discriminate|auto] | intuition (congruence || discriminate || lia)].

Lemma wstep_calls s l s' evs : SInv s -> WInv s ->
  (exists t, l = LRunCall t \/ (exists par, l = LRHCall t par) \/ (exists h, l = LStopCall t h) \/ l = LCloseCall t) ->
  step s l = Some (s', evs) -> WInv s'.
Proof.
  intros I W (t & [-> | [(par & ->) | [(h & ->) | ->]]]) H; simpl in H; destr H; injection H as <- <-;
    (apply winv_set_t; [exact W | apply not_holder; [exact I|now rewrite Heqt0] | now rewrite Heqt0 | reflexivity]).
Qed.

(** RunHandlers executed by a client thread: whatever it does to handlersLock, the closer's pc is unaffected *)
Lemma winv_rh_thr s s' t par p p' : WInv s -> thr s t = TRH par p ->
  thr s' = upd (thr s) t (TRH par p') ->
  (hlock s' = hlock s \/ (hlock s = None /\ hlock s' = Some (OThr t)) \/ (hlock s = Some (OThr t) /\ hlock s' = None)) ->
  clock s' = clock s -> wat s' = wat s -> mainp s' = mainp s -> fix14 s' = fix14 s ->
  nexth s' = nexth s -> hadded s' = hadded s -> closedF s' = closedF s -> closingCh s' = closingCh s ->
  closedCh s' = closedCh s -> WInv s'.
Proof.
  intros W E T HL E1 E3 E4 E5 E6 E7 E8 E9 E10.
  assert (C : closerpc s' = closerpc s).
  { unfold closerpc. rewrite T, E3. destruct HL as [HL|[[A B]|[A B]]].
    - rewrite HL. destruct (hlock s) as [[|t'|]|]; auto. updt t t'; [now rewrite E|reflexivity].
    - rewrite A, B, upd_same. reflexivity.
    - rewrite A, B, E. reflexivity. }
  dW W. constructor; rewrite ?C, ?E1, ?E3, ?E4, ?E5, ?E6, ?E7, ?E8, ?E9, ?E10, ?T; try assumption.
  intros t' X. updt t t'; [apply W1 in X; rewrite E in X; discriminate|auto].
Qed.

Lemma wstep_cl_thr s t p c s1 p' : SInv s -> WInv s -> thr s t = TClose p ->
  cl_step s (OThr t) p c = Some (s1, p') -> WInv (set_t s1 t (TClose p')).
Proof.
  intros I W E CL. unfold cl_step, close_unstarted in CL.
  assert (HK : kl p = true -> hlock s = Some (OThr t)).
  { intros K. apply hl_of_thr; auto. now rewrite E. }
  assert (HN : kl p = false -> hlock s <> Some (OThr t)).
  { intros K. apply not_holder; auto. now rewrite E. }
  dW W. destruct p, c; try discriminate CL; destr CL; injection CL as <- <-;
    try (pose proof (HK eq_refl) as HL); try (pose proof (HN eq_refl) as HL);
    constructor; unfold closerpc in *; simpl; rewrite ?HL, ?E, ?upd_same in *; simpl in *; wfin.
  all: try solve [intros t' X; updt t t'; [reflexivity|auto] | intros t' X; updt t t'; [reflexivity|congruence]].
  all: try solve [intros t' X; updt t t'; [discriminate|auto]].
  all: destruct (hlock s) as [[|t0|]|] eqn:HLs; simpl in *; wfin.
  all: try (updt t t0; wfin).
Qed.

Lemma wstep_watch s c s' evs : SInv s -> WInv s -> step s (LWatch c) = Some (s', evs) -> WInv s'.
Proof.
  intros I W H. unfold step in H. destruct (wat s) eqn:E; try discriminate H.
  5: { (* WClose *)
    destruct (cl_step s OWatch p c) as [[s1 p']|] eqn:CL; [|discriminate]. unfold cl_step, close_unstarted in CL.
    assert (HK : kl p = true -> hlock s = Some OWatch).
    { intros K. apply hl_of_wat; auto. now rewrite E. }
    assert (HN : kl p = false -> hlock s <> Some OWatch).
    { intros K X. apply (i_hl_wat _ I) in X. rewrite E in X. simpl in X. congruence. }
    dW W. destruct p, c; try discriminate CL; destr CL; injection CL as <- <-; injection H as <- <-;
      try (pose proof (HK eq_refl) as HL); try (pose proof (HN eq_refl) as HL);
      constructor; unfold closerpc in *; simpl; rewrite ?HL, ?E in *; simpl in *; wfin.
    all: try solve [rewrite <- W5; split; discriminate].
    all: destruct (hlock s) as [[|t0|]|] eqn:HLs; simpl in *; wfin. }
  all: assert (HL : hlock s <> Some OWatch)
    by (intros X; apply (i_hl_wat _ I) in X; rewrite E in X; discriminate).
  all: dW W; destr H; injection H as <- <-;
    constructor; unfold closerpc in *; simpl; rewrite ?E in *; simpl in *; wfin.
  all: try solve [rewrite <- W5; split; discriminate].
  all: try solve [destruct (hlock s) as [[|t0|]|] eqn:HLs; simpl in *; wfin].
Qed.

Lemma rh_wframe s me par p c s1 p' e : rh_step s me par p c = Some (s1, p', e) ->
  clock s1 = clock s /\ wat s1 = wat s /\ mainp s1 = mainp s /\ fix14 s1 = fix14 s /\ nexth s1 = nexth s
  /\ hadded s1 = hadded s /\ closedF s1 = closedF s /\ closingCh s1 = closingCh s /\ closedCh s1 = closedCh s
  /\ thr s1 = thr s
  /\ (hlock s1 = hlock s \/ (hlock s = None /\ hlock s1 = Some me) \/ (hlock s1 = None /\ rhl p = true)).
Proof.
  unfold rh_step. intros X. destruct p, c; try discriminate X; destr X; injection X as <- _ _; simpl;
    repeat split; auto.
Qed.

Lemma closerpc_ext s' s : hlock s' = hlock s -> thr s' = thr s -> wat s' = wat s -> closerpc s' = closerpc s.
Proof. intros A B C. unfold closerpc. now rewrite A, B, C. Qed.

Lemma wstep_main s c s' evs : SInv s -> WInv s -> step s (LMain c) = Some (s', evs) -> WInv s'.
Proof.
  intros I W H. unfold step in H. destruct (mainp s) eqn:E; try discriminate H.
  2: { (* RRH *)
    destruct (rh_step s OMain PRun p c) as [[[s1 p'] evs1]|] eqn:RH; [|discriminate].
    pose proof (rh_wframe _ _ _ _ _ _ _ _ RH) as (F1 & F2 & F3 & F4 & F5 & F6 & F7 & F8 & F9 & F10 & F11).
    assert (C : closerpc s1 = closerpc s).
    { unfold closerpc. rewrite F10, F2. destruct F11 as [X|[[A B]|[A B]]].
      - now rewrite X.
      - now rewrite A, B.
      - rewrite A. assert (Y : hlock s = Some OMain) by (apply hl_of_main; auto; rewrite E; exact B). now rewrite Y. }
    dW W.
    destruct p'; try (destruct ok); (destruct p; injection H as <- <-);
      (match goal with |- WInv ?x => assert (C' : closerpc x = closerpc s)
         by (rewrite <- C; apply closerpc_ext; reflexivity) end);
      constructor; rewrite ?C'; simpl;
      rewrite ?F1, ?F2, ?F4, ?F5, ?F6, ?F7, ?F8, ?F9, ?F10 in *; rewrite ?E in *; simpl in *; wfin.
    all: try solve [rewrite <- W5; split; discriminate]. }
  all: dW W; destr H; injection H as <- <-;
    constructor; unfold closerpc in *; simpl; rewrite ?E in *; simpl in *; wfin.
  all: try solve [rewrite <- W5; split; discriminate | split; discriminate].
  all: try (assert (Wn : wat s = WNone) by (apply W5; reflexivity); rewrite Wn in *; simpl in *); wfin.
  all: try solve [destruct (hlock s) as [[|t0|]|] eqn:HLs; simpl in *; wfin].
Qed.

Lemma wstep_lt s t c s' evs : SInv s -> WInv s -> step s (LT t c) = Some (s', evs) -> WInv s'.
Proof.
  intros I W H. unfold step in H. destruct (thr s t) eqn:E; try discriminate H.
  - (* TRunCheck *)
    destruct c; try discriminate. destruct (isRunning s) eqn:R.
    + injection H as <- <-. apply winv_set_t; auto; [apply not_holder; auto|]; now rewrite E.
    + destruct (mainp s) eqn:M; try discriminate. injection H as <- <-.
      assert (Hl : hlock s <> Some (OThr t)) by (apply not_holder; auto; now rewrite E).
      assert (C : closerpc (set_t s t TMain <| isRunning := true |> <| mainp := RWatch |> <| maint := t |>) = closerpc s).
      { unfold closerpc; simpl. destruct (hlock s) as [[|t0|]|]; auto. rewrite upd_other; congruence. }
      dW W. constructor; rewrite ?C; simpl; rewrite ?M in *; simpl in *; wfin.
      intros t' X. updt t t'; [apply W1 in X; rewrite E in X; discriminate|auto].
  - (* TRH *)
    destruct (rh_step s (OThr t) par p c) as [[[s1 p'] evs1]|] eqn:RH; [|discriminate].
    injection H as <- <-.
    pose proof (rh_wframe _ _ _ _ _ _ _ _ RH) as (F1 & F2 & F3 & F4 & F5 & F6 & F7 & F8 & F9 & F10 & F11).
    apply (winv_rh_thr s (set_t s1 t (TRH par p')) t par p p' W E); simpl; try congruence.
    + destruct F11 as [X|[[A B]|[A B]]]; auto. right. right. split; auto.
      apply hl_of_thr; auto. rewrite E. exact B.
  - (* TStopRead *)
    destruct c; try discriminate.
    assert (Hl : hlock s <> Some (OThr t)) by (apply not_holder; auto; now rewrite E).
    destruct (h_started (hs s h)); injection H as <- <-; apply winv_set_t; auto; now rewrite E.
  - (* TStopCall *)
    destruct c; try discriminate.
    assert (Hl : hlock s <> Some (OThr t)) by (apply not_holder; auto; now rewrite E).
    destruct (h_stopFn (hs s h)); injection H as <- <-.
    + apply winv_set_t; [wext W|exact Hl| |reflexivity]. simpl. now rewrite E.
    + apply winv_set_t; auto. now rewrite E.
  - (* TClose *)
    destruct (cl_step s (OThr t) p c) as [[s1 p']|] eqn:CL; [|discriminate].
    injection H as <- <-. eapply wstep_cl_thr; eauto.
Qed.

Theorem step_winv s l s' evs : SInv s -> WInv s -> step s l = Some (s', evs) -> WInv s'.
Proof.
  intros I W H. destruct l.
  - eapply wstep_add; eauto.
  - eapply wstep_calls; [exact I|exact W| exists t; left; reflexivity | exact H].
  - eapply wstep_calls; [exact I|exact W| exists t; right; left; exists par; reflexivity | exact H].
  - eapply wstep_calls; [exact I|exact W| exists t; right; right; left; exists h; reflexivity | exact H].
  - eapply wstep_calls; [exact I|exact W| exists t; right; right; right; reflexivity | exact H].
  - eapply wstep_simple; [exact W| left; reflexivity | exact H].
  - eapply wstep_simple; [exact W| right; right; exists h; left; reflexivity | exact H].
  - eapply wstep_simple; [exact W| right; left; reflexivity | exact H].
  - eapply wstep_simple; [exact W| right; right; exists h; right; left; reflexivity | exact H].
  - eapply wstep_simple; [exact W| right; right; exists h; right; right; left; reflexivity | exact H].
  - eapply wstep_simple; [exact W| right; right; exists h; right; right; right; left; reflexivity | exact H].
  - eapply wstep_simple; [exact W| right; right; exists h; right; right; right; right; left; reflexivity | exact H].
  - eapply wstep_simple; [exact W| right; right; exists h; right; right; right; right; right; left; reflexivity | exact H].
  - eapply wstep_simple; [exact W| right; right; exists h; right; right; right; right; right; right; left; reflexivity | exact H].
  - eapply wstep_lt; eauto.
  - eapply wstep_main; eauto.
  - eapply wstep_watch; eauto.
  - eapply wstep_simple; [exact W| right; right; exists h; right; right; right; right; right; right; right; left; reflexivity | exact H].
  - eapply wstep_simple; [exact W| right; right; exists h; right; right; right; right; right; right; right; right; exists closing; reflexivity | exact H].
Qed.

Theorem run_inv ls : forall s, SInv s -> WInv s -> SInv (run s ls) /\ WInv (run s ls).
Proof.
  induction ls as [|l ls IH]; intros s I W; simpl; [split; assumption|].
  destruct (step s l) as [[s' evs]|] eqn:E; [|now apply IH]. apply IH.
  - eapply step_sinv; eauto.
  - eapply step_winv; eauto.
Qed.

Theorem reachable_winv f4 f14 f15 f16 ls : WInv (run (rinit f4 f14 f15 f16) ls).
Proof. apply run_inv; [apply sinv_init|apply winv_init]. Qed.
