(** Self-close: in the repaired model, once every added handler's goroutine is past
    handlersWg.Done() - or the Run context is cancelled and every handler follows it - some
    goroutine of the router (or a call in progress) can move, until Run has returned. *)
From WM Require Import Base.Prelude Base.Count RouterLife.Model RouterLife.Inv RouterLife.ProofsA RouterLife.ProofsB
                       RouterLife.ProofsW.
From RecordUpdate Require Import RecordSet.
Import RecordSetNotations.

Definition internal (l : label) : bool :=
  match l with
  | LMain _ | LWatch _ | LT _ _ | LLoop _ | LHC _ _ | LSubCtx _ | LPublish _ => true
  | _ => false
  end.
Definition can_move (s : rstate) : Prop := exists l, internal l = true /\ step s l <> None.

Lemma lt_rh s t par p c : thr s t = TRH par p -> rh_step s (OThr t) par p c <> None -> step s (LT t c) <> None.
Proof. intros E N. unfold step. rewrite E. destruct (rh_step s (OThr t) par p c) as [[[? ?] ?]|]; [discriminate|congruence]. Qed.
Lemma lt_cl s t p c : thr s t = TClose p -> cl_step s (OThr t) p c <> None -> step s (LT t c) <> None.
Proof. intros E N. unfold step. rewrite E. destruct (cl_step s (OThr t) p c) as [[? ?]|]; [discriminate|congruence]. Qed.
Lemma main_rh s p c : mainp s = RRH p -> rh_step s OMain PRun p c <> None -> step s (LMain c) <> None.
Proof.
  intros E N. unfold step. rewrite E. destruct (rh_step s OMain PRun p c) as [[[? p'] ?]|]; [|congruence].
  destruct p' as [| | | | | |[]]; try discriminate; destruct p; discriminate.
Qed.
Lemma watch_cl s p c : wat s = WClose p -> cl_step s OWatch p c <> None -> step s (LWatch c) <> None.
Proof.
  intros E N. unfold step. rewrite E. destruct (cl_step s OWatch p c) as [[? p']|]; [|congruence].
  destruct p'; discriminate.
Qed.

(** whoever is inside RunHandlers' critical section can take its next step *)
Lemma rh_can s me par p : SInv s -> rhl p = true -> exists c, rh_step s me par p c <> None.
Proof.
  intros I R. destruct p; try discriminate R.
  - destruct (all_started s) eqn:A.
    + exists CStep. simpl. rewrite A. discriminate.
    + unfold all_started in A. apply forallb_seq_false in A as (h & Hh & Hf).
      apply orb_false_iff in Hf as [F1 F2]. apply negb_false_iff in F1.
      exists (CPick h true). simpl. apply Nat.ltb_lt in Hh. rewrite Hh, F1, F2. simpl. discriminate.
  - exists CStep. discriminate.
  - exists CStep. discriminate.
  - exists CStep. discriminate.
Qed.
Lemma cl_can s me p : kl p = true -> exists c, cl_step s me p c <> None.
Proof.
  intros K. destruct p; try discriminate K.
  - exists CStep. simpl. destruct (closedF s); discriminate.
  - exists CAlt. discriminate.
  - exists CStep. discriminate.
Qed.

Lemma hlock_holder_moves s o : SInv s -> hlock s = Some o -> can_move s.
Proof.
  intros I H. destruct o as [|t|].
  - apply (i_hl_main _ I) in H. destruct (mainp s) eqn:E; try discriminate H. simpl in H.
    destruct (rh_can s OMain PRun p I H) as [c N]. exists (LMain c). split; [reflexivity|]. eapply main_rh; eauto.
  - apply (i_hl_thr _ I) in H. destruct (thr s t) eqn:E; try discriminate H; simpl in H.
    + destruct (rh_can s (OThr t) par p I H) as [c N]. exists (LT t c). split; [reflexivity|]. eapply lt_rh; eauto.
    + destruct (cl_can s (OThr t) p H) as [c N]. exists (LT t c). split; [reflexivity|]. eapply lt_cl; eauto.
  - apply (i_hl_wat _ I) in H. destruct (wat s) eqn:E; try discriminate H; simpl in H.
    destruct (cl_can s OWatch p H) as [c N]. exists (LWatch c). split; [reflexivity|]. eapply watch_cl; eauto.
Qed.

(** a thread inside Close that holds closedLock can move, or the holder of handlersLock can *)
Lemma closer_moves s me p : SInv s -> kc p = true ->
  (forall c, cl_step s me p c <> None -> can_move s) -> can_move s.
Proof.
  intros I K Mv. destruct p; try discriminate K.
  - destruct (hlock s) as [o|] eqn:HL; [eapply hlock_holder_moves; eauto|].
    apply (Mv CStep). simpl. rewrite HL. discriminate.
  - apply (Mv CStep). simpl. destruct (closedF s); discriminate.
  - apply (Mv CAlt). discriminate.
  - apply (Mv CStep). discriminate.
Qed.

Lemma clock_holder_moves s o : SInv s -> WInv s -> clock s = Some o -> can_move s.
Proof.
  intros I W H. destruct o as [|t|].
  - destruct (i_cl_main _ W H).
  - apply (i_cl_thr _ W) in H. destruct (thr s t) eqn:E; try discriminate H. simpl in H.
    eapply closer_moves; eauto. intros c N. exists (LT t c). split; [reflexivity|]. eapply lt_cl; eauto.
  - apply (i_cl_wat _ W) in H. destruct (wat s) eqn:E; try discriminate H. simpl in H.
    eapply closer_moves; eauto. intros c N. exists (LWatch c). split; [reflexivity|]. eapply watch_cl; eauto.
Qed.

(** the flags never change *)
Lemma rh_flags s me par p c s1 p' e : rh_step s me par p c = Some (s1, p', e) -> fix14 s1 = fix14 s /\ fix15 s1 = fix15 s.
Proof.
  unfold rh_step. intros X. destruct p, c; try discriminate X; destr X; injection X as <- _ _; simpl; auto.
Qed.
Lemma cl_flags s me p c s1 p' : cl_step s me p c = Some (s1, p') -> fix14 s1 = fix14 s /\ fix15 s1 = fix15 s.
Proof.
  unfold cl_step, close_unstarted. intros X. destruct p, c; try discriminate X; destr X; injection X as <- _; simpl; auto.
Qed.
Lemma flags_step s l s' evs : step s l = Some (s', evs) -> fix14 s' = fix14 s /\ fix15 s' = fix15 s.
Proof.
  intros X. destruct l; unfold step in X; destr X; injection X as <- _; subst; simpl;
    repeat match goal with
           | E : rh_step _ _ _ _ _ = Some _ |- _ => apply rh_flags in E; destruct E
           | E : cl_step _ _ _ _ = Some _ |- _ => apply cl_flags in E; destruct E
           end; simpl in *; auto; try (split; congruence).
Qed.
Lemma flags_run ls : forall s, fix14 (run s ls) = fix14 s /\ fix15 (run s ls) = fix15 s.
Proof.
  induction ls as [|l ls IH]; intros s; simpl; [auto|].
  destruct (step s l) as [[s' evs]|] eqn:X; [|apply IH].
  destruct (IH s') as [A B]. destruct (flags_step _ _ _ _ X) as [C D]. split; congruence.
Qed.

Definition all_past_done (s : rstate) : Prop := forall h, h < nexth s -> pendh (hs s h) = false.
(** every handler was started and its subscription follows the (cancelled) Run context *)
Definition all_follow_ctx (s : rstate) : Prop :=
  forall h, h < nexth s -> h_loop (hs s h) <> LNone /\ h_hon (hs s h) = true /\ h_par (hs s h) <> PBg.

Lemma watcher_moves s : SInv s -> WInv s -> fix14 s = true -> fix15 s = true ->
  main_early (mainp s) = false -> closedF s = false -> hwg s = 0 ->
  (0 < nexth s \/ cctx s = true) -> can_move s.
Proof.
  intros I W F14 F15 ME CF HW Hyp. destruct (wat s) eqn:E.
  - exfalso. apply (i_wat0 _ W) in E. congruence.
  - exists (LWatch CStep). split; [reflexivity|]. simpl. rewrite E. discriminate.
  - destruct Hyp as [N|C].
    + destruct (i_sig _ W F14) as [_ S]. rewrite E in S. specialize (S N eq_refl).
      exists (LWatch CStep). split; [reflexivity|]. simpl. rewrite E, S. discriminate.
    + exists (LWatch CCtx). split; [reflexivity|]. simpl. rewrite E, F15, C. discriminate.
  - exists (LWatch CStep). split; [reflexivity|]. simpl. rewrite E, HW. discriminate.
  - destruct (clock s) as [o|] eqn:CL; [eapply clock_holder_moves; eauto|].
    exists (LWatch CStep). split; [reflexivity|]. simpl. rewrite E, CL. discriminate.
  - destruct p.
    + destruct (clock s) as [o|] eqn:CL; [eapply clock_holder_moves; eauto|].
      exists (LWatch CStep). split; [reflexivity|]. eapply watch_cl; eauto. simpl. rewrite CL. discriminate.
    + destruct (hlock s) as [o|] eqn:HL; [eapply hlock_holder_moves; eauto|].
      exists (LWatch CStep). split; [reflexivity|]. eapply watch_cl; eauto. simpl. rewrite HL. discriminate.
    + destruct (cl_can s OWatch KCheck eq_refl) as [c N]. exists (LWatch c). split; [reflexivity|]. eapply watch_cl; eauto.
    + destruct (cl_can s OWatch KWait eq_refl) as [c N]. exists (LWatch c). split; [reflexivity|]. eapply watch_cl; eauto.
    + destruct (cl_can s OWatch (KFinish ok) eq_refl) as [c N]. exists (LWatch c). split; [reflexivity|]. eapply watch_cl; eauto.
    + destruct (i_noret_wat _ W ok E).
  - apply (i_watdone _ W) in E. congruence.
Qed.

(** while Run has not returned: all goroutines past Done (>= 1 handler) or context cancelled => not stuck *)
Lemma not_stuck_core s : SInv s -> WInv s -> fix14 s = true -> fix15 s = true ->
  mainp s <> RNone -> (forall ok, mainp s <> RDone ok) ->
  all_past_done s -> (0 < nexth s \/ cctx s = true) -> can_move s.
Proof.
  intros I W F14 F15 N0 ND A Hyp.
  assert (HW : hwg s = 0). { rewrite (i_cnt _ I). apply cnt_zero. exact A. }
  destruct (mainp s) eqn:E.
  - congruence.
  - destruct (hlock s) as [o|] eqn:HL; [eapply hlock_holder_moves; eauto|].
    exists (LMain CStep). split; [reflexivity|]. simpl. rewrite E, HL. discriminate.
  - destruct (rhl p) eqn:R.
    + assert (H : hlock s = Some OMain) by (apply hl_of_main; auto; rewrite E; exact R).
      eapply hlock_holder_moves; eauto.
    + destruct p; try discriminate R.
      * exists (LMain CStep). split; [reflexivity|]. eapply main_rh; eauto. discriminate.
      * destruct (hlock s) as [o|] eqn:HL; [eapply hlock_holder_moves; eauto|].
        exists (LMain CStep). split; [reflexivity|]. eapply main_rh; eauto. simpl. rewrite HL. discriminate.
      * destruct (i_noret_main _ W ok E).
  - exists (LMain CStep). split; [reflexivity|]. simpl. rewrite E. discriminate.
  - destruct (closingCh s) eqn:C.
    + exists (LMain CStep). split; [reflexivity|]. simpl. rewrite E, C. discriminate.
    + apply watcher_moves; auto; rewrite ?E; auto. rewrite (i_closing _ W). exact C.
  - destruct (closedCh s) eqn:C.
    + exists (LMain CStep). split; [reflexivity|]. simpl. rewrite E, C. discriminate.
    + assert (CF : closedF s = true).
      { rewrite (i_closing _ W). apply (i_mclosing _ W). rewrite E. reflexivity. }
      pose proof (i_closer _ W CF C) as K. unfold closerpc in K.
      destruct (hlock s) as [o|] eqn:HL; [eapply hlock_holder_moves; eauto|discriminate K].
  - destruct (ND ok eq_refl).
Qed.

Theorem self_close_not_stuck f16 ls :
  let s := run (rinit true true true f16) ls in
  mainp s <> RNone -> (forall ok, mainp s <> RDone ok) ->
  (0 < nexth s /\ all_past_done s) \/ (cctx s = true /\ all_follow_ctx s) ->
  can_move s.
Proof.
  intros s N0 ND Hyp.
  destruct (run_inv ls (rinit true true true f16) (sinv_init _ _ _ _) (winv_init _ _ _ _)) as [I W]. fold s in I, W.
  destruct (flags_run ls (rinit true true true f16)) as [F14 F15]. fold s in F14, F15. simpl in F14, F15.
  destruct Hyp as [[Hn A]|[C F]].
  - apply not_stuck_core; auto.
  - destruct (forallb (fun h => negb (pendh (hs s h))) (seq 0 (nexth s))) eqn:P.
    + apply not_stuck_core; auto. intros h Hh. rewrite forallb_seq in P. specialize (P h Hh).
      now apply negb_true_iff in P.
    + apply forallb_seq_false in P as (h & Hh & Pf). apply negb_false_iff in Pf.
      destruct (F h Hh) as (L & Hon & Par). unfold pendh in Pf. apply andb_true_iff in Pf as [Pf _].
      destruct (h_loop (hs s h)) eqn:EL; try discriminate Pf; try congruence.
      * destruct (h_subOpen (hs s h)) eqn:SO.
        -- exists (LSubCtx h). split; [reflexivity|]. simpl. rewrite SO, Hon. unfold hctx_done, parent_done.
           destruct (h_par (hs s h)); try congruence; rewrite C, ?orb_true_r; simpl; discriminate.
        -- exists (LLoop h). split; [reflexivity|]. simpl. rewrite EL, SO. discriminate.
      * exists (LLoop h). split; [reflexivity|]. simpl. rewrite EL. destruct (h_pub (hs s h)); discriminate.
      * exists (LLoop h). split; [reflexivity|]. simpl. rewrite EL. destruct (hwg s); discriminate.
Qed.
