(** Proofs about the Router lifecycle model: the state invariant holds for every label. *)
From WM Require Import Base.Prelude Base.Count RouterLife.Model RouterLife.Inv.
From RecordUpdate Require Import RecordSet.
Import RecordSetNotations.

Lemma hrec_h0 f4 : HRec f4 h0.
Proof. constructor; simpl; try congruence; try (split; congruence); intuition congruence. Qed.

Lemma sinv_init f4 f14 f15 f16 : SInv (rinit f4 f14 f15 f16).
Proof.
  constructor; unfold lockpc, closerpc; simpl; try congruence; try (split; congruence);
    try (intros; apply hrec_h0); try (intros; lia); try (intuition congruence).
Qed.

(** case analysis of a step *)
Ltac destr H :=
  repeat match type of H with
         | context [match ?x with _ => _ end] => destruct x eqn:?; try discriminate H
         end.
Ltac bools :=
  repeat match goal with
         | H : _ && _ = true |- _ => apply andb_true_iff in H; destruct H
         | H : _ || _ = true |- _ => apply orb_true_iff in H
         | H : negb _ = true |- _ => apply negb_true_iff in H
         | H : Nat.ltb _ _ = true |- _ => apply Nat.ltb_lt in H
         | H : Nat.eqb _ _ = true |- _ => apply Nat.eqb_eq in H
         | H : Nat.ltb _ _ = false |- _ => apply Nat.ltb_ge in H
         | H : Nat.eqb _ _ = false |- _ => apply Nat.eqb_neq in H
         end.

Lemma step_cancel s s' evs : SInv s -> step s LCancel = Some (s', evs) -> SInv s'.
Proof.
  intros I H. simpl in H. injection H as <- <-.
  destruct I. constructor; unfold lockpc, closerpc in *; simpl; assumption.
Qed.

(** split on [upd] applications in the goal and hypotheses *)
Ltac upds :=
  repeat match goal with
         | |- context [upd _ ?k _ ?k'] =>
             destruct (Nat.eq_dec k' k) as [->|?]; [rewrite !upd_same in * | rewrite !upd_other in * by assumption]
         | H : context [upd _ ?k _ ?k'] |- _ =>
             destruct (Nat.eq_dec k' k) as [->|?]; [rewrite !upd_same in * | rewrite !upd_other in * by assumption]
         end.

Lemma lockpc_set_t s t p : hlock s <> Some (OThr t) -> lockpc (set_t s t p) = lockpc s.
Proof.
  intros H. unfold lockpc, set_t; simpl. destruct (hlock s) as [[|t'|]|]; try reflexivity.
  rewrite upd_other; [reflexivity|congruence].
Qed.
Lemma closerpc_set_t s t p : hlock s <> Some (OThr t) -> closerpc (set_t s t p) = closerpc s.
Proof.
  intros H. unfold closerpc, set_t; simpl. destruct (hlock s) as [[|t'|]|]; try reflexivity.
  rewrite upd_other; [reflexivity|congruence].
Qed.

Ltac dI I := destruct I as [J1 J2 J3 J4 J5 J6 J7 J8 J9 J10 J11 J12 J13 J14 J15 J16 J17 J18 J19 J20 J21 J22].

(** a client thread that does not hold handlersLock moves to another pc that does not hold it *)
Lemma sinv_set_t s t p :
  SInv s -> thr_hl (thr s t) = false -> thr_hl p = false ->
  (p = TMain -> t = maint s /\ mainp s <> RNone) ->
  p <> TRunDone true ->
  (forall h a, p = TStopRead h a \/ p = TStopCall h a -> h < nexth s /\ (a = true -> h_startedCh (hs s h) = true)) ->
  (forall h a, p = TStopCall h a -> h_started (hs s h) = true) ->
  (forall h r, p = TStopDone h true r -> fix4 s = true -> r = StopOk) ->
  SInv (set_t s t p).
Proof.
  intros I H1 H2 Hm Hd Hs Hsc Hsd.
  assert (Hl : hlock s <> Some (OThr t)).
  { intros E. apply (i_hl_thr _ I) in E. congruence. }
  dI I. constructor; rewrite ?lockpc_set_t by assumption; simpl; try assumption.
  all: intros t'; intros; upds; eauto.
  - split; congruence.
Qed.

Lemma lockpc_set_h s h x : lockpc (set_h s h x) = lockpc s.
Proof. reflexivity. Qed.

(** one handler record changes; locks, threads and the WaitGroup count do not *)
Lemma sinv_set_h s h x :
  SInv s -> h < nexth s ->
  HRec (fix4 s) x ->
  h_inmap x = in_map_pc (h_loop x) && negb (h_removed x) ->
  h_mid x = h_mid (hs s h) ->
  (h_started (hs s h) = true -> h_started x = true) ->
  (h_startedCh (hs s h) = true -> h_startedCh x = true) ->
  (lockpc s = Some (HMid2 h) -> h_started x = true /\ h_loop x = LNone) ->
  (h_started x = true -> h_loop x = LNone -> lockpc s = Some (HMid2 h)) ->
  pendh x = pendh (hs s h) ->
  h_removed x = h_removed (hs s h) ->
  SInv (set_h s h x).
Proof.
  intros I Hh Hr Him Hmid Hst Hsc Hm2 Hsp Hp Hrm.
  dI I. constructor; rewrite ?lockpc_set_h; simpl; try assumption.
  - intros h' Hh'. upds; [lia | auto].
  - intros h'. upds; auto.
  - intros h' Hh'. upds; auto.
  - intros h'. upds; [rewrite Hmid|]; auto.
  - intros h' E. upds; [rewrite Hmid|]; auto.
  - intros h' E. upds; auto.
  - intros h'. upds; auto.
  - intros Hr' h' Hh' Rm. upds; auto. apply Hst. apply J14; auto. congruence.
  - intros t h' a E. destruct (J18 t h' a E) as [E1 E2]. upds; split; auto.
  - intros t h' a E. pose proof (J19 t h' a E). upds; auto.
  - rewrite J21. apply cnt_ext. intros h' Hh'. upds; [now rewrite Hp|reflexivity].
Qed.

Lemma step_runcall s t s' evs : SInv s -> step s (LRunCall t) = Some (s', evs) -> SInv s'.
Proof.
  intros I H. simpl in H. destr H. injection H as <- <-.
  apply sinv_set_t; auto; try rewrite Heqt0; simpl; try congruence; try solve [intuition congruence].
Qed.

Ltac hrec I h :=
  let R := fresh "R" in
  pose proof (i_hrec _ I h) as R; destruct R;
  constructor; simpl;
  try match goal with E : h_loop (hs _ h) = _ |- _ => rewrite E in * end; simpl in *;
  auto; try solve [intuition (congruence || discriminate)].

(** a handler record that was touched is below [nexth] *)
Lemma touched_lt s h : SInv s -> hs s h <> h0 -> h < nexth s.
Proof.
  intros I H. destruct (Nat.lt_ge_cases h (nexth s)) as [|Hge]; [assumption|].
  exfalso. apply H. now apply (i_fresh _ I).
Qed.

Ltac lt_by I :=
  eapply touched_lt; [exact I|]; let E := fresh in intros E; rewrite E in *; simpl in *;
  first [discriminate | congruence | lia].

Ltac seth I h :=
  apply sinv_set_h;
  [ exact I
  | try solve [lt_by I]
  | try solve [hrec I h]
  | simpl; try solve [apply (i_inmap _ I); lt_by I
                     | rewrite ?(i_inmap _ I) by (lt_by I);
                       repeat match goal with E : h_loop _ = _ |- _ => rewrite E end; simpl; congruence]
  | simpl; try reflexivity
  | simpl; try solve [intuition congruence]
  | simpl; try solve [intuition congruence]
  | simpl; try solve [apply (i_mid2 _ I)
                     | let E := fresh in intros E; apply (i_mid2 _ I) in E; intuition congruence]
  | simpl; try solve [apply (i_spawn _ I) | intros; congruence]
  | unfold pendh; simpl; try solve [reflexivity | congruence
                     | repeat match goal with E : h_loop _ = _ |- _ => rewrite E end; reflexivity]
  | simpl; try reflexivity ].

Lemma step_subend s h s' evs : SInv s -> step s (LSubEnd h) = Some (s', evs) -> SInv s'.
Proof.
  intros I H. simpl in H. destr H. injection H as <- <-. seth I h.
Qed.

Lemma step_recv s h s' evs : SInv s -> step s (LRecv h) = Some (s', evs) -> SInv s'.
Proof. intros I H. simpl in H. destr H. injection H as <- <-. seth I h. Qed.

Lemma step_publish s h s' evs : SInv s -> step s (LPublish h) = Some (s', evs) -> SInv s'.
Proof. intros I H. simpl in H. destr H; injection H as <- <-; seth I h. Qed.

Lemma step_subctx s h s' evs : SInv s -> step s (LSubCtx h) = Some (s', evs) -> SInv s'.
Proof. intros I H. simpl in H. destr H. injection H as <- <-. bools. seth I h. Qed.

(** subscriber.Close(): the subscriptions of all handlers that share the Subscriber object end *)
Lemma sinv_close_sub s h : SInv s -> SInv (close_sub s h).
Proof.
  intros I. pose proof I as I0. dI I. constructor; unfold lockpc, close_sub in *; simpl; try assumption.
  - intros h' Hh'. rewrite (J4 h' Hh'). destruct (Nat.eqb (h_sub h0) (h_sub (hs s h))); reflexivity.
  - intros h'. destruct (Nat.eqb (h_sub (hs s h')) (h_sub (hs s h))); auto.
    destruct (J5 h'). constructor; simpl; auto; intros; discriminate.
  - intros h' Hh'. destruct (Nat.eqb (h_sub (hs s h')) (h_sub (hs s h))); simpl; auto.
  - intros h'. destruct (Nat.eqb (h_sub (hs s h')) (h_sub (hs s h))); simpl; auto.
  - intros h' X. apply J8 in X. destruct (Nat.eqb (h_sub (hs s h')) (h_sub (hs s h))); simpl; auto.
  - intros h' X. apply J9 in X. destruct (Nat.eqb (h_sub (hs s h')) (h_sub (hs s h))); simpl; auto.
  - intros h'. destruct (Nat.eqb (h_sub (hs s h')) (h_sub (hs s h))); simpl; auto.
  - intros X h' Hh'. destruct (Nat.eqb (h_sub (hs s h')) (h_sub (hs s h))); simpl; auto.
  - intros t h' a X. destruct (J18 t h' a X) as [A B]. split; auto.
    destruct (Nat.eqb (h_sub (hs s h')) (h_sub (hs s h))); simpl; auto.
  - intros t h' a X. pose proof (J19 t h' a X). destruct (Nat.eqb (h_sub (hs s h')) (h_sub (hs s h))); simpl; auto.
  - rewrite J21. apply cnt_ext. intros h' Hh'. destruct (Nat.eqb (h_sub (hs s h')) (h_sub (hs s h))); reflexivity.
Qed.

Lemma step_hc s h b s' evs : SInv s -> step s (LHC h b) = Some (s', evs) -> SInv s'.
Proof.
  intros I H. unfold step in H. destruct (h_hc (hs s h)) eqn:E; try discriminate H.
  pose proof (sinv_close_sub s h I) as I'.
  assert (E' : h_hc (hs (close_sub s h) h) = CSelect).
  { unfold close_sub; simpl. rewrite Nat.eqb_refl. exact E. }
  destruct b.
  - destruct (closingCh s); [|discriminate]. injection H as <- <-. seth I' h.
  - destruct (hctx_done s h); [|discriminate]. destruct (closingCh s); injection H as <- <-; [seth I' h|seth I h].
Qed.

Lemma step_obs s l s' evs : SInv s ->
  (l = LObsRunning \/ (exists h, l = LObsStarted h \/ l = LObsStopped h \/ l = LStoppedGet h)) ->
  step s l = Some (s', evs) -> SInv s'.
Proof.
  intros I [->|[h [->|[->| ->]]]] H; simpl in H; destr H; injection H as <- <-; exact I.
Qed.

(** fields the state invariant does not mention *)
Ltac irrel I := dI I; constructor; unfold lockpc in *; simpl in *; assumption.
Lemma sinv_pubclosed s f : SInv s -> SInv (s <| pubClosed := f |>). Proof. intros I. irrel I. Qed.
Lemma sinv_maplen s n : SInv s -> SInv (s <| maplen := n |>). Proof. intros I. irrel I. Qed.
Lemma sinv_cctx s b : SInv s -> SInv (s <| cctx := b |>). Proof. intros I. irrel I. Qed.
Lemma sinv_rcancel s b : SInv s -> SInv (s <| rcancel := b |>). Proof. intros I. irrel I. Qed.
Lemma sinv_closingCh s b : SInv s -> SInv (s <| closingCh := b |>). Proof. intros I. irrel I. Qed.
Lemma sinv_closedCh s b : SInv s -> SInv (s <| closedCh := b |>). Proof. intros I. irrel I. Qed.
Lemma sinv_closedF s b : SInv s -> SInv (s <| closedF := b |>). Proof. intros I. irrel I. Qed.
Lemma sinv_clock s b : SInv s -> SInv (s <| clock := b |>). Proof. intros I. irrel I. Qed.
Lemma sinv_hadded s b : SInv s -> SInv (s <| hadded := b |>). Proof. intros I. irrel I. Qed.
Lemma sinv_wremoved s b : SInv s -> SInv (s <| wremoved := b |>). Proof. intros I. irrel I. Qed.

Lemma not_removed s h : SInv s -> h_loop (hs s h) <> LNone -> h_removed (hs s h) = false.
Proof.
  intros I L. destruct (i_hrec _ I h). destruct (h_removed (hs s h)) eqn:E; auto.
  destruct (r_removed eq_refl) as [A _]. destruct (r_loop L) as [B _]. congruence.
Qed.

(** handlersWg.Done() of handler h *)
Lemma sinv_wgdone s h x w :
  SInv s -> h < nexth s -> hwg s = S w ->
  h_loop (hs s h) = LWgDone -> x = hs s h <| h_loop := LDelete |> ->
  SInv (set_h s h x <| hwg := w |>).
Proof.
  intros I Hh Hw Hl ->.
  pose proof (i_hrec _ I h) as R. pose proof (i_inmap _ I h Hh) as Him. pose proof (i_mid2 _ I h) as M2.
  assert (Rm : h_removed (hs s h) = false) by (apply not_removed; auto; congruence).
  dI I. constructor; unfold lockpc in *; simpl in *; try assumption.
  - intros h' Hh'. upds; [lia | auto].
  - intros h'. upds; auto. destruct R. rewrite Hl in *. constructor; simpl; auto; try solve [intuition congruence].
  - intros h' Hh'. upds; auto. simpl. now rewrite Him, Hl.
  - intros h'. upds; simpl; auto.
  - intros h' E. upds; simpl; auto.
  - intros h' E. upds; simpl; auto. apply M2 in E. rewrite Hl in E. intuition congruence.
  - intros h'. upds; simpl; auto. congruence.
  - intros Hr' h' Hh' Rm'. upds; simpl in *; auto.
  - intros t h' a E. destruct (J18 t h' a E) as [E1 E2]. upds; split; auto.
  - intros t h' a E. pose proof (J19 t h' a E). upds; auto.
  - assert (E : cnt (fun h0 => pendh (hs s h0)) (nexth s)
                = S (cnt (fun h' => pendh (upd (hs s) h (hs s h <| h_loop := LDelete |>) h')) (nexth s))).
    { apply cnt_flip with (h := h); auto.
      - unfold pendh. now rewrite Hl, Rm.
      - rewrite upd_same. unfold pendh. reflexivity.
      - intros h' Hne. now rewrite upd_other. }
    lia.
Qed.

Lemma step_loop s h s' evs : SInv s -> step s (LLoop h) = Some (s', evs) -> SInv s'.
Proof.
  intros I H. simpl in H. destr H; injection H as <- <-.
  - seth I h.
  - apply sinv_pubclosed. seth I h.
  - seth I h.
  - exfalso. assert (Hh : h < nexth s) by lt_by I.
    assert (P : 0 < cnt (fun h0 => pendh (hs s h0)) (nexth s)).
    { apply cnt_pos with (h := h); [exact Hh|]. unfold pendh. rewrite Heql, (not_removed s h I) by congruence. reflexivity. }
    rewrite <- (i_cnt _ I) in P. lia.
  - assert (Hh : h < nexth s) by lt_by I. eapply sinv_wgdone; eauto.
  - apply sinv_maplen. seth I h.
  - seth I h.
Qed.

(** ** the holder of handlersLock inside RunHandlers *)
Definition holder (s : rstate) (me : owner) (par : parent) (p : rhpc) : Prop :=
  hlock s = Some me /\
  match me with OMain => mainp s = RRH p | OThr t => thr s t = TRH par p | OWatch => False end.
Definition setpc (s : rstate) (me : owner) (par : parent) (p' : rhpc) : rstate :=
  match me with OMain => s <| mainp := RRH p' |> | OThr t => set_t s t (TRH par p') | OWatch => s end.

Lemma lockpc_holder s me par p : holder s me par p -> lockpc s = Some p.
Proof. intros [H1 H2]. unfold lockpc. rewrite H1. destruct me; [now rewrite H2|now rewrite H2|destruct H2]. Qed.
Lemma lockpc_setpc s me par p p' h x : holder s me par p -> lockpc (setpc (set_h s h x) me par p') = Some p'.
Proof.
  intros [H1 H2]. unfold lockpc. destruct me; simpl; rewrite ?H1; simpl; [reflexivity| |destruct H2].
  now rewrite upd_same.
Qed.

Lemma sinv_locked_move s me par p p' h x :
  SInv s -> holder s me par p -> rhl p = true -> rhl p' = true ->
  h < nexth s -> HRec (fix4 s) x -> h_inmap x = in_map_pc (h_loop x) && negb (h_removed x) ->
  (h_started (hs s h) = true -> h_started x = true) ->
  (h_startedCh (hs s h) = true -> h_startedCh x = true) ->
  pendh x = pendh (hs s h) -> h_removed x = h_removed (hs s h) ->
  (forall h', h_mid (upd (hs s) h x h') = true -> p' = HMid1 h') ->
  (forall h', p' = HMid1 h' -> h_mid (upd (hs s) h x h') = true) ->
  (forall h', p' = HMid2 h' -> h_started (upd (hs s) h x h') = true /\ h_loop (upd (hs s) h x h') = LNone) ->
  (forall h', h_started (upd (hs s) h x h') = true -> h_loop (upd (hs s) h x h') = LNone -> p' = HMid2 h') ->
  SInv (setpc (set_h s h x) me par p').
Proof.
  intros I Hh Hp Hp' Hlt Hr Him Hst Hsc Hpe Hrm C7 C8 C9 C10.
  pose proof (lockpc_setpc s me par p p' h x Hh) as LP.
  destruct Hh as [HL HP].
  pose proof I as I0. dI I. constructor; rewrite ?LP.
  - (* hl_main *) destruct me; simpl in *; [rewrite Hp'; intuition congruence| |exfalso; exact HP].
    split; [congruence|]. intros E. apply J1 in E. congruence.
  - (* hl_thr *) intros t'. destruct me; simpl in *; [apply J2| |exfalso; exact HP].
    upds; [simpl; rewrite Hp'; intuition congruence|apply J2].
  - destruct me; simpl in *; [apply J3|apply J3|exfalso; exact HP].
  - intros h' Hh'. destruct me; simpl in *; try (exfalso; exact HP); upds; auto; lia.
  - intros h'. destruct me; simpl in *; try (exfalso; exact HP); upds; auto.
  - intros h' Hh'. destruct me; simpl in *; try (exfalso; exact HP); upds; auto.
  - intros h' E. f_equal. apply C7. destruct me; simpl in *; try (exfalso; exact HP); exact E.
  - intros h' E. injection E as E. destruct me; simpl in *; try (exfalso; exact HP); apply C8; exact E.
  - intros h' E. injection E as E. destruct me; simpl in *; try (exfalso; exact HP); apply C9; exact E.
  - intros h' E1 E2. f_equal. destruct me; simpl in *; try (exfalso; exact HP); apply C10; assumption.
  - destruct me; simpl in *; try (exfalso; exact HP); auto.
    intros E. apply J11 in E. rewrite HP in E. discriminate.
  - destruct me; simpl in *; try (exfalso; exact HP); auto.
    intros _. apply J12. rewrite HP. exact Hp.
  - destruct me; simpl in *; try (exfalso; exact HP); auto.
  - destruct me; simpl in *; try (exfalso; exact HP).
    + discriminate.
    + intros E h' Hh' Rm. upds; [apply Hst; apply J14; auto; congruence|auto].
  - destruct me; simpl in *; try (exfalso; exact HP); auto.
    rewrite J15. rewrite HP. split; congruence.
  - intros t'. destruct me; simpl in *; try (exfalso; exact HP).
    + intros E. destruct (J16 t' E). split; congruence.
    + upds; [discriminate|apply J16].
  - intros t'. destruct me; simpl in *; try (exfalso; exact HP); upds; auto; discriminate.
  - intros t' h' a E. destruct me; simpl in *; try (exfalso; exact HP).
    + destruct (J18 t' h' a E). upds; auto.
    + updt t t'; [intuition discriminate|]. destruct (J18 t' h' a E). upds; auto.
  - intros t' h' a E. destruct me; simpl in *; try (exfalso; exact HP).
    + pose proof (J19 t' h' a E). upds; auto.
    + updt t t'; [discriminate|]. pose proof (J19 t' h' a E). upds; auto.
  - intros t' h' r E. destruct me; simpl in *; try (exfalso; exact HP); upds; eauto; discriminate.
  - destruct me; simpl in *; try (exfalso; exact HP); rewrite J21; apply cnt_ext; intros h' Hh'; upds; congruence.
  - destruct me; simpl in *; try (exfalso; exact HP); auto.
Qed.

(** nobody holds handlersLock *)
Lemma free_lock s : SInv s -> hlock s = None ->
  lockpc s = None /\ main_hl (mainp s) = false /\ (forall t, thr_hl (thr s t) = false) /\ wat_hl (wat s) = false.
Proof.
  intros I H. unfold lockpc. rewrite H. repeat split.
  - destruct (main_hl (mainp s)) eqn:E; [|reflexivity]. apply (i_hl_main _ I) in E. congruence.
  - intros t. destruct (thr_hl (thr s t)) eqn:E; [|reflexivity]. apply (i_hl_thr _ I) in E. congruence.
  - destruct (wat_hl (wat s)) eqn:E; [|reflexivity]. apply (i_hl_wat _ I) in E. congruence.
Qed.

Lemma no_mid_free s : SInv s -> lockpc s = None ->
  (forall h, h_mid (hs s h) = false) /\ (forall h, h_started (hs s h) = true -> h_loop (hs s h) <> LNone).
Proof.
  intros I H. split.
  - intros h. destruct (h_mid (hs s h)) eqn:E; [|reflexivity]. apply (i_mid _ I) in E. congruence.
  - intros h E1 E2. pose proof (i_spawn _ I h E1 E2). congruence.
Qed.

(** generic: the lock and the pc of its (new / old) holder change; handler records do not *)
Lemma sinv_relock s s' :
  SInv s ->
  hs s' = hs s -> nexth s' = nexth s -> fix4 s' = fix4 s -> hwg s' = hwg s -> panicked s' = panicked s ->
  maint s' = maint s -> isRunning s' = isRunning s ->
  (hlock s' = Some OMain <-> main_hl (mainp s') = true) ->
  (forall t, hlock s' = Some (OThr t) <-> thr_hl (thr s' t) = true) ->
  (hlock s' = Some OWatch <-> wat_hl (wat s') = true) ->
  (forall h, h_mid (hs s h) = true -> lockpc s' = Some (HMid1 h)) ->
  (forall h, lockpc s' = Some (HMid1 h) -> h_mid (hs s h) = true) ->
  (forall h, lockpc s' = Some (HMid2 h) -> h_started (hs s h) = true /\ h_loop (hs s h) = LNone) ->
  (forall h, h_started (hs s h) = true -> h_loop (hs s h) = LNone -> lockpc s' = Some (HMid2 h)) ->
  (runningCh s' = true -> run_closed_running (mainp s') = true) ->
  (main_hl (mainp s') = true -> run_n s' = nexth s) ->
  run_n s' <= nexth s ->
  (run_started (mainp s') = true -> forall h, h < run_n s' -> h_removed (hs s h) = false -> h_started (hs s h) = true) ->
  (mainp s' = RNone <-> mainp s = RNone) ->
  (forall t, thr s' t = thr s t \/
             (thr s' t <> TMain /\ thr s' t <> TRunDone true /\
              (forall h a, thr s' t <> TStopRead h a) /\ (forall h a, thr s' t <> TStopCall h a) /\
              (forall h a r, thr s' t <> TStopDone h a r))) ->
  SInv s'.
Proof.
  intros I Ehs En Ef Ew Ep Em Ei C1 C2 C3 C7 C8 C9 C10 C11 C12 C13 C14 C15 CT.
  dI I. constructor; rewrite ?Ehs, ?En, ?Ef, ?Ew, ?Ep, ?Em, ?Ei; auto.
  - rewrite J15. rewrite C15. reflexivity.
  - intros t E. destruct (CT t) as [E'|(N & _)]; [|congruence]. rewrite E' in E.
    destruct (J16 t E) as [E1 E2]. split; [exact E1|]. rewrite C15. exact E2.
  - intros t. destruct (CT t) as [E'|(_ & N & _)]; [rewrite E'; apply J17|exact N].
  - intros t h a E. destruct (CT t) as [E'|(_ & _ & N1 & N2 & _)].
    + rewrite E' in E. eauto.
    + destruct E as [E|E]; [destruct (N1 _ _ E)|destruct (N2 _ _ E)].
  - intros t h a E. destruct (CT t) as [E'|(_ & _ & N1 & N2 & _)]; [rewrite E' in E; eauto|destruct (N2 _ _ E)].
  - intros t h r E. destruct (CT t) as [E'|(_ & _ & _ & _ & N)]; [rewrite E' in E; eauto|destruct (N _ _ _ E)].
Qed.

Ltac relock_fin :=
  simpl; unfold lockpc; simpl; rewrite ?upd_same;
  try solve [ reflexivity | assumption | lia | discriminate | congruence
            | intuition (congruence || discriminate || eauto)
            | intros; upds; simpl in *; intuition (congruence || discriminate || eauto)
            | match goal with N : forall h, h_started _ = true -> h_loop _ <> LNone |- _ =>
                intros; exfalso; eapply N; eassumption end ].

(** facts available when handlersLock is free *)
Ltac free_facts I H :=
  let F0 := fresh "F0" in let F1 := fresh "F1" in let F2 := fresh "F2" in let F3 := fresh "F3" in
  let N1 := fresh "N1" in let N2 := fresh "N2" in
  destruct (free_lock _ I H) as (F0 & F1 & F2 & F3);
  destruct (no_mid_free _ I F0) as [N1 N2];
  pose proof (i_running _ I); pose proof (i_run_n _ I); pose proof (i_run_n_le _ I); pose proof (i_run_all _ I);
  pose proof (i_isrun _ I); pose proof (i_tmain _ I).

Lemma rh_acquire_thr s t par : SInv s -> thr s t = TRH par HWant -> hlock s = None ->
  SInv (set_t (s <| hlock := Some (OThr t) |>) t (TRH par HLoop)).
Proof.
  intros I E H. free_facts I H.
  apply (sinv_relock s); auto; relock_fin.
  all: try (intros t'; upds; simpl; auto; try solve [intuition (congruence || discriminate)]).
Qed.

Lemma rh_acquire_main s : SInv s -> mainp s = RRH HWant -> hlock s = None ->
  SInv (s <| hlock := Some OMain |> <| run_n := nexth s |> <| mainp := RRH HLoop |>).
Proof.
  intros I E H. free_facts I H. rewrite E in *; simpl in *.
  apply (sinv_relock s); auto; relock_fin.
Qed.

Lemma held_lock s me : SInv s -> hlock s = Some me ->
  (me <> OMain -> main_hl (mainp s) = false) /\ (forall t, me <> OThr t -> thr_hl (thr s t) = false)
  /\ (me <> OWatch -> wat_hl (wat s) = false).
Proof.
  intros I H. repeat split.
  - intros N. destruct (main_hl (mainp s)) eqn:E; [|reflexivity]. apply (i_hl_main _ I) in E. congruence.
  - intros t N. destruct (thr_hl (thr s t)) eqn:E; [|reflexivity]. apply (i_hl_thr _ I) in E. congruence.
  - intros N. destruct (wat_hl (wat s)) eqn:E; [|reflexivity]. apply (i_hl_wat _ I) in E. congruence.
Qed.

Lemma no_mid s q : SInv s -> lockpc s = q ->
  (forall h, q <> Some (HMid1 h)) -> (forall h, q <> Some (HMid2 h)) ->
  (forall h, h_mid (hs s h) = false) /\ (forall h, h_started (hs s h) = true -> h_loop (hs s h) <> LNone).
Proof.
  intros I H Q1 Q2. split.
  - intros h. destruct (h_mid (hs s h)) eqn:E; [|reflexivity]. apply (i_mid _ I) in E. rewrite H in E. destruct (Q1 _ E).
  - intros h E1 E2. pose proof (i_spawn _ I h E1 E2) as E. rewrite H in E. destruct (Q2 _ E).
Qed.

Lemma held_thr s t : SInv s -> hlock s = Some (OThr t) ->
  main_hl (mainp s) = false /\ (forall t', t' <> t -> thr_hl (thr s t') = false) /\ wat_hl (wat s) = false.
Proof.
  intros I H. destruct (held_lock s _ I H) as (A & B & C). repeat split; [apply A|intros; apply B|apply C]; congruence.
Qed.
Lemma held_main s : SInv s -> hlock s = Some OMain ->
  (forall t', thr_hl (thr s t') = false) /\ wat_hl (wat s) = false.
Proof.
  intros I H. destruct (held_lock s _ I H) as (A & B & C). repeat split; [intros; apply B|apply C]; congruence.
Qed.
Lemma held_watch s : SInv s -> hlock s = Some OWatch ->
  main_hl (mainp s) = false /\ (forall t', thr_hl (thr s t') = false).
Proof.
  intros I H. destruct (held_lock s _ I H) as (A & B & C). repeat split; [apply A|intros; apply B]; congruence.
Qed.

Ltac held_facts I H Q :=
  let F := fresh "F" in let N1 := fresh "N1" in let N2 := fresh "N2" in
  first [ pose proof (held_thr _ _ I H) as F | pose proof (held_main _ I H) as F | pose proof (held_watch _ I H) as F ];
  destruct (no_mid _ _ I Q) as [N1 N2]; [congruence|congruence|];
  pose proof (i_running _ I); pose proof (i_run_n _ I); pose proof (i_run_n_le _ I); pose proof (i_run_all _ I);
  pose proof (i_isrun _ I); pose proof (i_tmain _ I).

Lemma lockpc_thr s t par p : hlock s = Some (OThr t) -> thr s t = TRH par p -> lockpc s = Some p.
Proof. intros H E. unfold lockpc. now rewrite H, E. Qed.
Lemma lockpc_main s p : hlock s = Some OMain -> mainp s = RRH p -> lockpc s = Some p.
Proof. intros H E. unfold lockpc. now rewrite H, E. Qed.
Lemma lockpc_closer_thr s t p : hlock s = Some (OThr t) -> thr s t = TClose p -> lockpc s = None.
Proof. intros H E. unfold lockpc. now rewrite H, E. Qed.
Lemma lockpc_watch s : hlock s = Some OWatch -> lockpc s = None.
Proof. intros H. unfold lockpc. now rewrite H. Qed.

Lemma hl_of_thr s t : SInv s -> thr_hl (thr s t) = true -> hlock s = Some (OThr t).
Proof. intros I E. now apply (i_hl_thr _ I). Qed.

(** deferred Unlock of RunHandlers by a client thread *)
Lemma rh_release_thr s t par p ok : SInv s -> thr s t = TRH par p -> p = HLoop \/ p = HFail ->
  SInv (set_t (s <| hlock := None |>) t (TRH par (HRet ok))).
Proof.
  intros I E Hp.
  assert (H : hlock s = Some (OThr t)). { apply hl_of_thr; auto. rewrite E. destruct Hp as [-> | ->]; reflexivity. }
  pose proof (lockpc_thr s t par p H E) as Q.
  assert (Q1 : forall h, p <> HMid1 h) by (destruct Hp as [-> | ->]; discriminate).
  assert (Q2 : forall h, p <> HMid2 h) by (destruct Hp as [-> | ->]; discriminate).
  held_facts I H Q.
  apply (sinv_relock s); auto; relock_fin.
  all: try (intros t'; upds; simpl; auto; try solve [intuition (congruence || discriminate)]).
  all: try solve [split; [discriminate|]; intros X; destruct F as (_ & F & _); rewrite F in X by assumption; discriminate].
Qed.

Lemma hl_of_main s : SInv s -> main_hl (mainp s) = true -> hlock s = Some OMain.
Proof. intros I E. now apply (i_hl_main _ I). Qed.

(** every handler of the map is started: every handler added so far is started *)
Lemma all_started_all s : SInv s -> all_started s = true ->
  forall h, h < nexth s -> h_removed (hs s h) = false -> h_started (hs s h) = true.
Proof.
  intros I A h Hh Rm. unfold all_started in A. rewrite forallb_seq in A. specialize (A h Hh).
  apply orb_true_iff in A as [A|A]; [|exact A].
  apply negb_true_iff in A. rewrite (i_inmap _ I h Hh), Rm, andb_true_r in A.
  destruct (i_hrec _ I h) as [_ R _ _ _ _ _ _ _ _ _].
  destruct (h_loop (hs s h)) eqn:E; simpl in A; try discriminate; apply R; congruence.
Qed.

Lemma rh_release_main_ok s : SInv s -> mainp s = RRH HLoop -> all_started s = true ->
  SInv (s <| hlock := None |> <| mainp := RCloseRunning |>).
Proof.
  intros I E A.
  assert (H : hlock s = Some OMain). { apply hl_of_main; auto. now rewrite E. }
  pose proof (lockpc_main s _ H E) as Q. held_facts I H Q.
  pose proof (all_started_all s I A) as AA.
  rewrite E in *; simpl in *.
  apply (sinv_relock s); auto; relock_fin.
  all: try solve [intros; apply AA; auto; lia].
  all: try solve [destruct F as [F _]; intros t'; split; [discriminate|]; intros X; rewrite F in X; discriminate].
Qed.

Lemma rh_release_main_fail s : SInv s -> mainp s = RRH HFail ->
  SInv (s <| hlock := None |> <| rcancel := true |> <| mainp := RDone false |>).
Proof.
  intros I E.
  assert (H : hlock s = Some OMain). { apply hl_of_main; auto. now rewrite E. }
  pose proof (lockpc_main s _ H E) as Q. held_facts I H Q.
  rewrite E in *; simpl in *.
  apply (sinv_relock s); auto; relock_fin.
  all: try solve [destruct F as [F _]; intros t'; split; [discriminate|]; intros X; rewrite F in X; discriminate].
Qed.

Lemma lockpc_mainp s p' : hlock s <> Some OMain -> lockpc (s <| mainp := p' |>) = lockpc s.
Proof. intros H. unfold lockpc; simpl. destruct (hlock s) as [[| |]|]; congruence. Qed.

(** the main Run moves between pcs that do not hold the lock *)
Lemma sinv_main_move s p' :
  SInv s -> main_hl (mainp s) = false -> main_hl p' = false -> mainp s <> RNone -> p' <> RNone ->
  (runningCh s = true -> run_closed_running p' = true) ->
  (run_started p' = true -> run_started (mainp s) = true) ->
  SInv (s <| mainp := p' |>).
Proof.
  intros I E1 E2 N1 N2 M1 M2.
  assert (HL : hlock s <> Some OMain). { intros X. apply (i_hl_main _ I) in X. congruence. }
  pose proof I as I0. dI I.
  apply (sinv_relock s); auto; rewrite ?lockpc_mainp by assumption; simpl; auto.
  - rewrite E2. split; [congruence|discriminate].
  - intros X. rewrite E2 in X. discriminate.
  - intuition congruence.
Qed.

