(** The property C10 as an executable acceptor over API-level histories ([aev], Model.v).
    The SAME function judges (a) every history the model can produce - theorem
    [monitor_accepts] in Proofs.v - and (b) the histories of the real Router recorded by the
    harness.  [m_bad] = 0 while the history is accepted, otherwise the code of the FIRST
    violated clause:

      1  Running() observed closed while a handler registered before Run has no subscription
         (not judged once Close was called: Close removes the handlers that were never started)
      2  a second successful Subscribe for the same handler
      10 RunHandlers returned nil while a handler added before the call has no subscription
         (not judged once Close was called, as for 1)
      3  Stop() called after Started() was observed closed panicked
      4  Stopped() returned nil after Started() was observed closed
      5  a handler failed to process (publish) although nobody closed its publisher
      6  a publisher was closed although no handler sharing it had a reason to end
         (Stop called on it / its subscription ended) and nothing global happened
         (cancel, Close, failed Subscribe, every handler had a reason: self-close)
      7  a Run called after Running() was observed (or after a Run returned) returned nil
      8  (harness watchdog) a probe message was not taken by a handler that has no reason to end
      9  (harness watchdog) Run did not return although every handler was observed stopped,
         Close was called, or the context was cancelled with every (>= 1) handler subscribed
         and all subscriptions following the Run context
      11 (harness watchdog) Run did not return after its context was cancelled on a router that
         has no handler (D15, repaired by eb6589f: the watcher only waited for handlerAdded / closedCh)
    No proofs here. *)
From WM Require Import Base.Prelude RouterLife.Model.
From RecordUpdate Require Import RecordSet.
Import RecordSetNotations.

Record mstate := MS {
  m_n : nat;                       (* handlers added so far *)
  m_pub : hid -> option pubid;
  m_runcalled : bool;
  m_n_at_run : nat;                (* handlers added before the first Run call *)
  m_running : bool;                (* Running() observed closed, or some Run returned *)
  m_subs : hid -> bool;            (* a successful Subscribe was seen *)
  m_sobs : hid -> bool;            (* Started() observed closed *)
  m_reason : hid -> bool;          (* Stop was called on it / its subscription was ended *)
  m_global : bool;                 (* cancel / Close called / a Subscribe failed / all handlers had a reason *)
  m_pubclosed : pubid -> bool;
  m_stopafter : tid -> bool;       (* that Stop call came after Started() was observed *)
  m_run2 : tid -> bool;            (* that Run call came after Running() was observed *)
  m_rh_n : tid -> nat;             (* handlers added before that RunHandlers call *)
  (* only for the watchdog verdicts 8 / 9 *)
  m_stoppedobs : hid -> bool;
  m_closecalled : bool;
  m_cancelled : bool;
  m_weak : bool;
  m_bad : nat
}.
#[export] Instance eta_mstate : Settable _ := settable! MS
  <m_n; m_pub; m_runcalled; m_n_at_run; m_running; m_subs; m_sobs; m_reason; m_global; m_pubclosed;
   m_stopafter; m_run2; m_rh_n; m_stoppedobs; m_closecalled; m_cancelled; m_weak; m_bad>.

Definition minit : mstate :=
  MS 0 (fun _ => None) false 0 false (fun _ => false) (fun _ => false) (fun _ => false) false
     (fun _ => false) (fun _ => false) (fun _ => false) (fun _ => 0) (fun _ => false) false false false 0.

Definition bad (m : mstate) (code : nat) : mstate :=
  match m_bad m with O => m <| m_bad := code |> | _ => m end.

Definition opt_nat_eqb (a b : option nat) : bool := option_eqb Nat.eqb a b.

Definition all_reason (m : mstate) : bool :=
  Nat.ltb 0 (m_n m) && forallb (m_reason m) (seq 0 (m_n m)).
(** once every handler added so far has a reason to end the router may close itself *)
Definition note_reason (m : mstate) : mstate :=
  if all_reason m then m <| m_global := true |> else m.

Definition mon_step (m : mstate) (e : aev) : mstate :=
  match e with
  | AAdd h pub => m <| m_n := S (m_n m) |> <| m_pub := upd (m_pub m) (m_n m) pub |>
  | ARunCall t =>
      (if m_runcalled m then m else m <| m_runcalled := true |> <| m_n_at_run := m_n m |>)
        <| m_run2 := upd (m_run2 m) t (m_running m) |>
  | ARunRet t ok =>
      let m' := m <| m_running := true |> in
      if ok && m_run2 m t then bad m' 7 else m'
  | ARunningObs =>
      let m' := m <| m_running := true |> in
      (* a Close that ran before Running() closed may have released and removed handlers that were never
         started (D16 repair): they are no longer registered *)
      if m_closecalled m || forallb (m_subs m) (seq 0 (m_n_at_run m)) then m' else bad m' 1
  | ASubscribe h ok =>
      if ok then (if m_subs m h then bad m 2 else m <| m_subs := upd (m_subs m) h true |>)
      else m <| m_global := true |>
  | ARHCall t => m <| m_rh_n := upd (m_rh_n m) t (m_n m) |>
  | ARHRet t ok =>
      if ok then (if m_closecalled m || forallb (m_subs m) (seq 0 (m_rh_n m t)) then m else bad m 10) else m
  | AStartedObs h => m <| m_sobs := upd (m_sobs m) h true |>
  | AStopCall t h =>
      note_reason (m <| m_stopafter := upd (m_stopafter m) t (m_sobs m h) |>
                     <| m_reason := upd (m_reason m) h true |>)
  | AStopRet t r =>
      match r with
      | StopOk => m
      | _ => if m_stopafter m t then bad m 3 else m
      end
  | AStoppedGet h nonnil => if m_sobs m h && negb nonnil then bad m 4 else m
  | AStoppedObs h => m <| m_stoppedobs := upd (m_stoppedobs m) h true |>
  | ACancel => m <| m_global := true |> <| m_cancelled := true |>
  | ACloseCall t => m <| m_global := true |> <| m_closecalled := true |>
  | ACloseRet t ok => m
  | ASubEnd h => note_reason (m <| m_reason := upd (m_reason m) h true |>)
  | AProcessed h ok =>
      if ok then m
      else match m_pub m h with
           | Some p => if m_pubclosed m p then m else bad m 5
           | None => bad m 5
           end
  | APubClose p =>
      let m' := m <| m_pubclosed := upd (m_pubclosed m) p true |> in
      if m_global m
         || existsb (fun h => m_subs m h && m_reason m h && opt_nat_eqb (m_pub m h) (Some p)) (seq 0 (m_n m))
      then m' else bad m' 6
  | AWeak => m <| m_weak := true |>
  | AProbeStuck h =>
      if m_global m || m_reason m h || negb (m_subs m h) then m else bad m 8
  | ARunHung =>
      if negb (m_runcalled m) then m
      else if m_closecalled m
              || (Nat.ltb 0 (m_n m) && forallb (m_stoppedobs m) (seq 0 (m_n m)))
              || (m_cancelled m && negb (m_weak m) && Nat.ltb 0 (m_n m) && forallb (m_subs m) (seq 0 (m_n m)))
      then bad m 9
      else if m_cancelled m && Nat.eqb (m_n m) 0 then bad m 11 else m
  end.

Definition mon_run (m : mstate) (es : list aev) : mstate := fold_left mon_step es m.

(** verdict on a whole history: 0 = accepted *)
Definition verdict (es : list aev) : nat := m_bad (mon_run minit es).

(** position (0-based) of the first rejected event, for the replay files *)
Fixpoint first_bad (m : mstate) (es : list aev) (i : nat) : option (nat * nat) :=
  match es with
  | [] => None
  | e :: es' => let m' := mon_step m e in
                match m_bad m' with O => first_bad m' es' (S i) | c => Some (i, c) end
  end.
