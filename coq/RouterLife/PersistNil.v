(** A run whose history has no failed Subscribe makes Run return nil. *)
From WM Require Import Base.Prelude Base.Count RouterLife.Model RouterLife.Inv RouterLife.ProofsA RouterLife.ProofsB
                       RouterLife.ProofsW RouterLife.SelfClose RouterLife.Term RouterLife.Local RouterLife.Theorems RouterLife.Persist.
From RecordUpdate Require Import RecordSet.
Import RecordSetNotations.

Definition no_err (s : rstate) : Prop := mainp s <> RDone false /\ mainp s <> RRH HFail /\ mainp s <> RRH HCheck.
Definition no_failed (es : list aev) : Prop := forall h, ~ In (ASubscribe h false) es.

Lemma hcheck_frame s l s' evs : step s l = Some (s', evs) -> mainp s' = RRH HCheck -> mainp s = RRH HCheck.
Proof.
  intros X. destruct l; unfold step in X.
  16: { destruct (mainp s) eqn:E; try discriminate X.
        - destr X; injection X as <- _; simpl; intros; congruence.
        - destruct (rh_step s OMain PRun p c) as [[[s1 p'] e1]|] eqn:RH; [|discriminate].
          unfold rh_step in RH. destruct p, c; try discriminate RH; destr RH; injection RH as <- <- <-;
            injection X as <- <-; simpl; intros; congruence.
        - destr X; injection X as <- _; simpl; intros; congruence.
        - destr X; injection X as <- _; simpl; intros; congruence.
        - destr X; injection X as <- _; simpl; intros; congruence. }
  all: destr X; injection X as <- _; subst;
    repeat match goal with
           | E : rh_step _ _ _ _ _ = Some _ |- _ => apply rh_xf in E
           | E : cl_step _ _ _ _ = Some _ |- _ => apply cl_xf in E
           end; simpl in *; intros; try congruence.
Qed.

Lemma no_err_step s l s' evs : step s l = Some (s', evs) -> no_err s -> no_failed evs -> no_err s'.
Proof.
  intros X (A & B & C) NF. destruct (run_error_only_after_failed_subscribe _ _ _ _ X) as [R1 R2].
  repeat split.
  - intros E. destruct (R1 E A); congruence.
  - intros E. destruct (R2 E B) as (h & _ & Ev). apply (NF h). rewrite Ev. left. reflexivity.
  - intros E. apply C. eapply hcheck_frame; eauto.
Qed.

Lemma no_err_run ls : forall s, no_err s -> no_failed (hist s ls) -> no_err (run s ls).
Proof.
  induction ls as [|l ls IH]; intros s N NF; simpl in *; auto.
  destruct (step s l) as [[s1 e1]|] eqn:E; [|now apply IH].
  apply IH.
  - eapply no_err_step; eauto. intros h X. apply (NF h). apply in_or_app. now left.
  - intros h X. apply (NF h). apply in_or_app. now right.
Qed.

(** Self-close returns nil: premise at the start of the internal run, no failed Subscribe in the whole history *)
Theorem self_close_returns_nil f16 ls0 ls K s' :
  let s := run (rinit true true true f16) ls0 in
  tbounded K s -> irun s ls = Some s' -> mainp s <> RNone ->
  (0 < nexth s /\ all_past_done s) \/ (cctx s = true /\ all_follow_ctx s) ->
  no_failed (hist (rinit true true true f16) (ls0 ++ ls)) ->
  length ls <= mu K s /\ (~ can_move s' -> mainp s' = RDone true).
Proof.
  intros s B H N0 Hyp NF.
  destruct (self_close_from_start f16 ls0 ls K s' B H N0 Hyp) as [L T]. split; [exact L|].
  intros NM. destruct (T NM) as [[] E]; [exact E|exfalso].
  assert (R : s' = run (rinit true true true f16) (ls0 ++ ls)) by (rewrite run_app; symmetry; apply irun_run; exact H).
  assert (NE : no_err (run (rinit true true true f16) (ls0 ++ ls))).
  { apply no_err_run; [|exact NF]. repeat split; simpl; discriminate. }
  rewrite <- R in NE. destruct NE as (A & _). congruence.
Qed.
