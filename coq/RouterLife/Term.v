(** Termination of the router's own activity: a natural-number measure [mu K] over all threads (client calls in
    progress below the bound K, the main Run, the watcher, per handler: phase of its goroutine, handleClose,
    open subscription, messages in flight) that EVERY internal label strictly decreases in every invariant
    state.  The RunHandlers loop cycle (HMid2 -> HLoop) is paid by the handler it has just started. *)
From WM Require Import Base.Prelude Base.Count RouterLife.Model RouterLife.Inv RouterLife.ProofsA RouterLife.ProofsB
                       RouterLife.ProofsW RouterLife.SelfClose.
From RecordUpdate Require Import RecordSet.
Import RecordSetNotations.

Section Sum.
  Context {A : Type}.
  Variable g : A -> nat.
  Fixpoint sumr (f : nat -> A) (n : nat) : nat :=
    match n with O => O | S n' => g (f n') + sumr f n' end.
  Lemma sumr_upd_out f n k v : n <= k -> sumr (upd f k v) n = sumr f n.
  Proof.
    induction n as [|n IH]; intros Hk; simpl; [reflexivity|].
    rewrite upd_other by lia. rewrite IH by lia. reflexivity.
  Qed.
  Lemma sumr_upd_in f n k v : k < n -> sumr (upd f k v) n + g (f k) = sumr f n + g v.
  Proof.
    induction n as [|n IH]; intros Hk; [lia|]. simpl.
    destruct (Nat.eq_dec k n) as [->|Hne].
    - rewrite upd_same. rewrite sumr_upd_out by lia. lia.
    - rewrite upd_other by lia. assert (k < n) as Hlt by lia. specialize (IH Hlt). lia.
  Qed.
  Lemma sumr_le f f' n : (forall k, k < n -> g (f' k) <= g (f k)) -> sumr f' n <= sumr f n.
  Proof.
    induction n as [|n IH]; intros H; simpl; [lia|].
    specialize (H n (Nat.lt_succ_diag_r n)) as H1. assert (sumr f' n <= sumr f n) by (apply IH; intros; apply H; lia). lia.
  Qed.
End Sum.

Definition rhrank (p : rhpc) : nat :=
  match p with HCheck => 6 | HWant => 5 | HLoop => 4 | HMid1 _ => 3 | HMid2 _ => 2 | HFail => 1 | HRet _ => 0 end.
Definition krank (p : clpc) : nat :=
  match p with KWantC => 6 | KWantH => 5 | KCheck => 4 | KWait => 3 | KFinish _ => 2 | KRet _ => 0 end.
Definition trank (p : tpc) : nat :=
  match p with
  | TRunCheck => 50 | TRH _ q => 1 + rhrank q | TStopRead _ _ => 2 | TStopCall _ _ => 1 | TClose q => 1 + krank q
  | _ => 0
  end.
Definition mrank (p : rpc) : nat :=
  match p with RNone => 0 | RWatch => 40 | RRH q => 5 + rhrank q | RCloseRunning => 4 | RWaitClosing => 3
             | RWaitClosed => 2 | RDone _ => 0 end.
Definition wrank (p : wpc) : nat :=
  match p with WNone => 0 | WPre => 14 | WSelect => 13 | WWait => 12 | WIsClosed => 11 | WClose q => 3 + krank q | WDone => 0 end.
Definition hrank (x : hst) : nat :=
  (if h_removed x then 0 else
   match h_loop x with
   | LNone => 14 + (if h_started x then 0 else 3 + (if h_mid x then 0 else 3))
   | LRange => 6 | LPubClose => 5 | LWgDone => 4 | LDelete => 3 | LCloseStopped => 2 | LDone => 0
   end)
  + (match h_hc x with CSelect => 1 | _ => 0 end) + (if h_subOpen x then 1 else 0) + h_inflight x.

Definition mu (K : nat) (s : rstate) : nat :=
  sumr trank (thr s) K + mrank (mainp s) + wrank (wat s) + sumr hrank (hs s) (nexth s).

(** [K] bounds the thread identifiers used so far *)
Definition tbounded (K : nat) (s : rstate) : Prop := forall t, K <= t -> thr s t = TNone.

Lemma sumr_upd_le {A} (g : A -> nat) f n k v : g v <= g (f k) -> sumr g (upd f k v) n <= sumr g f n.
Proof.
  intros L. destruct (Nat.lt_ge_cases k n) as [Hlt|Hge].
  - pose proof (sumr_upd_in g f n k v Hlt). lia.
  - rewrite sumr_upd_out by lia. lia.
Qed.

Lemma rh_mu s me par p c s1 p' e : SInv s -> (rhl p = true -> holder s me par p) ->
  rh_step s me par p c = Some (s1, p', e) ->
  nexth s1 = nexth s /\ thr s1 = thr s /\ mainp s1 = mainp s /\ wat s1 = wat s
  /\ sumr hrank (hs s1) (nexth s) + rhrank p' < sumr hrank (hs s) (nexth s) + rhrank p.
Proof.
  intros I Hh RH. unfold rh_step in RH. destruct p, c; try discriminate RH.
  - injection RH as <- <- _. repeat split; auto. destruct (isRunning s); simpl; lia.
  - destruct (hlock s); [discriminate|]. injection RH as <- <- _. repeat split; auto. simpl. lia.
  - destruct (all_started s); [|discriminate]. injection RH as <- <- _. repeat split; auto. simpl. lia.
  - destruct (Nat.ltb h (nexth s) && h_inmap (hs s h) && negb (h_started (hs s h))) eqn:G; [|discriminate].
    bools. destruct ok; injection RH as <- <- _; [|repeat split; auto; simpl; lia].
    repeat split; auto. simpl.
    destruct (holder_facts s me par HLoop I (Hh eq_refl)) as (_ & N1 & _).
    pose proof (N1 h ltac:(discriminate)) as Mh.
    pose proof (i_inmap _ I h H) as IM. rewrite H1 in IM. symmetry in IM. apply andb_true_iff in IM as [_ IM].
    apply negb_true_iff in IM.
    assert (Hl : h_loop (hs s h) = LNone).
    { destruct (i_hrec _ I h). destruct (h_loop (hs s h)) eqn:X; auto; exfalso;
        assert (h_started (hs s h) = true) by (apply r_loop; congruence); congruence. }
    match goal with |- sumr _ (upd _ _ ?v) _ + _ < _ =>
      pose proof (sumr_upd_in hrank (hs s) (nexth s) h v H) as S1;
      assert (L : hrank v + 2 <= hrank (hs s h)) end.
    { unfold hrank. destruct (fix4 s); simpl; rewrite IM, Hl, H0, Mh; simpl; destruct (h_subOpen (hs s h)); lia. }
    lia.
  - injection RH as <- <- _. repeat split; auto. simpl.
    match goal with |- sumr _ (upd _ _ ?v) _ + _ < _ =>
      assert (L : sumr hrank (upd (hs s) h v) (nexth s) <= sumr hrank (hs s) (nexth s)) end.
    { apply sumr_upd_le. unfold hrank; simpl. destruct (h_removed (hs s h)); [lia|].
      destruct (h_loop (hs s h)); try lia; destruct (h_started (hs s h)); lia. }
    lia.
  - injection RH as <- <- _. repeat split; auto. simpl.
    destruct (holder_facts s me par (HMid2 h) I (Hh eq_refl)) as (Q & _ & _).
    destruct (i_mid2 _ I h Q) as [St Hl].
    assert (Hlt : h < nexth s). { eapply touched_lt; eauto. intros X. rewrite X in St. discriminate. }
    assert (Rm : h_removed (hs s h) = false).
    { destruct (h_removed (hs s h)) eqn:X; auto. destruct (i_hrec _ I h). destruct (r_removed X). congruence. }
    match goal with |- sumr _ (upd _ _ ?v) _ + _ < _ =>
      pose proof (sumr_upd_in hrank (hs s) (nexth s) h v Hlt) as S1;
      assert (L : hrank v + 3 <= hrank (hs s h)) end.
    { unfold hrank. destruct (fix4 s); simpl; rewrite Rm, Hl, St; simpl; destruct (h_hc (hs s h)); lia. }
    lia.
  - injection RH as <- <- _. repeat split; auto. simpl. lia.
Qed.

Lemma cl_mu s me p c s1 p' : cl_step s me p c = Some (s1, p') ->
  nexth s1 = nexth s /\ thr s1 = thr s /\ mainp s1 = mainp s /\ wat s1 = wat s
  /\ sumr hrank (hs s1) (nexth s) <= sumr hrank (hs s) (nexth s) /\ krank p' < krank p.
Proof.
  intros X. unfold cl_step in X. destruct p, c; try discriminate X; destr X; injection X as <- <-; simpl;
    repeat split; auto; try lia.
  all: try (unfold close_unstarted; destruct (fix16 s); simpl; auto).
  all: try (apply sumr_le; intros k _; destruct (removable (hs s k)); [unfold hrank; simpl|]; lia).
Qed.

Lemma tlt K s t : tbounded K s -> thr s t <> TNone -> t < K.
Proof. intros B N. destruct (Nat.lt_ge_cases t K); auto. exfalso. apply N. now apply B. Qed.

Theorem mu_decreases K s l s' evs : SInv s -> WInv s -> tbounded K s -> internal l = true ->
  step s l = Some (s', evs) -> mu K s' < mu K s.
Proof.
  intros I W B Hi H. unfold mu. destruct l; try discriminate Hi; unfold step in H.
  - (* LPublish *)
    destruct (h_inflight (hs s h)) eqn:Fl; [discriminate|]. injection H as <- _. simpl.
    assert (Hlt : h < nexth s) by (eapply touched_lt; eauto; intros X; rewrite X in Fl; discriminate).
    pose proof (sumr_upd_in hrank (hs s) (nexth s) h (hs s h <| h_inflight := n |>) Hlt) as S1.
    assert (hrank (hs s h <| h_inflight := n |>) + 1 = hrank (hs s h)) by (unfold hrank; simpl; rewrite Fl; lia). lia.
  - (* LSubCtx *)
    destr H. injection H as <- _. bools. simpl.
    assert (Hlt : h < nexth s) by (eapply touched_lt; eauto; intros X; rewrite X in H; discriminate).
    pose proof (sumr_upd_in hrank (hs s) (nexth s) h (hs s h <| h_subOpen := false |>) Hlt) as S1.
    assert (hrank (hs s h <| h_subOpen := false |>) + 1 = hrank (hs s h)) by (unfold hrank; simpl; rewrite H; lia). lia.
  - (* LT *)
    destruct (thr s t) eqn:E; try discriminate H.
    all: assert (Ht : t < K) by (eapply tlt; eauto; congruence).
    + destr H; injection H as <- _; simpl.
      * pose proof (sumr_upd_in trank (thr s) K t (TRunDone false) Ht) as S1. rewrite E in S1. simpl in S1. lia.
      * pose proof (sumr_upd_in trank (thr s) K t TMain Ht) as S1. rewrite E in S1. simpl in S1. lia.
    + destruct (rh_step s (OThr t) par p c) as [[[s1 p'] e1]|] eqn:RH; [|discriminate]. injection H as <- _.
      assert (Hh : rhl p = true -> holder s (OThr t) par p) by (intros R; apply holder_thr; auto).
      destruct (rh_mu _ _ _ _ _ _ _ _ I Hh RH) as (F1 & F2 & F3 & F4 & F5). simpl. rewrite F1, F2, F3, F4.
      pose proof (sumr_upd_in trank (thr s) K t (TRH par p') Ht) as S1. rewrite E in S1. simpl in S1. lia.
    + destr H; injection H as <- _; simpl;
        match goal with |- context [upd (thr s) t ?v] => pose proof (sumr_upd_in trank (thr s) K t v Ht) as S1 end;
        rewrite E in S1; simpl in S1; lia.
    + destr H; injection H as <- _; simpl;
        match goal with |- context [upd (thr s) t ?v] => pose proof (sumr_upd_in trank (thr s) K t v Ht) as S1 end;
        rewrite E in S1; simpl in S1; try lia.
      assert (L : sumr hrank (upd (hs s) h (hs s h <| h_cancel := true |> <| h_stopreq := true |>)) (nexth s)
                  <= sumr hrank (hs s) (nexth s)) by (apply sumr_upd_le; unfold hrank; simpl; lia).
      lia.
    + destruct (cl_step s (OThr t) p c) as [[s1 p']|] eqn:CL; [|discriminate]. injection H as <- _.
      destruct (cl_mu _ _ _ _ _ _ CL) as (F1 & F2 & F3 & F4 & F5 & F6). simpl. rewrite F1, F2, F3, F4.
      pose proof (sumr_upd_in trank (thr s) K t (TClose p') Ht) as S1. rewrite E in S1. simpl in S1. lia.
  - (* LMain *)
    destruct (mainp s) eqn:E; try discriminate H.
    + destr H; injection H as <- _; simpl.
      all: assert (Wn : wat s = WNone) by (apply (i_wat0 _ W); rewrite E; reflexivity); rewrite Wn; simpl; lia.
    + destruct (rh_step s OMain PRun p c) as [[[s1 p'] e1]|] eqn:RH; [|discriminate].
      assert (Hh : rhl p = true -> holder s OMain PRun p) by (intros R; apply holder_main; auto).
      destruct (rh_mu _ _ _ _ _ _ _ _ I Hh RH) as (F1 & F2 & F3 & F4 & F5).
      destruct p' as [| | | | | |[]]; try (destruct p); injection H as <- _; simpl; rewrite ?F1, ?F2, ?F4; simpl in *; lia.
    + destr H; injection H as <- _; simpl; lia.
    + destr H; injection H as <- _; simpl; lia.
    + destr H; injection H as <- _; simpl; lia.
  - (* LWatch *)
    destruct (wat s) eqn:E; try discriminate H.
    5: { destruct (cl_step s OWatch p c) as [[s1 p']|] eqn:CL; [|discriminate].
         destruct (cl_mu _ _ _ _ _ _ CL) as (F1 & F2 & F3 & F4 & F5 & F6).
         destruct p'; injection H as <- _; simpl; rewrite ?F1, ?F2, ?F3; simpl in *; lia. }
    all: destr H; injection H as <- _; simpl; try lia.
    all: destruct (closedF s); simpl; lia.
  - (* LLoop *)
    destruct (h_loop (hs s h)) eqn:EL; try discriminate H.
    all: assert (Hlt : h < nexth s) by (eapply touched_lt; eauto; intros X; rewrite X in EL; discriminate).
    all: assert (Rm : h_removed (hs s h) = false) by (apply not_removed; auto; congruence).
    all: destr H; injection H as <- _; simpl.
    all: match goal with |- context [sumr hrank (upd ?F ?k ?v) ?n] =>
           pose proof (sumr_upd_in hrank F n k v Hlt) as S1;
           assert (L : hrank v < hrank (F k)) by (unfold hrank; simpl; rewrite Rm, EL; simpl; lia) end.
    all: lia.
  - (* LHC *)
    destruct (h_hc (hs s h)) eqn:EH; try discriminate H.
    assert (Hlt : h < nexth s) by (eapply touched_lt; eauto; intros X; rewrite X in EH; discriminate).
    assert (G : forall s1, nexth s1 = nexth s -> thr s1 = thr s -> mainp s1 = mainp s -> wat s1 = wat s ->
                h_hc (hs s1 h) = CSelect -> sumr hrank (hs s1) (nexth s) <= sumr hrank (hs s) (nexth s) ->
                mu K (set_h s1 h (hs s1 h <| h_hc := CDone |> <| h_cancel := true |>)) < mu K s).
    { intros s1 E1 E2 E3 E4 E5 L. unfold mu. simpl. rewrite E1, E2, E3, E4.
      pose proof (sumr_upd_in hrank (hs s1) (nexth s) h (hs s1 h <| h_hc := CDone |> <| h_cancel := true |>) Hlt) as S1.
      assert (hrank (hs s1 h <| h_hc := CDone |> <| h_cancel := true |>) + 1 = hrank (hs s1 h))
        by (unfold hrank; simpl; rewrite E5; lia). lia. }
    assert (CS : h_hc (hs (close_sub s h) h) = CSelect /\
                 sumr hrank (hs (close_sub s h)) (nexth s) <= sumr hrank (hs s) (nexth s)).
    { unfold close_sub; simpl. rewrite Nat.eqb_refl. split; [exact EH|].
      apply sumr_le. intros k _. destruct (Nat.eqb (h_sub (hs s k)) (h_sub (hs s h))); [|lia].
      unfold hrank; simpl. destruct (h_subOpen (hs s k)); lia. }
    destruct CS as [CS1 CS2].
    destr H; injection H as <- _; fold (mu K s);
      first [apply (G (close_sub s h)); auto | apply (G s); auto].
Qed.

(** internal labels create no thread *)
Lemma tbounded_step K s l s' evs : tbounded K s -> internal l = true -> step s l = Some (s', evs) -> tbounded K s'.
Proof.
  intros B Hi H t Ht. specialize (B t Ht) as Bt.
  destruct l; try discriminate Hi; unfold step in H.
  - destr H; injection H as <- _; simpl; auto.
  - destr H; injection H as <- _; simpl; auto.
  - destruct (thr s t0) eqn:E; try discriminate H.
    all: assert (N : t <> t0) by (intros ->; congruence).
    + destr H; injection H as <- _; simpl; rewrite upd_other by exact N; auto.
    + destruct (rh_step s (OThr t0) par p c) as [[[s1 p'] e1]|] eqn:RH; [|discriminate]. injection H as <- _.
      unfold rh_step in RH. destruct p, c; try discriminate RH; destr RH; injection RH as <- _ _; simpl;
        rewrite upd_other by exact N; auto.
    + destr H; injection H as <- _; simpl; rewrite upd_other by exact N; auto.
    + destr H; injection H as <- _; simpl; rewrite upd_other by exact N; auto.
    + destruct (cl_step s (OThr t0) p c) as [[s1 p']|] eqn:CL; [|discriminate]. injection H as <- _.
      unfold cl_step, close_unstarted in CL. destruct p, c; try discriminate CL; destr CL; injection CL as <- _; simpl;
        rewrite upd_other by exact N; auto.
  - destruct (mainp s); try discriminate H.
    2: { destruct (rh_step s OMain PRun p c) as [[[s1 p'] e1]|] eqn:RH; [|discriminate].
         unfold rh_step in RH. destruct p, c; try discriminate RH; destr RH; injection RH as <- <- _;
           injection H as <- _; simpl; auto. }
    all: destr H; injection H as <- _; simpl; auto.
  - destruct (wat s); try discriminate H.
    5: { destruct (cl_step s OWatch p c) as [[s1 p']|] eqn:CL; [|discriminate].
         unfold cl_step, close_unstarted in CL. destruct p, c; try discriminate CL; destr CL; injection CL as <- <-;
           injection H as <- _; simpl; auto. }
    all: destr H; injection H as <- _; simpl; auto.
  - destr H; injection H as <- _; simpl; auto.
  - unfold close_sub in H. destr H; injection H as <- _; simpl; auto.
Qed.

(** a run in which every label is internal and enabled *)
Fixpoint irun (s : rstate) (ls : list label) : option rstate :=
  match ls with
  | [] => Some s
  | l :: ls' => if internal l then match step s l with Some (s', _) => irun s' ls' | None => None end else None
  end.

Theorem internal_runs_are_finite K ls : forall s s', SInv s -> WInv s -> tbounded K s ->
  irun s ls = Some s' -> length ls + mu K s' <= mu K s /\ SInv s' /\ WInv s' /\ tbounded K s'.
Proof.
  induction ls as [|l ls IH]; intros s s' I W B H; simpl in H.
  - inversion H; subst. simpl. split; [apply Nat.le_refl|]. split; [assumption|]. split; assumption.
  - destruct (internal l) eqn:Hi; [|discriminate]. destruct (step s l) as [[s1 e1]|] eqn:E; [|discriminate].
    pose proof (mu_decreases K s l s1 e1 I W B Hi E) as D.
    destruct (IH s1 s' (step_sinv _ _ _ _ I E) (step_winv _ _ _ _ I W E) (tbounded_step _ _ _ _ _ B Hi E) H)
      as (L & I' & W' & B'). simpl. split; [lia|]. split; [assumption|]. split; assumption.
Qed.

Lemma irun_run ls : forall s s', irun s ls = Some s' -> run s ls = s'.
Proof.
  induction ls as [|l ls IH]; intros s s' H; simpl in *; [now injection H|].
  destruct (internal l); [|discriminate]. destruct (step s l) as [[s1 e]|]; [|discriminate]. now apply IH.
Qed.
Lemma run_app a : forall s b, run s (a ++ b) = run (run s a) b.
Proof. induction a as [|l a IH]; intros s b; simpl; auto. destruct (step s l) as [[s1 e]|]; apply IH. Qed.

(** Self-close terminates (repaired model): from any reachable state, every run of internal labels has at most
    [mu K s] steps, and when it cannot be extended (no internal label enabled) while Run has started and every added
    handler's goroutine is past Done (>= 1 handler) - or the Run context is cancelled and all handlers follow it -
    then Run HAS RETURNED.  [K] is any bound on the thread identifiers used so far. *)
Theorem self_close_terminates f16 ls0 ls K s' :
  let s := run (rinit true true true f16) ls0 in
  tbounded K s -> irun s ls = Some s' ->
  length ls <= mu K s
  /\ (~ can_move s' -> mainp s' <> RNone ->
      (0 < nexth s' /\ all_past_done s') \/ (cctx s' = true /\ all_follow_ctx s') ->
      exists ok, mainp s' = RDone ok).
Proof.
  intros s B H.
  destruct (run_inv ls0 (rinit true true true f16) (sinv_init _ _ _ _) (winv_init _ _ _ _)) as [I W]. fold s in I, W.
  destruct (internal_runs_are_finite K ls s s' I W B H) as (L & _). split; [lia|].
  intros NM N0 Hyp.
  assert (R : s' = run (rinit true true true f16) (ls0 ++ ls)) by (rewrite run_app; symmetry; apply irun_run; exact H).
  destruct (mainp s') eqn:E; try congruence; try (eexists; reflexivity).
  all: exfalso; apply NM; rewrite R; apply self_close_not_stuck; rewrite <- R; rewrite ?E; try discriminate; auto.
Qed.
