(** Witness schedules: the pinned behaviours that violate C10 (D4, D14, D15) as reachable
    states of the model, the same schedules on the repaired variants, and what sharing a
    publisher does.  Everything here is closed computation ([vm_compute]). *)
From WM Require Import Base.Prelude RouterLife.Model RouterLife.Monitor.

(** the labels of the router's own goroutines and of calls in progress that could move *)
Definition internal_labels (nh nt : nat) : list label :=
  [LMain CStep; LMain CAlt; LWatch CStep; LWatch CAlt; LWatch CCtx]
  ++ flat_map (fun h => [LLoop h; LHC h true; LHC h false; LSubCtx h; LPublish h; LMain (CPick h true); LMain (CPick h false)]) (seq 0 nh)
  ++ flat_map (fun t => [LT t CStep; LT t CAlt] ++ flat_map (fun h => [LT t (CPick h true); LT t (CPick h false)]) (seq 0 nh)) (seq 0 nt).
Definition stuck (s : rstate) (nt : nat) : bool :=
  forallb (fun l => match step s l with None => true | Some _ => false end) (internal_labels (nexth s) nt).

(** D4: Stop / Stopped right after Started() fired *)
Definition d4_schedule : list label :=
  [LAdd None true 0; LRunCall 0; LT 0 CStep; LMain CStep; LMain CStep; LMain (CPick 0 true); LMain CStep;
   LObsStarted 0; LStoppedGet 0; LStopCall 1 0; LT 1 CStep; LT 1 CStep].

Lemma d4_refuted :
  let s := run (rinit false true true true) d4_schedule in
  h_startedCh (hs s 0) = true /\ h_stoppedSet (hs s 0) = false /\ thr s 1 = TStopDone 0 true StopNilPanic
  /\ verdict (hist (rinit false true true true) d4_schedule) = 4.
Proof. vm_compute. repeat split. Qed.

Lemma d4_fixed_witness :
  let s := run (rinit true true true true) d4_schedule in
  h_stoppedSet (hs s 0) = true /\ thr s 1 = TStopDone 0 true StopOk /\ h_cancel (hs s 0) = true
  /\ verdict (hist (rinit true true true true) d4_schedule) = 0.
Proof. vm_compute. repeat split. Qed.

(** D14: the router is started empty; the first handler is added before the watcher goroutine
    blocks in its select; the handler is started, stopped, ends. *)
Definition d14_schedule : list label :=
  [LRunCall 0; LT 0 CStep; LMain CStep; LMain CStep; LMain CStep; LMain CStep; LObsRunning;
   LAdd None true 0; LWatch CStep;
   LRHCall 1 PClient; LT 1 CStep; LT 1 CStep; LT 1 (CPick 0 true); LT 1 CStep; LT 1 CStep; LT 1 CStep;
   LObsStarted 0; LStopCall 2 0; LT 2 CStep; LT 2 CStep; LSubCtx 0;
   LLoop 0; LLoop 0; LLoop 0; LLoop 0; LLoop 0; LHC 0 false; LObsStopped 0].

(** every handler has ended, Run waits, the watcher waits for a signal that was dropped:
    no goroutine of the router can ever move again *)
Lemma d14_refuted :
  let s := run (rinit true false true true) d14_schedule in
  nexth s = 1 /\ h_loop (hs s 0) = LDone /\ hwg s = 0 /\ mainp s = RWaitClosing /\ wat s = WSelect
  /\ hadded s = 0 /\ closedF s = false /\ stuck s 3 = true /\ panicked s = false
  /\ verdict (hist (rinit true false true true) d14_schedule ++ [ARunHung]) = 9.
Proof. vm_compute. repeat split. Qed.

Definition self_close_tail : list label :=
  [LWatch CStep; LWatch CStep; LWatch CStep; LWatch CStep; LWatch CStep; LWatch CStep; LWatch CStep; LWatch CStep;
   LMain CStep; LMain CStep].

Lemma d14_fixed_witness :
  let s := run (rinit true true true true) (d14_schedule ++ self_close_tail) in
  mainp s = RDone true /\ wat s = WDone /\ closedCh s = true /\ hlock s = None /\ clock s = None
  /\ verdict (hist (rinit true true true true) (d14_schedule ++ self_close_tail)) = 0.
Proof. vm_compute. repeat split. Qed.

(** D15 (known finding): the Run context of a router WITHOUT handlers is cancelled *)
Definition d15_schedule : list label :=
  [LRunCall 0; LT 0 CStep; LMain CStep; LMain CStep; LMain CStep; LMain CStep; LWatch CStep; LCancel].

Lemma d15_refuted :
  let s := run (rinit true true false true) d15_schedule in
  cctx s = true /\ nexth s = 0 /\ mainp s = RWaitClosing /\ wat s = WSelect /\ stuck s 2 = true
  /\ verdict (hist (rinit true true false true) d15_schedule ++ [ARunHung]) = 11.
Proof. vm_compute. repeat split. Qed.

(** the same schedule on the repaired watcher (select also waits for ctx.Done): the router closes itself *)
Definition d15_tail : list label :=
  [LWatch CCtx; LWatch CStep; LWatch CStep; LWatch CStep; LWatch CStep; LWatch CStep; LWatch CStep; LWatch CStep; LMain CStep; LMain CStep].
Lemma d15_fixed_witness :
  let s := run (rinit true true true true) (d15_schedule ++ d15_tail) in
  mainp s = RDone true /\ wat s = WDone /\ closedCh s = true /\ verdict (hist (rinit true true true true) (d15_schedule ++ d15_tail)) = 0.
Proof. vm_compute. repeat split. Qed.

(** with one handler the same cancellation closes the router *)
Definition cancel_schedule : list label :=
  [LAdd None true 0; LRunCall 0; LT 0 CStep; LMain CStep; LMain CStep; LMain (CPick 0 true); LMain CStep; LMain CStep;
   LMain CStep; LMain CStep; LCancel; LSubCtx 0; LHC 0 false; LLoop 0; LLoop 0; LLoop 0; LLoop 0; LLoop 0]
  ++ [LWatch CStep; LWatch CStep; LWatch CStep; LWatch CStep; LWatch CStep; LWatch CStep; LWatch CStep; LMain CStep; LMain CStep].
Lemma cancel_closes_witness :
  let s := run (rinit true true true true) cancel_schedule in mainp s = RDone true /\ h_stoppedCh (hs s 0) = true.
Proof. vm_compute. repeat split. Qed.

(** what sharing a publisher does: handlers 0 and 1 share publisher 0, handler 2 has its own.
    Stop(0) ends handler 0, whose goroutine closes publisher 0: handler 1 still receives but its
    publish fails; handler 2 is unaffected. *)
Definition shared_schedule : list label :=
  [LAdd (Some 0) true 0; LAdd (Some 0) true 0; LAdd (Some 1) true 0; LRunCall 0; LT 0 CStep; LMain CStep; LMain CStep;
   LMain (CPick 0 true); LMain CStep; LMain CStep; LMain (CPick 1 true); LMain CStep; LMain CStep;
   LMain (CPick 2 true); LMain CStep; LMain CStep; LMain CStep; LMain CStep;
   LObsStarted 0; LStopCall 1 0; LT 1 CStep; LT 1 CStep; LSubCtx 0; LLoop 0; LLoop 0;
   LRecv 1; LPublish 1; LRecv 2; LPublish 2].
Lemma shared_publisher_witness :
  let s := run (rinit true true true true) shared_schedule in
  h_loop (hs s 1) = LRange /\ h_subOpen (hs s 1) = true /\ h_loop (hs s 2) = LRange /\ pubClosed s 0 = true /\ pubClosed s 1 = false
  /\ rev (hist (rinit true true true true) shared_schedule) = AProcessed 2 true :: AProcessed 1 false :: APubClose 0 :: AStopRet 1 StopOk :: 
       skipn 4 (rev (hist (rinit true true true true) shared_schedule))
  /\ verdict (hist (rinit true true true true) shared_schedule) = 0.
Proof. vm_compute. repeat split. Qed.

(** D16 (C06's defect, seen through this model): a handler that was added but never started is
    counted in handlersWg and nobody will ever call Done for it - Close waits although nothing
    runs, and only the CloseTimeout ends the wait (Close returns the timeout error). *)
Definition d16_schedule : list label := [LAdd None true 0; LCloseCall 0; LT 0 CStep; LT 0 CStep; LT 0 CStep].
Lemma d16_refuted :
  let s := run (rinit true true true false) d16_schedule in
  thr s 0 = TClose KWait /\ hwg s = 1 /\ mainp s = RNone /\ wat s = WNone /\ h_loop (hs s 0) = LNone
  /\ step s (LT 0 CStep) = None
  /\ thr (run s [LT 0 CAlt; LT 0 CStep]) 0 = TClose (KRet false).
Proof. vm_compute. repeat split. Qed.
Lemma d16_fixed_witness :
  let s := run (rinit true true true true) (d16_schedule ++ [LT 0 CStep; LT 0 CStep]) in
  thr s 0 = TClose (KRet true) /\ hwg s = 0 /\ h_removed (hs s 0) = true /\ h_inmap (hs s 0) = false /\ panicked s = false.
Proof. vm_compute. repeat split. Qed.

(** the Run context is cancelled BEFORE Run is called: Run still subscribes the handler (once), closes Running(),
    the subscription ends at once, the router closes itself, Run returns nil *)
Definition cancel_first_schedule : list label := LCancel :: firstn 10 cancel_schedule ++ skipn 11 cancel_schedule.
Lemma cancel_before_run_witness :
  let s := run (rinit true true true true) cancel_first_schedule in
  mainp s = RDone true /\ runningCh s = true /\ h_subs (hs s 0) = 1 /\ h_stoppedCh (hs s 0) = true
  /\ verdict (hist (rinit true true true true) cancel_first_schedule) = 0.
Proof. vm_compute. repeat split. Qed.
