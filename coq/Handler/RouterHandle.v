(** Model of message.handler.handleMessage + publishProducedMessages (message/router.go
    l.787-858): what the Router does with ONE message after the handler chain returned,
    returned an error, or panicked.  Polymorphic in the type [M] of produced messages so
    that C02, C08, C13, C15, C17 and C01 share it.  Executable; no proofs here.

    The consumed message's settlement goes through the C03 sequential model, so a
    settlement made by the handler itself wins over the Router's. *)
From WM Require Import Base.Prelude Message.Model.

Section Handle.
  Context {M : Type}.

  (** what the (middleware-wrapped) handler chain did for this message *)
  Inductive outcome :=
  | Ret (outs : list M)            (* returned (outs, nil) *)
  | Fail (outs : list M)           (* returned (outs, err), err != nil *)
  | Panic.                         (* panicked (any value, incl. nil) *)

  (** settlement calls the handler made itself on the consumed message, before returning *)
  Inductive presettle := PreNone | PreAck | PreNack.

  Record chain_result := CR { cr_pre : presettle; cr_out : outcome }.

  (** the handler's publisher *)
  Inductive pubkind :=
  | PubReal                         (* AddHandler with a publisher *)
  | PubDisabled                     (* AddNoPublisherHandler: disabledPublisher{} *)
  | PubNil.                         (* AddHandler(..., nil, ...): h.publisher == nil *)

  (** what the (real) publisher does when called *)
  Inductive pubbeh := PubAccept | PubError | PubPanic.

  (** observable events of one handleMessage run, in order *)
  Inductive hevent :=
  | HCall                                          (* the chain was invoked *)
  | HPreSettle (ack : bool) (ret : bool)           (* handler called Ack/Nack itself *)
  | HPublish (outs : list M) (seen : settle)       (* publisher.Publish(topic, outs...) entered;
                                                      [seen] = settlement of the consumed message
                                                      sampled inside the call *)
  | HPublishRet (ok : bool)                        (* Publish returned nil / an error *)
  | HPublishPanic
  | HSettle (ack : bool) (ret : bool).             (* the Router's own Ack()/Nack() call *)

  Definition settle_op (ack : bool) : op := if ack then OpAck else OpNack.
  Definition res_bool (r : res) : bool := match r with RBool b => b | _ => false end.

  (** Router's Nack / Ack on the consumed message *)
  Definition router_settle (m : mstate) (ack : bool) : mstate * list hevent :=
    let '(m', r) := step m (settle_op ack) in (m', [HSettle ack (res_bool r)]).

  Definition do_pre (m : mstate) (p : presettle) : mstate * list hevent :=
    match p with
    | PreNone => (m, [])
    | PreAck => let '(m', r) := step m OpAck in (m', [HPreSettle true (res_bool r)])
    | PreNack => let '(m', r) := step m OpNack in (m', [HPreSettle false (res_bool r)])
    end.

  (** publishProducedMessages: nil = success *)
  Definition publish (m : mstate) (pk : pubkind) (pb : pubbeh) (outs : list M)
    : list hevent * option bool (* Some ok | None = panicked *) :=
    match outs with
    | [] => ([], Some true)                                   (* no call for an empty output *)
    | _ =>
        match pk with
        | PubNil => ([], Some false)                          (* ErrOutputInNoPublisherHandler, no call *)
        | PubDisabled => ([], Some false)                     (* disabledPublisher.Publish returns the error;
                                                                 it is not an observable collaborator *)
        | PubReal =>
            match pb with
            | PubAccept => ([HPublish outs (st m); HPublishRet true], Some true)
            | PubError => ([HPublish outs (st m); HPublishRet false], Some false)
            | PubPanic => ([HPublish outs (st m); HPublishPanic], None)
            end
        end
    end.

  (** handleMessage, from a message in state [m0] *)
  Definition handle_from (m0 : mstate) (pk : pubkind) (pb : pubbeh) (r : chain_result)
    : mstate * list hevent :=
    let '(m1, e1) := do_pre m0 (cr_pre r) in
    match cr_out r with
    | Panic => let '(m2, e2) := router_settle m1 false in (m2, HCall :: e1 ++ e2)
    | Fail _ => let '(m2, e2) := router_settle m1 false in (m2, HCall :: e1 ++ e2)
    | Ret outs =>
        let '(ep, ok) := publish m1 pk pb outs in
        match ok with
        | Some true => let '(m2, e2) := router_settle m1 true in (m2, HCall :: e1 ++ ep ++ e2)
        | _ => let '(m2, e2) := router_settle m1 false in (m2, HCall :: e1 ++ ep ++ e2)
        end
    end.

  Definition handle (pk : pubkind) (pb : pubbeh) (r : chain_result) : mstate * list hevent :=
    handle_from (init CtorNew) pk pb r.

  (** ** the property, as predicates on an observed trace + final settlement *)

  Definition handled_ok (pk : pubkind) (pb : pubbeh) (r : chain_result) : bool :=
    match cr_out r with
    | Ret [] => true
    | Ret _ => match pk, pb with PubReal, PubAccept => true | _, _ => false end
    | _ => false
    end.

  (** the settlement the property prescribes *)
  Definition expected_final (pk : pubkind) (pb : pubbeh) (r : chain_result) : settle :=
    match cr_pre r with
    | PreAck => Acked
    | PreNack => Nacked
    | PreNone => if handled_ok pk pb r then Acked else Nacked
    end.

  Definition count_settles (tr : list hevent) : nat :=
    length (filter (fun e => match e with HSettle _ _ => true | _ => false end) tr).
  Definition count_calls (tr : list hevent) : nat :=
    length (filter (fun e => match e with HCall => true | _ => false end) tr).
  Definition publishes (tr : list hevent) : list (list M) :=
    flat_map (fun e => match e with HPublish outs _ => [outs] | _ => [] end) tr.

  (** the Router's Ack, if any, comes after a successful [HPublishRet] whenever something was
      published, and nothing at all follows the Router's settle call *)
  Fixpoint ack_after_publish (tr : list hevent) (pending : bool) : bool :=
    match tr with
    | [] => true
    | HPublish _ _ :: tr' => ack_after_publish tr' true
    | HPublishRet true :: tr' => ack_after_publish tr' false
    | HPublishRet false :: tr' => ack_after_publish tr' true
    | HPublishPanic :: tr' => ack_after_publish tr' true
    | HSettle true _ :: tr' => negb pending && match tr' with [] => true | _ => false end
    | HSettle false _ :: tr' => match tr' with [] => true | _ => false end
    | _ :: tr' => ack_after_publish tr' pending
    end.

  (** inside Publish the consumed message is not yet settled by the Router: it shows exactly
      what the handler itself did *)
  Definition seen_ok (r : chain_result) (tr : list hevent) : bool :=
    forallb (fun e => match e with
                      | HPublish _ s =>
                          match cr_pre r, s with
                          | PreNone, Unsettled | PreAck, Acked | PreNack, Nacked => true
                          | _, _ => false end
                      | _ => true end) tr.
End Handle.

Arguments outcome : clear implicits.
Arguments chain_result : clear implicits.
Arguments hevent : clear implicits.

(** ** recording middlewares used by the harness in front of the handler *)
Section Mw.
  Context {M : Type}.
  Inductive mw := MwPass | MwAppend (x : M).
  Definition mw_apply (w : mw) (r : chain_result M) : chain_result M :=
    match w, cr_out r with
    | MwAppend x, Ret outs => CR (cr_pre r) (Ret (outs ++ [x]))
    | _, _ => r
    end.
  (** first registered = outermost = applied last to the result *)
  Definition mws_apply (ws : list mw) (r : chain_result M) : chain_result M :=
    fold_right mw_apply r ws.

  (** ** the complete acceptor for one observed handleMessage run *)
  Context (eqbM : M -> M -> bool).
  Definition expected_publishes (pk : pubkind) (r : chain_result M) : list (list M) :=
    match cr_out r, pk with
    | Ret (x :: l), PubReal => [x :: l]
    | _, _ => []
    end.
  Definition settle_eqb (a b : settle) : bool :=
    match a, b with Unsettled, Unsettled | Acked, Acked | Nacked, Nacked => true | _, _ => false end.
  Definition c02_monitor (pk : pubkind) (pb : pubbeh) (r : chain_result M)
             (tr : list (hevent M)) (final : settle) : bool :=
    Nat.eqb (count_calls tr) 1
    && Nat.eqb (count_settles tr) 1
    && settle_eqb final (expected_final pk pb r)
    && ack_after_publish tr false
    && seen_ok r tr
    && list_eqb (list_eqb eqbM) (publishes tr) (expected_publishes pk r).
End Mw.
Arguments mw : clear implicits.
