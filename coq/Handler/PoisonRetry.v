(** PoisonQueue(Retry(h)): the real Retry middleware INSIDE the poison queue - the stack the
    library documents (poison outermost, retries inside).  Pure composition, no new behaviour:
    the handler the poison queue wraps is C12's model [Retry.retry rc h env] of
    middleware.Retry.Middleware around the scripted handler [h : nat -> outcome] (what the k-th
    invocation returns).  Retry's result [(outs, error id)] becomes the poison queue's handler
    outcome; error ids become error values through an arbitrary [errof] (Retry hands the last
    attempt's error on unchanged, so its identity - what the filter and [txt] see - is the id).
    Retry does not recover panics, so a panicking attempt is outside C12's script type (the
    poison queue passes a panic on: C13_panic_passes_through).  No proofs here. *)
From WM Require Import Base.Prelude Message.Model Handler.RouterHandle Handler.Poison.
From WM Require Handler.Retry.

Section PoisonRetry.
  Context (txt : err -> N) (errof : N -> err).

  Definition hout_of (o : Retry.outcome) : hout N :=
    if Retry.is_ok o then HRet (fst o) else HFail (errof (snd o)) (fst o).

  (** the chain  poison(retry(h))  on one message; [pre]/[acts] = what the attempts together did
      to the consumed message (own settlement, metadata / payload / context changes) *)
  Definition poison_retry (cfg : pcfg) (c0 : rctx) (m0 : pmsg) (seen : settle)
             (pre : presettle) (acts : list hact)
             (rc : Retry.cfg) (h : nat -> Retry.outcome) (env : Retry.env) (pp : ppub)
    : mwres N * list pevent * pmsg :=
    poison txt cfg c0 m0 seen (HS pre acts (hout_of (Retry.r_out (Retry.retry rc h env)))) pp.

  Definition poison_retry_in_router (cfg : pcfg) (c0 : rctx) (m0 : pmsg)
             (pre : presettle) (acts : list hact)
             (rc : Retry.cfg) (h : nat -> Retry.outcome) (env : Retry.env) (pp : ppub)
             (pk : pubkind) (pb : pubbeh) :=
    in_router txt cfg c0 m0 (HS pre acts (hout_of (Retry.r_out (Retry.retry rc h env)))) pp pk pb.

  (** how often the scripted handler was invoked *)
  Definition attempts_made (rc : Retry.cfg) (h : nat -> Retry.outcome) (env : Retry.env) : nat :=
    Retry.attempts (Retry.r_trace (Retry.retry rc h env)).
End PoisonRetry.
