(** Proofs about Handler/PoisonConc.v: N messages through ONE PoisonQueue middleware value under
    any interleaving = N independent runs of [Poison.poison]. *)
From WM Require Import Base.Prelude Message.Model Handler.RouterHandle Handler.Poison Handler.PoisonConc.

Section Proofs.
  Context {M : Type} (txt : err -> N).
  Notation tstep := (tstep (M:=M) txt).
  Notation solo := (solo (M:=M) txt).
  Notation sys_run := (sys_run (M:=M) txt).
  Notation sys_step := (sys_step (M:=M) txt).

  (** non-interference at the level of one step: without sharing, what a thread does next and
      what it emits is a function of ITS OWN state only *)
  Lemma tstep_local cfg j c t : fst (tstep false cfg j c t) = fst (tstep false cfg j None t).
  Proof.
    destruct t as [|c0 m outs [e|]|c0 m outs e|m outs e|r m]; simpl; try reflexivity.
    - destruct (run_acts _ _) as [m c1]. destruct (hs_out (j_h j)); reflexivity.
    - destruct (pq_filter cfg) as [f|]; [destruct (f e)|]; reflexivity.
    - destruct (pm_meta m); reflexivity.
    - destruct (j_pp j); reflexivity.
  Qed.

  Lemma proj_app i (a b : list (nat * pevent)) : proj i (a ++ b) = proj i a ++ proj i b.
  Proof. unfold proj. apply flat_map_app. Qed.

  Lemma proj_same i (ev : list pevent) : proj i (map (fun e => (i, e)) ev) = ev.
  Proof. induction ev as [|e ev IH]; [reflexivity|]. unfold proj in *. simpl. rewrite Nat.eqb_refl. simpl. now rewrite IH. Qed.

  Lemma proj_other i k (ev : list pevent) : i <> k -> proj i (map (fun e => (k, e)) ev) = [].
  Proof.
    intros H. induction ev as [|e ev IH]; [reflexivity|]. unfold proj in *. simpl.
    destruct (Nat.eqb_spec k i); [congruence|]. exact IH.
  Qed.

  Lemma sys_run_snoc sh cfg jobs sched k :
    sys_run sh cfg jobs (sched ++ [k]) = sys_step sh cfg jobs (sys_run sh cfg jobs sched) k.
  Proof. unfold PoisonConc.sys_run. now rewrite fold_left_app. Qed.

  (** THE invariant: after ANY schedule (any interleaving, any prefix, any number of messages),
      every thread is exactly where it would be had it run its own steps alone, and its events
      in the global log are exactly the ones it would have emitted alone *)
  Lemma conc_prefix cfg jobs sched : forall i,
    threads (sys_run false cfg jobs sched) i = fst (solo cfg (jobs i) (count_occ Nat.eq_dec sched i))
    /\ proj i (log (sys_run false cfg jobs sched)) = snd (solo cfg (jobs i) (count_occ Nat.eq_dec sched i)).
  Proof.
    induction sched as [|k sched IH] using rev_ind; intros i; [split; reflexivity|].
    rewrite sys_run_snoc, count_occ_app. unfold PoisonConc.sys_step.
    destruct (IH i) as [IHt IHl].
    destruct (tstep false cfg (jobs k) (cell (sys_run false cfg jobs sched)) (threads (sys_run false cfg jobs sched) k))
      as [[t' ev] c'] eqn:Hs. simpl threads. simpl log.
    destruct (Nat.eq_dec k i) as [->|Hne].
    - simpl count_occ. destruct (Nat.eq_dec i i); [|congruence]. rewrite Nat.add_1_r. simpl.
      pose proof (tstep_local cfg (jobs i) (cell (sys_run false cfg jobs sched)) (threads (sys_run false cfg jobs sched) i)) as L.
      rewrite Hs in L. simpl in L. rewrite IHt in L.
      destruct (solo cfg (jobs i) (count_occ Nat.eq_dec sched i)) as [t0 ev0]. simpl in *.
      destruct (tstep false cfg (jobs i) None t0) as [[t1 ev1] c1]. simpl in L. injection L as <- <-.
      rewrite upd_same, proj_app, proj_same, IHl. split; reflexivity.
    - simpl count_occ. destruct (Nat.eq_dec k i); [congruence|]. rewrite Nat.add_0_r.
      rewrite upd_other by congruence. rewrite proj_app, proj_other by congruence.
      rewrite app_nil_r. split; assumption.
  Qed.

  (** a thread run alone reaches [TDone] within four steps, with exactly the result, events and
      final message of the sequential model [Poison.poison], and stays there *)
  Lemma solo_four cfg j :
    let '(r, ev, mf) := poison txt cfg (j_ctx j) (j_msg j) (j_seen j) (j_h j) (j_pp j) in
    solo cfg j 4 = (TDone r mf, ev).
  Proof.
    unfold PoisonConc.solo, PoisonConc.tstep, poison, salvage.
    destruct (run_acts (hs_acts (j_h j)) (j_msg j, j_ctx j)) as [m c].
    destruct (hs_out (j_h j)) as [outs|e outs|]; try reflexivity.
    destruct (pq_filter cfg) as [f|]; [destruct (f e)|]; try reflexivity;
      destruct (pm_meta m); try reflexivity; destruct (j_pp j); reflexivity.
  Qed.

  Lemma solo_done_stays cfg j k r mf ev :
    solo cfg j k = (TDone r mf, ev) -> forall d, solo cfg j (d + k) = (TDone r mf, ev).
  Proof.
    intros H d. induction d as [|d IH]; [exact H|]. simpl. rewrite IH. simpl. now rewrite app_nil_r.
  Qed.

  (** N messages through one middleware value under any interleaving = N independent runs: a
      message whose thread has taken its (at most) four steps has the result, the events (its
      projection of the global log) and the final message content of [Poison.poison] on its own
      inputs - whatever the other threads did in between, however many there are *)
  Lemma conc_independent cfg jobs sched i :
    4 <= count_occ Nat.eq_dec sched i ->
    let j := jobs i in
    let '(r, ev, mf) := poison txt cfg (j_ctx j) (j_msg j) (j_seen j) (j_h j) (j_pp j) in
    threads (sys_run false cfg jobs sched) i = TDone r mf
    /\ proj i (log (sys_run false cfg jobs sched)) = ev.
  Proof.
    intros Hc. destruct (conc_prefix cfg jobs sched i) as [Ht Hl].
    pose proof (solo_four cfg (jobs i)) as H4. simpl.
    destruct (poison txt cfg (j_ctx (jobs i)) (j_msg (jobs i)) (j_seen (jobs i)) (j_h (jobs i)) (j_pp (jobs i))) as [[r ev] mf].
    replace (count_occ Nat.eq_dec sched i) with ((count_occ Nat.eq_dec sched i - 4) + 4) in Ht, Hl by lia.
    rewrite (solo_done_stays _ _ _ _ _ _ H4) in Ht, Hl. split; assumption.
  Qed.


  (** ... and therefore inside a Router (one handleMessage goroutine per message, each applying
      [handle] to what ITS chain call returned): the settlement and trace of every message of
      the batch are those of [Poison.in_router] on its own inputs *)
  Lemma conc_in_router cfg jobs sched i pk pb :
    4 <= count_occ Nat.eq_dec sched i ->
    let j := jobs i in
    j_seen j = seen_after (M:=M) (hs_pre (j_h j)) ->
    exists r mf,
      threads (sys_run false cfg jobs sched) i = TDone r mf
      /\ in_router txt cfg (j_ctx j) (j_msg j) (j_h j) (j_pp j) pk pb
         = (fst (handle pk pb (to_cr (hs_pre (j_h j)) r)),
            splice (snd (handle pk pb (to_cr (hs_pre (j_h j)) r))) (proj i (log (sys_run false cfg jobs sched))),
            r, mf).
  Proof.
    intros Hc j Hseen. pose proof (conc_independent cfg jobs sched i Hc) as H. simpl in H.
    unfold in_router. fold j in H. rewrite <- Hseen.
    destruct (poison txt cfg (j_ctx j) (j_msg j) (j_seen j) (j_h j) (j_pp j)) as [[r ev] mf].
    destruct H as [Ht Hl]. exists r, mf. split; [exact Ht|].
    rewrite Hl. now destruct (handle pk pb (to_cr (hs_pre (j_h j)) r)).
  Qed.

  (** the shared cell is never read: its content cannot influence any thread *)
  Lemma conc_cell_irrelevant cfg jobs sched i :
    threads (sys_run false cfg jobs sched) i = fst (solo cfg (jobs i) (count_occ Nat.eq_dec sched i)).
  Proof. apply conc_prefix. Qed.
End Proofs.

(** the mutant with the error kept in a variable shared by all invocations is NOT independent:
    message 0 fails (error 30, no filter, publisher accepts), message 1 succeeds; message 1's
    handler returns between message 0's filter check and its publishPoisonMessage: message 0 is
    reported as handled although nothing was published (the sequential model publishes it) *)
Definition refute_jobs (i : nat) : job N :=
  match i with
  | O => Job no_ctx (PM 6 [] (Some [])) Unsettled (HS PreNone [] (HFail (EBase 30) [])) PPAccept
  | _ => Job no_ctx (PM 7 [] (Some [])) Unsettled (HS PreNone [] (HRet [])) PPAccept
  end.
Definition refute_sched : list nat := [0; 0; 1; 0; 0; 1; 1; 1]%nat.

Lemma conc_shared_refuted :
  let cfg := PC 10 None in
  let txt := fun _ : err => 77%N in
  4 <= count_occ Nat.eq_dec refute_sched 0
  /\ threads (sys_run txt true cfg refute_jobs refute_sched) 0%nat = TDone (MRet [] None) (PM 6 [] (Some []))
  /\ proj 0 (log (sys_run txt true cfg refute_jobs refute_sched)) = []
  /\ poison_pubs (snd (fst (poison (M:=N) txt cfg no_ctx (PM 6 [] (Some [])) Unsettled (HS PreNone [] (HFail (EBase 30) [])) PPAccept))) <> [].
Proof. vm_compute. repeat split; try lia; discriminate. Qed.

(** ... while the same schedule on the real (local-variables-only) semantics publishes it *)
Lemma conc_local_same_schedule :
  let cfg := PC 10 None in
  let txt := fun _ : err => 77%N in
  proj 0 (log (sys_run txt false cfg refute_jobs refute_sched))
  = [PPublish 10 (PM 6 [] (Some [(1, 77); (2, 0); (3, 0); (4, 0)]%N)) Unsettled; PPublishRet true].
Proof. vm_compute. reflexivity. Qed.
