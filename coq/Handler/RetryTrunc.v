(** C12, round "proofs": the interval generator of backoff/v3 for ARBITRARY rational
    multipliers >= 1 — the truncation error of [time.Duration(float64(cur) * Multiplier)]
    (modelled as floor on Q) against the ideal value Initial x Multiplier^k.

    Each step loses less than 1 ns, but a loss made at step j is multiplied by Multiplier at
    every later step; so after k steps the total loss is below the geometric sum
    1 + m + ... + m^(k-1) = (m^k - 1)/(m - 1)   (= k only for m = 1, where nothing is lost at
    all).  A bound of "k" is false for m > 1: Initial 3, Multiplier 3/2 gives 3,4,6,9,13,19,28
    against the ideal 34.17 after 6 steps (Example below). *)
From WM Require Import Base.Prelude Handler.Retry Handler.RetryArith.
From Coq Require Import QArith Qround Qpower Qminmax Lia Lqa.
Open Scope Z_scope.

(** Initial x Multiplier^k, exactly *)
Fixpoint ideal (c : cfg) (k : nat) : Q :=
  match k with O => inject_Z (initial c) | S k' => (ideal c k' * mult c)%Q end.

(** 1 + m + ... + m^(k-1) *)
Fixpoint geom (m : Q) (k : nat) : Q :=
  match k with O => 0%Q | S k' => (m * geom m k' + 1)%Q end.

Lemma ideal_power c k : ~ (mult c == 0)%Q ->
  (ideal c k == inject_Z (initial c) * mult c ^ Z.of_nat k)%Q.
Proof.
  intros E. induction k as [|k IH]; [cbn [ideal Z.of_nat Qpower]; ring|].
  cbn [ideal]. rewrite IH, Nat2Z.inj_succ. unfold Z.succ.
  rewrite Qpower_plus by exact E. change (mult c ^ 1)%Q with (mult c). ring.
Qed.

Lemma geom_closed m k : ~ (m == 0)%Q -> (geom m k * (m - 1) == m ^ Z.of_nat k - 1)%Q.
Proof.
  intros E. induction k as [|k IH]; [cbn; ring|].
  cbn [geom]. rewrite Nat2Z.inj_succ. unfold Z.succ.
  rewrite Qpower_plus by exact E. change (m ^ 1)%Q with m.
  setoid_replace ((m * geom m k + 1) * (m - 1))%Q with (m * (geom m k * (m - 1)) + (m - 1))%Q by ring.
  rewrite IH. ring.
Qed.

Lemma geom_one k : (geom 1 k == inject_Z (Z.of_nat k))%Q.
Proof.
  induction k as [|k IH]; [reflexivity|]. cbn [geom]. rewrite IH, Nat2Z.inj_succ. unfold Z.succ.
  rewrite inject_Z_plus. ring.
Qed.

Lemma geom_nonneg m k : (0 <= m)%Q -> (0 <= geom m k)%Q.
Proof.
  intros Hm. induction k as [|k IH]; [cbn; lra|]. cbn [geom].
  assert (0 <= m * geom m k)%Q by (apply Qmult_le_0_compat; assumption). lra.
Qed.

(** one step of the generator, in Q *)
Lemma incr_cases c cur : (0 < mult c)%Q -> 0 <= cur ->
  ((inject_Z (max_interval c) <= inject_Z cur * mult c)%Q /\ incr_interval c cur = max_interval c)
  \/ ((inject_Z cur * mult c < inject_Z (max_interval c))%Q
      /\ incr_interval c cur = Qfloor (inject_Z cur * mult c)).
Proof.
  intros Hm Hc. rewrite (incr_unfold c Hm).
  destruct (Z.leb_spec (max_interval c * Zpos (Qden (mult c))) (cur * Qnum (mult c))) as [L|L].
  - left. split; [|reflexivity]. destruct (mult c) as [n d]. unfold Qle. cbn in *. lia.
  - right. split.
    + destruct (mult c) as [n d]. unfold Qlt. cbn in *. lia.
    + assert (E : Qtrunc (inject_Z cur * mult c) = (cur * Qnum (mult c)) ÷ Z.pos (Qden (mult c)))
        by (unfold Qtrunc; destruct (mult c); reflexivity).
      rewrite <- E. apply Qtrunc_floor. apply Qmult_le_0_compat; [|lra].
      apply inj_cur_nonneg. exact Hc.
Qed.

Section Trunc.
  Variable c : cfg.
  Hypothesis Hm1 : (1 <= mult c)%Q.
  Hypothesis Hi : 0 <= initial c <= max_interval c.

  Let m := mult c.
  Let M := inject_Z (max_interval c).

  Lemma trunc_invariant k :
    0 <= cur_at c (S k)
    /\ (inject_Z (cur_at c (S k)) <= ideal c k)%Q
    /\ (inject_Z (cur_at c (S k)) <= M)%Q
    /\ ((ideal c k <= M)%Q -> (ideal c k - geom m k <= inject_Z (cur_at c (S k)))%Q)
    /\ ((M <= ideal c k)%Q -> (M - geom m k <= inject_Z (cur_at c (S k)))%Q).
  Proof.
    assert (Hm0 : (0 < mult c)%Q) by lra.
    assert (HM0 : (0 <= M)%Q) by (unfold M; apply inj_cur_nonneg; lia).
    assert (HMm : (M <= M * m)%Q).
    { assert (0 <= (m - 1) * M)%Q by (apply Qmult_le_0_compat; unfold m; lra). lra. }
    induction k as [|k IH].
    - cbn [cur_at ideal geom]. split; [lia|]. split; [lra|].
      split; [unfold M; rewrite <- Zle_Qle; lia|]. split; intros; lra.
    - destruct IH as [C0 [U1 [U2 [L1 L2]]]].
      change (cur_at c (S (S k))) with (incr_interval c (cur_at c (S k))).
      set (cur := cur_at c (S k)) in *. cbn [ideal geom]. fold m.
      assert (Hg : (0 <= geom m k)%Q) by (apply geom_nonneg; unfold m; lra).
      assert (Hgm : (0 <= m * geom m k)%Q) by (apply Qmult_le_0_compat; [unfold m; lra|exact Hg]).
      assert (A1 : (inject_Z cur * m <= ideal c k * m)%Q) by (apply Qmult_le_compat_r; [exact U1|unfold m; lra]).
      assert (A2 : (inject_Z cur * m <= M * m)%Q) by (apply Qmult_le_compat_r; [exact U2|unfold m; lra]).
      assert (B1 : (ideal c k <= M)%Q -> ((ideal c k - geom m k) * m <= inject_Z cur * m)%Q).
      { intros H. apply Qmult_le_compat_r; [apply L1; exact H|unfold m; lra]. }
      assert (B2 : (M <= ideal c k)%Q -> ((M - geom m k) * m <= inject_Z cur * m)%Q).
      { intros H. apply Qmult_le_compat_r; [apply L2; exact H|unfold m; lra]. }
      destruct (incr_cases c cur Hm0 C0) as [[Hx E]|[Hx E]]; fold m in Hx; fold M in Hx; rewrite E.
      + (* capped *)
        split; [lia|]. fold M. split; [lra|]. split; [lra|]. split; intros; lra.
      + (* truncated *)
        pose proof (Qfloor_le (inject_Z cur * m)) as F1. pose proof (Qlt_floor (inject_Z cur * m)) as F2.
        rewrite inject_Z_plus in F2. change (inject_Z 1) with 1%Q in F2. fold m.
        set (f := inject_Z (Qfloor (inject_Z cur * m))) in *.
        split.
        { assert (0 <= inject_Z cur * m)%Q by (apply Qmult_le_0_compat; [apply inj_cur_nonneg; exact C0|unfold m; lra]).
          pose proof (Qfloor_resp_le _ _ H) as R. change 0%Q with (inject_Z 0) in R. rewrite Qfloor_Z in R. exact R. }
        split; [lra|]. split; [lra|].
        split; intros H; destruct (Qlt_le_dec M (ideal c k)) as [G|G].
        * specialize (B2 ltac:(lra)). lra.
        * specialize (B1 G). lra.
        * specialize (B2 ltac:(lra)). lra.
        * specialize (B1 G). lra.
  Qed.

  (** the bound in the words of the task: the interval before the (k+1)-th retry lies between
      min(Initial x Multiplier^k, MaxInterval) minus the geometric sum, and that minimum *)
  Lemma cur_at_truncation_bound k :
    (Qmin (inject_Z (initial c) * mult c ^ Z.of_nat k) (inject_Z (max_interval c))
       - geom (mult c) k <= inject_Z (cur_at c (S k)))%Q
    /\ (inject_Z (cur_at c (S k))
        <= Qmin (inject_Z (initial c) * mult c ^ Z.of_nat k) (inject_Z (max_interval c)))%Q.
  Proof.
    destruct (trunc_invariant k) as [_ [U1 [U2 [L1 L2]]]]. fold M.
    rewrite <- (ideal_power c k) by (intros E0; rewrite E0 in Hm1; lra). fold m in L1, L2.
    destruct (Q.min_spec (ideal c k) M) as [[H E]|[H E]]; rewrite E; split; try lra.
    - apply L1. lra.
    - apply L2. exact H.
  Qed.
End Trunc.

(** Multiplier = 1: nothing is ever lost (the sum is k but the products are integral) — the
    coordinator's "- k" form, for the record *)
Lemma geom_bound_mult_one c k : (mult c == 1)%Q -> (geom (mult c) k == inject_Z (Z.of_nat k))%Q.
Proof.
  intros E. induction k as [|k IH]; [reflexivity|]. cbn [geom]. rewrite IH, E, Nat2Z.inj_succ. unfold Z.succ.
  rewrite inject_Z_plus. ring.
Qed.
