(** C12 — the property as an executable acceptor over what ONE call of the wrapped handler was
    observed to do (no proofs here).  The same function judges the model's runs
    (Handler/RetryProofs.v: [retry_accepted]) and the implementation's (Corr/C12.v).

    Observed: the flat sequence of events (handler invocations with start/end instants, Logger
    and OnRetryHook calls with their arguments), the returned (messages, error), the instant of
    return, and — when the message context was cancelled by the environment — an instant before
    cancel() was called and one after it returned. *)
From WM Require Import Base.Prelude Handler.Retry.
From Coq Require Import QArith Qround.
Open Scope Z_scope.

Record obs := Obs {
  o_trace : list event; o_out : outcome; o_tret : Z;
  o_cpre : option Z; o_cpost : option Z
}.
(** slack: all 0 for the model; > 0 when judging wall-clock observations *)
Record slack := Slack {
  sl_lo : Z;      (* tolerance on the lower bound of a wait *)
  sl_exit : Z;    (* a retry whose timer could only fire this long after the context ended is rejected *)
  sl_af : Z;      (* latency bound of the timeout context's Done after its deadline *)
  sl_d : Z        (* rounding tolerance on a randomised delay *)
}.

Definition outcome_eqb (a b : outcome) : bool :=
  list_eqb N.eqb (fst a) (fst b) && N.eqb (snd a) (snd b).

(** the Logger / OnRetryHook calls that must follow the failed k-th retry; returns the reported
    delay (if any was observable) and the remaining events *)
Definition take_notes (c : cfg) (k : nat) (evs : list event) : option (option Z * list event) :=
  let after_log :=
    if has_log c then
      match evs with
      | ELog n d mr :: r => if (n =? Z.of_nat k) && (mr =? max_retries c) then Some (Some d, r) else None
      | _ => None
      end
    else Some (None, evs) in
  match after_log with
  | None => None
  | Some (od, r) =>
    if has_hook c then
      match r with
      | EHook n d :: r' =>
        if (n =? Z.of_nat k) && match od with Some d0 => d0 =? d | None => true end
        then Some (Some d, r') else None
      | _ => None
      end
    else Some (od, r)
  end.

(** a reported delay is either Stop (only if more than MaxElapsedTime can have elapsed, or
    MaxElapsedTime < 0 where the code always stops)
    or lies in the randomisation interval of the current interval *)
Definition delay_ok (c : cfg) (sk : slack) (k : nat) (cur d ts end0 ts1 prev_end : Z) : bool :=
  ((d =? STOP) && (((0 <? max_elapsed c) && (max_elapsed c <? ts - end0)) || (max_elapsed c <? 0)))
  || ((delay_lo (rfac c) cur - sl_d sk <=? d) && (d <=? delay_hi (rfac c) cur + sl_d sk)
      && ((max_elapsed c =? 0) || (k <=? 1)%nat || (prev_end - ts1 <=? max_elapsed c))).

(** timing of a retry that happened after a wait of at least [w] *)
Definition timing_ok (c : cfg) (sk : slack) (o : obs) (k : nat) (w : option Z) (ts ts1 prev_end : Z) : bool :=
  match w with
  | None => true
  | Some w =>
    (w - sl_lo sk <=? ts - prev_end)                                       (* waited at least w *)
    && (if 0 <? w then
          match o_cpost o with Some tc => prev_end + w <=? tc + sl_exit sk | None => true end
          && (if 0 <? max_elapsed c
              then if (k <=? 1)%nat then w <=? max_elapsed c + sl_af sk
                   else prev_end + w <=? ts1 + max_elapsed c + sl_af sk
              else true)
        else true)
  end.

(** lower bound of a wait whose value was not reported (the successful retry; no hook/logger) *)
Definition unknown_wait (c : cfg) (cur : option Z) (ts end0 : Z) : option Z :=
  match cur with
  | Some cu => if ((0 <? max_elapsed c) && (max_elapsed c <? ts - end0)) || (max_elapsed c <? 0) then None
               else Some (delay_lo (rfac c) cu)
  | None => None
  end.

(** giving up before the retries are exhausted needs an ended context *)
Definition exit_ok (c : cfg) (o : obs) (end0 : Z) : bool :=
  match o_cpre o with Some t => t <=? o_tret o | None => false end
  || ((0 <? max_elapsed c) && (end0 + max_elapsed c <=? o_tret o)).

Fixpoint mloop (c : cfg) (sk : slack) (h : nat -> outcome) (o : obs)
         (rem k : nat) (cur : option Z) (end0 ts1 prev_end : Z) (last : outcome)
         (evs : list event) : bool :=
  match rem with
  | O => match evs with
         | [] => negb (is_ok (o_out o)) && N.eqb (snd (o_out o)) (snd last)
         | _ => false                                   (* more than MaxRetries retries *)
         end
  | S rem' =>
    match evs with
    | [] => negb (is_ok (o_out o)) && N.eqb (snd (o_out o)) (snd last) && exit_ok c o end0
    | ECall k' ts te :: rest =>
      (k' =? k)%nat && (ts <=? te) && (prev_end <=? ts)
      && let oc := h k in
         let ts1' := if (k <=? 1)%nat then ts else ts1 in
         if is_ok oc then
           match rest with [] => true | _ => false end            (* nothing after the success *)
           && outcome_eqb (o_out o) oc
           && timing_ok c sk o k (unknown_wait c cur ts end0) ts ts1' prev_end
         else
           match take_notes c k rest with
           | None => false
           | Some (od, rest') =>
             match od, cur with
             | Some d, Some cu =>
               delay_ok c sk k cu d ts end0 ts1 prev_end
               && timing_ok c sk o k (Some d) ts ts1' prev_end
               && mloop c sk h o rem' (S k) (Some (if d =? STOP then cu else incr_interval c cu))
                        end0 ts1' te oc rest'
             | Some d, None =>
               timing_ok c sk o k (Some d) ts ts1' prev_end
               && mloop c sk h o rem' (S k) None end0 ts1' te oc rest'
             | None, _ =>
               timing_ok c sk o k (unknown_wait c cur ts end0) ts ts1' prev_end
               && mloop c sk h o rem' (S k)
                        (if max_elapsed c =? 0 then option_map (incr_interval c) cur else None)
                        end0 ts1' te oc rest'
             end
           end
    | _ => false
    end
  end.

(** the acceptor *)
Definition retry_monitor (c : cfg) (sk : slack) (h : nat -> outcome) (o : obs) : bool :=
  match o_trace o with
  | ECall O ts te :: rest =>
    (ts <=? te)
    && if is_ok (h O) then
         match rest with [] => true | _ => false end && outcome_eqb (o_out o) (h O)
       else mloop c sk h o (iterations c) 1 (Some (initial c)) te te te (h O) rest
  | _ => false
  end.

Definition zero_slack : slack := Slack 0 0 0 0.

(** what an observer sees of a run of the model *)
Definition obs_of (e : env) (r : run) : obs :=
  Obs (r_trace r) (r_out r) (r_tret r) (e_cancel e) (e_cancel e).

(** ** retries made although the context had certainly ended before the select was entered:
    re-invocations whose previous attempt ended after cancel() had returned.  At most [K] are
    tolerated (each is a select race lost to a ready timer, probability <= 1/2 each) *)
Fixpoint late_count (tc prev : Z) (evs : list event) : nat :=
  match evs with
  | ECall _ ts te :: r => (if tc <=? prev then 1 else 0) + late_count tc te r
  | _ :: r => late_count tc prev r
  | [] => O
  end.
Definition late_retries (o : obs) : nat :=
  match o_cpost o, o_trace o with
  | Some tc, ECall _ _ te :: rest => late_count tc te rest
  | _, _ => O
  end.
Definition late_ok (K : nat) (o : obs) : bool := (late_retries o <=? K)%nat.
