(** The ATOMIC specification of one PoisonQueue value serving many messages: a message is
    handled in ONE indivisible step that does what the sequential model [Poison.poison] does
    (no proofs here).  PoisonConcProofs3 shows that the fine-grained concurrent semantics
    (PoisonConc.v) refines it: every schedule of the concurrent system is observationally - per
    message: final thread state and projection of the event log - a serial execution. *)
From WM Require Import Base.Prelude Message.Model Handler.RouterHandle Handler.Poison Handler.PoisonConc.

Section Spec.
  Context {M : Type} (txt : err -> N).

  Definition spec_result (cfg : pcfg) (j : job M) : mwres M * list pevent * pmsg :=
    poison txt cfg (j_ctx j) (j_msg j) (j_seen j) (j_h j) (j_pp j).

  Definition spec_step (cfg : pcfg) (jobs : nat -> job M) (s : sys M) (i : nat) : sys M :=
    match threads s i with
    | TDone _ _ => s
    | _ =>
        let '(r, ev, mf) := spec_result cfg (jobs i) in
        Sys (upd (threads s) i (TDone r mf)) (cell s) (log s ++ map (fun e => (i, e)) ev)
    end.

  (** [order] = the order in which the messages are (atomically) handled *)
  Definition spec_run (cfg : pcfg) (jobs : nat -> job M) (order : list nat) : sys M :=
    fold_left (spec_step cfg jobs) order sys_init.

  (** the log of a serial execution: the messages' event lists one after the other *)
  Definition serial_log (cfg : pcfg) (jobs : nat -> job M) (order : list nat) : list (nat * pevent) :=
    flat_map (fun i => map (fun e => (i, e)) (snd (fst (spec_result cfg (jobs i))))) order.
End Spec.
