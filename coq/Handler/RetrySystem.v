(** C12, round "proofs": N messages going concurrently through ONE wrapped handler
    (one Retry value, one closure returned by Retry.Middleware), as an interleaving of
    per-message steps on a shared clock.  No proofs in this file.

    A step of message i is taken at an absolute instant t of the shared clock (the schedule is a
    list of (message, instant)); the steps are the first invocation of the handler (with
    expBackoff creation + Reset when it fails) and one iteration of the retry loop
    (NextBackOff, select, re-invocation, logger/hook).  Everything a step touches is in the
    message's own [mstate] — in the code as it is.  The flag [shared] models the variant in which
    the ExponentialBackOff value is hoisted out of the closure (one value for all messages,
    "Reset() before every use"): its currentInterval then lives in the system state [g_cur]. *)
From WM Require Import Base.Prelude Handler.Retry.
From Coq Require Import QArith.
Open Scope Z_scope.

Definition set_gap (s : sel) (g : Z) : sel :=
  Sel g (s_elapsed s) (s_rnd s) (s_ctx s) (s_wake s) (s_dur s).

Inductive mstate :=
| MInit                                                        (* h(msg) not yet called *)
| MLoop (rem k : nat) (cur now : Z) (last : outcome)           (* at the head of the retry loop *)
        (tr : list event) (ws : list witem)                    (* what happened so far *)
| MDone (r : run).                                             (* the wrapped handler returned *)

Definition finish (tr : list event) (ws : list witem) (o : outcome) (t : Z) : mstate :=
  MDone (Run o t tr ws).

(** one step of one message at instant [t]; [g] = currentInterval of the shared back-off value
    (used and updated only when [shared]); returns the new message state and the new [g] *)
Definition mstep (shared : bool) (c : cfg) (h : nat -> outcome) (e : env)
           (g : Z) (s : mstate) (t : Z) : mstate * Z :=
  match s with
  | MInit =>
    let o := h O in
    let te := t + e_dur0 e in
    if is_ok o then (finish [ECall O t te] [] o te, g)
    else (MLoop (iterations c) 1 (initial c) (te + e_reset_gap e) o [ECall O t te] [], initial c)  (* Reset *)
  | MLoop O k cur now last tr ws => (finish tr ws ([], snd last) now, g)
  | MLoop (S rem') k cur0 now last tr ws =>
    let cur := if shared then g else cur0 in
    let s := set_gap (e_sel e k) (t - now) in
    let tnb := t in
    let '(wait, cur') := next_backoff c cur (s_elapsed s) (s_rnd s) in
    let it := WItem k cur wait now tnb (tnb + s_wake s) (s_ctx s) in
    if s_ctx s then (finish tr (ws ++ [it]) last (tnb + s_wake s), cur')
    else
      let ts := tnb + s_wake s in
      let te := ts + s_dur s in
      let o := h k in
      if is_ok o then (finish (tr ++ [ECall k ts te]) (ws ++ [it]) o te, cur')
      else
        let tr' := tr ++ ECall k ts te :: notes c k wait in
        match rem' with
        | O => (finish tr' (ws ++ [it]) ([], snd o) te, cur')        (* retryNum > MaxRetries: return nil, err *)
        | S _ => (MLoop rem' (S k) cur' te o tr' (ws ++ [it]), cur')
        end
  | MDone r => (MDone r, g)
  end.

(** one message alone: its steps at the given instants *)
Definition mrun (c : cfg) (h : nat -> outcome) (e : env) (s : mstate) (times : list Z) : mstate :=
  fold_left (fun s t => fst (mstep false c h e 0 s t)) times s.

(** the system: message states + the shared back-off's currentInterval *)
Record sstate := SState { g_msgs : nat -> mstate; g_cur : Z }.

Definition sstep (shared : bool) (c : cfg) (hs : nat -> nat -> outcome) (es : nat -> env)
           (st : sstate) (x : nat * Z) : sstate :=
  let '(i, t) := x in
  let '(m', g') := mstep shared c (hs i) (es i) (g_cur st) (g_msgs st i) t in
  SState (upd (g_msgs st) i m') g'.

Definition srun (shared : bool) (c : cfg) (hs : nat -> nat -> outcome) (es : nat -> env)
           (st : sstate) (sched : list (nat * Z)) : sstate :=
  fold_left (sstep shared c hs es) sched st.

Definition sinit : sstate := SState (fun _ => MInit) 0.

(** the instants of message i's steps in a schedule *)
Definition times_of (i : nat) (sched : list (nat * Z)) : list Z :=
  map snd (filter (fun x => Nat.eqb (fst x) i) sched).

(** an environment with the instant of the first attempt replaced *)
Definition set_t0 (e : env) (t : Z) : env :=
  Env t (e_dur0 e) (e_ctx_gap e) (e_reset_gap e) (e_cancel e) (e_lag e) (e_sel e).
Definition set_sel (e : env) (sl : nat -> sel) : env :=
  Env (e_t0 e) (e_dur0 e) (e_ctx_gap e) (e_reset_gap e) (e_cancel e) (e_lag e) sl.

(** two oracles that differ at most in the gaps (which the shared clock dictates) *)
Definition same_but_gap (a b : sel) : Prop :=
  s_elapsed a = s_elapsed b /\ s_rnd a = s_rnd b /\ s_ctx a = s_ctx b
  /\ s_wake a = s_wake b /\ s_dur a = s_dur b.

(** a run continued after a prefix of events / iterations *)
Definition prefix_run (tr : list event) (ws : list witem) (r : run) : run :=
  Run (r_out r) (r_tret r) (tr ++ r_trace r) (ws ++ r_waits r).

(** environments that differ at most in the instant of the first attempt and in the gaps *)
Definition same_but_times (a b : env) : Prop :=
  e_dur0 a = e_dur0 b /\ e_ctx_gap a = e_ctx_gap b /\ e_reset_gap a = e_reset_gap b
  /\ e_cancel a = e_cancel b /\ e_lag a = e_lag b
  /\ forall j, same_but_gap (e_sel a j) (e_sel b j).
