(** Round "proofs 3": metadata maps (exactly which keys are added, well-formedness), the complete
    table of filter outcomes, PoisonQueue = PoisonQueueWithFilter(accept all), inclusions between
    the concrete filters. *)
From WM Require Import Base.Prelude Message.Model Handler.RouterHandle Handler.Poison Handler.PoisonProofs Handler.PoisonMeta.

(** * metadata *)
Lemma mset_in x k v m : In x (mset k v m) -> x = (k, v) \/ In x m.
Proof.
  induction m as [|[k0 v0] m IH]; simpl.
  - intros [<-|[]]; auto.
  - destruct (N.ltb k k0); [simpl; intros [<-|H]; auto|].
    destruct (N.eqb k k0); simpl; [intros [<-|H]; auto|].
    intros [<-|H]; [auto|]. destruct (IH H); auto.
Qed.

Lemma mset_keys k v m k' : In k' (mkeys (mset k v m)) <-> k' = k \/ In k' (mkeys m).
Proof.
  unfold mkeys. induction m as [|[k0 v0] m IH]; simpl.
  - intuition.
  - destruct (N.ltb k k0); [simpl; intuition|]. destruct (N.eqb_spec k k0) as [->|Hne]; simpl; [intuition|].
    rewrite IH. intuition.
Qed.

Lemma mset_wf k v m : meta_wf m = true -> meta_wf (mset k v m) = true.
Proof.
  induction m as [|[k0 v0] m IH]; simpl; [reflexivity|].
  intros H. apply andb_true_iff in H as [Hh Ht].
  destruct (N.ltb k k0) eqn:Hlt.
  - simpl. rewrite Hlt, Hh, Ht. simpl. rewrite andb_true_r.
    apply forallb_forall. intros x Hx. rewrite forallb_forall in Hh. specialize (Hh x Hx).
    apply N.ltb_lt in Hlt, Hh. apply N.ltb_lt. lia.
  - destruct (N.eqb_spec k k0) as [->|Hne].
    + simpl. now rewrite Hh, Ht.
    + simpl. rewrite (IH Ht), andb_true_r. apply forallb_forall. intros x Hx.
      destruct (mset_in _ _ _ _ Hx) as [->|Hx'].
      * simpl. apply N.ltb_ge in Hlt. apply N.ltb_lt. lia.
      * rewrite forallb_forall in Hh. auto.
Qed.

Lemma mget_in_keys k m : mget k m <> None <-> In k (mkeys m).
Proof.
  unfold mkeys. induction m as [|[k0 v0] m IH]; simpl; [intuition|].
  destruct (N.eqb_spec k k0) as [->|Hne]; [intuition discriminate|]. rewrite IH. intuition.
Qed.

(** exactly which keys the poisoned message carries: the keys the message had, plus the four
    documented ones - nothing else appears, nothing disappears; the map stays well-formed *)
Lemma stamp_keys c reason md k :
  In k (mkeys (stamp c reason md)) <-> poison_key k \/ In k (mkeys md).
Proof.
  unfold stamp, poison_key. rewrite !mset_keys. intuition.
Qed.

Lemma stamp_wf c reason md : meta_wf md = true -> meta_wf (stamp c reason md) = true.
Proof. intros H. unfold stamp. now repeat apply mset_wf. Qed.

(** a redelivered poisoned message (all four keys present) keeps its key set: values only are
    overwritten *)
Lemma stamp_keys_redelivery c reason md :
  (forall k, poison_key k -> In k (mkeys md)) ->
  forall k, In k (mkeys (stamp c reason md)) <-> In k (mkeys md).
Proof. intros H k. rewrite stamp_keys. intuition. Qed.

(** * filters *)
Section Filters.
  Context {M : Type} (txt : err -> N).
  Notation poison := (poison (M:=M) txt).

  (** PoisonQueueWithFilter, every outcome of the filter, in one table: the filter is asked once
      about the handler's error; yes = the salvage, preceded by the question; no = the error and
      outputs returned untouched; a panic inside the filter escapes after the question; a nil
      func panics before any question *)
  Lemma poison_filter_table t f c0 m0 seen (h : hscript M) pp e outs :
    hs_out h = HFail e outs ->
    let m := fst (run_acts (hs_acts h) (m0, c0)) in
    let c := snd (run_acts (hs_acts h) (m0, c0)) in
    poison (PC t (Some f)) c0 m0 seen h pp =
      match f e with
      | FYes => let '(r, ev, m') := salvage txt (PC t (Some f)) c m seen e outs pp in (r, PFilter e :: ev, m')
      | FNo => (MRet outs (Some e), [PFilter e], m)
      | FPanics => (MPanic, [PFilter e], m)
      | FNoFunc => (MPanic, [], m)
      end.
  Proof.
    intros H. unfold Poison.poison. simpl. rewrite H.
    destruct (run_acts (hs_acts h) (m0, c0)) as [m c]. simpl. destruct (f e); reflexivity.
  Qed.

  (** PoisonQueue(pub, topic) IS PoisonQueueWithFilter(pub, topic, accept-all), up to the filter
      question not being observable: same result, same final message, same events otherwise *)
  Lemma default_is_accept_all t c0 m0 seen (h : hscript M) pp :
    let '(r1, ev1, m1) := poison (PC t None) c0 m0 seen h pp in
    let '(r2, ev2, m2) := poison (PC t (Some (fun _ => FYes))) c0 m0 seen h pp in
    r1 = r2 /\ m1 = m2 /\ ev1 = no_filter_events ev2.
  Proof.
    unfold Poison.poison, salvage. simpl. destruct (run_acts (hs_acts h) (m0, c0)) as [m c].
    destruct (hs_out h) as [outs|e outs|]; simpl; auto.
    destruct (pm_meta m); [destruct pp|]; simpl; auto.
  Qed.
End Filters.

(** the concrete filters of the harness are ordered by strength: err == A implies
    errors.Cause(err) == A implies errors.Is(err, A); negation swaps yes and no and leaves
    panics alone *)
Lemma feq_fcause t e : filter_sem (FEq t) e = FYes -> filter_sem (FCause t) e = FYes.
Proof. destruct e; simpl; try discriminate. auto. Qed.

Lemma fcause_fis t e : filter_sem (FCause t) e = FYes -> filter_sem (FIs t) e = FYes.
Proof.
  simpl. induction e as [x|p e IH|p e IH|l]; simpl; auto; try discriminate.
Qed.

Lemma fnot_swaps f e :
  (filter_sem (FNot f) e = FYes <-> filter_sem f e = FNo)
  /\ (filter_sem (FNot f) e = FNo <-> filter_sem f e = FYes)
  /\ (filter_sem (FNot f) e = FPanics <-> filter_sem f e = FPanics)
  /\ (filter_sem (FNot f) e = FNoFunc <-> filter_sem f e = FNoFunc)
  /\ filter_sem (FNot (FNot f)) e = filter_sem f e.
Proof. simpl. destruct (filter_sem f e); simpl; intuition discriminate. Qed.

Lemma filters_ordered t e :
  (filter_sem (FEq t) e = FYes -> filter_sem (FCause t) e = FYes)
  /\ (filter_sem (FCause t) e = FYes -> filter_sem (FIs t) e = FYes).
Proof. split; [apply feq_fcause|apply fcause_fis]. Qed.
