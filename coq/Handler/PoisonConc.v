(** A small concurrent semantics of ONE PoisonQueue middleware value serving any number of
    messages at once (message/router/middleware/poison.go l.77-101 run by one goroutine per
    message, message/router.go l.645-651; several handlers sharing the value are just different
    handler scripts).  No proofs here.

    Each message is a thread with a program counter and LOCALS ONLY: the closure returned by
    [Middleware] captures [pq] (immutable) and [h]; [msg], [events], [err] are parameters / named
    results of the invocation.  One step per point at which another goroutine could interfere:
      TStart    -> h(msg) runs (the handler's own effects on ITS message) and the named results
                   are assigned;
      TReturned -> the deferred function tests [err] and asks the filter;
      TAccepted -> publishPoisonMessage(msg, err): the error is read again, the four keys are
                   written (verif hook point "poison.salvage" sits before this step);
      TStamped  -> pq.pub.Publish(pq.topic, msg), the result is assigned;
      TDone.
    The system state is the map of thread states, ONE shared cell and the global event log.  The
    real code never touches the cell.  The variant [shared = true] is the mutant in which the
    error handed to publishPoisonMessage lives in a variable shared by all invocations
    (`var lastErr error` captured by the closure): it is kept so that the independence theorem
    is visibly sensitive to exactly that (PoisonConcProofs.conc_shared_refuted). *)
From WM Require Import Base.Prelude Message.Model Handler.RouterHandle Handler.Poison.

Section Conc.
  Context {M : Type} (txt : err -> N).

  (** what differs per message *)
  Record job := Job { j_ctx : rctx; j_msg : pmsg; j_seen : settle; j_h : hscript M; j_pp : ppub }.

  Inductive tstate :=
  | TStart
  | TReturned (c : rctx) (m : pmsg) (outs : list M) (e : option err)
  | TAccepted (c : rctx) (m : pmsg) (outs : list M) (e : err)
  | TStamped (m : pmsg) (outs : list M) (e : err)
  | TDone (r : mwres M) (m : pmsg).

  (** one step of one thread: new thread state, events emitted, new content of the shared cell *)
  Definition tstep (shared : bool) (cfg : pcfg) (j : job) (cell : option err) (t : tstate)
    : tstate * list pevent * option err :=
    match t with
    | TStart =>
        let '(m, c) := run_acts (hs_acts (j_h j)) (j_msg j, j_ctx j) in
        match hs_out (j_h j) with
        | HPanic => (TDone MPanic m, [], cell)
        | HRet outs => (TReturned c m outs None, [], None)          (* lastErr = err *)
        | HFail e outs => (TReturned c m outs (Some e), [], Some e)
        end
    | TReturned c m outs None => (TDone (MRet outs None) m, [], cell)
    | TReturned c m outs (Some e) =>
        match pq_filter cfg with
        | None => (TAccepted c m outs e, [], cell)
        | Some f =>
            match f e with
            | FNoFunc => (TDone MPanic m, [], cell)
            | FPanics => (TDone MPanic m, [PFilter e], cell)
            | FNo => (TDone (MRet outs (Some e)) m, [PFilter e], cell)
            | FYes => (TAccepted c m outs e, [PFilter e], cell)
            end
        end
    | TAccepted c m outs e =>
        match (if shared then cell else Some e) with
        | None => (TDone (MRet outs None) m, [], cell)   (* publishPoisonMessage(msg, nil) = nil: err = nil *)
        | Some e' =>
            match pm_meta m with
            | None => (TDone MPanic m, [], cell)
            | Some md => (TStamped (PM (pm_uuid m) (pm_payload m) (Some (stamp c (txt e') md))) outs e, [], cell)
            end
        end
    | TStamped m outs e =>
        match j_pp j with
        | PPNil => (TDone MPanic m, [], cell)
        | PPAccept => (TDone (MRet outs None) m, [PPublish (pq_topic cfg) m (j_seen j); PPublishRet true], cell)
        | PPError pe => (TDone (MRet outs (Some (multi_append e (EWrapCause WRAP_MSG pe)))) m,
                         [PPublish (pq_topic cfg) m (j_seen j); PPublishRet false], cell)
        | PPPanic => (TDone MPanic m, [PPublish (pq_topic cfg) m (j_seen j); PPublishPanic], cell)
        end
    | TDone r m => (t, [], cell)
    end.

  (** the system: any number of messages (thread ids are naturals), one middleware value *)
  Record sys := Sys { threads : nat -> tstate; cell : option err; log : list (nat * pevent) }.
  Definition sys_init : sys := Sys (fun _ => TStart) None [].

  Definition sys_step (shared : bool) (cfg : pcfg) (jobs : nat -> job) (s : sys) (i : nat) : sys :=
    let '(t', ev, cell') := tstep shared cfg (jobs i) (cell s) (threads s i) in
    Sys (upd (threads s) i t') cell' (log s ++ map (fun e => (i, e)) ev).

  (** a schedule is any sequence of thread ids *)
  Definition sys_run (shared : bool) (cfg : pcfg) (jobs : nat -> job) (sched : list nat) : sys :=
    fold_left (sys_step shared cfg jobs) sched sys_init.

  (** the events of one thread, in order *)
  Definition proj (i : nat) (l : list (nat * pevent)) : list pevent :=
    flat_map (fun x => if Nat.eqb (fst x) i then [snd x] else []) l.

  (** one thread run alone for [k] steps (the cell is irrelevant without sharing) *)
  Fixpoint solo (cfg : pcfg) (j : job) (k : nat) : tstate * list pevent :=
    match k with
    | O => (TStart, [])
    | S k' =>
        let '(t, ev) := solo cfg j k' in
        let '(t', ev', _) := tstep false cfg j None t in (t', ev ++ ev')
    end.

  Definition is_done (t : tstate) : bool := match t with TDone _ _ => true | _ => false end.
End Conc.

Arguments job : clear implicits.
Arguments tstate : clear implicits.
Arguments sys : clear implicits.
