(** Thread-level model of message.handler.run (message/router.go l.727-737) with any number of
    messages in flight:

        for msg := range h.messagesCh {          LRecv   (blocks on an empty channel; ends at LClose)
            h.runningHandlersWgLock.Lock()
            h.runningHandlersWg.Add(1)           the WaitGroup counter, part of LRecv
            h.runningHandlersWgLock.Unlock()
            go h.handleMessage(msg, ...)         a new thread, positioned at the start of the
        }                                        message's [handle_from] event list

    and of the handleMessage goroutines: thread i = the i-th received message; one LStep i emits
    the next event of that message's handleMessage run (Handler/RouterHandle.v [handle_from],
    from the state the message arrived in) into ONE global log, a Publish event also into the
    shared publisher's call log; after its last event one more LStep i is the deferred
    runningHandlersWg.Done().  WaitGroup.Done on a zero counter panics in Go: modelled by the
    [l_wgpanic] flag.  The scheduler is the list of labels; a label that is not enabled is
    skipped by [lrun], so EVERY list of labels is a schedule.  Executable; no proofs here. *)
From WM Require Import Base.Prelude Message.Model Handler.RouterHandle Handler.RouterFrom.

Section Loop.
  Context {M : Type}.
  Variable pk : pubkind.         (* one handler: one publisher kind *)

  (** a message as the subscriber's channel delivers it: the state it arrives in, what the
      publisher will do when called with its outputs, what the chain does with it *)
  Record lmsg := LM { lm_state : mstate; lm_pb : pubbeh; lm_r : chain_result M }.

  Definition trace_of (x : lmsg) : list (hevent M) :=
    snd (handle_from (lm_state x) pk (lm_pb x) (lm_r x)).
  Definition final_of (x : lmsg) : mstate :=
    fst (handle_from (lm_state x) pk (lm_pb x) (lm_r x)).

  (** position of one handleMessage goroutine *)
  Inductive tpos := TNone | TRun (rest : list (hevent M)) | TDone.
  Definition is_run (p : tpos) : bool := match p with TRun _ => true | _ => false end.
  Definition is_done (p : tpos) : bool := match p with TDone => true | _ => false end.

  Inductive gevent :=
  | GRecv (i : nat)                  (* the loop took message i from the channel, Add(1), go *)
  | GEv (i : nat) (e : hevent M)     (* an event of message i's handleMessage *)
  | GDone (i : nat)                  (* message i's handleMessage returned: Done() *)
  | GClose.                          (* the loop saw the channel closed *)

  Record lstate := LS {
    l_inbox : list lmsg;             (* what the channel will still deliver *)
    l_open : bool;                   (* the loop has not seen the channel closed *)
    l_msgs : list lmsg;              (* ghost: the messages received so far, id = position *)
    l_thr : nat -> tpos;
    l_wg : nat;                      (* runningHandlersWg counter *)
    l_wgpanic : bool;                (* Done() was called on a zero counter *)
    l_log : list gevent;             (* newest first *)
    l_pub : list (nat * list M)      (* the shared publisher's call log (consumed message, batch), newest first *)
  }.

  Definition linit (inbox : list lmsg) : lstate :=
    LS inbox true [] (fun _ => TNone) 0 false [] [].

  Inductive label := LRecv | LClose | LStep (i : nat).

  Definition lstep (s : lstate) (l : label) : option lstate :=
    match l with
    | LRecv =>
        if l_open s then
          match l_inbox s with
          | [] => None                                         (* receive blocks *)
          | x :: rest =>
              let i := length (l_msgs s) in
              Some (LS rest true (l_msgs s ++ [x]) (upd (l_thr s) i (TRun (trace_of x)))
                       (S (l_wg s)) (l_wgpanic s) (GRecv i :: l_log s) (l_pub s))
          end
        else None
    | LClose =>
        if l_open s then
          (* the subscriber closed its channel; what it had not sent is never delivered *)
          Some (LS [] false (l_msgs s) (l_thr s) (l_wg s) (l_wgpanic s) (GClose :: l_log s) (l_pub s))
        else None
    | LStep i =>
        match l_thr s i with
        | TRun (e :: rest) =>
            Some (LS (l_inbox s) (l_open s) (l_msgs s) (upd (l_thr s) i (TRun rest))
                     (l_wg s) (l_wgpanic s) (GEv i e :: l_log s)
                     (match e with HPublish outs _ => (i, outs) :: l_pub s | _ => l_pub s end))
        | TRun [] =>
            Some (LS (l_inbox s) (l_open s) (l_msgs s) (upd (l_thr s) i TDone)
                     (pred (l_wg s)) (l_wgpanic s || Nat.eqb (l_wg s) 0) (GDone i :: l_log s) (l_pub s))
        | _ => None
        end
    end.

  Fixpoint lrun (s : lstate) (sched : list label) : lstate :=
    match sched with
    | [] => s
    | l :: sched' => match lstep s l with Some s' => lrun s' sched' | None => lrun s sched' end
    end.

  (** strict replay, used by the correspondence check: every label must be enabled *)
  Fixpoint lreplay (s : lstate) (sched : list label) : option lstate :=
    match sched with
    | [] => Some s
    | l :: sched' => match lstep s l with Some s' => lreplay s' sched' | None => None end
    end.

  (** ** projections of the global log (the log is newest first; projections are oldest first) *)
  Fixpoint proj (i : nat) (log : list gevent) : list (hevent M) :=
    match log with
    | [] => []
    | g :: log' => proj i log' ++ match g with GEv j e => if Nat.eqb j i then [e] else [] | _ => [] end
    end.
  Fixpoint recvs (log : list gevent) : list nat :=
    match log with
    | [] => []
    | g :: log' => recvs log' ++ match g with GRecv i => [i] | _ => [] end
    end.
  (** the Publish calls in the global log, newest first *)
  Fixpoint pubs_of (log : list gevent) : list (nat * list M) :=
    match log with
    | [] => []
    | GEv i (HPublish outs _) :: log' => (i, outs) :: pubs_of log'
    | _ :: log' => pubs_of log'
    end.
  (** the batches the publisher was called with for consumed message [i], oldest first *)
  Fixpoint pub_proj (i : nat) (pub : list (nat * list M)) : list (list M) :=
    match pub with
    | [] => []
    | (j, outs) :: pub' => pub_proj i pub' ++ (if Nat.eqb j i then [outs] else [])
    end.
  Definition has_close (log : list gevent) : bool :=
    existsb (fun g => match g with GClose => true | _ => false end) log.

  (** per-message bracketing automaton: GRecv i, then only GEv i, then GDone i, then nothing *)
  Inductive bstate := B0 | B1 | B2 | BErr.
  Definition bstep (i : nat) (b : bstate) (g : gevent) : bstate :=
    match g with
    | GRecv j => if Nat.eqb j i then match b with B0 => B1 | _ => BErr end else b
    | GEv j _ => if Nat.eqb j i then match b with B1 => B1 | _ => BErr end else b
    | GDone j => if Nat.eqb j i then match b with B1 => B2 | _ => BErr end else b
    | GClose => b
    end.
  Fixpoint bracket (i : nat) (log : list gevent) : bstate :=
    match log with
    | [] => B0
    | g :: log' => bstep i (bracket i log') g
    end.
  Definition is_B2 (b : bstate) : bool := match b with B2 => true | _ => false end.

  (** nothing is received after the loop saw the channel closed; the channel closes once *)
  Fixpoint close_ok (log : list gevent) : bool :=
    match log with
    | [] => true
    | GRecv _ :: log' => negb (has_close log') && close_ok log'
    | GClose :: log' => negb (has_close log') && close_ok log'
    | _ :: log' => close_ok log'
    end.

  Definition in_range (n : nat) (g : gevent) : bool :=
    match g with GRecv i | GEv i _ | GDone i => Nat.ltb i n | GClose => true end.

  (** ** the acceptor for the complete interleaved log of one handler's run loop.
      [msgs] = the messages in the order received, [finals i] = the settlement message i was
      observed with in the end.  Accepts iff: the messages were received once each, in order,
      none after the close; every message's events are bracketed by its receive and its Done;
      and the projection onto every message passes the C02 acceptor for its arrival state
      (chain once, Router settles once and last, prescribed final settlement, Ack only after the
      publish returned nil, ONE Publish call with exactly this message's outputs in order). *)
  Context (eqbM : M -> M -> bool).
  Definition loop_monitor (msgs : list lmsg) (finals : nat -> settle) (log : list gevent) : bool :=
    let n := length msgs in
    forallb (in_range n) log
    && list_eqb Nat.eqb (recvs log) (seq 0 n)
    && close_ok log
    && forallb (fun i =>
         match nth_error msgs i with
         | None => false
         | Some x =>
             is_B2 (bracket i log)
             && c02_monitor_from eqbM (st (lm_state x)) pk (lm_pb x) (lm_r x) (proj i log) (finals i)
         end) (seq 0 n).

  (** the final settlements of a model run *)
  Definition model_finals (s : lstate) : nat -> settle :=
    fun i => match nth_error (l_msgs s) i with Some x => st (final_of x) | None => Unsettled end.

  Definition all_done (s : lstate) : bool :=
    forallb (fun i => is_done (l_thr s i)) (seq 0 (length (l_msgs s))).
End Loop.

Arguments lmsg : clear implicits.
Arguments gevent : clear implicits.
Arguments lstate : clear implicits.
Arguments tpos : clear implicits.
