(** Model of message/router/middleware/poison.go (PoisonQueue, PoisonQueueWithFilter,
    poisonQueue.Middleware l.77-101, publishPoisonMessage l.61-75) and of how the values it
    writes are read from the message context (message/router_context.go, filled in by the
    Router: message/router.go addHandlerContext).  Executable; no proofs here.

    The middleware is a function of: its configuration (topic, filter), the consumed message
    (uuid, payload, metadata - possibly a nil map), the Router context values of the message,
    what the wrapped handler does (a script) and how the poison publisher behaves.  It yields
    the chain result seen by whoever called it (the Router), the events at the filter / poison
    publisher and the consumed message as it is afterwards (the middleware writes the poison
    keys into the consumed object itself).  [in_router] composes it with the Router model
    [RouterHandle.handle] (C02), so that settlement is not re-modelled here.

    Strings are interned by the harness (0 = ""); the four metadata keys and the wrap text have
    fixed numbers (the harness interns the documented literals first). *)
From WM Require Import Base.Prelude Message.Model Handler.RouterHandle.

(** ** errors as data *)
Inductive err :=
| EBase (id : N)                 (* a sentinel made with errors.New; identity = id *)
| EWrapStd (p : N) (e : err)     (* fmt.Errorf("<p>: %w", e) *)
| EWrapCause (p : N) (e : err)   (* pkg/errors.Wrap(e, "<p>") *)
| EMulti (l : list err).         (* *multierror.Error{Errors: l} *)

Fixpoint err_eqb (a b : err) : bool :=
  match a, b with
  | EBase x, EBase y => N.eqb x y
  | EWrapStd p e, EWrapStd q f => N.eqb p q && err_eqb e f
  | EWrapCause p e, EWrapCause q f => N.eqb p q && err_eqb e f
  | EMulti l, EMulti k =>
      (fix go (l k : list err) : bool :=
         match l, k with
         | [], [] => true
         | x :: l', y :: k' => err_eqb x y && go l' k'
         | _, _ => false
         end) l k
  | _, _ => false
  end.

(** errors.Is(e, sentinel t): walks Unwrap chains (fmt %w, pkg/errors 0.9 wrappers,
    multierror 1.1 chain = any element) *)
Fixpoint err_is (t : N) (e : err) : bool :=
  match e with
  | EBase x => N.eqb x t
  | EWrapStd _ e' => err_is t e'
  | EWrapCause _ e' => err_is t e'
  | EMulti l => existsb (err_is t) l
  end.

(** pkg/errors.Cause: follows Cause() only (pkg/errors wrappers) *)
Fixpoint err_cause (e : err) : err :=
  match e with
  | EWrapCause _ e' => err_cause e'
  | _ => e
  end.

(** multierror.Append(e, x) for an x that is not itself a *multierror.Error *)
Definition multi_append (e x : err) : err :=
  match e with
  | EMulti l => EMulti (l ++ [x])
  | _ => EMulti [e; x]
  end.

(** what calling the filter does: answers, panics inside, or there is no function to enter
    (a nil func value: the call itself panics) *)
Inductive fres := FYes | FNo | FPanics | FNoFunc.
Definition fres_neg (r : fres) : fres := match r with FYes => FNo | FNo => FYes | _ => r end.
Definition fres_of_bool (b : bool) : fres := if b then FYes else FNo.

(** the filters the harness installs *)
Inductive pfilter :=
| FConst (b : bool)
| FEq (t : N)                    (* err == sentinel *)
| FIs (t : N)                    (* errors.Is(err, sentinel) *)
| FCause (t : N)                 (* errors.Cause(err) == sentinel *)
| FNot (f : pfilter)
| FPanic
| FNilFunc                       (* PoisonQueueWithFilter(pub, topic, nil) *)
| FFirst.                        (* a stateful filter: yes to the first question about a message,
                                    no to any later one; the middleware asks once per message *)

Fixpoint filter_sem (f : pfilter) (e : err) : fres :=
  match f with
  | FConst b => fres_of_bool b
  | FEq t => fres_of_bool (match e with EBase x => N.eqb x t | _ => false end)
  | FIs t => fres_of_bool (err_is t e)
  | FCause t => fres_of_bool (match err_cause e with EBase x => N.eqb x t | _ => false end)
  | FNot g => fres_neg (filter_sem g e)
  | FPanic => FPanics
  | FNilFunc => FNoFunc
  | FFirst => FYes
  end.

(** ** metadata: a Go map[string]string as an association list kept sorted by key *)
Definition meta := list (N * N).

Fixpoint mget (k : N) (m : meta) : option N :=
  match m with
  | [] => None
  | (k', v) :: m' => if N.eqb k k' then Some v else mget k m'
  end.

Fixpoint mset (k v : N) (m : meta) : meta :=
  match m with
  | [] => [(k, v)]
  | (k', v') :: m' =>
      if N.ltb k k' then (k, v) :: m
      else if N.eqb k k' then (k, v) :: m'
      else (k', v') :: mset k v m'
  end.

Definition kv_eqb (a b : N * N) : bool := N.eqb (fst a) (fst b) && N.eqb (snd a) (snd b).
Definition meta_eqb : meta -> meta -> bool := list_eqb kv_eqb.

(** ReasonForPoisonedKey, PoisonedTopicKey, PoisonedHandlerKey, PoisonedSubscriberKey and the
    text of errors.Wrap(publishErr, "cannot publish message to poison queue") *)
Definition K_REASON : N := 1.
Definition K_TOPIC : N := 2.
Definition K_HANDLER : N := 3.
Definition K_SUB : N := 4.
Definition WRAP_MSG : N := 5.

(** the consumed message as a value; [pm_meta = None] is a nil map (a message built as a
    struct literal rather than with NewMessage) *)
Record pmsg := PM { pm_uuid : N; pm_payload : list N; pm_meta : option meta }.

Definition pmsg_eqb (a b : pmsg) : bool :=
  N.eqb (pm_uuid a) (pm_uuid b) && list_eqb N.eqb (pm_payload a) (pm_payload b)
  && option_eqb meta_eqb (pm_meta a) (pm_meta b).

(** what SubscribeTopicFromCtx / HandlerNameFromCtx / SubscriberNameFromCtx return for the
    message's context; all "" outside a Router *)
Record rctx := RC { rc_topic : N; rc_handler : N; rc_sub : N }.
Definition no_ctx : rctx := RC 0 0 0.

(** the poison publisher *)
Inductive ppub :=
| PPAccept
| PPError (e : err)
| PPPanic
| PPNil.                         (* PoisonQueue(nil, topic): the call panics (nil interface) *)

(** events at the middleware's collaborators *)
Inductive pevent :=
| PFilter (e : err)                               (* the filter was called with this error *)
| PPublish (topic : N) (m : pmsg) (seen : settle) (* poison publisher entered: topic, content of the
                                                     one message passed, settlement of the consumed
                                                     message sampled inside the call *)
| PPublishRet (ok : bool)
| PPublishPanic.

Section Poison.
  Context {M : Type}.
  (** err.Error(), an oracle (the texts of errors.New / fmt.Errorf / pkg/errors / multierror
      are not modelled) *)
  Context (txt : err -> N).

  (** what the wrapped handler does *)
  Inductive hact :=
  | ASetMeta (k v : N)             (* msg.Metadata.Set(k, v), allocating the map when nil *)
  | ASetPayload (p : list N)       (* msg.Payload = p *)
  | ADropCtx                       (* msg.SetContext(context.Background()) *)
  | ACancelCtx.                    (* the message's context ends while the handler runs: the handler
                                      cancels it (msg.SetContext of a cancelled child) or it is
                                      cancelled / times out from outside.  poison.go never looks at
                                      Done()/Err(): only the VALUES are read, and they survive.
                                      A context that is already cancelled or past its deadline when
                                      the message is delivered is likewise not an input of the model. *)
  Inductive hout :=
  | HRet (outs : list M)
  | HFail (e : err) (outs : list M)
  | HPanic.
  Record hscript := HS { hs_pre : presettle; hs_acts : list hact; hs_out : hout }.

  Definition act1 (s : pmsg * rctx) (a : hact) : pmsg * rctx :=
    let '(m, c) := s in
    match a with
    | ASetMeta k v =>
        (PM (pm_uuid m) (pm_payload m)
            (Some (mset k v (match pm_meta m with Some md => md | None => [] end))), c)
    | ASetPayload p => (PM (pm_uuid m) p (pm_meta m), c)
    | ADropCtx => (m, no_ctx)
    | ACancelCtx => (m, c)
    end.
  Definition is_cancel (a : hact) : bool := match a with ACancelCtx => true | _ => false end.
  (** the script with every context cancellation removed *)
  Definition strip_cancel (acts : list hact) : list hact := filter (fun a => negb (is_cancel a)) acts.
  Definition run_acts (acts : list hact) (s : pmsg * rctx) : pmsg * rctx := fold_left act1 acts s.

  (** PoisonQueue / PoisonQueueWithFilter: [pq_filter = None] is the built-in accept-all *)
  Record pcfg := PC { pq_topic : N; pq_filter : option (err -> fres) }.
  Definition mk_poison (topic : N) (f : option (err -> fres)) : option pcfg :=
    if N.eqb topic 0 then None (* ErrInvalidPoisonQueueTopic *) else Some (PC topic f).

  (** what the middleware's caller gets back *)
  Inductive mwres :=
  | MRet (outs : list M) (e : option err)
  | MPanic.

  (** publishPoisonMessage l.68-71: four Sets, in this order *)
  Definition stamp (c : rctx) (reason : N) (md : meta) : meta :=
    mset K_SUB (rc_sub c) (mset K_HANDLER (rc_handler c) (mset K_TOPIC (rc_topic c) (mset K_REASON reason md))).

  (** the deferred function once the filter accepted: l.86-94 *)
  Definition salvage (cfg : pcfg) (c : rctx) (m : pmsg) (seen : settle) (e : err) (outs : list M) (pp : ppub)
    : mwres * list pevent * pmsg :=
    match pm_meta m with
    | None => (MPanic, [], m)                   (* assignment to entry in nil map *)
    | Some md =>
        let m' := PM (pm_uuid m) (pm_payload m) (Some (stamp c (txt e) md)) in
        match pp with
        | PPNil => (MPanic, [], m')
        | PPAccept => (MRet outs None, [PPublish (pq_topic cfg) m' seen; PPublishRet true], m')
        | PPError pe =>
            (MRet outs (Some (multi_append e (EWrapCause WRAP_MSG pe))),
             [PPublish (pq_topic cfg) m' seen; PPublishRet false], m')
        | PPPanic => (MPanic, [PPublish (pq_topic cfg) m' seen; PPublishPanic], m')
        end
    end.

  (** pq.Middleware(h)(msg).  [seen] = the consumed message's settlement while the deferred
      function runs (what the handler did itself; the caller has not settled yet) *)
  Definition poison (cfg : pcfg) (c0 : rctx) (m0 : pmsg) (seen : settle) (h : hscript) (pp : ppub)
    : mwres * list pevent * pmsg :=
    let '(m, c) := run_acts (hs_acts h) (m0, c0) in
    match hs_out h with
    | HPanic => (MPanic, [], m)                 (* err is still nil when the deferred function runs *)
    | HRet outs => (MRet outs None, [], m)
    | HFail e outs =>
        match pq_filter cfg with
        | None => salvage cfg c m seen e outs pp
        | Some f =>
            match f e with
            | FNoFunc => (MPanic, [], m)
            | FPanics => (MPanic, [PFilter e], m)
            | FNo => (MRet outs (Some e), [PFilter e], m)
            | FYes =>
                let '(r, ev, m') := salvage cfg c m seen e outs pp in (r, PFilter e :: ev, m')
            end
        end
    end.

  (** ** inside a Router *)
  Definition to_cr (pre : presettle) (r : mwres) : chain_result M :=
    CR pre (match r with
            | MRet outs None => Ret outs
            | MRet outs (Some _) => Fail outs
            | MPanic => Panic
            end).

  Definition seen_after (pre : presettle) : settle := st (fst (do_pre (M:=M) (init CtorNew) pre)).

  Inductive rpevent := RH (e : hevent M) | RP (e : pevent).

  (** the middleware's events happen inside the chain call: after the handler's own settlement,
      before the Router publishes or settles *)
  Fixpoint splice (tr : list (hevent M)) (pe : list pevent) : list rpevent :=
    match tr with
    | HCall :: tr' => RH HCall :: splice tr' pe
    | HPreSettle a r :: tr' => RH (HPreSettle a r) :: splice tr' pe
    | _ => map RP pe ++ map RH tr
    end.

  Definition in_router (cfg : pcfg) (c0 : rctx) (m0 : pmsg) (h : hscript) (pp : ppub)
             (pk : pubkind) (pb : pubbeh) : mstate * list rpevent * mwres * pmsg :=
    let '(r, pe, m') := poison cfg c0 m0 (seen_after (hs_pre h)) h pp in
    let '(ms, tr) := handle pk pb (to_cr (hs_pre h) r) in
    (ms, splice tr pe, r, m').

  (** ** the property, as executable predicates on what was observed *)

  Definition accepts (cfg : pcfg) (e : err) : fres :=
    match pq_filter cfg with None => FYes | Some f => f e end.

  Definition poison_pubs (ev : list pevent) : list (N * pmsg) :=
    flat_map (fun e => match e with PPublish t m _ => [(t, m)] | _ => [] end) ev.
  Definition filter_calls (ev : list pevent) : list err :=
    flat_map (fun e => match e with PFilter x => [x] | _ => [] end) ev.
  Definition pub_oks (ev : list pevent) : nat :=
    length (filter (fun e => match e with PPublishRet true => true | _ => false end) ev).

  (** the message the property wants on the poison topic: the consumed message as the handler
      left it (same UUID, same payload, its metadata) with the four keys set *)
  Definition poisoned (c : rctx) (m : pmsg) (e : err) : option pmsg :=
    match pm_meta m with
    | None => None
    | Some md => Some (PM (pm_uuid m) (pm_payload m) (Some (stamp c (txt e) md)))
    end.

  (** "the error is still returned": a multierror holding the handler's error(s) followed by
      exactly one more (the publish error) *)
  Definition errs_of (e : err) : list err := match e with EMulti l => l | _ => [e] end.
  Definition still_returned (e : err) (r : option err) : bool :=
    match r with
    | Some (EMulti l) => list_eqb err_eqb (removelast l) (errs_of e) && Nat.eqb (length l) (S (length (errs_of e)))
    | _ => false
    end.

  Context (eqbM : M -> M -> bool).
  Definition outs_eqb := list_eqb eqbM.
  Definition pub_eqb (a b : N * pmsg) : bool := N.eqb (fst a) (fst b) && pmsg_eqb (snd a) (snd b).

  (** the middleware clauses: what is published to the poison topic, what is returned, what
      happened to the consumed message *)
  Definition mw_monitor (cfg : pcfg) (c0 : rctx) (m0 : pmsg) (h : hscript) (pp : ppub)
             (r : mwres) (ev : list pevent) (mf : pmsg) : bool :=
    let '(m, c) := run_acts (hs_acts h) (m0, c0) in
    match hs_out h with
    | HRet outs =>
        (* success passes through unchanged, publishes nothing, never asks the filter *)
        match r with MRet o None => outs_eqb o outs | _ => false end
        && match ev with [] => true | _ => false end && pmsg_eqb mf m
    | HPanic =>
        match r with MPanic => true | _ => false end
        && match ev with [] => true | _ => false end && pmsg_eqb mf m
    | HFail e outs =>
        (* the filter, when there is one, is asked exactly once, about the handler's error *)
        list_eqb err_eqb (filter_calls ev) (match accepts cfg e, pq_filter cfg with FNoFunc, _ | _, None => [] | _, Some _ => [e] end)
        && match accepts cfg e with
           | FNo =>
               match r with MRet o (Some e') => outs_eqb o outs && err_eqb e' e | _ => false end
               && match poison_pubs ev with [] => true | _ => false end && pmsg_eqb mf m
           | FPanics | FNoFunc =>
               match r with MPanic => true | _ => false end
               && match poison_pubs ev with [] => true | _ => false end && pmsg_eqb mf m
           | FYes =>
               match poisoned c m e, pp with
               | Some pm, PPAccept =>
                   (* exactly one publish, of the stamped message, accepted; only then success *)
                   list_eqb pub_eqb (poison_pubs ev) [(pq_topic cfg, pm)] && Nat.eqb (pub_oks ev) 1
                   && match r with MRet o None => outs_eqb o outs | _ => false end
               | Some pm, PPError _ =>
                   list_eqb pub_eqb (poison_pubs ev) [(pq_topic cfg, pm)] && Nat.eqb (pub_oks ev) 0
                   && match r with MRet o e' => outs_eqb o outs && still_returned e e' | _ => false end
               | Some pm, PPPanic =>
                   list_eqb pub_eqb (poison_pubs ev) [(pq_topic cfg, pm)] && Nat.eqb (pub_oks ev) 0
                   && match r with MPanic => true | _ => false end
               | _, _ =>
                   (* nil metadata map or nil publisher: the salvage panics, nothing is published *)
                   match poison_pubs ev with [] => true | _ => false end
                   && match r with MPanic => true | _ => false end
               end
           end
    end.

  (** ordering inside a Router: when the handler failed, the Router's Ack comes only after a
      poison publish returned nil; every poison event precedes the Router's settle call; inside
      the poison Publish the consumed message shows only what the handler did itself *)
  Fixpoint ack_guard (need : bool) (tr : list rpevent) : bool :=
    match tr with
    | [] => true
    | RP (PPublishRet true) :: tr' => ack_guard false tr'
    | RP (PPublish _ _ _) :: tr' => ack_guard true tr'
    | RH (HSettle true _) :: tr' => negb need && match tr' with [] => true | _ => false end
    | RH (HSettle false _) :: tr' => match tr' with [] => true | _ => false end
    | _ :: tr' => ack_guard need tr'
    end.
  Definition handler_failed (h : hscript) : bool :=
    match hs_out h with HFail _ _ => true | _ => false end.
  Definition seen_pre_ok (pre : presettle) (tr : list rpevent) : bool :=
    forallb (fun e => match e with
                      | RP (PPublish _ _ s) =>
                          match pre, s with
                          | PreNone, Unsettled | PreAck, Acked | PreNack, Nacked => true
                          | _, _ => false end
                      | _ => true end) tr.

  Definition hproj (tr : list rpevent) : list (hevent M) :=
    flat_map (fun e => match e with RH x => [x] | _ => [] end) tr.
  Definition pproj (tr : list rpevent) : list pevent :=
    flat_map (fun e => match e with RP x => [x] | _ => [] end) tr.

  (** the settlement the property prescribes for a message consumed through a Router whose
      handler is wrapped by the poison queue *)
  Definition poison_ok (cfg : pcfg) (m0 : pmsg) (h : hscript) (pp : ppub) : bool :=
    match hs_out h with
    | HFail e _ =>
        match accepts cfg e, pm_meta (fst (run_acts (hs_acts h) (m0, no_ctx))), pp with
        | FYes, Some _, PPAccept => true
        | _, _, _ => false
        end
    | _ => false
    end.
  Definition outs_of (h : hscript) : list M :=
    match hs_out h with HRet o => o | HFail _ o => o | HPanic => [] end.
  Definition c13_expected_final (cfg : pcfg) (m0 : pmsg) (h : hscript) (pp : ppub) (pk : pubkind) (pb : pubbeh) : settle :=
    match hs_pre h with
    | PreAck => Acked
    | PreNack => Nacked
    | PreNone =>
        let done := match hs_out h with HRet _ => true | _ => poison_ok cfg m0 h pp end in
        if done && handled_ok pk pb (CR PreNone (Ret (outs_of h))) then Acked else Nacked
    end.

  (** the complete acceptor for one message observed in a Router: [r] is the chain result seen
      by a recording middleware placed outside the poison queue *)
  Definition c13_monitor (cfg : pcfg) (c0 : rctx) (m0 : pmsg) (h : hscript) (pp : ppub)
             (pk : pubkind) (pb : pubbeh)
             (tr : list rpevent) (final : settle) (r : mwres) (mf : pmsg) : bool :=
    mw_monitor cfg c0 m0 h pp r (pproj tr) mf
    && c02_monitor eqbM pk pb (to_cr (hs_pre h) r) (hproj tr) final
    && settle_eqb final (c13_expected_final cfg m0 h pp pk pb)
    && ack_guard (handler_failed h) tr
    && seen_pre_ok (hs_pre h) tr.
End Poison.

Arguments hscript : clear implicits.
Arguments hout : clear implicits.
Arguments mwres : clear implicits.
Arguments rpevent : clear implicits.
