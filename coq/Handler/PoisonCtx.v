(** Where the three context values the poison queue writes come from: message/router_context.go
    (valFromCtx and the five readers) and message/router.go addHandlerContext (l.749-771), which
    the Router applies to every message it CONSUMES (decorateHandlerSubscriber l.728-731) and to
    every message a handler PRODUCES (handleMessage).  As the code is now ([fixed = true], after
    the repo's `fix:` "all five values are always set, also when empty") every value is written
    unconditionally.  The pinned behaviour ([fixed = false]) wrote a value only when non-empty, so
    that whatever the message's context already carried stayed visible (context.WithValue
    chains) - kept as a variant so that the theorem is visibly sensitive to it.  No proofs here. *)
From WM Require Import Base.Prelude Handler.Poison.

(** the five values of router_context.go as seen through a message's context ("" = absent) *)
Record rvals := RV { v_handler : N; v_publisher : N; v_subscriber : N; v_sub_topic : N; v_pub_topic : N }.
Definition background : rvals := RV 0 0 0 0 0.      (* NewMessage: context.Background() *)

(** what the Router knows about a handler: name, StructName of publisher and subscriber
    ("" possible through fmt.Stringer), subscribe and publish topic *)
Record hcfg := HC { hc_name : N; hc_pubname : N; hc_subname : N; hc_subtopic : N; hc_pubtopic : N }.

Definition set_ne (new old : N) : N := if N.eqb new 0 then old else new.

Definition set_v (fixed : bool) (new old : N) : N := if fixed then new else set_ne new old.

Definition add_handler_ctx (fixed : bool) (h : hcfg) (p : rvals) : rvals :=
  RV (set_v fixed (hc_name h) (v_handler p)) (set_v fixed (hc_pubname h) (v_publisher p))
     (set_v fixed (hc_subname h) (v_subscriber p)) (set_v fixed (hc_subtopic h) (v_sub_topic p))
     (set_v fixed (hc_pubtopic h) (v_pub_topic p)).

(** SubscribeTopicFromCtx / HandlerNameFromCtx / SubscriberNameFromCtx: what poison.go reads *)
Definition poison_view (v : rvals) : rctx := RC (v_sub_topic v) (v_handler v) (v_subscriber v).

(** the context of a message consumed by handler [b]: fresh from a subscriber, or the very
    object a handler [a] produced earlier (re-emitted without a new context) *)
Definition consumed_ctx (fixed : bool) (via : option hcfg) (b : hcfg) : rvals :=
  add_handler_ctx fixed b (match via with Some a => add_handler_ctx fixed a background | None => background end).
