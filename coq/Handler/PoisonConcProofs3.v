(** Refinement: the concurrent semantics of one PoisonQueue value (PoisonConc.v, four
    interleavable steps per message) refines the atomic specification (PoisonConcSpec.v). *)
From WM Require Import Base.Prelude Message.Model Handler.RouterHandle Handler.Poison
  Handler.PoisonConc Handler.PoisonConcProofs Handler.PoisonConcSpec.

Section Proofs.
  Context {M : Type} (txt : err -> N).
  Notation spec_run := (spec_run (M:=M) txt).
  Notation spec_step := (spec_step (M:=M) txt).
  Notation spec_result := (spec_result (M:=M) txt).
  Notation serial_log := (serial_log (M:=M) txt).
  Notation sys_run := (sys_run (M:=M) txt).

  Lemma spec_run_snoc cfg jobs order k :
    spec_run cfg jobs (order ++ [k]) = spec_step cfg jobs (spec_run cfg jobs order) k.
  Proof. unfold PoisonConcSpec.spec_run. now rewrite fold_left_app. Qed.

  (** the atomic system: a message that was handled is [TDone] with the sequential result and
      its events are in the log; one that was not is untouched *)
  Lemma spec_run_inv cfg jobs order : forall i,
    if in_dec Nat.eq_dec i order
    then threads (spec_run cfg jobs order) i = TDone (fst (fst (spec_result cfg (jobs i)))) (snd (spec_result cfg (jobs i)))
         /\ proj i (log (spec_run cfg jobs order)) = snd (fst (spec_result cfg (jobs i)))
    else threads (spec_run cfg jobs order) i = TStart /\ proj i (log (spec_run cfg jobs order)) = [].
  Proof.
    induction order as [|k order IH] using rev_ind; intros i.
    - simpl. split; reflexivity.
    - rewrite spec_run_snoc. unfold PoisonConcSpec.spec_step.
      specialize (IH i) as IHi. pose proof (IH k) as IHk.
      destruct (in_dec Nat.eq_dec i (order ++ [k])) as [Hin|Hnin].
      + destruct (Nat.eq_dec i k) as [->|Hne].
        * destruct (in_dec Nat.eq_dec k order) as [Hk|Hk].
          -- destruct IHk as [Ht Hl]. rewrite Ht. split; assumption.
          -- destruct IHk as [Ht Hl]. rewrite Ht.
             destruct (spec_result cfg (jobs k)) as [[r ev] mf]. simpl.
             rewrite upd_same, proj_app, proj_same, Hl. split; reflexivity.
        * assert (Hio : In i order).
          { apply in_app_or in Hin as [H|[H|[]]]; [exact H|congruence]. }
          destruct (in_dec Nat.eq_dec i order) as [_|C]; [|contradiction].
          destruct IHi as [Ht Hl].
          destruct (threads (spec_run cfg jobs order) k) eqn:Hk; try (split; assumption);
            destruct (spec_result cfg (jobs k)) as [[r ev] mf]; simpl;
            rewrite upd_other by congruence; rewrite proj_app, (proj_other _ _ _ Hne), app_nil_r; split; assumption.
      + assert (Hne : i <> k) by (intros ->; apply Hnin, in_or_app; right; left; reflexivity).
        assert (Hio : ~ In i order) by (intros H; apply Hnin, in_or_app; left; exact H).
        destruct (in_dec Nat.eq_dec i order) as [C|_]; [contradiction|].
        destruct IHi as [Ht Hl].
        destruct (threads (spec_run cfg jobs order) k) eqn:Hk; try (split; assumption);
          destruct (spec_result cfg (jobs k)) as [[r ev] mf]; simpl;
          rewrite upd_other by congruence; rewrite proj_app, (proj_other _ _ _ Hne), app_nil_r; split; assumption.
  Qed.

  (** ... and when every message is handled once, its log IS the serial log: the messages'
      event lists one after the other, in the order of handling *)
  Lemma spec_run_serial cfg jobs order : NoDup order ->
    log (spec_run cfg jobs order) = serial_log cfg jobs order.
  Proof.
    induction order as [|k order IH] using rev_ind; intros Hnd; [reflexivity|].
    apply NoDup_remove in Hnd as [Hnd Hk]. rewrite app_nil_r in Hnd, Hk.
    rewrite spec_run_snoc. unfold PoisonConcSpec.spec_step, PoisonConcSpec.serial_log.
    pose proof (spec_run_inv cfg jobs order k) as I.
    destruct (in_dec Nat.eq_dec k order) as [C|_]; [contradiction|]. destruct I as [Ht _]. rewrite Ht.
    rewrite flat_map_app. simpl. rewrite app_nil_r.
    destruct (spec_result cfg (jobs k)) as [[r ev] mf]. simpl. rewrite (IH Hnd). reflexivity.
  Qed.

  (** REFINEMENT: whatever the schedule of the concurrent system, for every set of messages that
      have taken their steps, and for ANY order in which the atomic specification handles them,
      each of these messages ends in the same state and has the same events in the log *)
  Lemma conc_refines_atomic cfg jobs sched order :
    (forall i, In i order -> 4 <= count_occ Nat.eq_dec sched i) ->
    forall i, In i order ->
      threads (sys_run false cfg jobs sched) i = threads (spec_run cfg jobs order) i
      /\ proj i (log (sys_run false cfg jobs sched)) = proj i (log (spec_run cfg jobs order)).
  Proof.
    intros Hc i Hi. pose proof (conc_independent txt cfg jobs sched i (Hc i Hi)) as C.
    pose proof (spec_run_inv cfg jobs order i) as S.
    destruct (in_dec Nat.eq_dec i order) as [_|N]; [|contradiction].
    unfold PoisonConcSpec.spec_result in S. simpl in C.
    destruct (poison txt cfg (j_ctx (jobs i)) (j_msg (jobs i)) (j_seen (jobs i)) (j_h (jobs i)) (j_pp (jobs i))) as [[r ev] mf].
    simpl in S. destruct C as [-> ->], S as [-> ->]. split; reflexivity.
  Qed.

  (** serializability: every complete concurrent run is, message by message, the serial run in
      which the messages are handled one after the other - and that run's log is the plain
      concatenation of the sequential model's event lists *)
  Lemma conc_serializable cfg jobs sched order : NoDup order ->
    (forall i, In i order -> 4 <= count_occ Nat.eq_dec sched i) ->
    log (spec_run cfg jobs order) = serial_log cfg jobs order
    /\ forall i, In i order ->
         threads (sys_run false cfg jobs sched) i = threads (spec_run cfg jobs order) i
         /\ proj i (log (sys_run false cfg jobs sched)) = proj i (serial_log cfg jobs order).
  Proof.
    intros Hnd Hc. split; [now apply spec_run_serial|]. intros i Hi.
    rewrite <- (spec_run_serial cfg jobs order Hnd). now apply conc_refines_atomic.
  Qed.
End Proofs.
