(** C12, round "proofs": what the interval generator does for the configurations the code does
    not validate (retry.go copies the fields into ExponentialBackOff unchecked): MaxInterval <
    InitialInterval, Multiplier < 0, = 0, in (0,1], negative MaxElapsedTime; and what holds for
    every configuration whatsoever. *)
From WM Require Import Base.Prelude Handler.Retry Handler.RetryArith Handler.RetryTrunc Handler.RetryProofs.
From Coq Require Import QArith Qround Qpower Lia Lqa.
Open Scope Z_scope.

Lemma cur_at_SS c k : cur_at c (S (S k)) = incr_interval c (cur_at c (S k)).
Proof. reflexivity. Qed.

Lemma Qtrunc_mul c cur :
  Qtrunc (inject_Z cur * mult c) = (cur * Qnum (mult c)) ÷ Z.pos (Qden (mult c)).
Proof. unfold Qtrunc. destruct (mult c). reflexivity. Qed.

(** InitialInterval > MaxInterval >= 0, Multiplier >= 1: the first wait is the (too large)
    initial interval — Reset does not cap it — every later one MaxInterval *)
Lemma sched_initial_above_max c : (1 <= mult c)%Q -> 0 <= max_interval c < initial c ->
  cur_at c 1 = initial c /\ forall k, cur_at c (S (S k)) = max_interval c.
Proof.
  intros Hm Hi. split; [reflexivity|].
  assert (Hnd : 0 < Z.pos (Qden (mult c)) <= Qnum (mult c)).
  { destruct (mult c) as [n d]. unfold Qle in Hm. cbn in *. lia. }
  assert (Hcap : forall cur, max_interval c <= cur -> incr_interval c cur = max_interval c).
  { intros cur Hc. unfold incr_interval, capped.
    replace (Qnum (mult c) ?= 0) with Gt by (symmetry; apply Z.compare_gt_iff; lia).
    destruct (Z.leb_spec (max_interval c * Z.pos (Qden (mult c))) (cur * Qnum (mult c))); [reflexivity|nia]. }
  induction k as [|k IH]; rewrite cur_at_SS.
  - apply Hcap. cbn. lia.
  - apply Hcap. rewrite IH. lia.
Qed.

(** Multiplier < 0 (intervals >= 0): float64(Max)/Multiplier <= 0 <= cur, the test always
    succeeds: InitialInterval, then MaxInterval for ever *)
Lemma sched_negative_multiplier c : (mult c < 0)%Q -> 0 <= initial c -> 0 <= max_interval c ->
  forall k, cur_at c (S (S k)) = max_interval c.
Proof.
  intros Hm Hi Hx.
  assert (Hn : Qnum (mult c) < 0) by (destruct (mult c) as [n d]; unfold Qlt in Hm; cbn in *; lia).
  assert (Hcap : forall cur, 0 <= cur -> incr_interval c cur = max_interval c).
  { intros cur Hc. unfold incr_interval, capped.
    replace (Qnum (mult c) ?= 0) with Lt by (symmetry; apply Z.compare_lt_iff; lia).
    destruct (Z.leb_spec (cur * Qnum (mult c)) (max_interval c * Z.pos (Qden (mult c)))); [reflexivity|nia]. }
  induction k as [|k IH]; rewrite cur_at_SS; apply Hcap; [cbn; lia|rewrite IH; lia].
Qed.

(** Multiplier = 0: Max/0 is +Inf or NaN for MaxInterval >= 0, the test never succeeds and
    cur*0 = 0: every retry after the first is made WITHOUT waiting; for MaxInterval < 0 it is
    -Inf and the (negative) MaxInterval is used, which time.After treats like 0 as well *)
Lemma sched_zero_multiplier c : (mult c == 0)%Q ->
  forall k, cur_at c (S (S k)) = if max_interval c <? 0 then max_interval c else 0.
Proof.
  intros Hm k.
  assert (Hn : Qnum (mult c) = 0) by (destruct (mult c) as [n d]; unfold Qeq in Hm; cbn in *; lia).
  rewrite cur_at_SS. unfold incr_interval, capped. rewrite Hn. cbn [Z.compare].
  destruct (max_interval c <? 0); [reflexivity|].
  rewrite Qtrunc_mul, Hn, Z.mul_0_r. apply Z.quot_0_l. lia.
Qed.

(** 0 < Multiplier <= 1, 0 <= Initial <= Max: the intervals shrink geometrically (never capped
    below the cap): ideal - geometric error sum <= cur <= ideal = Initial x Multiplier^k *)
Lemma sched_fractional_multiplier c : (0 < mult c)%Q -> (mult c <= 1)%Q ->
  0 <= initial c <= max_interval c ->
  forall k, 0 <= cur_at c (S k)
    /\ (ideal c k - geom (mult c) k <= inject_Z (cur_at c (S k)))%Q
    /\ (inject_Z (cur_at c (S k)) <= ideal c k)%Q
    /\ (ideal c k <= inject_Z (max_interval c))%Q.
Proof.
  intros Hm0 Hm1 Hi.
  assert (HI : (inject_Z (initial c) <= inject_Z (max_interval c))%Q) by (rewrite <- Zle_Qle; lia).
  induction k as [|k IH].
  - cbn [cur_at ideal geom]. split; [lia|]. repeat split; lra.
  - destruct IH as [C0 [L [U B]]]. rewrite cur_at_SS.
    set (cur := cur_at c (S k)) in *. cbn [ideal geom].
    set (m := mult c) in *. set (M := inject_Z (max_interval c)) in *.
    assert (Hg : (0 <= geom m k)%Q) by (apply geom_nonneg; lra).
    assert (Hgm : (0 <= m * geom m k)%Q) by (apply Qmult_le_0_compat; lra).
    assert (A1 : (inject_Z cur * m <= ideal c k * m)%Q) by (apply Qmult_le_compat_r; lra).
    assert (A2 : ((ideal c k - geom m k) * m <= inject_Z cur * m)%Q) by (apply Qmult_le_compat_r; lra).
    assert (A3 : (0 <= ideal c k)%Q) by (pose proof (inj_cur_nonneg cur C0); lra).
    assert (A4 : (ideal c k * m <= ideal c k)%Q).
    { assert (0 <= (1 - m) * ideal c k)%Q by (apply Qmult_le_0_compat; lra). lra. }
    destruct (incr_cases c cur Hm0 C0) as [[Hx E]|[Hx E]]; fold m in Hx; fold M in Hx; rewrite E.
    + fold M. split; [lia|]. repeat split; lra.
    + pose proof (Qfloor_le (inject_Z cur * m)) as F1. pose proof (Qlt_floor (inject_Z cur * m)) as F2.
      rewrite inject_Z_plus in F2. change (inject_Z 1) with 1%Q in F2. fold m.
      split.
      { assert (0 <= inject_Z cur * m)%Q as H by (apply Qmult_le_0_compat; [apply inj_cur_nonneg; exact C0|lra]).
        pose proof (Qfloor_resp_le _ _ H) as R. change 0%Q with (inject_Z 0) in R. rewrite Qfloor_Z in R. exact R. }
      repeat split; lra.
Qed.

(** a negative MaxElapsedTime: [MaxElapsedTime != 0 && elapsed > MaxElapsedTime] is always true
    (and no timeout context is created): every NextBackOff returns Stop — all retries are made
    without waiting and only the message context can end them early *)
Lemma loop_negative_max_elapsed c h sl td treset : max_elapsed c < 0 -> forall rem k cur now last,
  treset <= now -> loop_ok c h sl td treset rem k cur now = true ->
  Forall (fun it => w_wait it = STOP) (r_waits (loop c h sl rem k cur now last)).
Proof.
  intros ME. induction rem as [|rem IH]; intros k cur now last Hn Hok; [constructor|].
  cbn [loop loop_ok] in *.
  destruct (next_backoff c cur (s_elapsed (sl k)) (s_rnd (sl k))) as [wait cur'] eqn:NB.
  apply andb_true_iff in Hok as [Hs Hok].
  apply sel_ok_spec in Hs as [G [W [D [_ [_ [El _]]]]]].
  assert (Ew : wait = STOP).
  { unfold next_backoff, stops in NB.
    destruct (max_elapsed c =? 0) eqn:E0; [apply Z.eqb_eq in E0; lia|]. cbn [negb andb] in NB.
    destruct (Z.ltb_spec (max_elapsed c) (s_elapsed (sl k))); [injection NB as <- _; reflexivity|lia]. }
  destruct (s_ctx (sl k)); [constructor; [exact Ew|constructor]|].
  destruct (is_ok (h k)); [constructor; [exact Ew|constructor]|].
  cbn [r_waits]. constructor; [exact Ew|]. apply IH; [lia|exact Hok].
Qed.

Lemma retry_negative_max_elapsed c h e : max_elapsed c < 0 -> env_ok c h e = true ->
  Forall (fun it => w_wait it = STOP) (r_waits (retry c h e)).
Proof.
  intros ME Henv. apply env_ok_spec in Henv as [_ [_ [_ Hl]]]. unfold retry.
  destruct (is_ok (h O)) eqn:H0; [constructor|]. cbn [r_waits].
  apply (loop_negative_max_elapsed c h (e_sel e) (t_done c e) (t_reset e) ME); [lia|apply Hl; reflexivity].
Qed.

(** for EVERY configuration (negative intervals, any Multiplier, any factor): whatever
    NextBackOff returned is waited for before the handler is invoked again — a value <= 0
    (negative interval, Stop) simply does not delay *)
Lemma loop_wait_respected c h sl td treset : forall rem k cur now last,
  loop_ok c h sl td treset rem k cur now = true ->
  Forall (fun it => w_prev it <= w_tnb it <= w_twake it
                    /\ (w_ctx it = false -> w_tnb it + w_wait it <= w_twake it))
         (r_waits (loop c h sl rem k cur now last)).
Proof.
  induction rem as [|rem IH]; intros k cur now last Hok; [constructor|].
  cbn [loop loop_ok] in *.
  destruct (next_backoff c cur (s_elapsed (sl k)) (s_rnd (sl k))) as [wait cur'] eqn:NB.
  apply andb_true_iff in Hok as [Hs Hok].
  apply sel_ok_spec in Hs as [G [W [D [_ [_ [_ [_ Tm]]]]]]].
  assert (Hit : forall b, s_ctx (sl k) = b ->
     w_prev (WItem k cur wait now (now + s_gap (sl k)) (now + s_gap (sl k) + s_wake (sl k)) b)
       <= w_tnb (WItem k cur wait now (now + s_gap (sl k)) (now + s_gap (sl k) + s_wake (sl k)) b)
       <= w_twake (WItem k cur wait now (now + s_gap (sl k)) (now + s_gap (sl k) + s_wake (sl k)) b)
     /\ (w_ctx (WItem k cur wait now (now + s_gap (sl k)) (now + s_gap (sl k) + s_wake (sl k)) b) = false ->
         w_tnb (WItem k cur wait now (now + s_gap (sl k)) (now + s_gap (sl k) + s_wake (sl k)) b) + wait
         <= w_twake (WItem k cur wait now (now + s_gap (sl k)) (now + s_gap (sl k) + s_wake (sl k)) b))).
  { intros b Eb. cbn. split; [lia|]. intros ->. destruct (Tm Eb). lia. }
  destruct (s_ctx (sl k)) eqn:Ec; [constructor; [apply Hit; reflexivity|constructor]|].
  destruct (is_ok (h k)); [constructor; [apply Hit; reflexivity|constructor]|].
  cbn [r_waits]. constructor; [apply Hit; reflexivity|]. apply IH. exact Hok.
Qed.

Lemma retry_wait_respected c h e : env_ok c h e = true ->
  forall it, In it (r_waits (retry c h e)) ->
    w_prev it <= w_tnb it <= w_twake it
    /\ (w_ctx it = false -> w_tnb it + w_wait it <= w_twake it).
Proof.
  intros Henv. apply env_ok_spec in Henv as [_ [_ [_ Hl]]]. unfold retry.
  destruct (is_ok (h O)) eqn:H0; [intros it []|]. cbn [r_waits].
  pose proof (loop_wait_respected c h (e_sel e) (t_done c e) (t_reset e) (iterations c) 1 (initial c) (t_reset e) (h O) (Hl eq_refl)) as F.
  rewrite Forall_forall in F. exact F.
Qed.
