(** C02 for a message in ANY settlement state when the subscriber hands it over (a subscriber or
    a subscriber decorator may have acked / nacked it already; message/router.go handleMessage
    does not look at the settlement before it invokes the chain).  Definitions only: the
    acceptor [c02_monitor_from] generalises [c02_monitor] (RouterHandle.v) by the settlement [w]
    the message arrived with; for [w = Unsettled] it IS [c02_monitor].  No proofs here. *)
From WM Require Import Base.Prelude Message.Model Handler.RouterHandle.

(** reachable in the C03 model: some constructor, some sequence of Ack/Nack/reads *)
Definition reachable (m : mstate) : Prop := exists c ops, m = fst (run (init c) ops).

Section From.
  Context {M : Type}.

  (** the settlement the property prescribes for a message that arrived with settlement [w]:
      first wins (C03), so an arrival settlement stays; otherwise as for a fresh message *)
  Definition expected_final_from (w : settle) (pk : pubkind) (pb : pubbeh) (r : chain_result M) : settle :=
    match w with Unsettled => expected_final pk pb r | _ => w end.

  (** inside Publish the consumed message shows the arrival settlement if there was one, else
      exactly what the handler did itself *)
  Definition seen_ok_from (w : settle) (r : chain_result M) (tr : list (hevent M)) : bool :=
    match w with
    | Unsettled => seen_ok r tr
    | _ => forallb (fun e => match e with HPublish _ s => settle_eqb s w | _ => true end) tr
    end.

  Context (eqbM : M -> M -> bool).

  (** the complete acceptor for one observed handleMessage run on a message that arrived with
      settlement [w]: chain invoked once, exactly one Router settle call and nothing after it,
      prescribed final settlement, Ack only after a successful publish return, the settlement
      seen inside Publish, one Publish call with exactly the returned messages *)
  Definition c02_monitor_from (w : settle) (pk : pubkind) (pb : pubbeh) (r : chain_result M)
             (tr : list (hevent M)) (final : settle) : bool :=
    Nat.eqb (count_calls tr) 1
    && Nat.eqb (count_settles tr) 1
    && settle_eqb final (expected_final_from w pk pb r)
    && ack_after_publish tr false
    && seen_ok_from w r tr
    && list_eqb (list_eqb eqbM) (publishes tr) (expected_publishes pk r).
End From.
