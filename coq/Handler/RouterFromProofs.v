(** Proofs about [handle_from m0] for every message state [m0] reachable in the C03 model
    (Handler/RouterFrom.v, Handler/RouterHandle.v). *)
From WM Require Import Base.Prelude Message.Model Message.Proofs
  Handler.RouterHandle Handler.RouterProofs Handler.RouterFrom.

Lemma reachable_chan_ok m : reachable m -> chan_ok m.
Proof. intros (c & ops & ->). apply run_chan_ok, chan_ok_init. Qed.

Lemma reachable_init c : reachable (init c).
Proof. exists c, []. reflexivity. Qed.

Lemma reachable_step m o : reachable m -> reachable (fst (step m o)).
Proof.
  intros (c & ops & ->). exists c, (ops ++ [o]). rewrite run_app. simpl.
  destruct (step (fst (run (init c) ops)) o). reflexivity.
Qed.

(** the consistent states, enumerated *)
Lemma chan_ok_cases m : chan_ok m ->
  m = MS Unsettled CNil CNil false \/ m = MS Unsettled CNil COpen false
  \/ m = MS Unsettled COpen CNil false \/ m = MS Unsettled COpen COpen false
  \/ m = MS Acked CClosed CNil false \/ m = MS Acked CClosed COpen false
  \/ m = MS Nacked CNil CClosed false \/ m = MS Nacked COpen CClosed false.
Proof.
  destruct m as [s a n p]. unfold chan_ok. simpl. intros [H ->].
  destruct s, a, n; simpl in H; destruct H as [H1 H2];
    try congruence; try (now destruct H1); try (now destruct H2); tauto.
Qed.

Section Proofs.
  Context {M : Type}.
  Implicit Types (r : chain_result M) (pk : pubkind) (pb : pubbeh).

  Ltac cases r pk pb :=
    destruct r as [pre out]; destruct pre, out as [[|x l]|outs|], pk, pb.
  Ltac states H :=
    apply chan_ok_cases in H;
    destruct H as [->|[->|[->|[->|[->|[->|[->| ->]]]]]]].

  (** exactly one chain invocation and exactly one Router settle call, the settle call being the
      last event: whatever state the message arrives in *)
  Lemma handle_from_once m0 pk pb r : chan_ok m0 ->
    let tr := snd (handle_from m0 pk pb r) in
    count_calls tr = 1 /\ count_settles tr = 1
    /\ exists ack ret pre, tr = pre ++ [HSettle ack ret] /\ count_settles pre = 0.
  Proof.
    intros H. states H; cases r pk pb; cbn; (split; [reflexivity|split; [reflexivity|]]).
    all: first
      [ eexists _, _, [_]; split; reflexivity
      | eexists _, _, [_; _]; split; reflexivity
      | eexists _, _, [_; _; _]; split; reflexivity
      | eexists _, _, [_; _; _; _]; split; reflexivity ].
  Qed.

  (** the final settlement: that of arrival if the message was settled already, else the one
      C02 prescribes for a fresh message *)
  Lemma handle_from_final m0 pk pb r : chan_ok m0 ->
    st (fst (handle_from m0 pk pb r)) = expected_final_from (st m0) pk pb r.
  Proof. intros H. states H; cases r pk pb; reflexivity. Qed.

  (** a message that arrives settled leaves handleMessage exactly as it came (state, channels) *)
  Lemma handle_from_settled_unchanged m0 pk pb r : st m0 <> Unsettled ->
    fst (handle_from m0 pk pb r) = m0.
  Proof.
    intros H. destruct m0 as [s a n p]. destruct s; [now destruct H| |];
      cases r pk pb; reflexivity.
  Qed.

  (** ... and the Router's own settle call then returns what C03 says: true iff it agrees with
      the arrival settlement *)
  Lemma handle_from_settle_ret m0 pk pb r : st m0 <> Unsettled ->
    exists pre ack ret, snd (handle_from m0 pk pb r) = pre ++ [HSettle ack ret]
                        /\ ret = settle_eqb (st m0) (if ack then Acked else Nacked).
  Proof.
    intros H. destruct m0 as [s a n p]. destruct s; [now destruct H| |];
      cases r pk pb; cbn.
    all: first
      [ eexists [_], _, _; split; reflexivity
      | eexists [_; _], _, _; split; reflexivity
      | eexists [_; _; _], _, _; split; reflexivity
      | eexists [_; _; _; _], _, _; split; reflexivity ].
  Qed.

  (** what is published does not depend on the arrival state *)
  Lemma handle_from_publishes m0 pk pb r :
    publishes (snd (handle_from m0 pk pb r)) = expected_publishes pk r.
  Proof.
    destruct m0 as [s a n p].
    destruct s, a, n; cases r pk pb; reflexivity.
  Qed.

  Lemma handle_from_ack_after_publish m0 pk pb r : chan_ok m0 ->
    ack_after_publish (snd (handle_from m0 pk pb r)) false = true
    /\ seen_ok_from (st m0) r (snd (handle_from m0 pk pb r)) = true.
  Proof. intros H. states H; cases r pk pb; split; reflexivity. Qed.

  Lemma handle_from_chan_ok m0 pk pb r : chan_ok m0 -> chan_ok (fst (handle_from m0 pk pb r)).
  Proof. intros H. states H; cases r pk pb; cbv; intuition congruence. Qed.

  Lemma fst_do_pre m (p : presettle) :
    fst (do_pre (M:=M) m p) =
    match p with PreNone => m | PreAck => fst (step m OpAck) | PreNack => fst (step m OpNack) end.
  Proof.
    destruct p; unfold do_pre; [reflexivity| |].
    - destruct (step m OpAck); reflexivity.
    - destruct (step m OpNack); reflexivity.
  Qed.

  Lemma fst_router_settle m b : fst (router_settle (M:=M) m b) = fst (step m (settle_op b)).
  Proof. unfold router_settle. destruct (step m (settle_op b)); reflexivity. Qed.

  (** the state after handleMessage: the handler's own settle call (if any), then the Router's *)
  Lemma fst_handle_from m0 pk pb r : exists b,
    fst (handle_from m0 pk pb r) = fst (step (fst (do_pre (M:=M) m0 (cr_pre r))) (settle_op b)).
  Proof.
    unfold handle_from. destruct (do_pre m0 (cr_pre r)) as [m1 e1]. simpl fst.
    destruct (cr_out r) as [outs| |]; [destruct (publish m1 pk pb outs) as [ep [[|]|]]| |].
    1: exists true. 2-5: exists false.
    all: rewrite <- fst_router_settle; destruct (router_settle m1 _); reflexivity.
  Qed.

  Lemma handle_from_reachable m0 pk pb r : reachable m0 -> reachable (fst (handle_from m0 pk pb r)).
  Proof.
    intros H. destruct (fst_handle_from m0 pk pb r) as [b ->].
    apply reachable_step. rewrite fst_do_pre.
    destruct (cr_pre r); [exact H| |]; now apply reachable_step.
  Qed.

  (** the generalised acceptor is the C02 acceptor for a message that arrives unsettled *)
  Lemma monitor_from_unsettled (eqbM : M -> M -> bool) pk pb r tr f :
    c02_monitor_from eqbM Unsettled pk pb r tr f = c02_monitor eqbM pk pb r tr f.
  Proof. reflexivity. Qed.

  (** every model run, from every reachable arrival state, passes the acceptor that judges
      implementation traces *)
  Lemma handle_from_monitor (eqbM : M -> M -> bool) (Hrefl : forall x, eqbM x x = true) m0 pk pb r :
    chan_ok m0 ->
    c02_monitor_from eqbM (st m0) pk pb r (snd (handle_from m0 pk pb r))
                     (st (fst (handle_from m0 pk pb r))) = true.
  Proof.
    intros H.
    assert (Hl : forall l : list M, list_eqb eqbM l l = true).
    { induction l as [|y l IH]; simpl; [reflexivity|]. now rewrite Hrefl, IH. }
    unfold c02_monitor_from. rewrite handle_from_final by exact H. rewrite handle_from_publishes.
    destruct (handle_from_once m0 pk pb r H) as (H1 & H2 & _).
    destruct (handle_from_ack_after_publish m0 pk pb r H) as (H3 & H4).
    rewrite H1, H2, H3, H4. simpl.
    assert (Hs : forall s, settle_eqb s s = true) by (intros []; reflexivity).
    rewrite Hs. simpl.
    unfold expected_publishes. destruct (cr_out r) as [[|x l]| |]; try reflexivity.
    destruct pk; try reflexivity. simpl. now rewrite Hrefl, Hl.
  Qed.
End Proofs.

(** * The statements used by Props/C02.v: for every state reachable in the C03 model *)
Section Reachable.
  Context {M : Type}.
  Implicit Types (r : chain_result M) (pk : pubkind) (pb : pubbeh).

  Theorem from_once m0 pk pb r : reachable m0 ->
    let tr := snd (handle_from m0 pk pb r) in
    count_calls tr = 1 /\ count_settles tr = 1
    /\ exists ack ret pre, tr = pre ++ [HSettle ack ret] /\ count_settles pre = 0.
  Proof. intros H. apply handle_from_once, reachable_chan_ok, H. Qed.

  Theorem from_final m0 pk pb r : reachable m0 ->
    st (fst (handle_from m0 pk pb r)) = expected_final_from (st m0) pk pb r
    /\ (st m0 <> Unsettled -> fst (handle_from m0 pk pb r) = m0)
    /\ (st m0 = Unsettled -> st (fst (handle_from m0 pk pb r)) = expected_final pk pb r)
    /\ reachable (fst (handle_from m0 pk pb r)).
  Proof.
    intros H. pose proof (handle_from_final m0 pk pb r (reachable_chan_ok _ H)) as Hf.
    repeat split.
    - exact Hf.
    - apply handle_from_settled_unchanged.
    - intros E. rewrite Hf, E. reflexivity.
    - now apply handle_from_reachable.
  Qed.

  Theorem from_monitor (eqbM : M -> M -> bool) : (forall x, eqbM x x = true) ->
    forall m0 pk pb r, reachable m0 ->
    c02_monitor_from eqbM (st m0) pk pb r (snd (handle_from m0 pk pb r))
                     (st (fst (handle_from m0 pk pb r))) = true.
  Proof. intros Hr m0 pk pb r H. apply handle_from_monitor; [exact Hr|]. apply reachable_chan_ok, H. Qed.
End Reachable.
