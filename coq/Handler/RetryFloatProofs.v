(** Proofs about Handler/RetryFloat.v: when float64 rounding in backoff/v3 matters. *)
From WM Require Import Base.Prelude Handler.Retry Handler.RetryArith Handler.RetryFloat.
From Coq Require Import QArith Qround Qabs Lia Lqa.
Open Scope Z_scope.

(** truncation is robust: a value within 1 of x truncates within 1 of floor x.  This is the
    +-1 ns tolerance of the comparison for the randomised delays (several roundings, each
    <= |x| * 2^-53, far below 1 for x < 2^52 ns = 52 days) *)
Lemma floor_close (x r : Q) : (x - 1 < r)%Q -> (r < x + 1)%Q -> Z.abs (Qfloor r - Qfloor x) <= 1.
Proof.
  intros H1 H2.
  pose proof (Qfloor_le r) as A1. pose proof (Qlt_floor r) as A2.
  pose proof (Qfloor_le x) as B1. pose proof (Qlt_floor x) as B2.
  rewrite inject_Z_plus in A2, B2. change (inject_Z 1) with 1%Q in A2, B2.
  assert (inject_Z (Qfloor r) < inject_Z (Qfloor x + 2))%Q as C1.
  { rewrite inject_Z_plus. change (inject_Z 2) with 2%Q. lra. }
  assert (inject_Z (Qfloor x) < inject_Z (Qfloor r + 2))%Q as C2.
  { rewrite inject_Z_plus. change (inject_Z 2) with 2%Q. lra. }
  rewrite <- Zlt_Qlt in C1, C2. lia.
Qed.

Lemma eps53_small (x : Q) : (0 <= x)%Q -> (x < inject_Z (2 ^ 52))%Q -> (x * eps53 < 1 # 2)%Q.
Proof.
  intros H0 H1. unfold eps53, two53.
  assert (E : (x * (1 # Z.to_pos (2 ^ 53)) == x / inject_Z (2 ^ 53))%Q) by (unfold Qdiv; reflexivity).
  rewrite E. apply Qlt_shift_div_r; [reflexivity|].
  assert ((1 # 2) * inject_Z (2 ^ 53) == inject_Z (2 ^ 52))%Q as E2 by reflexivity.
  rewrite E2. exact H1.
Qed.

(** the rounded value of any 0 <= x < 2^52 truncates within 1 of the exact truncation *)
Lemma rounded_trunc_close rnd (x : Q) : rnd_ok rnd -> (0 <= x)%Q -> (x < inject_Z (2 ^ 52))%Q ->
  Z.abs (Qfloor (rnd x) - Qfloor x) <= 1.
Proof.
  intros [_ [_ Hc]] H0 H1. destruct (Hc x H0) as [L U]. pose proof (eps53_small x H0 H1).
  apply floor_close; lra.
Qed.

Section Exact.
  Variable rnd : Q -> Q.
  Hypothesis Hrnd : rnd_ok rnd.
  Variable c : cfg.
  Variables (np d : positive).
  Hypothesis Hm : mult c = Z.pos np # d.            (* Multiplier > 0 *)
  Hypothesis Hdy : exists p, d = pow2 p.             (* ... and dyadic, as every float64 is *)

  Lemma mult_pos : (0 < mult c)%Q.
  Proof. rewrite Hm. reflexivity. Qed.

  (** the product float64(cur) * Multiplier is exact when cur * n < 2^53 *)
  Lemma product_exact cur : 0 <= cur -> cur * Z.pos np < two53 ->
    Qtrunc (rnd (inject_Z cur * mult c)) = Qtrunc (inject_Z cur * mult c).
  Proof.
    intros H0 H1. destruct Hrnd as [_ [Hrep _]]. destruct Hdy as [p Hp].
    assert (R : f64_rep (inject_Z cur * mult c)).
    { exists (cur * Z.pos np), O, p. split; [rewrite Z.abs_eq by lia; exact H1|].
      rewrite Hm, Hp. unfold Qeq, Qmult, inject_Z. cbn. ring. }
    specialize (Hrep _ R).
    assert (P : (0 <= inject_Z cur * mult c)%Q).
    { apply Qmult_le_0_compat; [apply inj_cur_nonneg; exact H0|apply Qlt_le_weak, mult_pos]. }
    rewrite !Qtrunc_floor; [apply Qfloor_comp; exact Hrep|exact P|rewrite Hrep; exact P].
  Qed.

  (** the comparison float64(cur) >= float64(Max)/Multiplier agrees with the exact one when
      Max * d < 2^53 (d = denominator of the Multiplier): then either Max/Multiplier is an integer
      below 2^53 — representable, the division is exact — or it is at least 1/n away from every
      integer while the rounding error is below 1/n *)
  Lemma comparison_exact cur : 0 <= max_interval c -> max_interval c * Z.pos d < two53 ->
    Qle_bool (rnd (inject_Z (max_interval c) / mult c)) (inject_Z cur)
    = (max_interval c * Z.pos d <=? cur * Z.pos np).
  Proof.
    intros H0 H1. destruct Hrnd as [Hcomp [Hrep Hclose]].
    set (A := max_interval c * Z.pos d) in *.
    assert (Eq : (inject_Z (max_interval c) / mult c == A # np)%Q).
    { rewrite Hm. unfold A, Qeq, Qdiv, Qinv, Qmult, inject_Z. cbn. ring. }
    assert (HA : 0 <= A) by (unfold A; lia).
    pose proof (Z.div_mod A (Z.pos np) ltac:(lia)) as DM.
    pose proof (Z.mod_pos_bound A (Z.pos np) ltac:(lia)) as MB.
    set (z := A / Z.pos np) in *. set (rm := A mod Z.pos np) in *.
    assert (Hz : 0 <= z) by (unfold z; apply Z.div_pos; lia).
    set (r := rnd (inject_Z (max_interval c) / mult c)).
    assert (Er : (r == rnd (A # np))%Q) by (unfold r; apply Hcomp; exact Eq).
    destruct (Z.eq_dec rm 0) as [R0|Rn].
    - (* integral quotient: representable, division exact *)
      assert (Ez : (A # np == inject_Z z)%Q) by (unfold Qeq, inject_Z; cbn; lia).
      assert (Rz : f64_rep (A # np)).
      { exists z, O, O. split; [rewrite Z.abs_eq by lia; unfold A in *; nia|].
        rewrite Ez. unfold Qeq, inject_Z. cbn. ring. }
      assert (Erz : (r == inject_Z z)%Q) by (rewrite Er, (Hrep _ Rz); exact Ez).
      destruct (Z.leb_spec A (cur * Z.pos np)) as [L|L].
      + apply Qle_bool_iff. rewrite Erz. rewrite <- Zle_Qle. nia.
      + destruct (Qle_bool r (inject_Z cur)) eqn:E; [|reflexivity].
        apply Qle_bool_iff in E. rewrite Erz in E. rewrite <- Zle_Qle in E. nia.
    - (* non-integral: z + 1/n <= q <= z + 1 - 1/n, error < 1/n *)
      assert (Q0 : (0 <= A # np)%Q) by (unfold Qle; cbn; lia).
      destruct (Hclose _ Q0) as [Lo Hi].
      assert (F1 : (inject_Z z + (1 # np) <= A # np)%Q) by (unfold Qle, Qplus, inject_Z; cbn; nia).
      assert (F2 : ((A # np) + (1 # np) <= inject_Z (z + 1))%Q) by (unfold Qle, Qplus, inject_Z; cbn; nia).
      assert (F3 : ((A # np) * eps53 < 1 # np)%Q).
      { unfold eps53, Qlt, Qmult. cbn. change (Z.pos (np * 4503599627370496 * 2)) with (Z.pos np * two53) || idtac.
        unfold two53 in *. nia. }
      assert (G1 : (inject_Z z < r)%Q) by (rewrite Er; lra).
      assert (G2 : (r < inject_Z (z + 1))%Q) by (rewrite Er; lra).
      destruct (Z.leb_spec A (cur * Z.pos np)) as [L|L].
      + assert (z + 1 <= cur) by nia.
        apply Qle_bool_iff. apply Qlt_le_weak. eapply Qlt_le_trans; [exact G2|]. rewrite <- Zle_Qle. lia.
      + assert (cur <= z) by nia.
        destruct (Qle_bool r (inject_Z cur)) eqn:E; [|reflexivity].
        apply Qle_bool_iff in E.
        assert (inject_Z z < inject_Z cur)%Q by (eapply Qlt_le_trans; eassumption).
        rewrite <- Zlt_Qlt in H2. lia.
  Qed.

  (** THEOREM: with a positive dyadic Multiplier n/2^p, cur * n < 2^53 and Max * 2^p < 2^53 the
      float64 computation of incrementCurrentInterval IS the exact-rational one of the model *)
  Lemma fl_incr_exact cur : 0 <= cur -> cur * Z.pos np < two53 ->
    0 <= max_interval c -> max_interval c * Z.pos d < two53 ->
    fl_incr_interval rnd c cur = incr_interval c cur.
  Proof.
    intros H0 H1 H2 H3. unfold fl_incr_interval. rewrite (comparison_exact cur H2 H3).
    rewrite (incr_unfold c mult_pos). rewrite Hm. cbn [Qnum Qden].
    destruct (max_interval c * Z.pos d <=? cur * Z.pos np); [reflexivity|].
    rewrite <- Hm, (product_exact cur H0 H1). unfold Qtrunc. rewrite Hm. reflexivity.
  Qed.
End Exact.
