(** Well-formedness and key sets of metadata maps (model side, no proofs): a Go map has each key
    once; the model keeps the association list strictly sorted by key, which is also the
    canonical form the harness emits. *)
From WM Require Import Base.Prelude Handler.Poison.

Fixpoint meta_wf (m : meta) : bool :=
  match m with
  | [] => true
  | (k, _) :: m' => forallb (fun kv => N.ltb k (fst kv)) m' && meta_wf m'
  end.
Definition mkeys (m : meta) : list N := map fst m.

(** the events of a run without the filter calls *)
Definition no_filter_events (ev : list pevent) : list pevent :=
  filter (fun e => match e with PFilter _ => false | _ => true end) ev.
