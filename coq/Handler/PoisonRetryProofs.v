(** Proofs about Handler/PoisonRetry.v: PoisonQueue(Retry(h)) - a message is poisoned exactly
    when every attempt Retry made failed and the filter accepts the LAST attempt's error, which
    is then the reason; a success of any attempt passes through.  Uses C12's theorems about
    [Retry.retry] (RetryProofs) and C13's about [poison] (PoisonProofs); nothing is re-proved. *)
From WM Require Import Base.Prelude Message.Model Handler.RouterHandle Handler.RouterProofs
  Handler.Poison Handler.PoisonProofs Handler.PoisonRetry.
From WM Require Handler.Retry Handler.RetryProofs.

Section Proofs.
  Context (txt : err -> N) (errof : N -> err).
  Notation poison_retry := (poison_retry txt errof).
  Notation calls_of rc h env := (Retry.calls (Retry.r_trace (Retry.retry rc h env))).

  Lemma ppub_nil_dec (pp : ppub) : {pp = PPNil} + {pp <> PPNil}.
  Proof. destruct pp; [right; discriminate|right; discriminate|right; discriminate|left; reflexivity]. Qed.

  Lemma seq_S_inj n n' : seq 0 (S n) = seq 0 (S n') -> n = n'.
  Proof. intros H. apply (f_equal (@length nat)) in H. rewrite !seq_length in H. lia. Qed.

  (** some attempt succeeded: Retry returns the FIRST success; the poison queue passes it on
      unchanged, asks no filter, publishes nothing *)
  Lemma poison_retry_success cfg c0 m0 seen pre acts rc h env pp :
    Retry.is_ok (Retry.r_out (Retry.retry rc h env)) = true ->
    exists n, calls_of rc h env = seq 0 (S n)
              /\ Retry.is_ok (h n) = true /\ (forall j, j < n -> Retry.is_ok (h j) = false)
              /\ poison_retry cfg c0 m0 seen pre acts rc h env pp
                 = (MRet (fst (h n)) None, [], fst (run_acts acts (m0, c0))).
  Proof.
    intros Hok. destruct (RetryProofs.retry_first_success_wins rc h env Hok) as (n & Hc & Ho & Hn & Hj).
    exists n. repeat split; auto.
    unfold PoisonRetry.poison_retry, hout_of. rewrite Hok, Ho.
    now rewrite (poison_ret txt cfg c0 m0 seen (HS pre acts (HRet (fst (h n)))) pp (fst (h n)) eq_refl).
  Qed.

  (** every attempt made failed: the poison queue sees the LAST attempt's error (with the
      outputs Retry returns) - filter and reason are about that error *)
  Lemma poison_retry_all_failed cfg c0 m0 seen pre acts rc h env pp :
    Retry.is_ok (Retry.r_out (Retry.retry rc h env)) = false ->
    exists n, calls_of rc h env = seq 0 (S n)
              /\ (forall j, j <= n -> Retry.is_ok (h j) = false) /\ snd (h n) <> 0%N
              /\ poison_retry cfg c0 m0 seen pre acts rc h env pp
                 = poison txt cfg c0 m0 seen
                     (HS pre acts (HFail (errof (snd (h n))) (fst (Retry.r_out (Retry.retry rc h env))))) pp.
  Proof.
    intros Hf. destruct (RetryProofs.retry_error_is_last rc h env Hf) as (n & Hc & Hj & He & Hne).
    exists n. repeat split; auto.
    unfold PoisonRetry.poison_retry, hout_of. now rewrite Hf, He.
  Qed.

  (** THE composition clause.  With [n+1] the number of invocations Retry made:
      (1) something is published to the poison topic  iff  all n+1 attempts failed, the filter
          accepts the last attempt's error, the message has a metadata map and there is a poison
          publisher;
      (2) in that case it is exactly one Publish of the message with the same UUID, the payload
          and metadata the attempts left, and the four keys - the reason being the text of the
          LAST attempt's error;
      (3) and the chain reports success (so the Router acks) iff that publish was accepted *)
  Lemma poison_retry_exactly cfg c0 m0 seen pre acts rc h env pp n :
    calls_of rc h env = seq 0 (S n) ->
    let m := fst (run_acts acts (m0, c0)) in
    let c := snd (run_acts acts (m0, c0)) in
    let le := errof (snd (h n)) in
    let '(r, ev, mf) := poison_retry cfg c0 m0 seen pre acts rc h env pp in
    (poison_pubs ev <> [] <->
       (forall j, j <= n -> Retry.is_ok (h j) = false) /\ accepts cfg le = FYes
       /\ pm_meta m <> None /\ pp <> PPNil)
    /\ (forall md, (forall j, j <= n -> Retry.is_ok (h j) = false) -> accepts cfg le = FYes ->
          pm_meta m = Some md -> pp <> PPNil ->
          poison_pubs ev = [(pq_topic cfg, PM (pm_uuid m0) (pm_payload m) (Some (stamp c (txt le) md)))]
          /\ ((exists o, r = MRet o None) <-> pp = PPAccept)).
  Proof.
    intros Hcalls m c le.
    destruct (Retry.is_ok (Retry.r_out (Retry.retry rc h env))) eqn:Hok.
    - (* a success: nothing published, and attempt n succeeded *)
      destruct (poison_retry_success cfg c0 m0 seen pre acts rc h env pp Hok) as (n' & Hc & Hn & _ & Hp).
      rewrite Hc in Hcalls. apply seq_S_inj in Hcalls. subst n'. rewrite Hp. split.
      + split; [intros H; now elim H|]. intros (Hall & _). rewrite (Hall n (le_n n)) in Hn. discriminate.
      + intros md Hall. rewrite (Hall n (le_n n)) in Hn. discriminate.
    - destruct (poison_retry_all_failed cfg c0 m0 seen pre acts rc h env pp Hok) as (n' & Hc & Hall & Hne & Hp).
      rewrite Hc in Hcalls. apply seq_S_inj in Hcalls. subst n'. rewrite Hp. fold le.
      set (hs := HS pre acts (HFail le (fst (Retry.r_out (Retry.retry rc h env))))).
      pose proof (poison_at_most_once txt cfg c0 m0 seen hs pp) as A.
      destruct (accepts cfg le) eqn:Ha.
      + destruct (pm_meta m) as [md|] eqn:Hmd.
        * destruct (ppub_nil_dec pp) as [->|Hpp].
          -- pose proof (poison_unsalvageable txt cfg c0 m0 seen hs PPNil le _ eq_refl Ha (or_intror eq_refl)) as U.
             destruct (poison txt cfg c0 m0 seen hs PPNil) as [[r ev] mf]. destruct U as [_ U]. rewrite U.
             split; [split; [intros H; now elim H|intros (_ & _ & _ & H); now elim H]|].
             intros md' _ _ _ H. now elim H.
          -- pose proof (poison_accepted txt cfg c0 m0 seen hs pp le _ md eq_refl Ha Hmd Hpp) as P.
             simpl in P. fold m c in P.
             destruct (poison txt cfg c0 m0 seen hs pp) as [[r ev] mf].
             destruct P as (P1 & _ & _ & P4). rewrite P1. split.
             ++ split; [intros _; repeat split; auto; congruence|intros _; discriminate].
             ++ intros md' _ _ Hmd' _. assert (md' = md) by congruence. subst md'. split; [reflexivity|].
                destruct pp; try tauto.
                ** destruct P4 as (-> & _). split; eauto.
                ** destruct P4 as (-> & _). split; [intros [o Ho]; discriminate|discriminate].
                ** destruct P4 as (-> & _). split; [intros [o Ho]; discriminate|discriminate].
        * pose proof (poison_unsalvageable txt cfg c0 m0 seen hs pp le _ eq_refl Ha (or_introl Hmd)) as U.
          destruct (poison txt cfg c0 m0 seen hs pp) as [[r ev] mf]. destruct U as [_ U]. rewrite U.
          split; [split; [intros H; now elim H|intros (_ & _ & H & _); now elim H]|].
          intros md' _ _ H. discriminate.
      + rewrite (poison_filtered txt cfg c0 m0 seen hs pp le _ eq_refl Ha). simpl.
        split; [split; [intros H; now elim H|intros (_ & H & _); discriminate]|].
        intros md' _ H. discriminate.
      + pose proof (poison_filter_panics txt cfg c0 m0 seen hs pp le _ eq_refl (or_introl Ha)) as U.
        destruct (poison txt cfg c0 m0 seen hs pp) as [[r ev] mf]. destruct U as (_ & U & _). rewrite U.
        split; [split; [intros H; now elim H|intros (_ & H & _); discriminate]|].
        intros md' _ H. discriminate.
      + pose proof (poison_filter_panics txt cfg c0 m0 seen hs pp le _ eq_refl (or_intror Ha)) as U.
        destruct (poison txt cfg c0 m0 seen hs pp) as [[r ev] mf]. destruct U as (_ & U & _). rewrite U.
        split; [split; [intros H; now elim H|intros (_ & H & _); discriminate]|].
        intros md' _ H. discriminate.
  Qed.

  (** inside a Router: a message ACKED through  poison(retry(h))  was handled by some attempt
      (the first successful one, nothing poisoned), or ALL attempts failed, the filter accepts
      the last error and exactly one publish with that error as the reason was accepted *)
  Lemma poison_retry_router_acked cfg c0 m0 acts rc h env pp pk pb :
    let '(ms, tr, r, mf) := poison_retry_in_router txt errof cfg c0 m0 PreNone acts rc h env pp pk pb in
    st ms = Acked ->
    exists n, calls_of rc h env = seq 0 (S n)
      /\ ((Retry.is_ok (h n) = true /\ (forall j, j < n -> Retry.is_ok (h j) = false) /\ poison_pubs (pproj tr) = [])
          \/ ((forall j, j <= n -> Retry.is_ok (h j) = false)
              /\ accepts cfg (errof (snd (h n))) = FYes /\ pp = PPAccept /\ pub_oks (pproj tr) = 1
              /\ exists md, pm_meta (fst (run_acts acts (m0, c0))) = Some md
                   /\ poison_pubs (pproj tr) =
                        [(pq_topic cfg, PM (pm_uuid m0) (pm_payload (fst (run_acts acts (m0, c0))))
                                           (Some (stamp (snd (run_acts acts (m0, c0))) (txt (errof (snd (h n)))) md)))])).
  Proof.
    unfold poison_retry_in_router.
    set (hs := HS PreNone acts (hout_of errof (Retry.r_out (Retry.retry rc h env)))).
    pose proof (in_router_acked txt cfg c0 m0 hs pp pk pb eq_refl) as A.
    destruct (in_router txt cfg c0 m0 hs pp pk pb) as [[[ms tr] r] mf].
    intros Hack. destruct (A Hack) as (_ & [(outs & Ho & Hp)|(e & outs & md & Ho & Ha & Hpp & Hmd & Hp & Hk)]).
    - subst hs. simpl in Ho. unfold hout_of in Ho.
      destruct (Retry.is_ok (Retry.r_out (Retry.retry rc h env))) eqn:Hok; [|discriminate].
      destruct (RetryProofs.retry_first_success_wins rc h env Hok) as (n & Hc & _ & Hn & Hj).
      exists n. split; [exact Hc|]. left. auto.
    - subst hs. simpl in Ho, Hmd, Hp. unfold hout_of in Ho.
      destruct (Retry.is_ok (Retry.r_out (Retry.retry rc h env))) eqn:Hok; [discriminate|].
      destruct (RetryProofs.retry_error_is_last rc h env Hok) as (n & Hc & Hj & He & _).
      injection Ho as <- _. rewrite He in *.
      exists n. split; [exact Hc|]. right. repeat split; auto. exists md. auto.
  Qed.
End Proofs.
