(** Proofs: Retry composed with the Router's settlement rule (C02's [handle]). *)
From WM Require Import Base.Prelude Message.Model Message.Proofs Handler.RouterHandle Handler.RouterProofs
  Handler.Retry Handler.RetryProofs Handler.RetryRouter.
Open Scope Z_scope.

(** every error result of Retry — retries exhausted, context ended, MaxElapsedTime — makes the
    Router Nack the message, and nothing is published, not even the messages the failed attempts
    returned next to their errors (Retry hands them on with the error on a context exit) *)
Lemma retry_error_nacked pk pb c h e : is_ok (r_out (retry c h e)) = false ->
  retry_in_router pk pb c h e = Nacked
  /\ publishes (snd (handle pk pb (retry_chain c h e))) = [].
Proof.
  intros Hf. unfold retry_in_router, retry_chain, chain_of. rewrite Hf. split.
  - rewrite handle_final. reflexivity.
  - apply handle_no_publish_on_error. cbn. intros outs H. discriminate.
Qed.

(** a nil-error result is the result of the first successful attempt n; the Router publishes
    exactly that attempt's outputs (one call, in order; none if there are none or no real
    publisher) and Acks iff they were accepted *)
Lemma retry_success_in_router pk pb c h e : is_ok (r_out (retry c h e)) = true ->
  exists n, is_ok (h n) = true /\ (forall j, (j < n)%nat -> is_ok (h j) = false)
    /\ retry_chain c h e = CR PreNone (Ret (fst (h n)))
    /\ (retry_in_router pk pb c h e = Acked <-> handled_ok pk pb (CR PreNone (Ret (fst (h n)))) = true)
    /\ (retry_in_router pk pb c h e = Nacked <-> handled_ok pk pb (CR PreNone (Ret (fst (h n)))) = false)
    /\ publishes (snd (handle pk pb (retry_chain c h e))) = expected_publishes pk (CR PreNone (Ret (fst (h n)))).
Proof.
  intros Hok. destruct (retry_first_success_wins c h e Hok) as [n [_ [Ho [Hn Hb]]]].
  exists n. split; [exact Hn|]. split; [exact Hb|].
  assert (E : retry_chain c h e = CR PreNone (Ret (fst (h n)))).
  { unfold retry_chain, chain_of. rewrite Hok, Ho. reflexivity. }
  split; [exact E|]. unfold retry_in_router. rewrite E.
  destruct (handle_ack_iff pk pb (CR PreNone (Ret (fst (h n)))) eq_refl) as [A B].
  split; [exact A|]. split; [exact B|]. apply handle_publishes.
Qed.

(** Ack implies that some attempt succeeded; with every attempt failing the message is Nacked *)
Lemma retry_acked_only_if_handled pk pb c h e :
  retry_in_router pk pb c h e = Acked -> exists n, is_ok (h n) = true /\ r_out (retry c h e) = h n.
Proof.
  intros H. destruct (is_ok (r_out (retry c h e))) eqn:E.
  - apply retry_never_invents_success. exact E.
  - destruct (retry_error_nacked pk pb c h e E) as [N _]. rewrite N in H. discriminate.
Qed.
