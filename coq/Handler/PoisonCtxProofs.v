(** Proofs about Handler/PoisonCtx.v. *)
From WM Require Import Base.Prelude Handler.Poison Handler.PoisonProofs Handler.PoisonCtx.

(** as the code is now: whatever context the consumed message already carried (fresh, produced by
    another handler, anything), the poison queue names exactly the CONSUMING handler's subscribe
    topic, name and subscriber name - "" included - and all five readers answer with the
    consuming handler's values *)
Lemma ctx_names_consumer b p :
  add_handler_ctx true b p = RV (hc_name b) (hc_pubname b) (hc_subname b) (hc_subtopic b) (hc_pubtopic b)
  /\ poison_view (add_handler_ctx true b p) = RC (hc_subtopic b) (hc_name b) (hc_subname b).
Proof. split; reflexivity. Qed.

Lemma ctx_consumed via b :
  poison_view (consumed_ctx true via b) = RC (hc_subtopic b) (hc_name b) (hc_subname b).
Proof. reflexivity. Qed.

(** the keys written for a message consumed by [b], whatever its history *)
Lemma ctx_stamped via b reason md :
  mget K_TOPIC (stamp (poison_view (consumed_ctx true via b)) reason md) = Some (hc_subtopic b)
  /\ mget K_HANDLER (stamp (poison_view (consumed_ctx true via b)) reason md) = Some (hc_name b)
  /\ mget K_SUB (stamp (poison_view (consumed_ctx true via b)) reason md) = Some (hc_subname b).
Proof. rewrite ctx_consumed. destruct (stamp_spec (RC (hc_subtopic b) (hc_name b) (hc_subname b)) reason md) as (_ & A & B & C & _). auto. Qed.

(** a message fresh from a subscriber was always fine, also before the fix ... *)
Lemma set_ne_background x : set_ne x 0 = x.
Proof. unfold set_ne. destruct (N.eqb_spec x 0); congruence. Qed.

Lemma ctx_fresh_any_variant fixed b :
  poison_view (consumed_ctx fixed None b) = RC (hc_subtopic b) (hc_name b) (hc_subname b).
Proof.
  destruct fixed; [reflexivity|]. unfold consumed_ctx, poison_view, add_handler_ctx, set_v. simpl.
  now rewrite !set_ne_background.
Qed.

(** ... but the pinned behaviour named the WRONG subscriber for the object a handler [a]
    produced when the consuming handler's subscriber has an empty name: [a]'s *)
Lemma ctx_pinned_inherits a b :
  hc_subname b = 0%N ->
  rc_sub (poison_view (consumed_ctx false (Some a) b)) = hc_subname a.
Proof.
  intros H. unfold consumed_ctx, poison_view, add_handler_ctx, set_v. simpl. rewrite H.
  unfold set_ne at 1. simpl. apply set_ne_background.
Qed.

Lemma ctx_pinned_refuted :
  exists a b, poison_view (consumed_ctx false (Some a) b) <> RC (hc_subtopic b) (hc_name b) (hc_subname b).
Proof. exists (HC 1 2 3 4 5), (HC 6 7 0 8 9). vm_compute. discriminate. Qed.
