(** Proofs about Handler/RetrySystem.v: per-message independence (C12, round "proofs"). *)
From WM Require Import Base.Prelude Handler.Retry Handler.RetrySystem.
From Coq Require Import QArith Lia.
Open Scope Z_scope.

(** the loop consults the oracles only at indices >= k *)
Lemma loop_ext c h sl1 sl2 : forall rem k cur now last,
  (forall j, (k <= j)%nat -> sl1 j = sl2 j) ->
  loop c h sl1 rem k cur now last = loop c h sl2 rem k cur now last.
Proof.
  induction rem as [|rem IH]; intros k cur now last H; [reflexivity|].
  cbn [loop]. rewrite (H k (le_n k)).
  destruct (next_backoff c cur (s_elapsed (sl2 k)) (s_rnd (sl2 k))) as [wait cur'].
  destruct (s_ctx (sl2 k)); [reflexivity|]. destruct (is_ok (h k)); [reflexivity|].
  rewrite (IH (S k) cur' _ (h k)); [reflexivity|]. intros j Hj. apply H. lia.
Qed.

Lemma mrun_cons c h e s t times :
  mrun c h e s (t :: times) = mrun c h e (fst (mstep false c h e 0 s t)) times.
Proof. reflexivity. Qed.

Lemma mrun_done c h e r times : mrun c h e (MDone r) times = MDone r.
Proof. induction times as [|t times IH]; [reflexivity|]. rewrite mrun_cons. exact IH. Qed.

Lemma same_but_gap_refl s : same_but_gap s s.
Proof. repeat split. Qed.

Lemma same_but_gap_set s g : same_but_gap (set_gap s g) s.
Proof. repeat split. Qed.

Lemma prefix_run_nil tr ws o t : prefix_run tr ws (Run o t [] []) = Run o t tr ws.
Proof. unfold prefix_run. cbn. rewrite !app_nil_r. reflexivity. Qed.

(** one message alone, from the head of the loop: when it has returned, what it did is what the
    big-step [loop] does for oracles that differ from the given ones only in the gaps (those are
    dictated by the instants of the steps) *)
Lemma mrun_loop c h e : forall times rem k cur now last tr ws r,
  mrun c h e (MLoop rem k cur now last tr ws) times = MDone r ->
  exists sl', (forall j, same_but_gap (sl' j) (e_sel e j))
              /\ r = prefix_run tr ws (loop c h sl' rem k cur now last).
Proof.
  induction times as [|t times IH]; intros rem k cur now last tr ws r H; [discriminate|].
  rewrite mrun_cons in H.
  destruct rem as [|rem'].
  - cbn [mstep fst] in H. unfold finish in H. rewrite mrun_done in H. injection H as <-.
    exists (e_sel e). split; [intros; apply same_but_gap_refl|].
    cbn [loop]. rewrite prefix_run_nil. reflexivity.
  - cbn [mstep] in H.
    set (s := set_gap (e_sel e k) (t - now)) in *.
    set (sl0 := fun j => if Nat.eqb j k then s else e_sel e j).
    assert (Hsl0 : forall j, same_but_gap (sl0 j) (e_sel e j)).
    { intros j. unfold sl0. destruct (Nat.eqb_spec j k) as [->|]; [apply same_but_gap_set|apply same_but_gap_refl]. }
    assert (Hk : sl0 k = s) by (unfold sl0; rewrite Nat.eqb_refl; reflexivity).
    assert (Ht : now + s_gap s = t) by (unfold s; cbn; lia).
    destruct (next_backoff c cur (s_elapsed s) (s_rnd s)) as [wait cur'] eqn:NB.
    destruct (s_ctx s) eqn:Ec.
    + cbn [fst] in H. unfold finish in H. rewrite mrun_done in H. injection H as <-.
      exists sl0. split; [exact Hsl0|]. cbn [loop]. rewrite Hk, NB, Ec, Ht.
      unfold prefix_run. cbn [r_out r_tret r_trace r_waits]. rewrite ?app_nil_r. reflexivity.
    + destruct (is_ok (h k)) eqn:Eo.
      * cbn [fst] in H. unfold finish in H. rewrite mrun_done in H. injection H as <-.
        exists sl0. split; [exact Hsl0|]. cbn [loop]. rewrite Hk, NB, Ec, Eo, Ht.
        unfold prefix_run. cbn [r_out r_tret r_trace r_waits]. rewrite ?app_nil_r. reflexivity.
      * destruct rem' as [|rem''].
        -- cbn [fst] in H. unfold finish in H. rewrite mrun_done in H. injection H as <-.
           exists sl0. split; [exact Hsl0|]. cbn [loop]. rewrite Hk, NB, Ec, Eo, Ht.
           unfold prefix_run. cbn [r_out r_tret r_trace r_waits]. rewrite !app_nil_r. reflexivity.
        -- cbn [fst] in H.
           destruct (IH _ _ _ _ _ _ _ _ H) as [sl1 [H1 H2]].
           set (sl' := fun j => if Nat.eqb j k then s else sl1 j).
           exists sl'. split.
           { intros j. unfold sl'. destruct (Nat.eqb_spec j k) as [->|]; [apply same_but_gap_set|apply H1]. }
           assert (Hk' : sl' k = s) by (unfold sl'; rewrite Nat.eqb_refl; reflexivity).
           rewrite H2. remember (S rem'') as rr eqn:Err. cbn [loop]. rewrite Hk', NB, Ec, Eo, Ht.
           rewrite (loop_ext c h sl' sl1 rr (S k)).
           2:{ intros j Hj. unfold sl'. destruct (Nat.eqb_spec j k); [lia|reflexivity]. }
           unfold prefix_run. cbn [r_out r_tret r_trace r_waits].
           rewrite <- !app_assoc. reflexivity.
Qed.

(** ... and from the start: a message that has returned did exactly what [retry] does in an
    environment that differs from the given one only in the instant of the first attempt and in
    the gaps *)
Lemma mrun_retry c h e t0 times r :
  mrun c h e MInit (t0 :: times) = MDone r ->
  exists e', e_t0 e' = t0 /\ same_but_times e' e /\ r = retry c h e'.
Proof.
  rewrite mrun_cons. cbn [mstep]. unfold retry.
  destruct (is_ok (h O)) eqn:E0.
  - cbn [fst]. unfold finish. rewrite mrun_done. intros H. injection H as <-.
    exists (set_t0 e t0). split; [reflexivity|]. split.
    { repeat split. }
    cbn. rewrite ?E0. reflexivity.
  - cbn [fst]. intros H. destruct (mrun_loop c h e _ _ _ _ _ _ _ _ _ H) as [sl' [H1 H2]].
    exists (set_sel (set_t0 e t0) sl'). split; [reflexivity|]. split.
    { repeat split; apply H1. }
    rewrite H2. cbn [e_sel set_sel set_t0]. rewrite ?E0. unfold prefix_run, t_reset, t_end0. cbn. reflexivity.
Qed.

(** a step of a message never depends on the shared cell when the back-off state is local *)
Lemma mstep_local c h e g g' s t :
  fst (mstep false c h e g s t) = fst (mstep false c h e g' s t).
Proof.
  destruct s as [|rem k cur now last tr ws|r]; cbn [mstep].
  - destruct (is_ok (h O)); reflexivity.
  - destruct rem as [|rem']; [reflexivity|].
    destruct (next_backoff c cur _ _) as [wait cur'].
    destruct (s_ctx _); [reflexivity|]. destruct (is_ok (h k)); [reflexivity|].
    destruct rem'; reflexivity.
  - reflexivity.
Qed.

Lemma srun_cons sh c hs es st x sched :
  srun sh c hs es st (x :: sched) = srun sh c hs es (sstep sh c hs es st x) sched.
Proof. reflexivity. Qed.

(** INTERLEAVING THEOREM: in the system with per-message back-off state, after ANY schedule the
    state of message i is what message i reaches alone on the instants of its own steps *)
Lemma srun_independent c hs es : forall sched st i,
  g_msgs (srun false c hs es st sched) i = mrun c (hs i) (es i) (g_msgs st i) (times_of i sched).
Proof.
  induction sched as [|[j t] sched IH]; intros st i; [reflexivity|].
  rewrite srun_cons, IH.
  unfold times_of. cbn [filter fst].
  unfold sstep at 1.
  destruct (mstep false c (hs j) (es j) (g_cur st) (g_msgs st j) t) as [m' g'] eqn:E.
  cbn [g_msgs]. destruct (Nat.eqb_spec j i) as [->|Hne].
  - rewrite upd_same. cbn [map snd]. rewrite mrun_cons.
    f_equal. rewrite (mstep_local c (hs i) (es i) 0 (g_cur st)), E. reflexivity.
  - rewrite upd_other by (intros ->; apply Hne; reflexivity). reflexivity.
Qed.

(** N concurrent messages = N independent runs: every message that has returned, in any
    interleaving with any other messages, did what [retry] does for it alone (same handler script,
    same oracle values; instants taken from the shared clock) *)
Lemma system_runs_are_retry_runs c hs es sched i r :
  g_msgs (srun false c hs es sinit sched) i = MDone r ->
  exists t0 e', In (i, t0) sched /\ e_t0 e' = t0 /\ same_but_times e' (es i) /\ r = retry c (hs i) e'.
Proof.
  rewrite srun_independent. cbn [sinit g_msgs].
  destruct (times_of i sched) as [|t0 times] eqn:ET; [discriminate|].
  intros H. destruct (mrun_retry c (hs i) (es i) t0 times r H) as [e' [A [B C]]].
  exists t0, e'. split; [|auto].
  unfold times_of in ET.
  assert (In t0 (map snd (filter (fun x => Nat.eqb (fst x) i) sched))) as Hin by (rewrite ET; left; reflexivity).
  apply in_map_iff in Hin as [[j t] [Hs Hf]]. apply filter_In in Hf as [Hf1 Hf2].
  cbn in Hs, Hf2. apply Nat.eqb_eq in Hf2. subst. exact Hf1.
Qed.

(** the hoisted back-off value (shared = true) is NOT independent: message 1 failing (Reset)
    between two retries of message 0 sets message 0's interval back — message 0 then reports
    5, 5, 10 ms instead of the 5, 10, 20 ms it gets alone on the same instants *)
Lemma shared_backoff_not_independent :
  exists c hs es sched i r r',
    g_msgs (srun true c hs es sinit sched) i = MDone r
    /\ mrun c (hs i) (es i) MInit (times_of i sched) = MDone r'
    /\ hooks (r_trace r) = [(1, 5); (2, 5); (3, 10)]
    /\ hooks (r_trace r') = [(1, 5); (2, 10); (3, 20)].
Proof.
  exists (Cfg 3 5 100 2 0 0 true false), (fun _ _ => ([], 7%N)),
         (fun _ => Env 0 0 0 0 None None (fun _ => Sel 0 0 0 false 0 0)),
         [(0%nat, 0); (0%nat, 10); (1%nat, 12); (0%nat, 30); (0%nat, 60)], 0%nat.
  eexists. eexists. split; [vm_compute; reflexivity|]. split; [vm_compute; reflexivity|].
  split; vm_compute; reflexivity.
Qed.
