(** How the acceptor of the PoisonQueue(Retry(h)) scenario reads the poison queue's "handler"
    (= Retry around h) off an OBSERVATION, without running C12's model: the last invocation made
    decides - it succeeded (its outputs are the result) or failed (Retry hands on its error; which
    outputs it hands on is Retry's business and is taken from the observed chain result; after a
    panic they are unknowable and irrelevant).  No proofs here. *)
From WM Require Import Base.Prelude Message.Model Handler.RouterHandle Handler.Poison.
From WM Require Handler.Retry.

Definition res_outs (r : mwres N) : list N := match r with MRet o _ => o | MPanic => [] end.

Definition obs_hout (errof : N -> err) (script : nat -> Retry.outcome) (calls : nat) (r : mwres N) : hout N :=
  let o := script (pred calls) in
  if Retry.is_ok o then HRet (fst o) else HFail (errof (snd o)) (res_outs r).

Definition obs_h (errof : N -> err) (script : nat -> Retry.outcome) (calls : nat) (acts : list hact) (r : mwres N) : hscript N :=
  HS PreNone acts (obs_hout errof script calls r).
