(** C12 — model of message/router/middleware/retry.go (Retry.Middleware) and of the part of
    github.com/cenkalti/backoff/v3 it uses (ExponentialBackOff.Reset / NextBackOff /
    incrementCurrentInterval / getRandomValueFromInterval).  No proofs in this file.

    One call of the wrapped handler on ONE message is a pure function of
      - the configuration [cfg] (the fields of the Retry struct),
      - the handler script [h : nat -> outcome] (what the k-th invocation of h returns),
      - an environment [env]: the clock, the random source and the resolution of the [select]
        between [ctx.Done()] and [time.After(wait)] — oracles, constrained by [env_ok].
    Every invocation builds its own back-off state (retry.go l.46-61), so nothing is shared
    between messages: the model is per message by construction and the harness checks that the
    implementation is, too.

    Durations and instants are [Z] nanoseconds; Multiplier, RandomizationFactor and the random
    number are exact rationals [Q] (the harness only compares configurations on which float64
    arithmetic is exact up to 1 ns).  Multiplier <= 0, negative intervals, MaxInterval <
    InitialInterval and a negative MaxElapsedTime are modelled as coded (nothing is validated);
    outside the model: float64/int64 overflow (|values| >= 2^63) and IEEE rounding. *)
From WM Require Import Base.Prelude.
From Coq Require Import QArith Qround.
Open Scope Z_scope.

(** ** configuration *)
Record cfg := Cfg {
  max_retries : Z; initial : Z; max_interval : Z; mult : Q; max_elapsed : Z; rfac : Q;
  has_hook : bool; has_log : bool
}.

(** ** backoff/v3 exponential.go *)
Definition STOP : Z := -1.

(** [time.Duration(f)] for a float f: truncation toward zero *)
Definition Qtrunc (x : Q) : Z := Z.quot (Qnum x) (Zpos (Qden x)).

(** incrementCurrentInterval, as coded for EVERY Multiplier (the code validates nothing):
    [if float64(cur) >= float64(Max)/Multiplier then Max else Duration(float64(cur)*Multiplier)].
    For Multiplier = n/d the test [cur >= Max/(n/d)] is cur*n >= Max*d when n > 0 and
    cur*n <= Max*d when n < 0 (multiplying by a negative number); for n = 0 the float division
    gives +Inf (Max > 0: never reached), NaN (Max = 0: every comparison false) or -Inf
    (Max < 0: always reached) *)
Definition capped (c : cfg) (cur : Z) : bool :=
  match Qnum (mult c) ?= 0 with
  | Gt => max_interval c * Zpos (Qden (mult c)) <=? cur * Qnum (mult c)
  | Lt => cur * Qnum (mult c) <=? max_interval c * Zpos (Qden (mult c))
  | Eq => max_interval c <? 0
  end.
Definition incr_interval (c : cfg) (cur : Z) : Z :=
  if capped c cur then max_interval c else Qtrunc (inject_Z cur * mult c).

(** getRandomValueFromInterval(rf, random, cur) *)
Definition rv_min (rf : Q) (cur : Z) : Q := inject_Z cur - rf * inject_Z cur.
Definition rv_max (rf : Q) (cur : Z) : Q := inject_Z cur + rf * inject_Z cur.
Definition rand_value (rf rnd : Q) (cur : Z) : Z :=
  Qtrunc (rv_min rf cur + rnd * (rv_max rf cur - rv_min rf cur + 1)).

(** NextBackOff: (value returned, new currentInterval).  [elapsed] = GetElapsedTime() *)
Definition stops (c : cfg) (elapsed : Z) : bool :=
  negb (max_elapsed c =? 0) && (max_elapsed c <? elapsed).
Definition next_backoff (c : cfg) (cur elapsed : Z) (rnd : Q) : Z * Z :=
  if stops c elapsed then (STOP, cur)
  else (rand_value (rfac c) rnd cur, incr_interval c cur).

(** the interval generator without Stop: currentInterval before the k-th NextBackOff (k >= 1) *)
Fixpoint cur_at (c : cfg) (k : nat) : Z :=
  match k with
  | O => initial c
  | S O => initial c
  | S k' => incr_interval c (cur_at c k')
  end.

(** bounds of the randomised value: every value lies in [lo, hi] *)
Definition delay_lo (rf : Q) (cur : Z) : Z := Qfloor (rv_min rf cur).
Definition delay_hi (rf : Q) (cur : Z) : Z := Qceiling (rv_max rf cur).

(** ** handler outcomes, events, result *)
(** what an invocation of h returns: (ids of produced messages, error id; 0 = nil error) *)
Definition outcome := (list N * N)%type.
Definition is_ok (o : outcome) : bool := N.eqb (snd o) 0.

Inductive event :=
| ECall (k : nat) (ts te : Z)          (* k-th invocation of h: start and end instants *)
| ELog (n d mr : Z)                    (* Logger.Error fields retry_no, wait_time, max_retries *)
| EHook (n d : Z).                     (* OnRetryHook(retryNum, delay) *)

(** one iteration of the retry loop as the model saw it (not observable from outside; the
    theorems about the back-off schedule and the waits are stated over these records) *)
Record witem := WItem {
  w_k : nat;        (* retryNum *)
  w_cur : Z;        (* currentInterval when NextBackOff was called *)
  w_wait : Z;       (* what NextBackOff returned *)
  w_prev : Z;       (* instant the previous attempt (and its hook) ended *)
  w_tnb : Z;        (* instant of NextBackOff / of entering the select *)
  w_twake : Z;      (* instant the select returned *)
  w_ctx : bool      (* it returned through <-ctx.Done() *)
}.

Record run := Run { r_out : outcome; r_tret : Z; r_trace : list event; r_waits : list witem }.

(** ** environment (oracles) *)
Record sel := Sel {
  s_gap : Z;        (* from the end of the previous attempt (+ hook) to NextBackOff *)
  s_elapsed : Z;    (* GetElapsedTime() seen by NextBackOff *)
  s_rnd : Q;        (* rand.Float64() *)
  s_ctx : bool;     (* the select took [<-ctx.Done()] *)
  s_wake : Z;       (* from NextBackOff to the select returning *)
  s_dur : Z         (* duration of the handler invocation that follows *)
}.
Record env := Env {
  e_t0 : Z; e_dur0 : Z;          (* first attempt: start instant, duration *)
  e_ctx_gap : Z;                 (* end of first attempt -> context.WithTimeout *)
  e_reset_gap : Z;               (* end of first attempt -> expBackoff.Reset() (>= e_ctx_gap) *)
  e_cancel : option Z;           (* instant at which the message context is cancelled *)
  e_lag : option Z;              (* Done of the timeout context closes this long after the deadline *)
  e_sel : nat -> sel
}.

Definition notes (c : cfg) (k : nat) (wait : Z) : list event :=
  (if has_log c then [ELog (Z.of_nat k) wait (max_retries c)] else [])
  ++ (if has_hook c then [EHook (Z.of_nat k) wait] else []).

(** number of iterations of the retry loop: the body runs, then [retryNum++; if retryNum >
    MaxRetries break] — at least once, also for MaxRetries <= 0 *)
Definition iterations (c : cfg) : nat := Z.to_nat (Z.max 1 (max_retries c)).

(** the retry loop (retry.go l.62-95); [rem] iterations left, [k] = retryNum, [last] = what
    the previous attempt returned, [now] = instant the previous attempt (and hook) ended *)
Fixpoint loop (c : cfg) (h : nat -> outcome) (sl : nat -> sel)
         (rem k : nat) (cur now : Z) (last : outcome) : run :=
  match rem with
  | O => Run ([], snd last) now [] []                            (* return nil, err *)
  | S rem' =>
    let s := sl k in
    let tnb := now + s_gap s in
    let '(wait, cur') := next_backoff c cur (s_elapsed s) (s_rnd s) in
    let it := WItem k cur wait now tnb (tnb + s_wake s) (s_ctx s) in
    if s_ctx s then Run last (tnb + s_wake s) [] [it]            (* return producedMessages, err *)
    else
      let ts := tnb + s_wake s in
      let te := ts + s_dur s in
      let o := h k in
      if is_ok o then Run o te [ECall k ts te] [it]
      else
        let r := loop c h sl rem' (S k) cur' te o in
        Run (r_out r) (r_tret r) (ECall k ts te :: notes c k wait ++ r_trace r) (it :: r_waits r)
  end.

Definition t_end0 (e : env) : Z := e_t0 e + e_dur0 e.
Definition t_reset (e : env) : Z := t_end0 e + e_reset_gap e.

Definition retry (c : cfg) (h : nat -> outcome) (e : env) : run :=
  let o := h O in
  if is_ok o then Run o (t_end0 e) [ECall O (e_t0 e) (t_end0 e)] []
  else
    let r := loop c h (e_sel e) (iterations c) 1 (initial c) (t_reset e) o in
    Run (r_out r) (r_tret r) (ECall O (e_t0 e) (t_end0 e) :: r_trace r) (r_waits r).

(** ** the contract of the oracles (clock, timers, contexts, select) *)
Definition min_opt (a b : option Z) : option Z :=
  match a, b with
  | Some x, Some y => Some (Z.min x y)
  | Some x, None => Some x
  | None, b => b
  end.
(** instant at which [ctx.Done()] becomes ready: cancellation of the message context closes it
    at once; the timeout context (only if MaxElapsedTime > 0) closes it no earlier than its
    deadline = creation + MaxElapsedTime *)
Definition t_done (c : cfg) (e : env) : option Z :=
  min_opt (e_cancel e)
          (if 0 <? max_elapsed c
           then option_map (fun l => t_end0 e + e_ctx_gap e + max_elapsed c + l) (e_lag e)
           else None).

Definition Qin01 (q : Q) : bool := Qle_bool 0 q && negb (Qle_bool 1 q).

(** one select: which case may fire and when.  Ready cases at the instant of the select win;
    otherwise the first to become ready (a tie: either) *)
Definition sel_ok (td : option Z) (treset tnb wait : Z) (s : sel) : bool :=
  (0 <=? s_gap s) && (0 <=? s_wake s) && (0 <=? s_dur s) && Qin01 (s_rnd s)
  && (s_elapsed s =? tnb - treset)
  && (if s_ctx s
      then match td with
           | Some t => (t <=? tnb + s_wake s) && (t <=? tnb + Z.max wait 0)
           | None => false
           end
      else (wait <=? s_wake s)
           && ((wait <=? 0) || match td with Some t => tnb + wait <=? t | None => true end)).

Fixpoint loop_ok (c : cfg) (h : nat -> outcome) (sl : nat -> sel) (td : option Z) (treset : Z)
         (rem k : nat) (cur now : Z) : bool :=
  match rem with
  | O => true
  | S rem' =>
    let s := sl k in
    let tnb := now + s_gap s in
    let '(wait, cur') := next_backoff c cur (s_elapsed s) (s_rnd s) in
    sel_ok td treset tnb wait s
    && (if s_ctx s then true
        else if is_ok (h k) then true
        else loop_ok c h sl td treset rem' (S k) cur' (tnb + s_wake s + s_dur s))
  end.

Definition env_ok (c : cfg) (h : nat -> outcome) (e : env) : bool :=
  (0 <=? e_dur0 e) && (0 <=? e_ctx_gap e) && (e_ctx_gap e <=? e_reset_gap e)
  && match e_lag e with Some l => 0 <=? l | None => true end
  && (if is_ok (h O) then true
      else loop_ok c h (e_sel e) (t_done c e) (t_reset e) (iterations c) 1 (initial c) (t_reset e)).

(** configurations the theorems talk about *)
Definition cfg_ok (c : cfg) : Prop :=
  0 <= initial c /\ 0 <= max_interval c /\ (0 < mult c)%Q /\ (0 <= rfac c)%Q /\ (rfac c <= 1)%Q
  /\ 0 <= max_elapsed c.

(** ** projections of a trace *)
Definition calls (tr : list event) : list nat :=
  flat_map (fun e => match e with ECall k _ _ => [k] | _ => [] end) tr.
Definition hooks (tr : list event) : list (Z * Z) :=
  flat_map (fun e => match e with EHook n d => [(n, d)] | _ => [] end) tr.
Definition logs (tr : list event) : list (Z * Z * Z) :=
  flat_map (fun e => match e with ELog n d m => [(n, d, m)] | _ => [] end) tr.
Definition attempts (tr : list event) : nat := length (calls tr).
(** the error value each Logger.Error call is given: [err] of the attempt that just failed,
    i.e. of invocation retry_no (retry.go l.78: the same variable the loop returns at the end) *)
Definition log_errs (h : nat -> outcome) (tr : list event) : list N :=
  map (fun x => snd (h (Z.to_nat (fst (fst x))))) (logs tr).

Fixpoint seq_from (k n : nat) : list nat :=
  match n with O => [] | S n' => k :: seq_from (S k) n' end.

(** ** select races lost to the timer.  When [ctx.Done()] is already ready at the instant the
    select is entered, the timer case can only be taken if it is ready too (wait <= 0: a zero
    back-off, Stop) — Go then chooses uniformly at random, so every such iteration is a coin
    flip between giving up and one more retry.  [lost_races] counts the iterations of a run in
    which the coin fell on the timer.  The model admits any number of them; the probability of
    K in a row is 2^-K (Props: C12_zero_wait_race_count), and the "fair select" contract
    [lost_races <= K] is what the timely-give-up clause needs for zero waits. *)
Definition ctx_ready_at (td : option Z) (t : Z) : bool :=
  match td with Some d => d <=? t | None => false end.
Definition lost_race (td : option Z) (it : witem) : bool :=
  negb (w_ctx it) && ctx_ready_at td (w_tnb it).
Definition lost_races (td : option Z) (ws : list witem) : nat :=
  length (filter (lost_race td) ws).
