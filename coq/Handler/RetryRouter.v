(** C12 x C02: Retry as a middleware of a Router handler.  What the Router's handleMessage
    (Handler/RouterHandle.v, [handle]) does with the result of the Retry-wrapped handler for one
    message.  Retry never settles the message itself and does not recover panics (out of scope),
    so the chain result is [CR PreNone (Ret outs | Fail outs)].  No proofs here. *)
From WM Require Import Base.Prelude Message.Model Handler.RouterHandle Handler.Retry.
Open Scope Z_scope.

Definition chain_of (o : Retry.outcome) : chain_result N :=
  CR PreNone (if is_ok o then Ret (fst o) else Fail (fst o)).

Definition retry_chain (c : cfg) (h : nat -> Retry.outcome) (e : env) : chain_result N :=
  chain_of (r_out (retry c h e)).

(** final settlement of the consumed message when Retry sits in a handler with publisher kind
    [pk] whose publisher behaves as [pb] *)
Definition retry_in_router (pk : pubkind) (pb : pubbeh) (c : cfg) (h : nat -> Retry.outcome) (e : env)
  : settle := st (fst (handle pk pb (retry_chain c h e))).
