(** C12, round "proofs 3": where float64 arithmetic enters backoff/v3 and when it matters.
    The exact-rational model (Handler/Retry.v) computes [incrementCurrentInterval] over Q; Go
    computes  float64(cur) >= float64(Max)/Multiplier  and  Duration(float64(cur)*Multiplier).
    Here the float computation is modelled with an explicit rounding oracle [rnd : Q -> Q]
    (round-to-nearest of IEEE-754 binary64) constrained by its two standard properties:
    a representable value is returned unchanged, and the result is within |x| * 2^-53 of x
    (exponent range / overflow / subnormals are outside: |values| far below 2^1023).
    A float64 Multiplier is always a dyadic rational n / 2^p (the Q value of the model IS the
    float's value); the theorems of Handler/RetryFloatProofs.v say exactly when the rounded
    computation agrees with the exact one.  No proofs in this file. *)
From WM Require Import Base.Prelude Handler.Retry.
From Coq Require Import QArith Qround.
Open Scope Z_scope.

Definition two53 : Z := 2 ^ 53.
Definition pow2 (p : nat) : positive := Pos.shiftl_nat 1 p.

(** x = mant * 2^a / 2^b with |mant| < 2^53 *)
Definition f64_rep (x : Q) : Prop :=
  exists (mant : Z) (a b : nat), Z.abs mant < two53 /\ (x == (mant * 2 ^ Z.of_nat a) # pow2 b)%Q.

Definition dyadic (m : Q) : Prop := exists p, Qden m = pow2 p.

Definition eps53 : Q := 1 # (Z.to_pos two53).

Section Float.
  Variable rnd : Q -> Q.

  (** the contract of round-to-nearest *)
  Definition rnd_ok : Prop :=
    (forall x y, (x == y)%Q -> (rnd x == rnd y)%Q)
    /\ (forall x, f64_rep x -> (rnd x == x)%Q)
    /\ (forall x, (0 <= x)%Q -> (x - x * eps53 <= rnd x)%Q /\ (rnd x <= x + x * eps53)%Q).

  (** incrementCurrentInterval as the Go code computes it (Multiplier > 0, operands >= 0) *)
  Definition fl_incr_interval (c : cfg) (cur : Z) : Z :=
    if Qle_bool (rnd (inject_Z (max_interval c) / mult c)) (inject_Z cur)
    then max_interval c
    else Qtrunc (rnd (inject_Z cur * mult c)).
End Float.
