(** Proofs about Handler/RouterLoop.v: handler.run with any number of messages in flight, for
    EVERY schedule. *)
From WM Require Import Base.Prelude Base.Count Message.Model Message.Proofs
  Handler.RouterHandle Handler.RouterProofs Handler.RouterFrom Handler.RouterFromProofs
  Handler.RouterLoop.

Section Proofs.
  Context {M : Type}.
  Variable pk : pubkind.
  Notation lstate := (lstate M).
  Notation lmsg := (lmsg M).
  Notation gevent := (gevent M).
  Implicit Types (s : lstate) (x : lmsg) (log : list gevent).

  (** ** small facts about the projections *)
  Lemma eqb_neq_false a b : a <> b -> Nat.eqb a b = false.
  Proof. intros H. now apply Nat.eqb_neq. Qed.

  Lemma nth_error_snoc {A} (l : list A) (x y : A) i :
    nth_error (l ++ [x]) i = Some y ->
    (i < length l /\ nth_error l i = Some y) \/ (i = length l /\ y = x).
  Proof.
    intros H. destruct (Nat.lt_ge_cases i (length l)) as [Hlt|Hge].
    - left. split; [exact Hlt|]. now rewrite nth_error_app1 in H.
    - right. rewrite nth_error_app2 in H by exact Hge.
      destruct (i - length l) as [|k] eqn:E.
      + simpl in H. inversion H. split; [lia|reflexivity].
      + simpl in H. destruct k; discriminate.
  Qed.

  Lemma nth_error_lt {A} (l : list A) i : i < length l -> exists a, nth_error l i = Some a.
  Proof.
    intros H. destruct (nth_error l i) eqn:E; [eauto|].
    apply nth_error_None in E. lia.
  Qed.

  Lemma publishes_app (a b : list (hevent M)) : publishes (a ++ b) = publishes a ++ publishes b.
  Proof. unfold publishes. apply flat_map_app. Qed.

  Lemma pub_proj_pubs_of i (log : list gevent) : pub_proj i (pubs_of log) = publishes (proj i log).
  Proof.
    induction log as [|g log IH]; [reflexivity|].
    simpl proj. rewrite publishes_app, <- IH.
    destruct g as [j|j e|j|]; simpl; rewrite ?app_nil_r; try reflexivity.
    destruct e; simpl; destruct (Nat.eqb j i); simpl; rewrite ?app_nil_r; reflexivity.
  Qed.

  Lemma in_pub_proj i (outs : list M) pub : In (i, outs) pub -> In outs (pub_proj i pub).
  Proof.
    induction pub as [|[j o] pub IH]; intros H; [destruct H|].
    simpl. apply in_or_app. destruct H as [H|H].
    - inversion H; subst. right. rewrite Nat.eqb_refl. now left.
    - left. now apply IH.
  Qed.

  Lemma list_eqb_nat_refl (l : list nat) : list_eqb Nat.eqb l l = true.
  Proof. induction l as [|a l IH]; simpl; [reflexivity|]. now rewrite Nat.eqb_refl, IH. Qed.

  Lemma in_range_mono n (g : gevent) : in_range n g = true -> in_range (S n) g = true.
  Proof.
    destruct g; simpl; try reflexivity; intros H; apply Nat.ltb_lt in H; apply Nat.ltb_lt; lia.
  Qed.

  (** [expected_publishes] is at most one batch *)
  Lemma expected_publishes_prefix (r : chain_result M) (a b : list (list M)) outs :
    a ++ b = expected_publishes pk r -> In outs a -> expected_publishes pk r = [outs] /\ a = [outs].
  Proof.
    unfold expected_publishes. intros H Hin.
    destruct (cr_out r) as [[|y l]| |]; try (destruct a; [destruct Hin|discriminate]).
    destruct pk; try (destruct a; [destruct Hin|discriminate]).
    destruct a as [|a0 [|a1 a]]; [destruct Hin| |destruct b; discriminate].
    simpl in H. inversion H; subst. destruct Hin as [->|[]]. split; reflexivity.
  Qed.

  (** ** the invariant *)
  Record LInv (inbox0 : list lmsg) s : Prop := {
    li_in : exists dropped, l_msgs s ++ l_inbox s ++ dropped = inbox0;
    li_none : forall i, length (l_msgs s) <= i -> l_thr s i = TNone;
    li_fresh : forall i, length (l_msgs s) <= i -> proj i (l_log s) = [] /\ bracket i (l_log s) = B0;
    li_thr : forall i x, nth_error (l_msgs s) i = Some x ->
               match l_thr s i with
               | TNone => False
               | TRun rest => proj i (l_log s) ++ rest = trace_of pk x /\ bracket i (l_log s) = B1
               | TDone => proj i (l_log s) = trace_of pk x /\ bracket i (l_log s) = B2
               end;
    li_wg : l_wg s = cnt (fun i => is_run (l_thr s i)) (length (l_msgs s)) /\ l_wgpanic s = false;
    li_pub : l_pub s = pubs_of (l_log s);
    li_recvs : recvs (l_log s) = seq 0 (length (l_msgs s));
    li_range : forallb (in_range (length (l_msgs s))) (l_log s) = true;
    li_close : close_ok (l_log s) = true /\ has_close (l_log s) = negb (l_open s)
  }.

  Lemma inv_init inbox : LInv inbox (linit inbox).
  Proof.
    constructor; simpl; try reflexivity; try (split; reflexivity).
    - exists []. now rewrite app_nil_r.
    - intros i x H. destruct i; discriminate.
  Qed.

  Lemma running_lt inbox0 s i : LInv inbox0 s -> l_thr s i <> TNone -> i < length (l_msgs s).
  Proof.
    intros I H. destruct (Nat.lt_ge_cases i (length (l_msgs s))) as [Hlt|Hge]; [exact Hlt|].
    now apply (li_none _ _ I) in Hge.
  Qed.

  Theorem step_inv inbox0 s l s' : LInv inbox0 s -> lstep pk s l = Some s' -> LInv inbox0 s'.
  Proof.
    intros I Hs.
    pose proof (li_in _ _ I) as Hin. pose proof (li_none _ _ I) as Hnone.
    pose proof (li_fresh _ _ I) as Hfresh. pose proof (li_thr _ _ I) as Hthr.
    pose proof (li_wg _ _ I) as [Hwg Hwp]. pose proof (li_pub _ _ I) as Hpub.
    pose proof (li_recvs _ _ I) as Hrecv. pose proof (li_range _ _ I) as Hrange.
    pose proof (li_close _ _ I) as [Hcl Hhc].
    destruct l as [| |i]; simpl in Hs.
    - (* LRecv *)
      destruct (l_open s) eqn:Eo; [|discriminate].
      destruct (l_inbox s) as [|x rest] eqn:Ei; [discriminate|].
      inversion Hs; subst s'; clear Hs.
      set (n := length (l_msgs s)) in *.
      assert (Hlen : length (l_msgs s ++ [x]) = S n) by (rewrite app_length; simpl; lia).
      constructor; simpl; rewrite ?Hlen.
      + destruct Hin as [d Hd]. exists d. rewrite <- app_assoc. exact Hd.
      + intros i Hi. rewrite upd_other by lia. apply Hnone. fold n. lia.
      + intros i Hi. rewrite app_nil_r. rewrite (eqb_neq_false n i) by lia.
        apply Hfresh. fold n. lia.
      + intros i y Hy. apply nth_error_snoc in Hy. fold n in Hy.
        destruct Hy as [[Hlt Hy]|[-> ->]].
        * rewrite upd_other by lia. rewrite app_nil_r. rewrite (eqb_neq_false n i) by lia.
          now apply Hthr.
        * rewrite upd_same. rewrite app_nil_r, Nat.eqb_refl.
          destruct (Hfresh n (Nat.le_refl _)) as [-> ->]. split; reflexivity.
      + split; [|exact Hwp]. cbn [cnt]. rewrite upd_same. simpl is_run.
        rewrite (cnt_ext _ (fun i => is_run (l_thr s i)) n).
        * rewrite <- Hwg. lia.
        * intros h Hh. rewrite upd_other by lia. reflexivity.
      + exact Hpub.
      + rewrite Hrecv. fold n. rewrite seq_S. reflexivity.
      + assert (Hn : Nat.ltb n (S n) = true) by (apply Nat.ltb_lt; lia). rewrite Hn. simpl. fold n in Hrange.
        rewrite forallb_forall in *. intros g Hg. apply in_range_mono. now apply Hrange.
      + rewrite Hhc, Hcl. split; reflexivity.
    - (* LClose *)
      destruct (l_open s) eqn:Eo; [|discriminate].
      inversion Hs; subst s'; clear Hs.
      constructor; simpl; rewrite ?app_nil_r.
      + destruct Hin as [d Hd]. exists (l_inbox s ++ d). exact Hd.
      + exact Hnone.
      + intros i Hi. rewrite app_nil_r. now apply Hfresh.
      + intros i y Hy. rewrite app_nil_r. now apply Hthr.
      + split; assumption.
      + exact Hpub.
      + exact Hrecv.
      + exact Hrange.
      + rewrite Hhc, Hcl. split; reflexivity.
    - (* LStep i *)
      destruct (l_thr s i) as [|[|e rest]|] eqn:Et; try discriminate.
      + (* the deferred Done() *)
        inversion Hs; subst s'; clear Hs.
        assert (Hi : i < length (l_msgs s)) by (eapply running_lt; [exact I|rewrite Et; discriminate]).
        destruct (nth_error_lt _ _ Hi) as [x Hx].
        pose proof (Hthr i x Hx) as Hix. rewrite Et in Hix. destruct Hix as [Hp Hb].
        rewrite app_nil_r in Hp.
        assert (Hcnt : cnt (fun j => is_run (l_thr s j)) (length (l_msgs s))
                       = S (cnt (fun j => is_run (upd (l_thr s) i (@TDone M) j)) (length (l_msgs s)))).
        { apply (cnt_flip _ _ _ i); [exact Hi|now rewrite Et|now rewrite upd_same|].
          intros h Hh. now rewrite upd_other by exact Hh. }
        constructor; simpl; rewrite ?app_nil_r.
        * exact Hin.
        * intros j Hj. rewrite upd_other by lia. now apply Hnone.
        * intros j Hj. rewrite (eqb_neq_false i j) by lia. rewrite app_nil_r. now apply Hfresh.
        * intros j y Hy. rewrite app_nil_r. updt i j.
          -- rewrite Nat.eqb_refl. assert (y = x) by congruence. subst y.
             rewrite Hb. split; [exact Hp|reflexivity].
          -- rewrite (eqb_neq_false i j) by congruence. now apply Hthr.
        * rewrite Hwg, Hcnt. simpl. split; [reflexivity|]. now rewrite Hwp.
        * exact Hpub.
        * exact Hrecv.
        * rewrite Hrange. apply Nat.ltb_lt in Hi. now rewrite Hi.
        * split; assumption.
      + (* the next event of message i *)
        inversion Hs; subst s'; clear Hs.
        assert (Hi : i < length (l_msgs s)) by (eapply running_lt; [exact I|rewrite Et; discriminate]).
        destruct (nth_error_lt _ _ Hi) as [x Hx].
        pose proof (Hthr i x Hx) as Hix. rewrite Et in Hix. destruct Hix as [Hp Hb].
        constructor; simpl.
        * exact Hin.
        * intros j Hj. rewrite upd_other by lia. now apply Hnone.
        * intros j Hj. rewrite (eqb_neq_false i j) by lia. rewrite app_nil_r. now apply Hfresh.
        * intros j y Hy. updt i j.
          -- rewrite Nat.eqb_refl. assert (y = x) by congruence. subst y.
             rewrite Hb. split; [|reflexivity]. rewrite <- app_assoc. exact Hp.
          -- rewrite (eqb_neq_false i j) by congruence. rewrite app_nil_r. now apply Hthr.
        * split; [|exact Hwp]. rewrite Hwg. apply cnt_ext. intros h Hh.
          updt i h; [now rewrite Et|reflexivity].
        * rewrite Hpub. destruct e; reflexivity.
        * rewrite app_nil_r. exact Hrecv.
        * rewrite Hrange. apply Nat.ltb_lt in Hi. now rewrite Hi.
        * split; assumption.
  Qed.

  Theorem run_inv inbox0 sched : forall s, LInv inbox0 s -> LInv inbox0 (lrun pk s sched).
  Proof.
    induction sched as [|l sched IH]; intros s I; simpl; [exact I|].
    destruct (lstep pk s l) as [s'|] eqn:E; [|now apply IH].
    apply IH. eapply step_inv; eassumption.
  Qed.

  (** a strict replay is a run: what the correspondence check replays is covered by the theorems *)
  Lemma replay_is_run sched : forall s s', lreplay pk s sched = Some s' -> lrun pk s sched = s'.
  Proof.
    induction sched as [|l sched IH]; intros s s' H; simpl in *; [congruence|].
    destruct (lstep pk s l) as [s1|]; [now apply IH|discriminate].
  Qed.

  Lemma msgs_from_inbox inbox0 s (P : lmsg -> Prop) : LInv inbox0 s ->
    Forall P inbox0 -> forall i x, nth_error (l_msgs s) i = Some x -> P x.
  Proof.
    intros I HP i x Hx. destruct (li_in _ _ I) as [d Hd]. rewrite <- Hd in HP.
    apply Forall_app in HP as [HP _]. rewrite Forall_forall in HP. apply HP.
    eapply nth_error_In; eassumption.
  Qed.

  (** * The statements used by Props/C02.v *)

  (** for EVERY schedule: the projection of the global log onto one message is a prefix of that
      message's [handle_from] trace, and equals it once its thread finished; the messages
      received are an initial part of what the channel had to deliver, in order *)
  Theorem loop_projection inbox sched :
    let s := lrun pk (linit inbox) sched in
    (exists dropped, l_msgs s ++ l_inbox s ++ dropped = inbox)
    /\ forall i x, nth_error (l_msgs s) i = Some x ->
         (exists rest, proj i (l_log s) ++ rest = trace_of pk x)
         /\ (l_thr s i = @TDone M -> proj i (l_log s) = trace_of pk x)
         /\ l_thr s i <> @TNone M.
  Proof.
    intros s. assert (I : LInv inbox s) by (apply run_inv, inv_init).
    split; [exact (li_in _ _ I)|]. intros i x Hx.
    pose proof (li_thr _ _ I i x Hx) as H.
    destruct (l_thr s i) as [|rest|]; [destruct H| |].
    - destruct H as [H _]. split; [exists rest; exact H|]. split; discriminate.
    - destruct H as [H _]. split; [exists []; now rewrite app_nil_r|]. split; [now intros _|discriminate].
  Qed.

  (** every received message is settled exactly once when all threads have finished: one chain
      invocation, one Router settle call, which is the last event of the message; the final
      settlement is that of arrival if it arrived settled, else [expected_final] *)
  Theorem loop_settled_once inbox sched : Forall (fun x => reachable (lm_state x)) inbox ->
    let s := lrun pk (linit inbox) sched in
    forall i x, nth_error (l_msgs s) i = Some x -> l_thr s i = @TDone M ->
      let tr := proj i (l_log s) in
      count_calls tr = 1 /\ count_settles tr = 1
      /\ (exists ack ret pre, tr = pre ++ [HSettle ack ret] /\ count_settles pre = 0)
      /\ model_finals pk s i = expected_final_from (st (lm_state x)) pk (lm_pb x) (lm_r x).
  Proof.
    intros HP s i x Hx Hd tr.
    assert (I : LInv inbox s) by (apply run_inv, inv_init).
    pose proof (msgs_from_inbox _ _ _ I HP i x Hx) as Hr. simpl in Hr.
    pose proof (li_thr _ _ I i x Hx) as H. rewrite Hd in H. destruct H as [H _].
    subst tr. rewrite H. unfold trace_of.
    destruct (from_once (lm_state x) pk (lm_pb x) (lm_r x) Hr) as (H1 & H2 & H3).
    repeat split; try assumption.
    unfold model_finals. rewrite Hx. unfold final_of.
    now destruct (from_final (lm_state x) pk (lm_pb x) (lm_r x) Hr) as [-> _].
  Qed.

  (** the shared publisher: every Publish call carries the outputs of exactly ONE consumed
      message — all of them, unmodified, in order (no batching across messages, no splitting);
      per consumed message the calls seen so far are an initial part of [expected_publishes]
      (at most one call), all of it once the thread finished *)
  Theorem loop_publish_one_message inbox sched :
    let s := lrun pk (linit inbox) sched in
    (forall i outs, In (i, outs) (l_pub s) ->
       exists x, nth_error (l_msgs s) i = Some x /\ expected_publishes pk (lm_r x) = [outs]
                 /\ pub_proj i (l_pub s) = [outs])
    /\ (forall i x, nth_error (l_msgs s) i = Some x ->
          (exists rest, pub_proj i (l_pub s) ++ rest = expected_publishes pk (lm_r x))
          /\ (l_thr s i = @TDone M -> pub_proj i (l_pub s) = expected_publishes pk (lm_r x))).
  Proof.
    intros s. assert (I : LInv inbox s) by (apply run_inv, inv_init).
    assert (Hpp : forall i, pub_proj i (l_pub s) = publishes (proj i (l_log s))).
    { intros i. rewrite (li_pub _ _ I). apply pub_proj_pubs_of. }
    assert (H2 : forall i x, nth_error (l_msgs s) i = Some x ->
          (exists rest, pub_proj i (l_pub s) ++ rest = expected_publishes pk (lm_r x))
          /\ (l_thr s i = @TDone M -> pub_proj i (l_pub s) = expected_publishes pk (lm_r x))).
    { intros i x Hx. rewrite Hpp.
      pose proof (li_thr _ _ I i x Hx) as H.
      pose proof (handle_from_publishes (lm_state x) pk (lm_pb x) (lm_r x)) as He.
      fold (trace_of pk x) in He.
      destruct (l_thr s i) as [|rest|]; [destruct H| |].
      - destruct H as [H _]. split; [|discriminate].
        exists (publishes rest). now rewrite <- publishes_app, H.
      - destruct H as [H _]. rewrite H. split; [exists []; now rewrite app_nil_r|now intros _]. }
    split; [|exact H2].
    intros i outs Hin. apply in_pub_proj in Hin.
    destruct (Nat.lt_ge_cases i (length (l_msgs s))) as [Hlt|Hge].
    - destruct (nth_error_lt _ _ Hlt) as [x Hx]. exists x. split; [exact Hx|].
      destruct (H2 i x Hx) as [[rest Hr] _].
      eapply expected_publishes_prefix; eassumption.
    - rewrite Hpp in Hin. destruct (li_fresh _ _ I i Hge) as [E _]. rewrite E in Hin. destruct Hin.
  Qed.

  (** the WaitGroup counter equals the number of running handleMessage goroutines, Done() is
      never called on a zero counter, and the counter is zero iff no goroutine is running *)
  Theorem loop_wg_counts_running (inbox : list lmsg) sched :
    let s := lrun pk (linit inbox) sched in
    l_wg s = cnt (fun i => is_run (l_thr s i)) (length (l_msgs s))
    /\ l_wgpanic s = false
    /\ (l_wg s = 0 <-> forall i, is_run (l_thr s i) = false).
  Proof.
    intros s. assert (I : LInv inbox s) by (apply run_inv, inv_init).
    destruct (li_wg _ _ I) as [Hw Hp]. repeat split; try assumption.
    - intros H0 i. destruct (Nat.lt_ge_cases i (length (l_msgs s))) as [Hlt|Hge].
      + rewrite Hw in H0. rewrite cnt_zero in H0. now apply H0.
      + now rewrite (li_none _ _ I i Hge).
    - intros H. rewrite Hw. apply cnt_zero. intros h _. apply H.
  Qed.

  (** every complete model run (all started threads finished), under every schedule, passes the
      acceptor that judges the interleaved implementation log *)
  Theorem loop_model_accepted (eqbM : M -> M -> bool) : (forall a : M, eqbM a a = true) ->
    forall inbox sched, Forall (fun x => reachable (lm_state x)) inbox ->
    let s := lrun pk (linit inbox) sched in
    all_done s = true ->
    loop_monitor pk eqbM (l_msgs s) (model_finals pk s) (l_log s) = true.
  Proof.
    intros Hrefl inbox sched HP s Hall.
    assert (I : LInv inbox s) by (apply run_inv, inv_init).
    unfold loop_monitor.
    rewrite (li_range _ _ I), (li_recvs _ _ I), list_eqb_nat_refl.
    destruct (li_close _ _ I) as [-> _]. simpl.
    apply forallb_forall. intros i Hi. apply in_seq in Hi.
    destruct (nth_error_lt (l_msgs s) i) as [x Hx]; [lia|]. rewrite Hx.
    unfold all_done in Hall. rewrite forallb_forall in Hall.
    assert (Hd : l_thr s i = @TDone M).
    { assert (Hii : is_done (l_thr s i) = true) by (apply Hall; apply in_seq; lia).
      destruct (l_thr s i); try discriminate; reflexivity. }
    pose proof (li_thr _ _ I i x Hx) as H. rewrite Hd in H. destruct H as [Hp Hb].
    rewrite Hb, Hp. simpl.
    unfold model_finals. rewrite Hx. unfold trace_of, final_of.
    apply from_monitor; [exact Hrefl|].
    exact (msgs_from_inbox _ _ _ I HP i x Hx).
  Qed.
End Proofs.
