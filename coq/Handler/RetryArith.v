(** Proofs about the back-off arithmetic of Handler/Retry.v (backoff/v3 exponential.go). *)
From WM Require Import Base.Prelude Handler.Retry.
From Coq Require Import QArith Qround Qpower Lia Lqa.
Open Scope Z_scope.

Lemma Qtrunc_floor x : (0 <= x)%Q -> Qtrunc x = Qfloor x.
Proof.
  destruct x as [n d]. unfold Qle, Qtrunc, Qfloor. cbn. intros H.
  apply Z.quot_div_nonneg; lia.
Qed.

Lemma Qfloor_unique x n : (inject_Z n <= x)%Q -> (x < inject_Z (n + 1))%Q -> Qfloor x = n.
Proof.
  intros H1 H2.
  pose proof (Qfloor_resp_le _ _ H1) as A. rewrite Qfloor_Z in A.
  pose proof (Qfloor_le x) as B.
  assert (inject_Z (Qfloor x) < inject_Z (n + 1))%Q as C by (eapply Qle_lt_trans; eassumption).
  rewrite <- Zlt_Qlt in C. lia.
Qed.

Section RandValue.
  Variables (rf rnd : Q) (cur : Z).
  Hypothesis Hrf0 : (0 <= rf)%Q.
  Hypothesis Hrf1 : (rf <= 1)%Q.
  Hypothesis Hcur : 0 <= cur.
  Hypothesis Hr0 : (0 <= rnd)%Q.
  Hypothesis Hr1 : (rnd < 1)%Q.

  Local Notation x := (rv_min rf cur + rnd * (rv_max rf cur - rv_min rf cur + 1))%Q.

  Lemma inj_cur_nonneg : (0 <= inject_Z cur)%Q.
  Proof. rewrite Zle_Qle in Hcur. exact Hcur. Qed.

  Lemma rv_min_nonneg : (0 <= rv_min rf cur)%Q.
  Proof.
    unfold rv_min. pose proof inj_cur_nonneg as Hq.
    assert (0 <= (1 - rf) * inject_Z cur)%Q as Hp by (apply Qmult_le_0_compat; [lra|assumption]).
    lra.
  Qed.

  Lemma x_ge_min : (rv_min rf cur <= x)%Q.
  Proof.
    unfold rv_min, rv_max. pose proof inj_cur_nonneg as Hq.
    assert (0 <= rf * inject_Z cur)%Q as Hp by (apply Qmult_le_0_compat; assumption).
    assert (0 <= rnd * (2 * (rf * inject_Z cur) + 1))%Q as Hw by (apply Qmult_le_0_compat; lra).
    lra.
  Qed.

  Lemma x_lt_max1 : (x < rv_max rf cur + 1)%Q.
  Proof.
    unfold rv_min, rv_max. pose proof inj_cur_nonneg as Hq.
    assert (0 <= rf * inject_Z cur)%Q as Hp by (apply Qmult_le_0_compat; assumption).
    assert (0 < (1 - rnd) * (2 * (rf * inject_Z cur) + 1))%Q as Hw by (apply Qmult_lt_0_compat; lra).
    lra.
  Qed.

  Lemma rand_value_floor : rand_value rf rnd cur = Qfloor x.
  Proof.
    unfold rand_value. apply Qtrunc_floor.
    eapply Qle_trans; [apply rv_min_nonneg|apply x_ge_min].
  Qed.

  Lemma delay_lo_nonneg : 0 <= delay_lo rf cur.
  Proof.
    unfold delay_lo. pose proof (Qfloor_resp_le _ _ rv_min_nonneg) as H.
    change 0%Q with (inject_Z 0) in H. rewrite Qfloor_Z in H. exact H.
  Qed.

  Lemma rand_value_lo : delay_lo rf cur <= rand_value rf rnd cur.
  Proof. rewrite rand_value_floor. apply Qfloor_resp_le, x_ge_min. Qed.

  Lemma rand_value_hi : rand_value rf rnd cur <= delay_hi rf cur.
  Proof.
    rewrite rand_value_floor. unfold delay_hi.
    pose proof (Qfloor_le x) as A. pose proof x_lt_max1 as B.
    pose proof (Qle_ceiling (rv_max rf cur)) as C.
    assert (inject_Z (Qfloor x) < inject_Z (Qceiling (rv_max rf cur) + 1))%Q as D.
    { rewrite inject_Z_plus. change (inject_Z 1) with 1%Q. lra. }
    rewrite <- Zlt_Qlt in D. lia.
  Qed.

  Lemma rand_value_nonneg : 0 <= rand_value rf rnd cur.
  Proof. pose proof delay_lo_nonneg. pose proof rand_value_lo. lia. Qed.

  (** RandomizationFactor = 0: exactly the current interval *)
  Lemma rand_value_rf0 : (rf == 0)%Q -> rand_value rf rnd cur = cur.
  Proof.
    intros E. rewrite rand_value_floor. apply Qfloor_unique.
    - unfold rv_min, rv_max. rewrite E. lra.
    - unfold rv_min, rv_max. rewrite E, inject_Z_plus. change (inject_Z 1) with 1%Q. lra.
  Qed.

  Lemma delay_lo_rf0 : (rf == 0)%Q -> delay_lo rf cur = cur.
  Proof.
    intros E. unfold delay_lo. rewrite <- (Qfloor_Z cur) at 2. apply Qfloor_comp.
    unfold rv_min. rewrite E. ring.
  Qed.

  (** the lower end of the interval is the current interval reduced by the factor:
      cur*(1-rf) - 1 < delay_lo <= cur*(1-rf) *)
  Lemma delay_lo_spec :
    (inject_Z (delay_lo rf cur) <= inject_Z cur * (1 - rf))%Q
    /\ (inject_Z cur * (1 - rf) < inject_Z (delay_lo rf cur) + 1)%Q.
  Proof.
    unfold delay_lo. pose proof (Qfloor_le (rv_min rf cur)) as A.
    pose proof (Qlt_floor (rv_min rf cur)) as B. rewrite inject_Z_plus in B.
    change (inject_Z 1) with 1%Q in B. unfold rv_min in *. split; lra.
  Qed.
End RandValue.

(** * the interval generator *)
Section Incr.
  Variable c : cfg.
  Hypothesis Hm : (0 < mult c)%Q.
  Hypothesis Hmax : 0 <= max_interval c.

  Lemma num_pos : 0 < Qnum (mult c).
  Proof. destruct (mult c) as [n d]. unfold Qlt in Hm. cbn in *. lia. Qed.

  Lemma incr_unfold cur :
    incr_interval c cur =
    if max_interval c * Zpos (Qden (mult c)) <=? cur * Qnum (mult c)
    then max_interval c else Z.quot (cur * Qnum (mult c)) (Zpos (Qden (mult c))).
  Proof.
    unfold incr_interval, capped, Qtrunc. pose proof num_pos as Hn.
    apply Z.compare_gt_iff in Hn. rewrite Hn. destruct (mult c) as [n d]. reflexivity.
  Qed.


  Lemma incr_nonneg cur : 0 <= cur -> 0 <= incr_interval c cur.
  Proof.
    intros H. rewrite incr_unfold. pose proof num_pos.
    destruct (_ <=? _); [exact Hmax|]. apply Z.quot_pos; nia.
  Qed.

  Lemma cur_at_nonneg k : 0 <= initial c -> 0 <= cur_at c k.
  Proof.
    intros Hi. induction k as [|k IH]; [exact Hi|].
    destruct k; [exact Hi|]. cbn [cur_at]. apply incr_nonneg. exact IH.
  Qed.

  (** never above the cap once capped input *)
  Lemma incr_le_max cur : 0 <= cur -> incr_interval c cur <= max_interval c.
  Proof.
    intros H. rewrite incr_unfold. pose proof num_pos.
    destruct (Z.leb_spec (max_interval c * Zpos (Qden (mult c))) (cur * Qnum (mult c))); [lia|].
    rewrite Z.quot_div_nonneg by nia.
    apply Z.lt_le_incl. apply Z.div_lt_upper_bound; lia.
  Qed.

  (** closed form.  [a j] is InitialInterval x Multiplier^j, assumed integral (hypothesis
      [Ha]); then the interval before the (k+1)-th retry is min(a k, MaxInterval) *)
  Lemma cur_at_closed (a : nat -> Z) :
    (1 <= mult c)%Q -> 0 <= initial c <= max_interval c ->
    a O = initial c ->
    forall k, (forall j, (j < k)%nat -> (inject_Z (a (S j)) == inject_Z (a j) * mult c)%Q) ->
    cur_at c (S k) = Z.min (a k) (max_interval c).
  Proof.
    intros H1 Hi Ha0. pose proof num_pos as Hn.
    assert (Hnd : Zpos (Qden (mult c)) <= Qnum (mult c)).
    { destruct (mult c) as [n d]. unfold Qle in H1. cbn in *. lia. }
    assert (Hrec : forall j, (inject_Z (a (S j)) == inject_Z (a j) * mult c)%Q ->
                             a (S j) * Zpos (Qden (mult c)) = a j * Qnum (mult c)).
    { intros j E. destruct (mult c) as [n d]. unfold Qeq in E. cbn in *. lia. }
    induction k as [|k IH]; intros Hk.
    - cbn. rewrite Ha0. lia.
    - assert (Hk' : forall j, (j < k)%nat -> (inject_Z (a (S j)) == inject_Z (a j) * mult c)%Q)
        by (intros; apply Hk; lia).
      specialize (IH Hk').
      assert (Hpos : forall j, (j <= S k)%nat -> 0 <= a j).
      { induction j as [|j IHj]; intros Hj; [lia|].
        pose proof (Hrec j (Hk j ltac:(lia))) as R. specialize (IHj ltac:(lia)). nia. }
      change (cur_at c (S (S k))) with (incr_interval c (cur_at c (S k))).
      rewrite IH, incr_unfold.
      pose proof (Hrec k (Hk k ltac:(lia))) as R.
      pose proof (Hpos k ltac:(lia)) as P0. pose proof (Hpos (S k) ltac:(lia)) as P1.
      set (d := Zpos (Qden (mult c))) in *. set (n := Qnum (mult c)) in *.
      assert (0 < d) by (unfold d; lia).
      destruct (Z.le_ge_cases (max_interval c) (a k)) as [G|G].
      + rewrite (Z.min_r (a k)) by lia.
        destruct (Z.leb_spec (max_interval c * d) (max_interval c * n)); [|nia].
        assert (max_interval c <= a (S k)) by nia. lia.
      + rewrite (Z.min_l (a k)) by lia. rewrite <- R.
        destruct (Z.leb_spec (max_interval c * d) (a (S k) * d)).
        * assert (max_interval c <= a (S k)) by nia. lia.
        * assert (a (S k) < max_interval c) by nia.
          rewrite Z.quot_mul by lia. lia.
  Qed.
End Incr.

(** the hypothesis of [cur_at_closed] in the words of the property: a j = Initial x Multiplier^j *)
Lemma power_sequence (c : cfg) (a : nat -> Z) k :
  ~ (mult c == 0)%Q ->
  (forall j, (j <= k)%nat -> (inject_Z (a j) == inject_Z (initial c) * mult c ^ Z.of_nat j)%Q) ->
  forall j, (j < k)%nat -> (inject_Z (a (S j)) == inject_Z (a j) * mult c)%Q.
Proof.
  intros Hm H j Hj. rewrite (H (S j)) by lia. rewrite (H j) by lia.
  rewrite Nat2Z.inj_succ. unfold Z.succ. rewrite Qpower_plus by exact Hm. change (mult c ^ 1)%Q with (mult c). ring.
Qed.

Lemma cur_at_closed_form (c : cfg) (a : nat -> Z) k :
  (0 < mult c)%Q -> (1 <= mult c)%Q -> 0 <= initial c <= max_interval c ->
  a O = initial c ->
  (forall j, (j <= k)%nat -> (inject_Z (a j) == inject_Z (initial c) * mult c ^ Z.of_nat j)%Q) ->
  cur_at c (S k) = Z.min (a k) (max_interval c).
Proof.
  intros Hm H1 Hi Ha0 Hp. apply (cur_at_closed c Hm ltac:(lia) a H1 Hi Ha0 k).
  apply power_sequence; [|exact Hp]. intros E. rewrite E in Hm. exact (Qlt_irrefl 0 Hm).
Qed.

(** in general (any Multiplier >= 1, truncation included) the intervals never decrease below
    the cap and never exceed it *)
Lemma cur_at_le_max (c : cfg) k : (0 < mult c)%Q -> 0 <= initial c <= max_interval c ->
  cur_at c k <= max_interval c.
Proof.
  intros Hm Hi. destruct k as [|k]; [cbn; lia|]. induction k as [|k IH]; [cbn; lia|].
  change (cur_at c (S (S k))) with (incr_interval c (cur_at c (S k))).
  apply incr_le_max; [exact Hm|]. apply cur_at_nonneg; [exact Hm|lia|lia].
Qed.

(** the interval [delay_lo, delay_hi] is exactly the set of values getRandomValueFromInterval
    can return: every d in it is produced by some random number in [0,1) (so the interval
    membership the monitor checks is not looser than the model) *)
Lemma rand_value_complete (rf : Q) (cur d : Z) :
  (0 <= rf)%Q -> (rf <= 1)%Q -> 0 <= cur ->
  delay_lo rf cur <= d <= delay_hi rf cur ->
  exists r, (0 <= r)%Q /\ (r < 1)%Q /\ rand_value rf r cur = d.
Proof.
  intros R0 R1 Hc [Hlo Hhi].
  pose proof (inj_cur_nonneg cur Hc) as Hq.
  assert (Hp : (0 <= rf * inject_Z cur)%Q) by (apply Qmult_le_0_compat; assumption).
  assert (Hmm : (rv_min rf cur <= rv_max rf cur)%Q).
  { unfold rv_min, rv_max. revert Hp. generalize (rf * inject_Z cur)%Q. intros p Hp. lra. }
  set (mn := rv_min rf cur) in *. set (mx := rv_max rf cur) in *.
  assert (HW : (0 < mx - mn + 1)%Q) by lra.
  set (x := if Qlt_le_dec mn (inject_Z d) then inject_Z d else mn).
  assert (Hx1 : (mn <= x)%Q) by (unfold x; destruct (Qlt_le_dec mn (inject_Z d)); lra).
  assert (Hx2 : (x < mx + 1)%Q).
  { unfold x. destruct (Qlt_le_dec mn (inject_Z d)); [|lra].
    pose proof (Qceiling_lt mx) as C. unfold delay_hi in Hhi. fold mx in Hhi.
    assert (D : (inject_Z (d + -1) <= inject_Z (Qceiling mx - 1))%Q) by (rewrite <- Zle_Qle; lia).
    rewrite inject_Z_plus in D. change (inject_Z (-1)) with (-1#1)%Q in D. lra. }
  assert (Hfl : Qfloor x = d).
  { unfold x. destruct (Qlt_le_dec mn (inject_Z d)) as [L|L]; [apply Qfloor_Z|].
    pose proof (Qfloor_resp_le _ _ L) as A. rewrite Qfloor_Z in A.
    unfold delay_lo in Hlo. fold mn in Hlo. lia. }
  exists ((x - mn) / (mx - mn + 1))%Q.
  assert (Hr0 : (0 <= (x - mn) / (mx - mn + 1))%Q).
  { apply Qle_shift_div_l; [exact HW|]. lra. }
  assert (Hr1 : ((x - mn) / (mx - mn + 1) < 1)%Q).
  { apply Qlt_shift_div_r; [exact HW|]. lra. }
  split; [exact Hr0|]. split; [exact Hr1|].
  rewrite (rand_value_floor rf _ cur R0 R1 Hc Hr0).
  fold mn mx. rewrite <- Hfl. apply Qfloor_comp. field. lra.
Qed.

(** * RandomizationFactor outside [0,1] (nothing validates it) *)
Lemma Qtrunc_between x : Qfloor x <= Qtrunc x <= Qceiling x.
Proof.
  destruct x as [a d]. unfold Qtrunc, Qceiling, Qfloor, Qopp. cbn [Qnum Qden].
  destruct (Z.le_gt_cases 0 a) as [H|H].
  - rewrite Z.quot_div_nonneg by lia. split; [lia|].
    pose proof (Z_div_mod_eq_full a (Z.pos d)) as E1. pose proof (Z.mod_pos_bound a (Z.pos d) ltac:(lia)).
    pose proof (Z_div_mod_eq_full (- a) (Z.pos d)) as E2. pose proof (Z.mod_pos_bound (- a) (Z.pos d) ltac:(lia)).
    nia.
  - assert (E : a ÷ Z.pos d = - (- a / Z.pos d)).
    { rewrite <- (Z.quot_div_nonneg (- a)) by lia. rewrite Z.quot_opp_l by lia. lia. }
    rewrite E. split; [|lia].
    pose proof (Z_div_mod_eq_full a (Z.pos d)) as E1. pose proof (Z.mod_pos_bound a (Z.pos d) ltac:(lia)).
    pose proof (Z_div_mod_eq_full (- a) (Z.pos d)) as E2. pose proof (Z.mod_pos_bound (- a) (Z.pos d) ltac:(lia)).
    nia.
Qed.

(** for ANY factor rf >= 0 (also > 1) and interval cur >= 0 the value stays in
    [floor(cur(1-rf)), ceil(cur(1+rf))]; for rf > 1 the lower end is negative: such a draw
    simply does not delay (time.After of a negative duration fires at once) *)
Lemma rand_value_bounds_any_rf (rf rnd : Q) (cur : Z) :
  (0 <= rf)%Q -> 0 <= cur -> (0 <= rnd)%Q -> (rnd < 1)%Q ->
  delay_lo rf cur <= rand_value rf rnd cur <= delay_hi rf cur.
Proof.
  intros R0 Hc H0 H1. unfold rand_value, delay_lo, delay_hi, rv_min, rv_max.
  pose proof (inj_cur_nonneg cur Hc) as Hq.
  assert (Hp : (0 <= rf * inject_Z cur)%Q) by (apply Qmult_le_0_compat; assumption).
  set (p := (rf * inject_Z cur)%Q) in *. set (q := inject_Z cur) in *.
  set (x := (q - p + rnd * (q + p - (q - p) + 1))%Q).
  assert (Hw : (0 <= rnd * (2 * p + 1))%Q) by (apply Qmult_le_0_compat; lra).
  assert (Hv : (0 < (1 - rnd) * (2 * p + 1))%Q) by (apply Qmult_lt_0_compat; lra).
  assert (X1 : (q - p <= x)%Q) by (unfold x; lra).
  assert (X2 : (x < q + p + 1)%Q) by (unfold x; lra).
  pose proof (Qtrunc_between x) as [T1 T2].
  split.
  - pose proof (Qfloor_resp_le _ _ X1). lia.
  - destruct (Qlt_le_dec x 0) as [N|N].
    + (* negative draw: trunc <= 0 <= ceil(max) *)
      assert (Qceiling x <= 0).
      { pose proof (Qceiling_resp_le x 0 (Qlt_le_weak _ _ N)) as C. change 0%Q with (inject_Z 0) in C.
        rewrite Qceiling_Z in C. exact C. }
      assert (0 <= Qceiling (q + p)).
      { assert (0 <= q + p)%Q as P by lra. pose proof (Qceiling_resp_le _ _ P) as C.
        change 0%Q with (inject_Z 0) in C. rewrite Qceiling_Z in C. exact C. }
      lia.
    + rewrite Qtrunc_floor by exact N.
      pose proof (Qfloor_le x) as A. pose proof (Qle_ceiling (q + p)) as C.
      assert (inject_Z (Qfloor x) < inject_Z (Qceiling (q + p) + 1))%Q as D.
      { rewrite inject_Z_plus. change (inject_Z 1) with 1%Q. lra. }
      rewrite <- Zlt_Qlt in D. lia.
Qed.
