(** Proofs about Handler/Retry.v (C12). *)
From WM Require Import Base.Prelude Handler.Retry Handler.RetryMonitor.
From Coq Require Import QArith Qround Lia Lqa.
Open Scope Z_scope.

(** * 1. The logic of the loop: which invocations happen and what is returned *)

Lemma calls_notes c k w l : calls (notes c k w ++ l) = calls l.
Proof. unfold notes. destruct (has_log c), (has_hook c); reflexivity. Qed.

Lemma is_ok_nil_err (last : outcome) : is_ok ([], snd last) = is_ok last.
Proof. reflexivity. Qed.

Lemma loop_logic c h sl : forall rem k cur now last,
  is_ok last = false ->
  let r := loop c h sl rem k cur now last in
  exists m, (m <= rem)%nat /\ calls (r_trace r) = seq k m /\
   ( (is_ok (r_out r) = true /\ (1 <= m)%nat /\ r_out r = h (k + m - 1)%nat
      /\ forall j, (k <= j < k + m - 1)%nat -> is_ok (h j) = false)
   \/ (is_ok (r_out r) = false /\ (forall j, (k <= j < k + m)%nat -> is_ok (h j) = false)
       /\ snd (r_out r) = snd (match m with O => last | _ => h (k + m - 1)%nat end)) ).
Proof.
  induction rem as [|rem IH]; intros k cur now last Hl; cbn zeta.
  - exists O. cbn. split; [lia|]. split; [reflexivity|]. right.
    split; [exact Hl|]. split; [intros; lia|reflexivity].
  - cbn [loop]. destruct (next_backoff c cur (s_elapsed (sl k)) (s_rnd (sl k))) as [wait cur'].
    destruct (s_ctx (sl k)).
    + exists O. cbn. split; [lia|]. split; [reflexivity|]. right.
      split; [exact Hl|]. split; [intros; lia|reflexivity].
    + destruct (is_ok (h k)) eqn:Hk.
      * exists 1%nat. cbn. split; [lia|]. split; [reflexivity|]. left.
        split; [exact Hk|]. split; [lia|]. split; [f_equal; lia|intros; lia].
      * specialize (IH (S k) cur' (now + s_gap (sl k) + s_wake (sl k) + s_dur (sl k)) (h k) Hk).
        cbn zeta in IH. destruct IH as [m [Hm [Hc Hr]]].
        exists (S m). cbn [r_trace r_out]. split; [lia|]. split.
        { cbn [calls flat_map app]. fold (calls (notes c k wait ++ r_trace (loop c h sl rem (S k) cur' (now + s_gap (sl k) + s_wake (sl k) + s_dur (sl k)) (h k)))).
          rewrite calls_notes, Hc. reflexivity. }
        destruct Hr as [[H1 [H2 [H3 H4]]]|[H1 [H2 H3]]].
        -- left. split; [exact H1|]. split; [lia|]. split.
           { rewrite H3. f_equal. lia. }
           intros j Hj. destruct (Nat.eq_dec j k) as [->|]; [exact Hk|]. apply H4. lia.
        -- right. split; [exact H1|]. split.
           { intros j Hj. destruct (Nat.eq_dec j k) as [->|]; [exact Hk|]. apply H2. lia. }
           rewrite H3. destruct m; [f_equal; f_equal; lia|]. f_equal. f_equal. lia.
Qed.

Lemma iterations_pos c : (1 <= iterations c)%nat.
Proof. unfold iterations. lia. Qed.

Lemma iterations_guard c : 1 <= max_retries c -> Z.of_nat (iterations c) = max_retries c.
Proof. unfold iterations. lia. Qed.

Lemma iterations_nonpos c : max_retries c <= 0 -> iterations c = 1%nat.
Proof. unfold iterations. intros. replace (Z.max 1 (max_retries c)) with 1 by lia. reflexivity. Qed.

(** what [retry] does, as one statement: the invocations are 0..n in order, at most
    1 + iterations of them; either the last one is the first success and its result is returned
    unchanged, or all failed and the error returned is the last one's *)
Lemma retry_logic c h e :
  let r := retry c h e in
  exists n, (n <= iterations c)%nat /\ calls (r_trace r) = seq 0 (S n) /\
   ( (is_ok (r_out r) = true /\ r_out r = h n /\ forall j, (j < n)%nat -> is_ok (h j) = false)
   \/ (is_ok (r_out r) = false /\ (forall j, (j <= n)%nat -> is_ok (h j) = false)
       /\ snd (r_out r) = snd (h n)) ).
Proof.
  cbn zeta. unfold retry. destruct (is_ok (h O)) eqn:H0.
  - exists O. cbn. split; [lia|]. split; [reflexivity|]. left. split; [exact H0|]. split; [reflexivity|intros; lia].
  - pose proof (loop_logic c h (e_sel e) (iterations c) 1 (initial c) (t_reset e) (h O) H0) as L.
    cbn zeta in L. destruct L as [m [Hm [Hc Hr]]].
    exists m. cbn [r_trace r_out]. split; [exact Hm|]. split.
    { cbn [calls flat_map app]. fold (calls (r_trace (loop c h (e_sel e) (iterations c) 1 (initial c) (t_reset e) (h O)))).
      rewrite Hc. reflexivity. }
    destruct Hr as [[H1 [H2 [H3 H4]]]|[H1 [H2 H3]]].
    + left. split; [exact H1|]. split.
      { rewrite H3. f_equal. lia. }
      intros j Hj. destruct j; [exact H0|]. apply H4. lia.
    + right. split; [exact H1|]. split.
      { intros j Hj. destruct j; [exact H0|]. apply H2. lia. }
      rewrite H3. destruct m; [reflexivity|]. replace (1 + S m - 1)%nat with (S m) by lia. reflexivity.
Qed.

Lemma retry_first_success_wins c h e :
  is_ok (r_out (retry c h e)) = true ->
  exists n, calls (r_trace (retry c h e)) = seq 0 (S n)
            /\ r_out (retry c h e) = h n /\ is_ok (h n) = true
            /\ forall j, (j < n)%nat -> is_ok (h j) = false.
Proof.
  intros Hok. destruct (retry_logic c h e) as [n [_ [Hc [[H1 [H2 H3]]|[H1 _]]]]].
  - exists n. repeat split; try assumption. rewrite <- H2. exact H1.
  - rewrite Hok in H1. discriminate.
Qed.

Lemma retry_attempt_bound c h e :
  (attempts (r_trace (retry c h e)) <= 1 + iterations c)%nat.
Proof.
  destruct (retry_logic c h e) as [n [Hn [Hc _]]]. unfold attempts. rewrite Hc, seq_length. lia.
Qed.

Lemma retry_attempt_bound_guarded c h e : 1 <= max_retries c ->
  Z.of_nat (attempts (r_trace (retry c h e))) <= 1 + max_retries c.
Proof.
  intros G. pose proof (retry_attempt_bound c h e). pose proof (iterations_guard c G). lia.
Qed.

Lemma retry_attempt_bound_nonpos c h e : max_retries c <= 0 ->
  (attempts (r_trace (retry c h e)) <= 2)%nat.
Proof.
  intros G. pose proof (retry_attempt_bound c h e). rewrite (iterations_nonpos c G) in H. lia.
Qed.

Lemma retry_last_error_kept c h e :
  (forall j, (j <= iterations c)%nat -> is_ok (h j) = false) ->
  is_ok (r_out (retry c h e)) = false
  /\ exists n, calls (r_trace (retry c h e)) = seq 0 (S n)
               /\ snd (r_out (retry c h e)) = snd (h n) /\ snd (h n) <> 0%N.
Proof.
  intros Hf. destruct (retry_logic c h e) as [n [Hn [Hc [[H1 [H2 H3]]|[H1 [H2 H3]]]]]].
  - rewrite H2, (Hf n Hn) in H1. discriminate.
  - split; [exact H1|]. exists n. repeat split; try assumption.
    specialize (H2 n (le_n n)). unfold is_ok in H2. apply N.eqb_neq in H2. exact H2.
Qed.

Lemma retry_never_invents_success c h e :
  is_ok (r_out (retry c h e)) = true -> exists n, is_ok (h n) = true /\ r_out (retry c h e) = h n.
Proof.
  intros H. destruct (retry_first_success_wins c h e H) as [n [_ [H2 [H3 _]]]]. eauto.
Qed.
