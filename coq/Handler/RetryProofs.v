(** Proofs about Handler/Retry.v (C12). *)
From WM Require Import Base.Prelude Handler.Retry Handler.RetryMonitor.
From Coq Require Import QArith Qround Lia Lqa.
Open Scope Z_scope.

(** * 1. The logic of the loop: which invocations happen and what is returned *)

Lemma calls_notes c k w l : calls (notes c k w ++ l) = calls l.
Proof. unfold notes. destruct (has_log c), (has_hook c); reflexivity. Qed.

Lemma is_ok_nil_err (last : outcome) : is_ok ([], snd last) = is_ok last.
Proof. reflexivity. Qed.

Lemma loop_logic c h sl : forall rem k cur now last,
  is_ok last = false ->
  let r := loop c h sl rem k cur now last in
  exists m, (m <= rem)%nat /\ calls (r_trace r) = seq k m /\
   ( (is_ok (r_out r) = true /\ (1 <= m)%nat /\ r_out r = h (k + m - 1)%nat
      /\ forall j, (k <= j < k + m - 1)%nat -> is_ok (h j) = false)
   \/ (is_ok (r_out r) = false /\ (forall j, (k <= j < k + m)%nat -> is_ok (h j) = false)
       /\ snd (r_out r) = snd (match m with O => last | _ => h (k + m - 1)%nat end)) ).
Proof.
  induction rem as [|rem IH]; intros k cur now last Hl; cbn zeta.
  - exists O. cbn. split; [lia|]. split; [reflexivity|]. right.
    split; [exact Hl|]. split; [intros; lia|reflexivity].
  - cbn [loop]. destruct (next_backoff c cur (s_elapsed (sl k)) (s_rnd (sl k))) as [wait cur'].
    destruct (s_ctx (sl k)).
    + exists O. cbn. split; [lia|]. split; [reflexivity|]. right.
      split; [exact Hl|]. split; [intros; lia|reflexivity].
    + destruct (is_ok (h k)) eqn:Hk.
      * exists 1%nat. cbn. split; [lia|]. split; [reflexivity|]. left.
        split; [exact Hk|]. split; [lia|]. split; [f_equal; lia|intros; lia].
      * specialize (IH (S k) cur' (now + s_gap (sl k) + s_wake (sl k) + s_dur (sl k)) (h k) Hk).
        cbn zeta in IH. destruct IH as [m [Hm [Hc Hr]]].
        exists (S m). cbn [r_trace r_out]. split; [lia|]. split.
        { cbn [calls flat_map app]. fold (calls (notes c k wait ++ r_trace (loop c h sl rem (S k) cur' (now + s_gap (sl k) + s_wake (sl k) + s_dur (sl k)) (h k)))).
          rewrite calls_notes, Hc. reflexivity. }
        destruct Hr as [[H1 [H2 [H3 H4]]]|[H1 [H2 H3]]].
        -- left. split; [exact H1|]. split; [lia|]. split.
           { rewrite H3. f_equal. lia. }
           intros j Hj. destruct (Nat.eq_dec j k) as [->|]; [exact Hk|]. apply H4. lia.
        -- right. split; [exact H1|]. split.
           { intros j Hj. destruct (Nat.eq_dec j k) as [->|]; [exact Hk|]. apply H2. lia. }
           rewrite H3. destruct m; [f_equal; f_equal; lia|]. f_equal. f_equal. lia.
Qed.

Lemma iterations_pos c : (1 <= iterations c)%nat.
Proof. unfold iterations. lia. Qed.

Lemma iterations_guard c : 1 <= max_retries c -> Z.of_nat (iterations c) = max_retries c.
Proof. unfold iterations. lia. Qed.

Lemma iterations_nonpos c : max_retries c <= 0 -> iterations c = 1%nat.
Proof. unfold iterations. intros. replace (Z.max 1 (max_retries c)) with 1 by lia. reflexivity. Qed.

(** what [retry] does, as one statement: the invocations are 0..n in order, at most
    1 + iterations of them; either the last one is the first success and its result is returned
    unchanged, or all failed and the error returned is the last one's *)
Lemma retry_logic c h e :
  let r := retry c h e in
  exists n, (n <= iterations c)%nat /\ calls (r_trace r) = seq 0 (S n) /\
   ( (is_ok (r_out r) = true /\ r_out r = h n /\ forall j, (j < n)%nat -> is_ok (h j) = false)
   \/ (is_ok (r_out r) = false /\ (forall j, (j <= n)%nat -> is_ok (h j) = false)
       /\ snd (r_out r) = snd (h n)) ).
Proof.
  cbn zeta. unfold retry. destruct (is_ok (h O)) eqn:H0.
  - exists O. cbn. split; [lia|]. split; [reflexivity|]. left. split; [exact H0|]. split; [reflexivity|intros; lia].
  - pose proof (loop_logic c h (e_sel e) (iterations c) 1 (initial c) (t_reset e) (h O) H0) as L.
    cbn zeta in L. destruct L as [m [Hm [Hc Hr]]].
    exists m. cbn [r_trace r_out]. split; [exact Hm|]. split.
    { cbn [calls flat_map app]. fold (calls (r_trace (loop c h (e_sel e) (iterations c) 1 (initial c) (t_reset e) (h O)))).
      rewrite Hc. reflexivity. }
    destruct Hr as [[H1 [H2 [H3 H4]]]|[H1 [H2 H3]]].
    + left. split; [exact H1|]. split.
      { rewrite H3. f_equal. lia. }
      intros j Hj. destruct j; [exact H0|]. apply H4. lia.
    + right. split; [exact H1|]. split.
      { intros j Hj. destruct j; [exact H0|]. apply H2. lia. }
      rewrite H3. destruct m; [reflexivity|]. replace (1 + S m - 1)%nat with (S m) by lia. reflexivity.
Qed.

Lemma retry_first_success_wins c h e :
  is_ok (r_out (retry c h e)) = true ->
  exists n, calls (r_trace (retry c h e)) = seq 0 (S n)
            /\ r_out (retry c h e) = h n /\ is_ok (h n) = true
            /\ forall j, (j < n)%nat -> is_ok (h j) = false.
Proof.
  intros Hok. destruct (retry_logic c h e) as [n [_ [Hc [[H1 [H2 H3]]|[H1 _]]]]].
  - exists n. repeat split; try assumption. rewrite <- H2. exact H1.
  - rewrite Hok in H1. discriminate.
Qed.

Lemma retry_attempt_bound c h e :
  (attempts (r_trace (retry c h e)) <= 1 + iterations c)%nat.
Proof.
  destruct (retry_logic c h e) as [n [Hn [Hc _]]]. unfold attempts. rewrite Hc, seq_length. lia.
Qed.

Lemma retry_attempt_bound_guarded c h e : 1 <= max_retries c ->
  Z.of_nat (attempts (r_trace (retry c h e))) <= 1 + max_retries c.
Proof.
  intros G. pose proof (retry_attempt_bound c h e). pose proof (iterations_guard c G). lia.
Qed.

Lemma retry_attempt_bound_nonpos c h e : max_retries c <= 0 ->
  (attempts (r_trace (retry c h e)) <= 2)%nat.
Proof.
  intros G. pose proof (retry_attempt_bound c h e). rewrite (iterations_nonpos c G) in H. lia.
Qed.

Lemma retry_last_error_kept c h e :
  (forall j, (j <= iterations c)%nat -> is_ok (h j) = false) ->
  is_ok (r_out (retry c h e)) = false
  /\ exists n, calls (r_trace (retry c h e)) = seq 0 (S n)
               /\ snd (r_out (retry c h e)) = snd (h n) /\ snd (h n) <> 0%N.
Proof.
  intros Hf. destruct (retry_logic c h e) as [n [Hn [Hc [[H1 [H2 H3]]|[H1 [H2 H3]]]]]].
  - rewrite H2, (Hf n Hn) in H1. discriminate.
  - split; [exact H1|]. exists n. repeat split; try assumption.
    specialize (H2 n (le_n n)). unfold is_ok in H2. apply N.eqb_neq in H2. exact H2.
Qed.

Lemma retry_never_invents_success c h e :
  is_ok (r_out (retry c h e)) = true -> exists n, is_ok (h n) = true /\ r_out (retry c h e) = h n.
Proof.
  intros H. destruct (retry_first_success_wins c h e H) as [n [_ [H2 [H3 _]]]]. eauto.
Qed.

(** * 2. The iterations of the loop: numbering, hooks, back-off values, waits *)
From WM Require Import Handler.RetryArith.

Lemma hooks_notes c k w l :
  hooks (notes c k w ++ l) = (if has_hook c then [(Z.of_nat k, w)] else []) ++ hooks l.
Proof. unfold notes. destruct (has_log c), (has_hook c); reflexivity. Qed.

Lemma logs_notes c k w l :
  logs (notes c k w ++ l) = (if has_log c then [(Z.of_nat k, w, max_retries c)] else []) ++ logs l.
Proof. unfold notes. destruct (has_log c), (has_hook c); reflexivity. Qed.

Definition failed_calls (h : nat -> outcome) (tr : list event) : nat :=
  length (filter (fun j => negb (is_ok (h j))) (calls tr)).

Definition note_of (it : witem) : Z * Z := (Z.of_nat (w_k it), w_wait it).

(** iterations are numbered k, k+1, ...; the first f of them are the failed re-invocations and
    exactly those are reported to the hook / the logger, with the wait NextBackOff returned *)
Lemma loop_notes c h sl : forall rem k cur now last,
  let r := loop c h sl rem k cur now last in
  map w_k (r_waits r) = seq k (length (r_waits r))
  /\ (length (r_waits r) <= rem)%nat
  /\ exists f, f = failed_calls h (r_trace r) /\ (f <= length (r_waits r))%nat
     /\ hooks (r_trace r) = (if has_hook c then map note_of (firstn f (r_waits r)) else [])
     /\ logs (r_trace r) = (if has_log c then map (fun it => (note_of it, max_retries c)) (firstn f (r_waits r)) else []).
Proof.
  induction rem as [|rem IH]; intros k cur now last; cbn zeta.
  - cbn. split; [reflexivity|]. split; [lia|]. exists O. cbn.
    destruct (has_hook c), (has_log c); repeat split; reflexivity || lia.
  - cbn [loop]. destruct (next_backoff c cur (s_elapsed (sl k)) (s_rnd (sl k))) as [wait cur'].
    destruct (s_ctx (sl k)).
    + cbn. split; [reflexivity|]. split; [lia|]. exists O. cbn.
      destruct (has_hook c), (has_log c); repeat split; reflexivity || lia.
    + destruct (is_ok (h k)) eqn:Hk.
      * cbn. split; [reflexivity|]. split; [lia|]. exists O. unfold failed_calls. cbn. rewrite Hk. cbn.
        destruct (has_hook c), (has_log c); repeat split; reflexivity || lia.
      * specialize (IH (S k) cur' (now + s_gap (sl k) + s_wake (sl k) + s_dur (sl k)) (h k)).
        cbn zeta in IH. destruct IH as [Hn [Hl [f [Hf [Hfl [Hh Hg]]]]]].
        set (r := loop c h sl rem (S k) cur' (now + s_gap (sl k) + s_wake (sl k) + s_dur (sl k)) (h k)) in *.
        cbn [r_trace r_waits r_out]. split.
        { cbn [map length seq w_k]. rewrite Hn. reflexivity. }
        split; [cbn [length]; lia|].
        exists (S f). split.
        { unfold failed_calls. cbn [calls flat_map app].
          fold (calls (notes c k wait ++ r_trace r)). rewrite calls_notes.
          cbn [filter]. rewrite Hk. cbn [negb length]. unfold failed_calls in Hf. rewrite Hf. reflexivity. }
        split; [cbn [length]; lia|].
        cbn [hooks logs flat_map app].
        fold (hooks (notes c k wait ++ r_trace r)). fold (logs (notes c k wait ++ r_trace r)).
        rewrite hooks_notes, logs_notes, Hh, Hg. cbn [firstn map note_of w_k w_wait].
        destruct (has_hook c), (has_log c); split; reflexivity.
Qed.

(** without MaxElapsedTime the current interval of iteration k is the k-th value of the
    generator *)
Lemma loop_cur_schedule c h sl : max_elapsed c = 0 -> forall rem k cur now last,
  (1 <= k)%nat -> cur = cur_at c k ->
  Forall (fun it => w_cur it = cur_at c (w_k it)) (r_waits (loop c h sl rem k cur now last)).
Proof.
  intros ME. induction rem as [|rem IH]; intros k cur now last Hk Hc; [constructor|].
  cbn [loop]. unfold next_backoff, stops. rewrite ME. cbn [Z.eqb negb andb].
  destruct (s_ctx (sl k)); [constructor; [exact Hc|constructor]|].
  destruct (is_ok (h k)); [constructor; [exact Hc|constructor]|].
  cbn [r_waits]. constructor; [exact Hc|]. apply IH; [lia|].
  rewrite Hc. destruct k; [lia|]. reflexivity.
Qed.

(** what [env_ok] guarantees about every iteration *)
Definition iter_ok (c : cfg) (td : option Z) (treset : Z) (it : witem) : Prop :=
  w_prev it <= w_tnb it <= w_twake it
  /\ 0 <= w_cur it
  /\ (w_ctx it = false -> w_wait it <= w_twake it - w_tnb it)
  /\ (w_ctx it = false -> 0 < w_wait it -> forall t, td = Some t -> w_tnb it + w_wait it <= t)
  /\ (w_ctx it = true -> exists t, td = Some t /\ t <= w_twake it /\ t <= w_tnb it + Z.max (w_wait it) 0)
  /\ ( (w_wait it = STOP /\ 0 < max_elapsed c /\ max_elapsed c < w_tnb it - treset)
       \/ (delay_lo (rfac c) (w_cur it) <= w_wait it <= delay_hi (rfac c) (w_cur it)
           /\ 0 <= w_wait it
           /\ ((rfac c == 0)%Q -> w_wait it = w_cur it)
           /\ (max_elapsed c = 0 \/ w_tnb it - treset <= max_elapsed c)) ).

Lemma Qin01_spec q : Qin01 q = true -> (0 <= q)%Q /\ (q < 1)%Q.
Proof.
  unfold Qin01. intros H. apply andb_true_iff in H as [A B]. apply Qle_bool_iff in A.
  split; [exact A|]. apply negb_true_iff in B. apply Qnot_le_lt. intros C.
  apply Qle_bool_iff in C. congruence.
Qed.

Lemma next_backoff_spec c cur elapsed rnd wait cur' :
  cfg_ok c -> 0 <= cur -> (0 <= rnd)%Q -> (rnd < 1)%Q ->
  next_backoff c cur elapsed rnd = (wait, cur') ->
  0 <= cur' /\
  ( (wait = STOP /\ cur' = cur /\ 0 < max_elapsed c /\ max_elapsed c < elapsed)
    \/ (cur' = incr_interval c cur
        /\ delay_lo (rfac c) cur <= wait <= delay_hi (rfac c) cur /\ 0 <= wait
        /\ ((rfac c == 0)%Q -> wait = cur)
        /\ (max_elapsed c = 0 \/ elapsed <= max_elapsed c)) ).
Proof.
  intros [Hi [Hmx [Hm [Hr0 [Hr1 Hme]]]]] Hc R0 R1. unfold next_backoff, stops.
  destruct (max_elapsed c =? 0) eqn:E0; cbn [negb andb].
  - apply Z.eqb_eq in E0. intros E. injection E as <- <-. split; [apply incr_nonneg; assumption|].
    right. split; [reflexivity|]. split; [split; [apply rand_value_lo|apply rand_value_hi]; assumption|].
    split; [apply rand_value_nonneg; assumption|]. split; [apply rand_value_rf0; assumption|]. left. exact E0.
  - apply Z.eqb_neq in E0. destruct (Z.ltb_spec (max_elapsed c) elapsed).
    + intros E. injection E as <- <-. split; [exact Hc|]. left. repeat split; try reflexivity; lia.
    + intros E. injection E as <- <-. split; [apply incr_nonneg; assumption|].
      right. split; [reflexivity|]. split; [split; [apply rand_value_lo|apply rand_value_hi]; assumption|].
      split; [apply rand_value_nonneg; assumption|]. split; [apply rand_value_rf0; assumption|]. right. lia.
Qed.

Ltac zb :=
  repeat match goal with
  | H : (_ <=? _) = true |- _ => apply Z.leb_le in H
  | H : (_ <? _) = true |- _ => apply Z.ltb_lt in H
  | H : (_ =? _) = true |- _ => apply Z.eqb_eq in H
  | H : (_ <=? _) = false |- _ => apply Z.leb_gt in H
  | H : (_ <? _) = false |- _ => apply Z.ltb_ge in H
  | H : (_ =? _) = false |- _ => apply Z.eqb_neq in H
  | H : (_ && _) = true |- _ => apply andb_true_iff in H; destruct H
  end.

Lemma sel_ok_spec td treset tnb wait s : sel_ok td treset tnb wait s = true ->
  0 <= s_gap s /\ 0 <= s_wake s /\ 0 <= s_dur s /\ (0 <= s_rnd s)%Q /\ (s_rnd s < 1)%Q
  /\ s_elapsed s = tnb - treset
  /\ (s_ctx s = true -> exists t, td = Some t /\ t <= tnb + s_wake s /\ t <= tnb + Z.max wait 0)
  /\ (s_ctx s = false -> wait <= s_wake s /\ (0 < wait -> forall t, td = Some t -> tnb + wait <= t)).
Proof.
  unfold sel_ok. intros H. zb.
  match goal with H : Qin01 _ = true |- _ => apply Qin01_spec in H; destruct H end.
  split; [lia|]. split; [lia|]. split; [lia|]. split; [assumption|]. split; [assumption|]. split; [lia|].
  split.
  - intros Hc. rewrite Hc in *. destruct td as [t|]; [|discriminate]. zb.
    exists t. repeat split; lia.
  - intros Hc. rewrite Hc in *. zb. split; [lia|]. intros Hw t Ht.
    match goal with H : (_ || _) = true |- _ => apply orb_true_iff in H; destruct H end; zb; [lia|].
    rewrite Ht in *. zb. lia.
Qed.

Lemma loop_iters_ok c h sl td treset : cfg_ok c -> forall rem k cur now,
  forall last, 0 <= cur ->
  loop_ok c h sl td treset rem k cur now = true ->
  Forall (iter_ok c td treset) (r_waits (loop c h sl rem k cur now last)).
Proof.
  intros Hcfg. induction rem as [|rem IH]; intros k cur now last Hc Hok; [constructor|].
  cbn [loop loop_ok] in *.
  destruct (next_backoff c cur (s_elapsed (sl k)) (s_rnd (sl k))) as [wait cur'] eqn:NB.
  apply andb_true_iff in Hok as [Hs Hok].
  apply sel_ok_spec in Hs as [G [W [D [R0 [R1 [El [Cx Tm]]]]]]].
  destruct (next_backoff_spec c cur _ _ wait cur' Hcfg Hc R0 R1 NB) as [Hc' Hnb].
  assert (Hit : iter_ok c td treset (WItem k cur wait now (now + s_gap (sl k)) (now + s_gap (sl k) + s_wake (sl k)) (s_ctx (sl k)))).
  { unfold iter_ok. cbn [w_prev w_tnb w_twake w_cur w_ctx w_wait]. split; [lia|]. split; [exact Hc|].
    split; [intros E; destruct (Tm E); lia|]. split; [intros E; destruct (Tm E) as [_ T]; exact T|].
    split; [exact Cx|]. rewrite <- El.
    destruct Hnb as [[? [? [? ?]]]|[? [? [? [? ?]]]]]; [left|right]; repeat split; try assumption; lia. }
  destruct (s_ctx (sl k)); [constructor; [exact Hit|constructor]|].
  destruct (is_ok (h k)); [constructor; [exact Hit|constructor]|].
  cbn [r_waits]. constructor; [exact Hit|]. apply IH; assumption.
Qed.


(** giving up early: the loop returned through <-ctx.Done() *)
Lemma loop_early_exit c h sl : forall rem k cur now last,
  let r := loop c h sl rem k cur now last in
  is_ok (r_out r) = false -> (length (calls (r_trace r)) < rem)%nat ->
  exists its it, r_waits r = its ++ [it] /\ w_ctx it = true /\ w_twake it = r_tret r.
Proof.
  induction rem as [|rem IH]; intros k cur now last; cbn zeta; [cbn; lia|].
  cbn [loop]. destruct (next_backoff c cur (s_elapsed (sl k)) (s_rnd (sl k))) as [wait cur'].
  destruct (s_ctx (sl k)) eqn:Hc.
  - intros _ _. eexists [], _. cbn. repeat split; reflexivity.
  - destruct (is_ok (h k)) eqn:Hk; [cbn; congruence|].
    cbn [r_out r_trace r_waits r_tret]. intros Ho Hl.
    cbn [calls flat_map app] in Hl.
    match type of Hl with context [flat_map ?f (notes c k wait ++ ?l)] =>
      change (flat_map f (notes c k wait ++ l)) with (calls (notes c k wait ++ l)) in Hl end.
    rewrite calls_notes in Hl. cbn [length] in Hl.
    destruct (IH (S k) cur' (now + s_gap (sl k) + s_wake (sl k) + s_dur (sl k)) (h k) Ho ltac:(lia))
      as [its [it [E [A B]]]].
    exists (WItem k cur wait now (now + s_gap (sl k)) (now + s_gap (sl k) + s_wake (sl k)) false :: its), it.
    rewrite E. repeat split; assumption.
Qed.

Lemma t_done_cases c e t : 0 <= e_ctx_gap e -> match e_lag e with Some l => 0 <= l | None => True end ->
  t_done c e = Some t ->
  (exists tc, e_cancel e = Some tc /\ tc <= t)
  \/ (0 < max_elapsed c /\ t_end0 e + max_elapsed c <= t).
Proof.
  intros Hg Hl. unfold t_done.
  destruct (e_cancel e) as [tc|], (0 <? max_elapsed c) eqn:E, (e_lag e) as [l|]; cbn; intros H;
    try discriminate; zb; try (injection H as <-).
  - destruct (Z.le_ge_cases tc (t_end0 e + e_ctx_gap e + max_elapsed c + l)).
    + left. exists tc. split; [reflexivity|lia].
    + right. split; lia.
  - left. exists tc. split; [reflexivity|lia].
  - left. exists tc. split; [reflexivity|lia].
  - left. exists tc. split; [reflexivity|lia].
  - right. split; lia.
Qed.

Lemma t_done_cancel c e tc : e_cancel e = Some tc -> exists t, t_done c e = Some t /\ t <= tc.
Proof.
  intros E. unfold t_done. rewrite E.
  destruct (0 <? max_elapsed c), (e_lag e); cbn; eexists; split; try reflexivity; lia.
Qed.

Lemma env_ok_spec c h e : env_ok c h e = true ->
  0 <= e_dur0 e /\ 0 <= e_ctx_gap e <= e_reset_gap e
  /\ match e_lag e with Some l => 0 <= l | None => True end
  /\ (is_ok (h O) = false ->
      loop_ok c h (e_sel e) (t_done c e) (t_reset e) (iterations c) 1 (initial c) (t_reset e) = true).
Proof.
  unfold env_ok. intros H. zb. repeat split; try lia.
  - destruct (e_lag e); [zb; lia|exact I].
  - intros E. rewrite E in *. assumption.
Qed.

(** fewer retries than configured although every attempt failed: only through an ended
    context — the message context was cancelled, or MaxElapsedTime had passed *)
Lemma retry_early_exit_only_on_ctx c h e : cfg_ok c -> env_ok c h e = true ->
  let r := retry c h e in
  is_ok (r_out r) = false -> (attempts (r_trace r) < 1 + iterations c)%nat ->
  exists its it t, r_waits r = its ++ [it] /\ w_ctx it = true /\ w_twake it = r_tret r
    /\ t_done c e = Some t /\ t <= r_tret r
    /\ ((exists tc, e_cancel e = Some tc /\ tc <= r_tret r)
        \/ (0 < max_elapsed c /\ t_end0 e + max_elapsed c <= r_tret r)).
Proof.
  intros Hcfg Henv. apply env_ok_spec in Henv as [D0 [Gp [Lg Hl]]].
  cbn zeta. unfold retry, attempts. destruct (is_ok (h O)) eqn:H0; [cbn; congruence|].
  cbn [r_out r_trace r_waits r_tret]. intros Ho Ha.
  cbn [calls flat_map app length] in Ha.
  match type of Ha with context [flat_map ?f ?l] => change (flat_map f l) with (calls l) in Ha end.
  destruct (loop_early_exit c h (e_sel e) (iterations c) 1 (initial c) (t_reset e) (h O) Ho ltac:(lia))
    as [its [it [E [A B]]]].
  pose proof (loop_iters_ok c h (e_sel e) (t_done c e) (t_reset e) Hcfg (iterations c) 1 (initial c) (t_reset e) (h O)
                ltac:(destruct Hcfg; assumption) (Hl eq_refl)) as F.
  rewrite E in F. apply Forall_app in F as [_ F]. inversion F as [|? ? Hit _]; subst.
  destruct Hit as [_ [_ [_ [_ [Hx _]]]]]. destruct (Hx A) as [t [Ht [T1 T2]]].
  exists its, it, t. rewrite <- B. repeat split; try assumption.
  destruct (t_done_cases c e t ltac:(lia) Lg Ht) as [[tc [X Y]]|[X Y]].
  - left. exists tc. split; [exact X|lia].
  - right. split; lia.
Qed.

(** * 3. The model passes the acceptor that judges the implementation *)

Lemma outcome_eqb_refl o : outcome_eqb o o = true.
Proof.
  unfold outcome_eqb. apply andb_true_iff. split; [|apply N.eqb_refl].
  apply (list_eqb_spec N.eqb); [intros; apply N.eqb_eq|reflexivity].
Qed.

Lemma take_notes_notes c k w tl :
  take_notes c k (notes c k w ++ tl)
  = Some (if has_log c || has_hook c then Some w else None, tl).
Proof.
  unfold take_notes, notes. destruct (has_log c), (has_hook c); cbn;
    rewrite ?Z.eqb_refl; cbn; rewrite ?Z.eqb_refl; cbn; reflexivity.
Qed.

Ltac bsplit := repeat (apply andb_true_iff; split).

Section Accepted.
  Variables (c : cfg) (sk : slack) (h : nat -> outcome) (sl : nat -> sel) (td : option Z)
            (end0 created treset : Z) (cancel : option Z).
  Hypothesis Hcfg : cfg_ok c.
  Hypothesis Hsk : 0 <= sl_lo sk /\ 0 <= sl_exit sk /\ 0 <= sl_af sk /\ 0 <= sl_d sk.
  Hypothesis Htimes : end0 <= created <= treset.
  Hypothesis Hdone : forall t, td = Some t ->
    (exists tc, cancel = Some tc /\ tc <= t) \/ (0 < max_elapsed c /\ end0 + max_elapsed c <= t).
  Hypothesis Hcancel : forall tc, cancel = Some tc -> exists t, td = Some t /\ t <= tc.
  Hypothesis Htimely : 0 < max_elapsed c -> exists t, td = Some t /\ t <= created + max_elapsed c + sl_af sk.

  (** a retry that happened after a wait of at least [w] passes the timing rules *)
  Lemma timing_fact (o : obs) (k : nat) (now tnb ts ts1 wait w : Z) :
    o_cpost o = cancel -> (1 <= k)%nat ->
    treset <= tnb -> ((2 <= k)%nat -> treset <= ts1) ->
    now <= tnb -> wait <= ts - tnb ->
    (0 < wait -> forall t, td = Some t -> tnb + wait <= t) ->
    w <= wait ->
    timing_ok c sk o k (Some w) ts (if (k <=? 1)%nat then ts else ts1) now = true.
  Proof.
    intros Hcp Hk Hnow Hts1 Htnb Hwake Hsel Hw. destruct Hsk as [S1 [S2 [S3 S4]]].
    unfold timing_ok. bsplit; [apply Z.leb_le; lia|].
    destruct (0 <? w) eqn:E; [|reflexivity]. zb. bsplit.
    - rewrite Hcp. destruct cancel as [tc|] eqn:Ec; [|reflexivity].
      destruct (Hcancel tc eq_refl) as [t [Ht Hle]]. pose proof (Hsel ltac:(lia) t Ht).
      apply Z.leb_le. lia.
    - destruct (0 <? max_elapsed c) eqn:EM; [|reflexivity]. zb.
      destruct (Htimely EM) as [t [Ht Hle]]. pose proof (Hsel ltac:(lia) t Ht).
      destruct (k <=? 1)%nat eqn:Ek.
      + apply Z.leb_le. lia.
      + apply Nat.leb_gt in Ek. pose proof (Hts1 ltac:(lia)). apply Z.leb_le. lia.
  Qed.

  Lemma loop_accepted : forall rem k cur ocur now pe ts1 last o,
    is_ok last = false -> 0 <= cur -> (ocur = Some cur \/ ocur = None) ->
    (1 <= k)%nat -> treset <= now -> pe <= now -> ((2 <= k)%nat -> treset <= ts1) ->
    loop_ok c h sl td treset rem k cur now = true ->
    let r := loop c h sl rem k cur now last in
    o_out o = r_out r -> o_tret o = r_tret r -> o_cpre o = cancel -> o_cpost o = cancel ->
    mloop c sk h o rem k ocur end0 ts1 pe last (r_trace r) = true.
  Proof.
    induction rem as [|rem IH]; intros k cur ocur now pe ts1 last o Hl Hc Hoc Hk Hnow Hpe Hts1 Hok; cbn zeta.
    - cbn. intros Ho _ _ _. rewrite Ho. cbn [snd]. rewrite is_ok_nil_err, Hl. cbn. apply N.eqb_refl.
    - cbn [loop loop_ok] in *.
      destruct (next_backoff c cur (s_elapsed (sl k)) (s_rnd (sl k))) as [wait cur'] eqn:NB.
      apply andb_true_iff in Hok as [Hs Hok].
      apply sel_ok_spec in Hs as [G [W [D [R0 [R1 [El [Cx Tm]]]]]]].
      destruct (next_backoff_spec c cur _ _ wait cur' Hcfg Hc R0 R1 NB) as [Hc' Hnb].
      destruct (s_ctx (sl k)) eqn:Ectx.
      + (* gave up through ctx.Done *)
        cbn [r_out r_tret r_trace]. intros Ho Ht Hpre _. cbn [mloop]. rewrite Ho, Hl. cbn [negb andb].
        rewrite N.eqb_refl. cbn [andb]. unfold exit_ok. rewrite Hpre, Ht.
        destruct (Cx eq_refl) as [t [Etd [T1 T2]]].
        destruct (Hdone t Etd) as [[tc [Ec Hle]]|[M1 M2]].
        * rewrite Ec. apply orb_true_iff. left. apply Z.leb_le. lia.
        * apply orb_true_iff. right. bsplit; [apply Z.ltb_lt; lia|apply Z.leb_le; lia].
      + destruct (Tm eq_refl) as [Tw Tsel].
        set (tnb := now + s_gap (sl k)) in *. set (ts := tnb + s_wake (sl k)) in *.
        set (te := ts + s_dur (sl k)) in *.
        assert (Hunknown : forall oc, (oc = Some cur \/ oc = None) -> o_cpost o = cancel ->
                  timing_ok c sk o k (unknown_wait c oc ts end0) ts (if (k <=? 1)%nat then ts else ts1) pe = true).
        { intros oc [-> | ->] E; [|reflexivity].
          unfold unknown_wait.
          destruct (((0 <? max_elapsed c) && (max_elapsed c <? ts - end0)) || (max_elapsed c <? 0)) eqn:Es; [reflexivity|].
          apply orb_false_iff in Es as [Es _].
          apply (timing_fact o k pe tnb ts ts1 wait); try assumption; try (unfold tnb, ts; lia).
          all: destruct Hnb as [[? [? [? ?]]]|[? [[? ?] _]]]; [|assumption].
          all: apply andb_false_iff in Es as [Es|Es]; zb; unfold ts, tnb in *; lia. }
        destruct (is_ok (h k)) eqn:Hhk.
        * (* the retry succeeded *)
          cbn [r_out r_tret r_trace]. intros Ho Ht Hpre Hpost. cbn [mloop]. rewrite Hhk, Ho.
          rewrite Nat.eqb_refl, outcome_eqb_refl. cbn [andb].
          rewrite (Hunknown ocur Hoc Hpost). bsplit; try reflexivity; apply Z.leb_le; unfold te, ts, tnb; lia.
        * (* it failed: logger, hook, next iteration *)
          cbn [r_out r_tret r_trace]. intros Ho Ht Hpre Hpost. cbn [mloop].
          rewrite Hhk, take_notes_notes, Nat.eqb_refl.
          assert (Hrec : forall oc', (oc' = Some cur' \/ oc' = None) ->
                    mloop c sk h o rem (S k) oc' end0 (if (k <=? 1)%nat then ts else ts1) te (h k)
                          (r_trace (loop c h sl rem (S k) cur' te (h k))) = true).
          { intros oc' Hoc'. apply (IH (S k) cur' oc' te te _ (h k) o); try assumption; try lia;
              try (unfold te, ts, tnb; lia).
            intros Hk2. destruct (k <=? 1)%nat eqn:Ek.
            - unfold ts, tnb. lia.
            - apply Nat.leb_gt in Ek. apply Hts1. lia. }
          assert (Hcalls : (ts <=? te) && (pe <=? ts) = true)
            by (bsplit; apply Z.leb_le; unfold te, ts, tnb; lia).
          apply andb_true_iff in Hcalls as [Hc1 Hc2]. rewrite Hc1, Hc2. cbn [andb].
          assert (Htim : timing_ok c sk o k (Some wait) ts (if (k <=? 1)%nat then ts else ts1) pe = true).
          { apply (timing_fact o k pe tnb ts ts1 wait); try assumption; try (unfold tnb, ts; lia). }
          destruct (has_log c || has_hook c) eqn:Enotes.
          -- destruct Hoc as [-> | ->].
             ++ rewrite Htim. bsplit; try reflexivity.
                ** (* delay_ok *)
                   unfold delay_ok. destruct Hsk as [S1 [S2 [S3 S4]]].
                   destruct Hnb as [[Ew [_ [M1 M2]]]|[_ [[L1 L2] [_ [_ M]]]]].
                   --- apply orb_true_iff. left. rewrite Ew. apply andb_true_iff. split; [reflexivity|].
                       apply orb_true_iff. left. bsplit.
                       +++ apply Z.ltb_lt. lia.
                       +++ apply Z.ltb_lt. unfold ts, tnb in *. lia.
                   --- apply orb_true_iff. right. bsplit; try (apply Z.leb_le; lia).
                       destruct M as [M|M]; [rewrite M; reflexivity|].
                       destruct (k <=? 1)%nat eqn:Ek; [apply orb_true_iff; left; apply orb_true_iff; right; reflexivity|].
                       apply Nat.leb_gt in Ek. pose proof (Hts1 ltac:(lia)).
                       apply orb_true_iff. right. apply Z.leb_le. unfold tnb in *. lia.
                ** apply Hrec. left.
                   destruct Hnb as [[Ew [Ec _]]|[Ec [_ [Hw0 _]]]].
                   --- rewrite Ew, Ec. reflexivity.
                   --- destruct (wait =? STOP) eqn:E; [zb; unfold STOP in *; lia|]. rewrite Ec. reflexivity.
             ++ rewrite Htim. cbn [andb]. apply Hrec. right. reflexivity.
          -- rewrite (Hunknown ocur Hoc Hpost). cbn [andb].
             apply Hrec. destruct Hoc as [-> | ->]; [|right; destruct (max_elapsed c =? 0); reflexivity].
             destruct (max_elapsed c =? 0) eqn:EM; [|right; reflexivity]. left. cbn [option_map]. zb.
             destruct Hnb as [[_ [_ [M1 _]]]|[Ec _]]; [lia|rewrite Ec; reflexivity].
  Qed.
End Accepted.

Lemma t_done_timely c e l : 0 < max_elapsed c -> e_lag e = Some l ->
  exists t, t_done c e = Some t /\ t <= t_end0 e + e_ctx_gap e + max_elapsed c + l.
Proof.
  intros M E. unfold t_done. rewrite E. apply Z.ltb_lt in M. rewrite M.
  destruct (e_cancel e); cbn; eexists; split; try reflexivity; lia.
Qed.

(** every run of the model under a valid environment is accepted by the monitor, with any
    non-negative slack, provided the timeout context closes Done within [sl_af] of its
    deadline (the only upper bound on a reaction time the monitor relies on) *)
Lemma retry_accepted c sk h e :
  cfg_ok c -> 0 <= sl_lo sk /\ 0 <= sl_exit sk /\ 0 <= sl_af sk /\ 0 <= sl_d sk ->
  env_ok c h e = true ->
  (0 < max_elapsed c -> exists l, e_lag e = Some l /\ l <= sl_af sk) ->
  retry_monitor c sk h (obs_of e (retry c h e)) = true.
Proof.
  intros Hcfg Hsk Henv Hlag. apply env_ok_spec in Henv as [D0 [Gp [Lg Hl]]].
  unfold retry_monitor, obs_of, retry. destruct (is_ok (h O)) eqn:H0.
  - cbn. rewrite ?H0, outcome_eqb_refl. cbn. bsplit; try reflexivity. apply Z.leb_le. unfold t_end0. lia.
  - cbn [r_trace r_out r_tret o_trace]. rewrite ?H0.
    apply andb_true_iff. split; [apply Z.leb_le; unfold t_end0; lia|].
    apply (loop_accepted c sk h (e_sel e) (t_done c e) (t_end0 e) (t_end0 e + e_ctx_gap e) (t_reset e) (e_cancel e));
      try assumption; try reflexivity; try (unfold t_reset; lia).
    + intros t Ht. apply (t_done_cases c e t); [lia|exact Lg|exact Ht].
    + intros tc Ht. apply t_done_cancel. exact Ht.
    + intros M. destruct (Hlag M) as [l [El Hle]]. destruct (t_done_timely c e l M El) as [t [Ht Hb]].
      exists t. split; [exact Ht|lia].
    + destruct Hcfg; assumption.
    + left. reflexivity.
    + apply Hl. reflexivity.
Qed.

(** * 4. Statements about [retry] *)

Lemma firstn_seq' n a len : (n <= len)%nat -> firstn n (seq a len) = seq a n.
Proof.
  revert a len. induction n as [|n IH]; intros a len H; [reflexivity|].
  destruct len; [lia|]. cbn. f_equal. apply IH. lia.
Qed.

Lemma firstn_map' {A B} (f : A -> B) n l : firstn n (map f l) = map f (firstn n l).
Proof. revert l. induction n; intros [|x l]; cbn; try reflexivity. f_equal. apply IHn. Qed.

Definition failed_retries (h : nat -> outcome) (tr : list event) : nat := (failed_calls h tr - 1)%nat.

(** OnRetryHook is called with 1,2,..,f in order, f = number of failed re-invocations, and the
    delay it is given is the wait NextBackOff returned for that retry; the Logger likewise *)
Lemma retry_hook_sequence c h e :
  let r := retry c h e in
  let f := failed_retries h (r_trace r) in
  map w_k (r_waits r) = seq 1 (length (r_waits r))
  /\ (f <= length (r_waits r))%nat
  /\ hooks (r_trace r) = (if has_hook c then map note_of (firstn f (r_waits r)) else [])
  /\ logs (r_trace r) = (if has_log c then map (fun it => (note_of it, max_retries c)) (firstn f (r_waits r)) else [])
  /\ (has_hook c = true -> map fst (hooks (r_trace r)) = map Z.of_nat (seq 1 f)).
Proof.
  cbn zeta. unfold retry, failed_retries. destruct (is_ok (h O)) eqn:H0.
  - unfold failed_calls. cbn. rewrite H0. cbn. destruct (has_hook c), (has_log c); repeat split; try reflexivity; lia.
  - pose proof (loop_notes c h (e_sel e) (iterations c) 1 (initial c) (t_reset e) (h O)) as L.
    cbn zeta in L. destruct L as [Hn [_ [f [Hf [Hfl [Hh Hg]]]]]].
    set (r := loop c h (e_sel e) (iterations c) 1 (initial c) (t_reset e) (h O)) in *.
    cbn [r_trace r_waits].
    assert (E : (failed_calls h (ECall 0 (e_t0 e) (t_end0 e) :: r_trace r) - 1)%nat = f).
    { unfold failed_calls in *. cbn [calls flat_map app]. fold (calls (r_trace r)).
      cbn [filter]. rewrite H0. cbn [negb length]. lia. }
    rewrite E. split; [exact Hn|]. split; [exact Hfl|].
    cbn [hooks logs flat_map app]. fold (hooks (r_trace r)). fold (logs (r_trace r)).
    split; [exact Hh|]. split; [exact Hg|].
    intros HH. rewrite Hh, HH. unfold note_of. rewrite map_map. cbn [fst].
    rewrite <- (map_map w_k Z.of_nat), <- firstn_map', Hn, firstn_seq' by exact Hfl. reflexivity.
Qed.

(** every iteration under a valid environment: the wait is Stop (only after MaxElapsedTime) or
    lies in the randomisation interval of the current interval (equal to it without
    randomisation); the handler is re-invoked no earlier than that wait after the select was
    entered; a positive wait is only waited out if the context did not end before the timer *)
Lemma retry_iterations c h e : cfg_ok c -> env_ok c h e = true ->
  Forall (iter_ok c (t_done c e) (t_reset e)) (r_waits (retry c h e)).
Proof.
  intros Hcfg Henv. apply env_ok_spec in Henv as [_ [_ [_ Hl]]]. unfold retry.
  destruct (is_ok (h O)) eqn:H0; [constructor|]. cbn [r_waits].
  apply loop_iters_ok; [exact Hcfg|destruct Hcfg; assumption|apply Hl; reflexivity].
Qed.

Lemma retry_schedule c h e : max_elapsed c = 0 ->
  Forall (fun it => w_cur it = cur_at c (w_k it)) (r_waits (retry c h e)).
Proof.
  intros M. unfold retry. destruct (is_ok (h O)); [constructor|]. cbn [r_waits].
  apply loop_cur_schedule; [exact M|lia|reflexivity].
Qed.

Lemma retry_backoff_lower_bound c h e : cfg_ok c -> env_ok c h e = true ->
  forall it, In it (r_waits (retry c h e)) -> w_ctx it = false ->
    w_prev it + w_wait it <= w_twake it
    /\ (w_wait it = STOP \/ delay_lo (rfac c) (w_cur it) <= w_wait it <= delay_hi (rfac c) (w_cur it))
    /\ (inject_Z (w_cur it) * (1 - rfac c) < inject_Z (delay_lo (rfac c) (w_cur it)) + 1)%Q
    /\ ((rfac c == 0)%Q -> w_wait it <> STOP -> w_wait it = w_cur it)
    /\ (max_elapsed c = 0 -> w_wait it <> STOP /\ w_cur it = cur_at c (w_k it)).
Proof.
  intros Hcfg Henv it Hin Hctx.
  pose proof (retry_iterations c h e Hcfg Henv) as F. rewrite Forall_forall in F.
  destruct (F it Hin) as [T [Hc [Tw [_ [_ Hd]]]]]. specialize (Tw Hctx).
  destruct Hcfg as [_ [_ [_ [R0 [R1 _]]]]].
  split; [lia|]. split; [destruct Hd as [[? _]|[? _]]; [left|right]; assumption|].
  split; [apply delay_lo_spec; assumption|].
  split; [intros E NS; destruct Hd as [[? _]|[_ [_ [X _]]]]; [contradiction|apply X; exact E]|].
  intros M. split; [destruct Hd as [[_ [? _]]|[_ [? _]]]; unfold STOP; lia|].
  pose proof (retry_schedule c h e M) as S. rewrite Forall_forall in S. apply S. exact Hin.
Qed.

Lemma retry_gives_up_when_ctx_ends c h e : cfg_ok c -> env_ok c h e = true ->
  forall it t, In it (r_waits (retry c h e)) -> t_done c e = Some t ->
    w_ctx it = false -> t < w_tnb it + w_wait it -> w_wait it <= 0.
Proof.
  intros Hcfg Henv it t Hin Ht Hctx Hlt.
  pose proof (retry_iterations c h e Hcfg Henv) as F. rewrite Forall_forall in F.
  destruct (F it Hin) as [_ [_ [_ [Ts _]]]]. specialize (Ts Hctx).
  destruct (Z.lt_ge_cases 0 (w_wait it)) as [P|P]; [|exact P].
  specialize (Ts P t Ht). lia.
Qed.

Lemma retry_max_elapsed_stop c h e : cfg_ok c -> env_ok c h e = true ->
  forall it, In it (r_waits (retry c h e)) ->
    0 < max_elapsed c -> max_elapsed c < w_tnb it - t_reset e -> w_wait it = STOP.
Proof.
  intros Hcfg Henv it Hin M1 M2.
  pose proof (retry_iterations c h e Hcfg Henv) as F. rewrite Forall_forall in F.
  destruct (F it Hin) as [_ [_ [_ [_ [_ [[? _]|[_ [_ [_ [?|?]]]]]]]]]]; [assumption|lia|lia].
Qed.

(** exhausting the retries: without a context exit and with every attempt failing the handler
    is invoked exactly 1 + iterations times and (nil, last error) is returned *)
Lemma loop_exhaust c h sl : forall rem k cur now last,
  (forall j, (k <= j < k + rem)%nat -> is_ok (h j) = false /\ s_ctx (sl j) = false) ->
  let r := loop c h sl rem k cur now last in
  calls (r_trace r) = seq k rem
  /\ r_out r = ([], snd (match rem with O => last | _ => h (k + rem - 1)%nat end)).
Proof.
  induction rem as [|rem IH]; intros k cur now last H; cbn zeta; [split; reflexivity|].
  cbn [loop]. destruct (next_backoff c cur (s_elapsed (sl k)) (s_rnd (sl k))) as [wait cur'].
  destruct (H k ltac:(lia)) as [Hk Hs]. rewrite Hs, Hk. cbn [r_trace r_out].
  destruct (IH (S k) cur' (now + s_gap (sl k) + s_wake (sl k) + s_dur (sl k)) (h k)) as [A B].
  { intros j Hj. apply H. lia. }
  split.
  - cbn [calls flat_map app].
    match goal with |- context [flat_map ?f (notes c k wait ++ ?l)] =>
      change (flat_map f (notes c k wait ++ l)) with (calls (notes c k wait ++ l)) end.
    rewrite calls_notes, A. reflexivity.
  - rewrite B. destruct rem.
    + replace (k + 1 - 1)%nat with k by lia. reflexivity.
    + replace (S k + S rem - 1)%nat with (k + S (S rem) - 1)%nat by lia. reflexivity.
Qed.

Lemma retry_exhaust c h e :
  (forall j, (j <= iterations c)%nat -> is_ok (h j) = false) ->
  (forall j, (1 <= j <= iterations c)%nat -> s_ctx (e_sel e j) = false) ->
  calls (r_trace (retry c h e)) = seq 0 (S (iterations c))
  /\ r_out (retry c h e) = ([], snd (h (iterations c))).
Proof.
  intros Hf Hs. unfold retry. rewrite (Hf O ltac:(lia)). cbn [r_trace r_out].
  destruct (loop_exhaust c h (e_sel e) (iterations c) 1 (initial c) (t_reset e) (h O)) as [A B].
  { intros j Hj. split; [apply Hf|apply Hs]; lia. }
  split.
  - cbn [calls flat_map app].
    match goal with |- context [flat_map ?f ?l] => change (flat_map f l) with (calls l) end.
    rewrite A. reflexivity.
  - rewrite B. pose proof (iterations_pos c). destruct (iterations c) as [|n]; [lia|].
    replace (1 + S n - 1)%nat with (S n) by lia. reflexivity.
Qed.

(** an error result is always the error of the last attempt made, and every attempt failed *)
Lemma retry_error_is_last c h e :
  is_ok (r_out (retry c h e)) = false ->
  exists n, calls (r_trace (retry c h e)) = seq 0 (S n)
            /\ (forall j, (j <= n)%nat -> is_ok (h j) = false)
            /\ snd (r_out (retry c h e)) = snd (h n) /\ snd (h n) <> 0%N.
Proof.
  intros Hf. destruct (retry_logic c h e) as [n [_ [Hc [[H1 _]|[_ [H2 H3]]]]]].
  - rewrite Hf in H1. discriminate.
  - exists n. repeat split; try assumption.
    specialize (H2 n (le_n n)). unfold is_ok in H2. apply N.eqb_neq in H2. exact H2.
Qed.

(** the re-invocation of an iteration that left the select through the timer starts at the
    instant the select returned *)
Lemma loop_call_at c h sl : forall rem k cur now last,
  let r := loop c h sl rem k cur now last in
  Forall (fun it => w_ctx it = false -> exists te, In (ECall (w_k it) (w_twake it) te) (r_trace r)) (r_waits r).
Proof.
  induction rem as [|rem IH]; intros k cur now last; cbn zeta; [constructor|].
  cbn [loop]. destruct (next_backoff c cur (s_elapsed (sl k)) (s_rnd (sl k))) as [wait cur'].
  destruct (s_ctx (sl k)) eqn:E.
  - constructor; [cbn; congruence|constructor].
  - destruct (is_ok (h k)).
    + constructor; [|constructor]. intros _. eexists. left. reflexivity.
    + cbn [r_trace r_waits]. constructor.
      * intros _. eexists. left. reflexivity.
      * specialize (IH (S k) cur' (now + s_gap (sl k) + s_wake (sl k) + s_dur (sl k)) (h k)). cbn zeta in IH.
        eapply Forall_impl; [|exact IH]. intros it H Hc. destruct (H Hc) as [te Hin].
        exists te. right. apply in_or_app. right. exact Hin.
Qed.

Lemma retry_call_at c h e :
  forall it, In it (r_waits (retry c h e)) -> w_ctx it = false ->
  exists te, In (ECall (w_k it) (w_twake it) te) (r_trace (retry c h e)).
Proof.
  unfold retry. destruct (is_ok (h O)); [intros it []|]. cbn [r_waits r_trace].
  intros it Hin Hc.
  pose proof (loop_call_at c h (e_sel e) (iterations c) 1 (initial c) (t_reset e) (h O)) as F.
  cbn zeta in F. rewrite Forall_forall in F. destruct (F it Hin Hc) as [te H].
  exists te. right. exact H.
Qed.

(** * 5. Zero waits and an ended context (round "seeds 3") *)

Lemma late_count_notes c k w tc prev l : late_count tc prev (notes c k w ++ l) = late_count tc prev l.
Proof. unfold notes. destruct (has_log c), (has_hook c); reflexivity. Qed.

(** every observable late retry is a select race lost to the timer *)
Lemma loop_late c h sl td treset tc : (exists t, td = Some t /\ t <= tc) ->
  forall rem k cur now pe last, pe <= now ->
  loop_ok c h sl td treset rem k cur now = true ->
  (late_count tc pe (r_trace (loop c h sl rem k cur now last))
   <= lost_races td (r_waits (loop c h sl rem k cur now last)))%nat.
Proof.
  intros [t [Etd Ht]]. subst td. induction rem as [|rem IH]; intros k cur now pe last Hpe Hok; [cbn; lia|].
  cbn [loop loop_ok] in *.
  destruct (next_backoff c cur (s_elapsed (sl k)) (s_rnd (sl k))) as [wait cur'] eqn:NB.
  apply andb_true_iff in Hok as [Hs Hok].
  apply sel_ok_spec in Hs as [G [W [D _]]].
  destruct (s_ctx (sl k)) eqn:Ec; [cbn; lia|].
  destruct (is_ok (h k)) eqn:Eo.
  - cbn [r_trace r_waits late_count]. unfold lost_races. cbn [filter].
    unfold lost_race at 1. cbn [w_ctx w_tnb negb andb]. unfold ctx_ready_at.
    destruct (Z.leb_spec tc pe); [|cbn; lia].
    destruct (Z.leb_spec t (now + s_gap (sl k))); [cbn; lia|lia].
  - cbn [r_trace r_waits late_count]. rewrite late_count_notes.
    specialize (IH (S k) cur' (now + s_gap (sl k) + s_wake (sl k) + s_dur (sl k))
                   (now + s_gap (sl k) + s_wake (sl k) + s_dur (sl k)) (h k) (Z.le_refl _) Hok).
    unfold lost_races in *. cbn [filter].
    unfold lost_race at 1. cbn [w_ctx w_tnb negb andb]. unfold ctx_ready_at.
    destruct (Z.leb_spec tc pe).
    + destruct (Z.leb_spec t (now + s_gap (sl k))); [cbn [length]; lia|lia].
    + destruct (t <=? now + s_gap (sl k)); cbn [length]; lia.
Qed.

Lemma retry_late_ok c h e K : env_ok c h e = true ->
  (lost_races (t_done c e) (r_waits (retry c h e)) <= K)%nat ->
  late_ok K (obs_of e (retry c h e)) = true.
Proof.
  intros Henv HK. apply env_ok_spec in Henv as [D0 [Gp [_ Hl]]].
  unfold late_ok, late_retries, obs_of. cbn [o_cpost o_trace].
  destruct (e_cancel e) as [tc|] eqn:Ec; [|reflexivity].
  apply Nat.leb_le. unfold retry in *. destruct (is_ok (h O)) eqn:E0; [cbn; lia|].
  cbn [r_trace r_waits] in *.
  eapply Nat.le_trans; [|exact HK].
  apply (loop_late c h (e_sel e) (t_done c e) (t_reset e) tc (t_done_cancel c e tc Ec)).
  - unfold t_reset, t_end0. lia.
  - apply Hl. reflexivity.
Qed.

(** for every configuration: a positive wait is only sat out if Done did not become ready
    before the timer *)
Lemma loop_positive_wait c h sl td treset : forall rem k cur now last,
  loop_ok c h sl td treset rem k cur now = true ->
  Forall (fun it => w_ctx it = false -> 0 < w_wait it ->
                    forall t, td = Some t -> w_tnb it + w_wait it <= t)
         (r_waits (loop c h sl rem k cur now last)).
Proof.
  induction rem as [|rem IH]; intros k cur now last Hok; [constructor|].
  cbn [loop loop_ok] in *.
  destruct (next_backoff c cur (s_elapsed (sl k)) (s_rnd (sl k))) as [wait cur'].
  apply andb_true_iff in Hok as [Hs Hok].
  apply sel_ok_spec in Hs as [_ [_ [_ [_ [_ [_ [_ Tm]]]]]]].
  destruct (s_ctx (sl k)) eqn:Ec.
  - constructor; [cbn; congruence|constructor].
  - destruct (Tm eq_refl) as [_ T].
    destruct (is_ok (h k)); [constructor; [cbn; intros _; exact T|constructor]|].
    cbn [r_waits]. constructor; [cbn; intros _; exact T|]. apply IH. exact Hok.
Qed.

(** after the context has ended a retry can only happen through a zero (or negative) wait: a
    select entered with Done ready takes the timer only if the timer is ready too *)
Lemma retry_after_context_end c h e : env_ok c h e = true ->
  forall it, In it (r_waits (retry c h e)) -> lost_race (t_done c e) it = true -> w_wait it <= 0.
Proof.
  intros Henv it Hin Hl. apply env_ok_spec in Henv as [_ [_ [_ Hok]]].
  unfold lost_race, ctx_ready_at in Hl. apply andb_true_iff in Hl as [Hc Hr].
  apply negb_true_iff in Hc. destruct (t_done c e) as [t|] eqn:Etd; [|discriminate]. zb.
  unfold retry in Hin. destruct (is_ok (h O)) eqn:E0; [destruct Hin|]. cbn [r_waits] in Hin.
  pose proof (loop_positive_wait c h (e_sel e) (Some t) (t_reset e) (iterations c) 1 (initial c) (t_reset e) (h O) (Hok eq_refl)) as F.
  rewrite Forall_forall in F. destruct (Z.lt_ge_cases 0 (w_wait it)) as [P|P]; [|exact P].
  specialize (F it Hin Hc P t eq_refl). lia.
Qed.

(** the loop stops at the first select that takes ctx.Done *)
Lemma loop_stops_at_ctx c h sl : forall rem k cur now last j,
  (k <= j < k + rem)%nat -> s_ctx (sl j) = true ->
  (length (calls (r_trace (loop c h sl rem k cur now last))) <= j - k)%nat.
Proof.
  induction rem as [|rem IH]; intros k cur now last j Hj Hc; [lia|].
  cbn [loop]. destruct (next_backoff c cur (s_elapsed (sl k)) (s_rnd (sl k))) as [wait cur'].
  destruct (s_ctx (sl k)) eqn:Ek; [cbn; lia|].
  assert (j <> k) by (intros ->; congruence).
  destruct (is_ok (h k)); [cbn; lia|].
  cbn [r_trace calls flat_map app].
  match goal with |- context [flat_map ?f (notes c k wait ++ ?l)] =>
    change (flat_map f (notes c k wait ++ l)) with (calls (notes c k wait ++ l)) end.
  rewrite calls_notes. cbn [length].
  specialize (IH (S k) cur' (now + s_gap (sl k) + s_wake (sl k) + s_dur (sl k)) (h k) j ltac:(lia) Hc). lia.
Qed.

(** with every attempt failing, ALL retries are made if and only if EVERY select takes the timer
    case.  When the context has ended before the first retry and the back-off is 0 each select has
    both cases ready and Go chooses uniformly: of the 2^n resolutions exactly one makes all n
    retries *)
Lemma retry_all_retries_iff c h e :
  (forall j, (j <= iterations c)%nat -> is_ok (h j) = false) ->
  (attempts (r_trace (retry c h e)) = 1 + iterations c)%nat
  <-> (forall j, (1 <= j <= iterations c)%nat -> s_ctx (e_sel e j) = false).
Proof.
  intros Hf. split.
  - intros Ha j Hj. destruct (s_ctx (e_sel e j)) eqn:Ec; [|reflexivity]. exfalso.
    unfold attempts, retry in Ha. rewrite (Hf O ltac:(lia)) in Ha. cbn [r_trace calls flat_map app length] in Ha.
    match type of Ha with context [flat_map ?f ?l] => change (flat_map f l) with (calls l) in Ha end.
    pose proof (loop_stops_at_ctx c h (e_sel e) (iterations c) 1 (initial c) (t_reset e) (h O) j ltac:(lia) Ec). lia.
  - intros Hs. destruct (retry_exhaust c h e Hf Hs) as [Hc _].
    unfold attempts. rewrite Hc, seq_length. lia.
Qed.

(** * 6. MaxElapsedTime / any ended context under the fair-select contract (round "proofs 3") *)

Lemma loop_one_ctx_exit c h sl : forall rem k cur now last,
  (length (filter w_ctx (r_waits (loop c h sl rem k cur now last))) <= 1)%nat.
Proof.
  induction rem as [|rem IH]; intros k cur now last; [cbn; lia|].
  cbn [loop]. destruct (next_backoff c cur (s_elapsed (sl k)) (s_rnd (sl k))) as [wait cur'].
  destruct (s_ctx (sl k)) eqn:E; [cbn; lia|].
  destruct (is_ok (h k)); [cbn; lia|].
  cbn [r_waits filter w_ctx]. apply IH.
Qed.

Lemma filter_split_le {A} (P Q : A -> bool) l :
  (length (filter P l) <= length (filter (fun x => negb (Q x) && P x) l) + length (filter Q l))%nat.
Proof.
  induction l as [|x l IH]; [cbn; lia|]. cbn [filter].
  destruct (P x), (Q x); cbn [negb andb length]; lia.
Qed.

(** once ctx.Done() is ready (message context cancelled, or the MaxElapsedTime deadline passed and
    Done closed) at most K + 1 more iterations are entered when at most K select races are lost:
    K retries, none of them after a wait, and the iteration that gives up *)
Lemma retry_gives_up_within_K c h e K : env_ok c h e = true ->
  (lost_races (t_done c e) (r_waits (retry c h e)) <= K)%nat ->
  (length (filter (fun it => ctx_ready_at (t_done c e) (w_tnb it)) (r_waits (retry c h e))) <= K + 1)%nat
  /\ forall it, In it (r_waits (retry c h e)) -> ctx_ready_at (t_done c e) (w_tnb it) = true ->
       w_ctx it = false -> w_wait it <= 0.
Proof.
  intros Henv HK. split.
  - pose proof (filter_split_le (fun it => ctx_ready_at (t_done c e) (w_tnb it)) w_ctx (r_waits (retry c h e))) as S.
    assert (C1 : (length (filter w_ctx (r_waits (retry c h e))) <= 1)%nat).
    { unfold retry. destruct (is_ok (h O)); [cbn; lia|]. cbn [r_waits]. apply loop_one_ctx_exit. }
    unfold lost_races, lost_race in HK. lia.
  - intros it Hin Hr Hc. apply (retry_after_context_end c h e Henv it Hin).
    unfold lost_race. rewrite Hc, Hr. reflexivity.
Qed.

(** * 7. what the Logger is given *)
(** the errors handed to Logger.Error are, in order, the errors of the failed re-invocations
    1..f (each call gets the error of the attempt that just failed, never an earlier one) *)
Lemma retry_log_errs c h e : has_log c = true ->
  log_errs h (r_trace (retry c h e))
  = map (fun k => snd (h k)) (seq 1 (failed_retries h (r_trace (retry c h e)))).
Proof.
  intros HL. destruct (retry_hook_sequence c h e) as [Hn [Hf [_ [Hg _]]]]. cbn zeta in *.
  unfold log_errs. rewrite Hg, HL, !map_map. cbn [fst note_of].
  set (f := failed_retries h (r_trace (retry c h e))) in *.
  rewrite <- (firstn_seq' f 1 (length (r_waits (retry c h e))) Hf), <- Hn, firstn_map', map_map.
  apply map_ext. intros it. rewrite Nat2Z.id. reflexivity.
Qed.
