(** Round "proofs 3": PoisonQueue(Retry(h)) inside the Router, end to end, in the forward
    direction: k failures exhaust Retry => the message is on the poison topic exactly once with
    the documented metadata and is ACKED; if the poison publish fails it is NACKED and the error
    (the handler's last error first) is returned - nothing is lost. *)
From WM Require Import Base.Prelude Message.Model Handler.RouterHandle Handler.RouterProofs
  Handler.Poison Handler.PoisonProofs Handler.PoisonRetry Handler.PoisonRetryProofs Handler.PoisonRetryObs.
From WM Require Handler.Retry Handler.RetryProofs.

Section Proofs.
  Context (txt : err -> N) (errof : N -> err).

  Lemma retry_router_exhausted cfg c0 m0 acts rc h env pp pk pb md :
    (forall j, j <= Retry.iterations rc -> Retry.is_ok (h j) = false) ->
    (forall j, 1 <= j <= Retry.iterations rc -> Retry.s_ctx (Retry.e_sel env j) = false) ->
    let k := Retry.iterations rc in
    let le := errof (snd (h k)) in
    let m := fst (run_acts acts (m0, c0)) in
    let c := snd (run_acts acts (m0, c0)) in
    let pm := PM (pm_uuid m0) (pm_payload m) (Some (stamp c (txt le) md)) in
    accepts cfg le = FYes -> pm_meta m = Some md ->
    let '(ms, tr, r, mf) := poison_retry_in_router txt errof cfg c0 m0 PreNone acts rc h env pp pk pb in
    Retry.calls (Retry.r_trace (Retry.retry rc h env)) = seq 0 (S k)
    /\ match pp with
       | PPAccept => poison_pubs (pproj tr) = [(pq_topic cfg, pm)] /\ pub_oks (pproj tr) = 1
                     /\ st ms = Acked /\ r = MRet [] None /\ mf = pm
       | PPError pe => poison_pubs (pproj tr) = [(pq_topic cfg, pm)] /\ pub_oks (pproj tr) = 0
                     /\ st ms = Nacked /\ r = MRet [] (Some (multi_append le (EWrapCause WRAP_MSG pe))) /\ mf = pm
       | PPPanic => poison_pubs (pproj tr) = [(pq_topic cfg, pm)] /\ pub_oks (pproj tr) = 0
                     /\ st ms = Nacked /\ r = MPanic /\ mf = pm
       | PPNil => poison_pubs (pproj tr) = [] /\ st ms = Nacked /\ r = MPanic
       end.
  Proof.
    intros Hall Hctx k le m c pm Ha Hmd.
    destruct (RetryProofs.retry_exhaust rc h env Hall Hctx) as [Hcalls Hout].
    unfold poison_retry_in_router, hout_of. rewrite Hout. fold k.
    assert (Hk : Retry.is_ok (h k) = false) by (apply Hall; unfold k; lia).
    unfold Retry.is_ok in *. simpl. rewrite Hk. fold le.
    set (hs := HS PreNone acts (HFail le [])).
    pose proof (in_router_decomp txt cfg c0 m0 hs pp pk pb) as D.
    pose proof (in_router_final txt cfg c0 m0 hs pp pk pb) as F.
    destruct (in_router txt cfg c0 m0 hs pp pk pb) as [[[ms tr] r] mf]. simpl in F.
    split; [exact Hcalls|].
    unfold c13_expected_final, poison_ok in F. simpl in F. rewrite Ha in F.
    rewrite <- (run_acts_meta_ctx acts m0 c0 no_ctx) in F. fold m in F. rewrite Hmd in F.
    destruct (ppub_nil_dec pp) as [->|Hpp].
    - pose proof (poison_unsalvageable txt cfg c0 m0 (seen_after (M:=N) PreNone) hs PPNil le [] eq_refl Ha (or_intror eq_refl)) as U.
      simpl in D. destruct (poison txt cfg c0 m0 (seen_after (M:=N) PreNone) hs PPNil) as [[r' pe] mf'].
      destruct D as (-> & _ & -> & _). destruct U as [-> ->]. auto.
    - pose proof (poison_accepted txt cfg c0 m0 (seen_after (M:=N) PreNone) hs pp le [] md eq_refl Ha Hmd Hpp) as P.
      simpl in D, P. fold m c pm in P.
      destruct (poison txt cfg c0 m0 (seen_after (M:=N) PreNone) hs pp) as [[r' pe] mf'].
      destruct D as (-> & -> & -> & _). destruct P as (P1 & P2 & _ & P4).
      destruct pp; tauto.
  Qed.

  (** * the scenario's acceptor is linked to the model *)

  (** outputs returned together with an error matter only if something is RETURNED *)
  Lemma poison_panic_outs_irrelevant cfg c0 m0 seen pre acts e o1 o2 pp :
    fst (fst (poison (M:=N) txt cfg c0 m0 seen (HS pre acts (HFail e o1)) pp)) = MPanic ->
    poison txt cfg c0 m0 seen (HS pre acts (HFail e o1)) pp = poison txt cfg c0 m0 seen (HS pre acts (HFail e o2)) pp.
  Proof.
    unfold poison, salvage. simpl. destruct (run_acts acts (m0, c0)) as [m c].
    destruct (pq_filter cfg) as [f|]; [destruct (f e)|]; simpl; try discriminate; try reflexivity;
      destruct (pm_meta m); simpl; try reflexivity; destruct pp; simpl; try discriminate; reflexivity.
  Qed.

  Lemma poison_ret_outs cfg c0 m0 seen pre acts e o pp o' x :
    fst (fst (poison (M:=N) txt cfg c0 m0 seen (HS pre acts (HFail e o)) pp)) = MRet o' x -> o' = o.
  Proof.
    unfold poison, salvage. simpl. destruct (run_acts acts (m0, c0)) as [m c].
    destruct (pq_filter cfg) as [f|]; [destruct (f e)|]; simpl; try discriminate; try (intros [= <- _]; reflexivity);
      destruct (pm_meta m); simpl; try discriminate; destruct pp; simpl; try discriminate; intros [= <- _]; reflexivity.
  Qed.

  (** reading the handler off the model's own run gives back the model's handler (up to the
      outputs returned with an error, which are read from the chain result) ... *)
  Lemma obs_hout_model rc h env r :
    obs_hout errof h (attempts_made rc h env) r
    = match hout_of errof (Retry.r_out (Retry.retry rc h env)) with
      | HFail e _ => HFail e (res_outs r)
      | x => x
      end.
  Proof.
    unfold obs_hout, hout_of, attempts_made, Retry.attempts.
    destruct (Retry.is_ok (Retry.r_out (Retry.retry rc h env))) eqn:Hok.
    - destruct (RetryProofs.retry_first_success_wins rc h env Hok) as (n & Hc & Ho & Hn & _).
      rewrite Hc, seq_length. simpl. rewrite Hn, Ho. reflexivity.
    - destruct (RetryProofs.retry_error_is_last rc h env Hok) as (n & Hc & Hj & He & _).
      rewrite Hc, seq_length. simpl. rewrite (Hj n (le_n n)), He. reflexivity.
  Qed.

  (** ... so every run of the composed model passes the acceptor that judges the real
      PoisonQueue(Retry(h)) with the handler read off the observation *)
  Lemma retry_obs_accepted cfg c0 m0 acts rc h env pp pk pb :
    let '(ms, tr, r, mf) := poison_retry_in_router txt errof cfg c0 m0 PreNone acts rc h env pp pk pb in
    c13_monitor txt N.eqb cfg c0 m0 (obs_h errof h (attempts_made rc h env) acts r) pp pk pb tr (st ms) r mf = true.
  Proof.
    unfold poison_retry_in_router, obs_h.
    set (ho := hout_of errof (Retry.r_out (Retry.retry rc h env))).
    pose proof (in_router_decomp txt cfg c0 m0 (HS PreNone acts ho) pp pk pb) as D.
    pose proof (in_router_monitor txt N.eqb N.eqb_refl cfg c0 m0 (HS PreNone acts ho) pp pk pb) as Acc.
    destruct (in_router txt cfg c0 m0 (HS PreNone acts ho) pp pk pb) as [[[ms tr] r] mf] eqn:Hin.
    rewrite obs_hout_model. fold ho.
    destruct ho as [o|e o|] eqn:Hho; try exact Acc.
    simpl in D.
    destruct (poison txt cfg c0 m0 (seen_after (M:=N) PreNone) (HS PreNone acts (HFail e o)) pp) as [[r' pe] mf'] eqn:Hp.
    destruct D as (-> & _).
    destruct r' as [o' x|].
    - assert (o' = o) by (eapply poison_ret_outs; rewrite Hp; reflexivity). subst o'. exact Acc.
    - simpl res_outs.
      assert (E : in_router txt cfg c0 m0 (HS PreNone acts (HFail e [])) pp pk pb = (ms, tr, MPanic, mf)).
      { rewrite <- Hin. unfold in_router. simpl hs_pre.
        rewrite <- (poison_panic_outs_irrelevant cfg c0 m0 (seen_after (M:=N) PreNone) PreNone acts e o [] pp); [reflexivity|].
        now rewrite Hp. }
      pose proof (in_router_monitor txt N.eqb N.eqb_refl cfg c0 m0 (HS PreNone acts (HFail e [])) pp pk pb) as Acc2.
      rewrite E in Acc2. exact Acc2.
  Qed.
End Proofs.

