(** Round "proofs 3": PoisonQueue(Retry(h)) inside the Router, end to end, in the forward
    direction: k failures exhaust Retry => the message is on the poison topic exactly once with
    the documented metadata and is ACKED; if the poison publish fails it is NACKED and the error
    (the handler's last error first) is returned - nothing is lost. *)
From WM Require Import Base.Prelude Message.Model Handler.RouterHandle Handler.RouterProofs
  Handler.Poison Handler.PoisonProofs Handler.PoisonRetry Handler.PoisonRetryProofs.
From WM Require Handler.Retry Handler.RetryProofs.

Section Proofs.
  Context (txt : err -> N) (errof : N -> err).

  Lemma retry_router_exhausted cfg c0 m0 acts rc h env pp pk pb md :
    (forall j, j <= Retry.iterations rc -> Retry.is_ok (h j) = false) ->
    (forall j, 1 <= j <= Retry.iterations rc -> Retry.s_ctx (Retry.e_sel env j) = false) ->
    let k := Retry.iterations rc in
    let le := errof (snd (h k)) in
    let m := fst (run_acts acts (m0, c0)) in
    let c := snd (run_acts acts (m0, c0)) in
    let pm := PM (pm_uuid m0) (pm_payload m) (Some (stamp c (txt le) md)) in
    accepts cfg le = FYes -> pm_meta m = Some md ->
    let '(ms, tr, r, mf) := poison_retry_in_router txt errof cfg c0 m0 PreNone acts rc h env pp pk pb in
    Retry.calls (Retry.r_trace (Retry.retry rc h env)) = seq 0 (S k)
    /\ match pp with
       | PPAccept => poison_pubs (pproj tr) = [(pq_topic cfg, pm)] /\ pub_oks (pproj tr) = 1
                     /\ st ms = Acked /\ r = MRet [] None /\ mf = pm
       | PPError pe => poison_pubs (pproj tr) = [(pq_topic cfg, pm)] /\ pub_oks (pproj tr) = 0
                     /\ st ms = Nacked /\ r = MRet [] (Some (multi_append le (EWrapCause WRAP_MSG pe))) /\ mf = pm
       | PPPanic => poison_pubs (pproj tr) = [(pq_topic cfg, pm)] /\ pub_oks (pproj tr) = 0
                     /\ st ms = Nacked /\ r = MPanic /\ mf = pm
       | PPNil => poison_pubs (pproj tr) = [] /\ st ms = Nacked /\ r = MPanic
       end.
  Proof.
    intros Hall Hctx k le m c pm Ha Hmd.
    destruct (RetryProofs.retry_exhaust rc h env Hall Hctx) as [Hcalls Hout].
    unfold poison_retry_in_router, hout_of. rewrite Hout. fold k.
    assert (Hk : Retry.is_ok (h k) = false) by (apply Hall; unfold k; lia).
    unfold Retry.is_ok in *. simpl. rewrite Hk. fold le.
    set (hs := HS PreNone acts (HFail le [])).
    pose proof (in_router_decomp txt cfg c0 m0 hs pp pk pb) as D.
    pose proof (in_router_final txt cfg c0 m0 hs pp pk pb) as F.
    destruct (in_router txt cfg c0 m0 hs pp pk pb) as [[[ms tr] r] mf]. simpl in F.
    split; [exact Hcalls|].
    unfold c13_expected_final, poison_ok in F. simpl in F. rewrite Ha in F.
    rewrite <- (run_acts_meta_ctx acts m0 c0 no_ctx) in F. fold m in F. rewrite Hmd in F.
    destruct (ppub_nil_dec pp) as [->|Hpp].
    - pose proof (poison_unsalvageable txt cfg c0 m0 (seen_after (M:=N) PreNone) hs PPNil le [] eq_refl Ha (or_intror eq_refl)) as U.
      simpl in D. destruct (poison txt cfg c0 m0 (seen_after (M:=N) PreNone) hs PPNil) as [[r' pe] mf'].
      destruct D as (-> & _ & -> & _). destruct U as [-> ->]. auto.
    - pose proof (poison_accepted txt cfg c0 m0 (seen_after (M:=N) PreNone) hs pp le [] md eq_refl Ha Hmd Hpp) as P.
      simpl in D, P. fold m c pm in P.
      destruct (poison txt cfg c0 m0 (seen_after (M:=N) PreNone) hs pp) as [[r' pe] mf'].
      destruct D as (-> & -> & -> & _). destruct P as (P1 & P2 & _ & P4).
      destruct pp; tauto.
  Qed.
End Proofs.
