(** Proofs about Handler/Poison.v (C13). *)
From WM Require Import Base.Prelude Message.Model Message.Proofs Handler.RouterHandle Handler.RouterProofs Handler.Poison.

Lemma mk_poison_spec topic f :
  (mk_poison topic f = None <-> topic = 0%N)
  /\ (forall cfg, mk_poison topic f = Some cfg -> pq_topic cfg = topic /\ pq_filter cfg = f).
Proof.
  unfold mk_poison. destruct (N.eqb_spec topic 0); split.
  - tauto.
  - discriminate.
  - split; [discriminate|tauto].
  - intros cfg [= <-]. split; reflexivity.
Qed.
