(** Proofs about Handler/Poison.v (C13). *)
From WM Require Import Base.Prelude Message.Model Message.Proofs Handler.RouterHandle Handler.RouterProofs Handler.Poison.

(** * the constructors *)
Lemma mk_poison_spec topic f :
  (mk_poison topic f = None <-> topic = 0%N)
  /\ (forall cfg, mk_poison topic f = Some cfg -> pq_topic cfg = topic /\ pq_filter cfg = f).
Proof.
  unfold mk_poison. destruct (N.eqb_spec topic 0); split.
  - tauto.
  - discriminate.
  - split; [discriminate|tauto].
  - intros cfg [= <-]. split; reflexivity.
Qed.

(** * metadata maps *)
Lemma mget_mset_same k v m : mget k (mset k v m) = Some v.
Proof.
  induction m as [|[k' v'] m IH]; simpl.
  - now rewrite N.eqb_refl.
  - destruct (N.ltb k k') eqn:Hlt; simpl.
    + now rewrite N.eqb_refl.
    + destruct (N.eqb k k') eqn:He; simpl.
      * now rewrite N.eqb_refl.
      * now rewrite He.
Qed.

Lemma mget_mset_other k v m k' : k' <> k -> mget k' (mset k v m) = mget k' m.
Proof.
  intros Hne. apply N.eqb_neq in Hne.
  induction m as [|[k0 v0] m IH]; simpl.
  - now rewrite Hne.
  - destruct (N.ltb k k0) eqn:Hlt; simpl.
    + now rewrite Hne.
    + destruct (N.eqb_spec k k0) as [->|Hk]; simpl.
      * now rewrite Hne.
      * now rewrite IH.
Qed.

Definition poison_key (k : N) : Prop := k = K_REASON \/ k = K_TOPIC \/ k = K_HANDLER \/ k = K_SUB.

(** the four keys name the reason, topic, handler and subscriber - overwriting whatever was
    there - and every other key keeps its value (or its absence) *)
Lemma stamp_spec c reason md :
  mget K_REASON (stamp c reason md) = Some reason
  /\ mget K_TOPIC (stamp c reason md) = Some (rc_topic c)
  /\ mget K_HANDLER (stamp c reason md) = Some (rc_handler c)
  /\ mget K_SUB (stamp c reason md) = Some (rc_sub c)
  /\ forall k, ~ poison_key k -> mget k (stamp c reason md) = mget k md.
Proof.
  unfold stamp, K_REASON, K_TOPIC, K_HANDLER, K_SUB. repeat split.
  - rewrite !mget_mset_other by discriminate. apply mget_mset_same.
  - rewrite !mget_mset_other by discriminate. apply mget_mset_same.
  - rewrite mget_mset_other by discriminate. apply mget_mset_same.
  - apply mget_mset_same.
  - intros k Hk. unfold poison_key, K_REASON, K_TOPIC, K_HANDLER, K_SUB in Hk.
    rewrite !mget_mset_other; [reflexivity|..]; intros ->; tauto.
Qed.

(** * boolean equalities are reflexive *)
Lemma err_eqb_refl e : err_eqb e e = true.
Proof.
  revert e. fix IH 1. intros [x|p e|p e|l]; simpl.
  - apply N.eqb_refl.
  - now rewrite N.eqb_refl, IH.
  - now rewrite N.eqb_refl, IH.
  - induction l as [|y l IHl]; [reflexivity|]. now rewrite IH, IHl.
Qed.

Lemma list_eqb_refl {A} (eqb : A -> A -> bool) : (forall x, eqb x x = true) -> forall l, list_eqb eqb l l = true.
Proof. intros H l. induction l as [|x l IH]; simpl; [reflexivity|]. now rewrite H, IH. Qed.

Lemma meta_eqb_refl m : meta_eqb m m = true.
Proof. apply list_eqb_refl. intros [k v]. unfold kv_eqb. simpl. now rewrite !N.eqb_refl. Qed.

Lemma pmsg_eqb_refl m : pmsg_eqb m m = true.
Proof.
  destruct m as [u p md]. unfold pmsg_eqb. simpl. rewrite N.eqb_refl, (list_eqb_refl N.eqb N.eqb_refl).
  destruct md; simpl; [apply meta_eqb_refl|reflexivity].
Qed.

Lemma settle_eqb_refl s : settle_eqb s s = true.
Proof. destruct s; reflexivity. Qed.

(** the Router context values do not influence what the handler does to the metadata *)
Lemma run_acts_meta_ctx acts : forall m c1 c2,
  pm_meta (fst (run_acts acts (m, c1))) = pm_meta (fst (run_acts acts (m, c2))).
Proof.
  unfold run_acts. induction acts as [|a acts IH]; intros m c1 c2; [reflexivity|].
  simpl. destruct a; simpl; apply IH.
Qed.

Section Proofs.
  Context {M : Type} (txt : err -> N).
  Implicit Types (cfg : pcfg) (h : hscript M) (pp : ppub) (m : pmsg) (c : rctx).

  Notation poison := (poison (M:=M) txt).
  Notation in_router := (in_router (M:=M) txt).

  (** * the handler's own changes never touch the UUID *)
  Lemma run_acts_uuid acts : forall s, pm_uuid (fst (run_acts acts s)) = pm_uuid (fst s).
  Proof.
    induction acts as [|a acts IH]; intros [m c]; [reflexivity|].
    unfold run_acts in *. simpl. rewrite IH. destruct a; reflexivity.
  Qed.

  (** * the middleware on its own *)

  (** success, a panicking handler: nothing asked, nothing published, result and message as the
      handler left them *)
  Lemma poison_ret cfg c0 m0 seen h pp outs :
    hs_out h = HRet outs ->
    poison cfg c0 m0 seen h pp = (MRet outs None, [], fst (run_acts (hs_acts h) (m0, c0))).
  Proof. intros H. unfold Poison.poison. rewrite H. now destruct (run_acts _ _). Qed.

  Lemma poison_panic cfg c0 m0 seen h pp :
    hs_out h = HPanic ->
    poison cfg c0 m0 seen h pp = (MPanic, [], fst (run_acts (hs_acts h) (m0, c0))).
  Proof. intros H. unfold Poison.poison. rewrite H. now destruct (run_acts _ _). Qed.

  (** an error the filter does not accept is returned as it is, with the outputs; the filter was
      asked once about exactly that error; nothing is published; the message is untouched *)
  Lemma poison_filtered cfg c0 m0 seen h pp e outs :
    hs_out h = HFail e outs -> accepts cfg e = FNo ->
    poison cfg c0 m0 seen h pp = (MRet outs (Some e), [PFilter e], fst (run_acts (hs_acts h) (m0, c0))).
  Proof.
    intros H Ha. unfold Poison.poison, accepts in *. rewrite H. destruct (run_acts _ _) as [m c].
    destruct (pq_filter cfg) as [f|]; [|discriminate]. now rewrite Ha.
  Qed.

  (** a filter that panics (or is a nil func): the panic escapes, nothing is published *)
  Lemma poison_filter_panics cfg c0 m0 seen h pp e outs :
    hs_out h = HFail e outs -> accepts cfg e = FPanics \/ accepts cfg e = FNoFunc ->
    let '(r, ev, mf) := poison cfg c0 m0 seen h pp in
    r = MPanic /\ poison_pubs ev = [] /\ mf = fst (run_acts (hs_acts h) (m0, c0)).
  Proof.
    intros H Ha. unfold Poison.poison, accepts in *. rewrite H. destruct (run_acts _ _) as [m c].
    destruct (pq_filter cfg) as [f|]; [|destruct Ha; discriminate].
    destruct Ha as [Ha|Ha]; rewrite Ha; simpl; auto.
  Qed.

  Definition filter_events cfg (e : err) : list pevent :=
    match pq_filter cfg with None => [] | Some _ => [PFilter e] end.

  (** an accepted error: the events are the filter call followed by what [salvage] does *)
  Lemma poison_accepted_unfold cfg c0 m0 seen h pp e outs :
    hs_out h = HFail e outs -> accepts cfg e = FYes ->
    poison cfg c0 m0 seen h pp =
      let '(m, c) := run_acts (hs_acts h) (m0, c0) in
      let '(r, ev, m') := salvage txt cfg c m seen e outs pp in (r, filter_events cfg e ++ ev, m').
  Proof.
    intros H Ha. unfold Poison.poison, accepts, filter_events in *. rewrite H.
    destruct (run_acts _ _) as [m c].
    destruct (pq_filter cfg) as [f|].
    - rewrite Ha. reflexivity.
    - simpl. now destruct (salvage _ _ _ _ _ _ _ _) as [[r ev] m'].
  Qed.

  (** THE clause: a handler error the filter accepts, a message with a metadata map, a poison
      publisher that exists: exactly one Publish call, on the poison topic, of one message with
      the UUID and payload the consumed message has and its metadata plus the four keys; the
      consumed object itself carries the keys afterwards; the result is success - with the
      handler's outputs - iff the publisher accepted, otherwise the handler's error(s) followed
      by the wrapped publish error, or the publisher's panic *)
  Lemma poison_accepted cfg c0 m0 seen h pp e outs md :
    hs_out h = HFail e outs -> accepts cfg e = FYes ->
    pm_meta (fst (run_acts (hs_acts h) (m0, c0))) = Some md -> pp <> PPNil ->
    let m := fst (run_acts (hs_acts h) (m0, c0)) in
    let c := snd (run_acts (hs_acts h) (m0, c0)) in
    let pm := PM (pm_uuid m0) (pm_payload m) (Some (stamp c (txt e) md)) in
    let '(r, ev, mf) := poison cfg c0 m0 seen h pp in
    poison_pubs ev = [(pq_topic cfg, pm)] /\ mf = pm /\ filter_calls ev = filter_calls (filter_events cfg e)
    /\ match pp with
       | PPAccept => r = MRet outs None /\ pub_oks ev = 1
                     /\ exists pre, ev = pre ++ [PPublish (pq_topic cfg) pm seen; PPublishRet true]
       | PPError pe => r = MRet outs (Some (multi_append e (EWrapCause WRAP_MSG pe))) /\ pub_oks ev = 0
       | PPPanic => r = MPanic /\ pub_oks ev = 0
       | PPNil => False
       end.
  Proof.
    intros H Ha Hmd Hpp. rewrite (poison_accepted_unfold _ _ _ _ _ _ _ _ H Ha).
    pose proof (run_acts_uuid (hs_acts h) (m0, c0)) as Hu. simpl in Hu.
    destruct (run_acts (hs_acts h) (m0, c0)) as [m c]. simpl in *. rewrite <- Hu.
    unfold salvage. rewrite Hmd.
    assert (Hf : forall l, poison_pubs (filter_events cfg e ++ l) = poison_pubs l
                           /\ pub_oks (filter_events cfg e ++ l) = pub_oks l
                           /\ filter_calls (filter_events cfg e ++ l) = filter_calls (filter_events cfg e) ++ filter_calls l).
    { intros l. unfold filter_events. destruct (pq_filter cfg); simpl; auto. }
    destruct pp; try congruence; destruct (Hf [PPublish (pq_topic cfg) (PM (pm_uuid m) (pm_payload m) (Some (stamp c (txt e) md))) seen; PPublishRet true]) as (H1 & H2 & H3);
      destruct (Hf [PPublish (pq_topic cfg) (PM (pm_uuid m) (pm_payload m) (Some (stamp c (txt e) md))) seen; PPublishRet false]) as (H4 & H5 & H6);
      destruct (Hf [PPublish (pq_topic cfg) (PM (pm_uuid m) (pm_payload m) (Some (stamp c (txt e) md))) seen; PPublishPanic]) as (H7 & H8 & H9).
    - rewrite H1, H2, H3. simpl. rewrite app_nil_r. repeat split. eexists. reflexivity.
    - rewrite H4, H5, H6. simpl. rewrite app_nil_r. repeat split.
    - rewrite H7, H8, H9. simpl. rewrite app_nil_r. repeat split.
  Qed.

  (** an accepted error that cannot be salvaged - nil metadata map, nil publisher: the salvage
      panics, nothing reaches the poison topic *)
  Lemma poison_unsalvageable cfg c0 m0 seen h pp e outs :
    hs_out h = HFail e outs -> accepts cfg e = FYes ->
    pm_meta (fst (run_acts (hs_acts h) (m0, c0))) = None \/ pp = PPNil ->
    let '(r, ev, mf) := poison cfg c0 m0 seen h pp in
    r = MPanic /\ poison_pubs ev = [].
  Proof.
    intros H Ha Hc. rewrite (poison_accepted_unfold _ _ _ _ _ _ _ _ H Ha).
    destruct (run_acts (hs_acts h) (m0, c0)) as [m c]. simpl in *. unfold salvage.
    assert (Hf : poison_pubs (filter_events cfg e ++ []) = []).
    { unfold filter_events. destruct (pq_filter cfg); reflexivity. }
    destruct (pm_meta m) as [md|].
    - destruct Hc as [Hc| ->]; [discriminate|]. auto.
    - auto.
  Qed.

  (** at most one Publish on the poison topic, whatever happens; and a failed handler's error is
      cleared ONLY after a poison publish returned nil *)
  Lemma poison_at_most_once cfg c0 m0 seen h pp :
    let '(r, ev, mf) := poison cfg c0 m0 seen h pp in
    length (poison_pubs ev) <= 1
    /\ (poison_pubs ev <> [] -> exists e outs, hs_out h = HFail e outs /\ accepts cfg e = FYes)
    /\ (handler_failed h = true -> (exists o, r = MRet o None) -> pub_oks ev = 1 /\ length (poison_pubs ev) = 1).
  Proof.
    unfold Poison.poison, accepts, handler_failed. destruct (run_acts _ _) as [m c].
    destruct (hs_out h) as [outs|e outs|].
    - simpl. split; [lia|split]; [intros X; congruence|intros X; discriminate X].
    - unfold salvage. destruct (pq_filter cfg) as [f|].
      + destruct (f e) eqn:Hf.
        * destruct (pm_meta m); [destruct pp|]; (simpl; split; [simpl; lia|split];
            [ first [ intros X; congruence | intros _; exists e, outs; split; [reflexivity|assumption] ]
            | first [ intros _ [o Ho]; discriminate Ho | intros _ _; split; reflexivity ] ]).
        * simpl; split; [simpl; lia|split]; [intros X; congruence|intros _ [o Ho]; discriminate Ho].
        * simpl; split; [simpl; lia|split]; [intros X; congruence|intros _ [o Ho]; discriminate Ho].
        * simpl; split; [simpl; lia|split]; [intros X; congruence|intros _ [o Ho]; discriminate Ho].
      + destruct (pm_meta m); [destruct pp|]; (simpl; split; [simpl; lia|split];
            [ first [ intros X; congruence | intros _; exists e, outs; split; reflexivity ]
            | first [ intros _ [o Ho]; discriminate Ho | intros _ _; split; reflexivity ] ]).
    - simpl. split; [lia|split]; [intros X; congruence|intros X; discriminate X].
  Qed.

  (** * inside a Router: composition with [handle] (C02) *)

  Lemma splice_proj (tr : list (hevent M)) pe :
    hproj (splice tr pe) = tr /\ pproj (splice tr pe) = pe.
  Proof.
    assert (Hh : forall l : list (hevent M), hproj (map (@RH M) l) = l /\ pproj (map (@RH M) l) = []).
    { induction l as [|x l [IH1 IH2]]; [split; reflexivity|]. simpl. unfold hproj, pproj in *. simpl. now rewrite IH1, IH2. }
    assert (Hp : forall l : list pevent, hproj (map (@RP M) l) = [] /\ pproj (map (@RP M) l) = l).
    { induction l as [|x l [IH1 IH2]]; [split; reflexivity|]. simpl. unfold hproj, pproj in *. simpl. now rewrite IH1, IH2. }
    assert (Hbase : forall tr0 : list (hevent M), hproj (map (@RP M) pe ++ map (@RH M) tr0) = tr0
                                   /\ pproj (map (@RP M) pe ++ map (@RH M) tr0) = pe).
    { intros tr0. unfold hproj, pproj. rewrite !flat_map_app.
      destruct (Hh tr0) as [A B], (Hp pe) as [C D]. unfold hproj, pproj in *. rewrite A, B, C, D.
      now rewrite app_nil_r. }
    induction tr as [|x tr [IH1 IH2]]; [apply (Hbase [])|].
    destruct x; try apply (Hbase (_ :: tr)).
    - simpl. unfold hproj, pproj in *. simpl. now rewrite IH1, IH2.
    - simpl. unfold hproj, pproj in *. simpl. now rewrite IH1, IH2.
  Qed.

  (** the Router-side events and the final settlement ARE those of the C02 model for the chain
      result the middleware produced; the middleware-side events are those of [poison] *)
  Lemma in_router_decomp cfg c0 m0 h pp pk pb :
    let '(ms, tr, r, mf) := in_router cfg c0 m0 h pp pk pb in
    let '(r', pe, mf') := poison cfg c0 m0 (seen_after (M:=M) (hs_pre h)) h pp in
    r = r' /\ mf = mf' /\ pproj tr = pe
    /\ hproj tr = snd (handle pk pb (to_cr (hs_pre h) r'))
    /\ ms = fst (handle pk pb (to_cr (hs_pre h) r')).
  Proof.
    unfold Poison.in_router. destruct (poison _ _ _ _ _ _) as [[r pe] mf].
    destruct (handle pk pb (to_cr (hs_pre h) r)) as [ms tr] eqn:Hh.
    destruct (splice_proj tr pe) as [A B]. simpl. auto.
  Qed.

  Lemma handled_ok_outs pk pb pre (o : list M) :
    handled_ok pk pb (CR pre (Ret o)) = handled_ok pk pb (CR PreNone (Ret o)).
  Proof. reflexivity. Qed.

  (** the final settlement is the one the property prescribes *)
  Lemma in_router_final cfg c0 m0 h pp pk pb :
    st (fst (fst (fst (in_router cfg c0 m0 h pp pk pb)))) = c13_expected_final cfg m0 h pp pk pb.
  Proof.
    pose proof (in_router_decomp cfg c0 m0 h pp pk pb) as D.
    destruct (in_router cfg c0 m0 h pp pk pb) as [[[ms tr] r] mf]. simpl.
    destruct (poison cfg c0 m0 (seen_after (M:=M) (hs_pre h)) h pp) as [[r' pe] mf'] eqn:Hp.
    destruct D as (-> & -> & _ & _ & ->). rewrite handle_final.
    unfold c13_expected_final, poison_ok, outs_of.
    destruct (hs_pre h); try reflexivity.
    revert Hp. unfold Poison.poison, accepts.
    assert (Hm : forall c, pm_meta (fst (run_acts (hs_acts h) (m0, c))) = pm_meta (fst (run_acts (hs_acts h) (m0, no_ctx)))).
    { intros c. generalize (hs_acts h) as acts. intros acts. unfold run_acts.
      assert (G : forall acts m c1 c2, pm_meta (fst (fold_left (act1) acts (m, c1))) = pm_meta (fst (fold_left (act1) acts (m, c2)))).
      { induction acts0 as [|a acts0 IH]; intros m c1 c2; [reflexivity|]. simpl. destruct a; simpl; apply IH. }
      apply G. }
    specialize (Hm c0).
    destruct (run_acts (hs_acts h) (m0, c0)) as [m c]. simpl in Hm. rewrite <- Hm.
    destruct (hs_out h) as [outs|e outs|]; simpl.
    - intros [= <- <- <-]. reflexivity.
    - unfold salvage. destruct (pq_filter cfg) as [f|].
      + destruct (f e); simpl.
        * destruct (pm_meta m); [destruct pp|]; simpl; intros [= <- <- <-]; simpl; reflexivity.
        * intros [= <- <- <-]. reflexivity.
        * intros [= <- <- <-]. reflexivity.
        * intros [= <- <- <-]. reflexivity.
      + destruct (pm_meta m); [destruct pp|]; simpl; intros [= <- <- <-]; simpl; reflexivity.
    - intros [= <- <- <-]. reflexivity.
  Qed.

  (** the title: a message the Router ACKED (the handler not having settled it itself) was
      either handled successfully, or its handler failed with an accepted error and exactly one
      publish of the stamped message to the poison topic returned nil; in both cases everything
      the chain returned was accepted by the handler's publisher *)
  Lemma in_router_acked cfg c0 m0 h pp pk pb :
    hs_pre h = PreNone ->
    let '(ms, tr, r, mf) := in_router cfg c0 m0 h pp pk pb in
    st ms = Acked ->
    handled_ok pk pb (CR PreNone (Ret (outs_of h))) = true
    /\ ((exists outs, hs_out h = HRet outs /\ poison_pubs (pproj tr) = [])
        \/ (exists e outs md,
              hs_out h = HFail e outs /\ accepts cfg e = FYes /\ pp = PPAccept
              /\ pm_meta (fst (run_acts (hs_acts h) (m0, c0))) = Some md
              /\ poison_pubs (pproj tr) =
                   [(pq_topic cfg, PM (pm_uuid m0) (pm_payload (fst (run_acts (hs_acts h) (m0, c0))))
                                      (Some (stamp (snd (run_acts (hs_acts h) (m0, c0))) (txt e) md)))]
              /\ pub_oks (pproj tr) = 1)).
  Proof.
    intros Hpre.
    pose proof (in_router_final cfg c0 m0 h pp pk pb) as F.
    pose proof (in_router_decomp cfg c0 m0 h pp pk pb) as D.
    destruct (in_router cfg c0 m0 h pp pk pb) as [[[ms tr] r] mf]. simpl in F.
    intros Hack. rewrite Hack in F. unfold c13_expected_final in F. rewrite Hpre in F.
    destruct (handled_ok pk pb (CR PreNone (Ret (outs_of h)))) eqn:Hok;
      [|rewrite andb_false_r in F; discriminate]. split; [reflexivity|].
    rewrite andb_true_r in F.
    destruct (hs_out h) as [outs|e outs|] eqn:Hout.
    - left. exists outs. split; [reflexivity|].
      rewrite (poison_ret _ _ _ _ _ _ _ Hout) in D. destruct D as (_ & _ & -> & _). reflexivity.
    - right. unfold poison_ok in F. rewrite Hout in F.
      destruct (accepts cfg e) eqn:Ha; try discriminate.
      assert (Hm : forall c, pm_meta (fst (run_acts (hs_acts h) (m0, c))) = pm_meta (fst (run_acts (hs_acts h) (m0, no_ctx)))).
      { intros c. unfold run_acts.
        assert (G : forall acts m c1 c2, pm_meta (fst (fold_left act1 acts (m, c1))) = pm_meta (fst (fold_left act1 acts (m, c2)))).
        { induction acts as [|a acts IH]; intros m c1 c2; [reflexivity|]. simpl. destruct a; simpl; apply IH. }
        apply G. }
      rewrite <- (Hm c0) in F.
      destruct (pm_meta (fst (run_acts (hs_acts h) (m0, c0)))) as [md|] eqn:Hmd; try discriminate.
      destruct pp; try discriminate.
      pose proof (poison_accepted cfg c0 m0 (seen_after (M:=M) (hs_pre h)) h PPAccept e outs md Hout Ha Hmd) as P.
      destruct (poison cfg c0 m0 (seen_after (M:=M) (hs_pre h)) h PPAccept) as [[r' pe] mf'].
      destruct D as (_ & _ & -> & _). simpl in P.
      specialize (P ltac:(discriminate)).
      destruct P as (P1 & _ & _ & _ & P2 & _).
      exists e, outs, md. repeat split; auto.
    - unfold poison_ok in F. rewrite Hout in F. discriminate.
  Qed.

  (** ... and a message whose handler failed and that is NOT in the poison topic through an
      accepted publish is Nacked: filtered-out error, filter panic, nil metadata, publisher
      error / panic / nil *)
  Lemma in_router_still_failing cfg c0 m0 h pp pk pb :
    hs_pre h = PreNone -> handler_failed h = true -> poison_ok cfg m0 h pp = false ->
    st (fst (fst (fst (in_router cfg c0 m0 h pp pk pb)))) = Nacked.
  Proof.
    intros Hpre Hf Hp. rewrite in_router_final. unfold c13_expected_final. rewrite Hpre, Hp.
    unfold handler_failed in Hf. destruct (hs_out h); try discriminate. reflexivity.
  Qed.

  (** ordering: when the handler failed, the Router's Ack comes only after a poison publish
      returned nil, nothing follows the Router's settle call, and inside the poison Publish the
      consumed message shows only what the handler did itself (the Router has not acked yet) *)
  Lemma in_router_order cfg c0 m0 h pp pk pb :
    let tr := snd (fst (fst (in_router cfg c0 m0 h pp pk pb))) in
    ack_guard (handler_failed h) tr = true /\ seen_pre_ok (hs_pre h) tr = true.
  Proof.
    unfold Poison.in_router, Poison.poison, salvage, handler_failed, seen_after.
    destruct (run_acts (hs_acts h) (m0, c0)) as [m c].
    destruct h as [pre acts out]. simpl.
    destruct out as [[|x outs]|e [|x outs]|]; destruct pre;
      try (destruct pk, pb; split; reflexivity);
      (destruct (pq_filter cfg) as [f|]; [destruct (f e)|]; destruct (pm_meta m); try destruct pp;
       destruct pk, pb; split; reflexivity).
  Qed.


  (** the outcome does not depend on the state of the message context: cancelling it (by the
      handler or from outside, at any point of the handler's run) changes nothing - not the
      result, not what is published, not the settlement *)
  Lemma run_acts_strip_cancel acts : forall s, run_acts (strip_cancel acts) s = run_acts acts s.
  Proof.
    unfold run_acts. induction acts as [|a acts IH]; intros [m c]; [reflexivity|].
    destruct a; simpl; apply IH.
  Qed.

  Lemma poison_ctx_state_irrelevant cfg c0 m0 seen pre acts out pp :
    poison cfg c0 m0 seen (HS pre (strip_cancel acts) out) pp = poison cfg c0 m0 seen (HS pre acts out) pp.
  Proof. unfold Poison.poison. simpl. now rewrite run_acts_strip_cancel. Qed.

  Lemma in_router_ctx_state_irrelevant cfg c0 m0 pre acts out pp pk pb :
    in_router cfg c0 m0 (HS pre (strip_cancel acts) out) pp pk pb = in_router cfg c0 m0 (HS pre acts out) pp pk pb.
  Proof. unfold Poison.in_router. simpl hs_pre. now rewrite poison_ctx_state_irrelevant. Qed.

  Lemma ctx_state_irrelevant cfg c0 m0 pre acts out pp pk pb seen :
    poison cfg c0 m0 seen (HS pre (strip_cancel acts) out) pp = poison cfg c0 m0 seen (HS pre acts out) pp
    /\ in_router cfg c0 m0 (HS pre (strip_cancel acts) out) pp pk pb = in_router cfg c0 m0 (HS pre acts out) pp pk pb.
  Proof. split; [apply poison_ctx_state_irrelevant|apply in_router_ctx_state_irrelevant]. Qed.

  (** * the model passes the acceptors that judge implementation observations *)
  Context (eqbM : M -> M -> bool) (eqbM_refl : forall x, eqbM x x = true).

  Lemma still_returned_append e x : still_returned e (Some (multi_append e x)) = true.
  Proof.
    unfold still_returned, multi_append, errs_of.
    assert (R := list_eqb_refl err_eqb err_eqb_refl).
    destruct e as [i|p e|p e|l].
    - simpl. now rewrite ?N.eqb_refl, ?err_eqb_refl.
    - simpl. now rewrite ?N.eqb_refl, ?err_eqb_refl.
    - simpl. now rewrite ?N.eqb_refl, ?err_eqb_refl.
    - rewrite removelast_last, R, app_length. simpl length. rewrite Nat.add_1_r. now rewrite Nat.eqb_refl.
  Qed.

  Local Arguments still_returned : simpl never.

  Lemma poison_mw_monitor cfg c0 m0 seen h pp :
    let '(r, ev, mf) := poison cfg c0 m0 seen h pp in
    mw_monitor txt eqbM cfg c0 m0 h pp r ev mf = true.
  Proof.
    assert (Ro := list_eqb_refl eqbM eqbM_refl).
    unfold Poison.poison, mw_monitor, salvage, accepts, poisoned, outs_eqb.
    destruct (run_acts (hs_acts h) (m0, c0)) as [m c].
    destruct (hs_out h) as [outs|e outs|]; simpl.
    - now rewrite Ro, pmsg_eqb_refl.
    - destruct (pq_filter cfg) as [f|].
      + destruct (f e) eqn:Hf; simpl; rewrite ?Hf; simpl; rewrite ?err_eqb_refl; simpl.
        * destruct (pm_meta m) eqn:Hmd; [destruct pp|]; simpl; rewrite ?err_eqb_refl; simpl;
            unfold pub_eqb; simpl; rewrite ?N.eqb_refl, ?pmsg_eqb_refl, ?Ro, ?still_returned_append; reflexivity.
        * now rewrite Ro, pmsg_eqb_refl.
        * now rewrite pmsg_eqb_refl.
        * now rewrite pmsg_eqb_refl.
      + destruct (pm_meta m) eqn:Hmd; [destruct pp|]; simpl;
            unfold pub_eqb; simpl; rewrite ?N.eqb_refl, ?pmsg_eqb_refl, ?Ro, ?still_returned_append; reflexivity.
    - now rewrite pmsg_eqb_refl.
  Qed.

  Lemma in_router_monitor cfg c0 m0 h pp pk pb :
    let '(ms, tr, r, mf) := in_router cfg c0 m0 h pp pk pb in
    c13_monitor txt eqbM cfg c0 m0 h pp pk pb tr (st ms) r mf = true.
  Proof.
    pose proof (in_router_final cfg c0 m0 h pp pk pb) as F.
    pose proof (in_router_decomp cfg c0 m0 h pp pk pb) as D.
    pose proof (in_router_order cfg c0 m0 h pp pk pb) as O.
    pose proof (poison_mw_monitor cfg c0 m0 (seen_after (M:=M) (hs_pre h)) h pp) as W.
    destruct (in_router cfg c0 m0 h pp pk pb) as [[[ms tr] r] mf]. simpl in F, O.
    destruct (poison cfg c0 m0 (seen_after (M:=M) (hs_pre h)) h pp) as [[r' pe] mf'].
    destruct D as (-> & -> & Dp & Dh & Dm). destruct O as [O1 O2].
    unfold c13_monitor. rewrite Dp, W, Dh, O1, O2, F, settle_eqb_refl. simpl.
    rewrite <- F, Dm. rewrite (handle_monitor eqbM eqbM_refl). reflexivity.
  Qed.

  (** the acceptor is sound for the title of the property: whatever observation it accepts, if
      the message ended up Acked although its handler failed (and did not settle it itself),
      then the filter accepts that error and the observation contains exactly one Publish on
      the poison topic, of the message the property prescribes, and one successful return *)
  Lemma c13_monitor_sound cfg c0 m0 h pp pk pb tr final r mf :
    c13_monitor txt eqbM cfg c0 m0 h pp pk pb tr final r mf = true ->
    hs_pre h = PreNone -> final = Acked -> handler_failed h = true ->
    exists e outs pm,
      hs_out h = HFail e outs /\ accepts cfg e = FYes
      /\ poisoned txt (snd (run_acts (hs_acts h) (m0, c0))) (fst (run_acts (hs_acts h) (m0, c0))) e = Some pm
      /\ list_eqb pub_eqb (poison_pubs (pproj tr)) [(pq_topic cfg, pm)] = true
      /\ pub_oks (pproj tr) = 1
      /\ ack_guard true tr = true.
  Proof.
    unfold c13_monitor. intros Hmon Hpre -> Hf. rewrite Hf in Hmon.
    apply andb_true_iff in Hmon as [Hmon _]. apply andb_true_iff in Hmon as [Hmon Hg].
    apply andb_true_iff in Hmon as [Hmon Hs]. apply andb_true_iff in Hmon as [Hw _].
    unfold c13_expected_final in Hs. rewrite Hpre in Hs.
    unfold handler_failed in Hf. destruct (hs_out h) as [|e outs|] eqn:Hout; try discriminate.
    destruct (poison_ok cfg m0 h pp) eqn:Hp; [|discriminate Hs].
    unfold poison_ok in Hp. rewrite Hout in Hp.
    destruct (accepts cfg e) eqn:Ha; try discriminate.
    rewrite <- (run_acts_meta_ctx (hs_acts h) m0 c0 no_ctx) in Hp.
    unfold mw_monitor in Hw. destruct (run_acts (hs_acts h) (m0, c0)) as [m c] eqn:Hr. simpl in *.
    rewrite Hout, Ha in Hw. unfold poisoned in *.
    destruct (pm_meta m) as [md|]; try discriminate. destruct pp; try discriminate.
    apply andb_true_iff in Hw as [_ Hw]. apply andb_true_iff in Hw as [Hw _].
    apply andb_true_iff in Hw as [Hw1 Hw2]. apply Nat.eqb_eq in Hw2.
    exists e, outs, (PM (pm_uuid m) (pm_payload m) (Some (stamp c (txt e) md))). repeat split; auto.
  Qed.

  (** ... and for the other clauses: an accepted observation of a failed, not successfully
      poisoned message ends Nacked; an accepted observation of a successful handler or of a
      filtered-out error has no poison publish and an unchanged result *)
  Lemma c13_monitor_sound_rest cfg c0 m0 h pp pk pb tr final r mf :
    c13_monitor txt eqbM cfg c0 m0 h pp pk pb tr final r mf = true ->
    (hs_pre h = PreNone -> handler_failed h = true -> poison_ok cfg m0 h pp = false -> final = Nacked)
    /\ (forall outs, hs_out h = HRet outs ->
          pproj tr = [] /\ exists o, r = MRet o None /\ outs_eqb eqbM o outs = true)
    /\ (forall e outs, hs_out h = HFail e outs -> accepts cfg e = FNo ->
          poison_pubs (pproj tr) = [] /\ exists o e', r = MRet o (Some e') /\ outs_eqb eqbM o outs = true /\ err_eqb e' e = true).
  Proof.
    unfold c13_monitor. intros Hmon.
    apply andb_true_iff in Hmon as [Hmon _]. apply andb_true_iff in Hmon as [Hmon _].
    apply andb_true_iff in Hmon as [Hmon Hs]. apply andb_true_iff in Hmon as [Hw _].
    split; [|split].
    - intros Hpre Hf Hp. unfold c13_expected_final in Hs. rewrite Hpre, Hp in Hs.
      unfold handler_failed in Hf. destruct (hs_out h); try discriminate.
      simpl in Hs. destruct final; try discriminate. reflexivity.
    - intros outs Hout. unfold mw_monitor in Hw. destruct (run_acts (hs_acts h) (m0, c0)) as [m c].
      rewrite Hout in Hw. apply andb_true_iff in Hw as [Hw _]. apply andb_true_iff in Hw as [Hw1 Hw2].
      split; [destruct (pproj tr); [reflexivity|discriminate]|].
      destruct r as [o [e'|]|]; try discriminate. eauto.
    - intros e outs Hout Ha. unfold mw_monitor in Hw. destruct (run_acts (hs_acts h) (m0, c0)) as [m c].
      rewrite Hout, Ha in Hw. apply andb_true_iff in Hw as [_ Hw].
      apply andb_true_iff in Hw as [Hw _]. apply andb_true_iff in Hw as [Hw1 Hw2].
      split; [destruct (poison_pubs (pproj tr)); [reflexivity|discriminate]|].
      destruct r as [o [e'|]|]; try discriminate.
      apply andb_true_iff in Hw1 as [A B]. eauto 6.
  Qed.
End Proofs.
