(** Proofs about Handler/RouterHandle.v (C02, reused by C08/C13/C15/C17/C01). *)
From WM Require Import Base.Prelude Message.Model Message.Proofs Handler.RouterHandle.

Section Proofs.
  Context {M : Type}.
  Implicit Types (r : chain_result M) (pk : pubkind) (pb : pubbeh).

  Ltac cases r pk pb :=
    destruct r as [pre out]; destruct pre, out as [[|x l]|outs|], pk, pb.

  (** exactly one handler invocation and exactly one Router settle call, the settle call being
      the last event *)
  Lemma handle_once pk pb r :
    let tr := snd (handle pk pb r) in
    count_calls tr = 1 /\ count_settles tr = 1
    /\ exists ack ret pre, tr = pre ++ [HSettle ack ret]
                           /\ count_settles pre = 0.
  Proof.
    cases r pk pb; cbn; (split; [reflexivity|split; [reflexivity|]]).
    all: first
      [ eexists _, _, [_]; split; reflexivity
      | eexists _, _, [_; _]; split; reflexivity
      | eexists _, _, [_; _; _]; split; reflexivity
      | eexists _, _, [_; _; _; _]; split; reflexivity ].
  Qed.

  (** the final settlement is the one the property prescribes *)
  Lemma handle_final pk pb r : st (fst (handle pk pb r)) = expected_final pk pb r.
  Proof. cases r pk pb; reflexivity. Qed.

  (** Ack iff (the handler did not settle itself and) the chain returned no error and all it
      returned was accepted by the publisher *)
  Lemma handle_ack_iff pk pb r : cr_pre r = PreNone ->
    (st (fst (handle pk pb r)) = Acked <-> handled_ok pk pb r = true)
    /\ (st (fst (handle pk pb r)) = Nacked <-> handled_ok pk pb r = false).
  Proof. cases r pk pb; cbn; intros H; try discriminate; split; split; congruence. Qed.

  (** a settlement the handler made itself is never overridden, and the Router's own call then
      reports it (Ack returns false after a Nack and vice versa) *)
  Lemma handle_no_override pk pb r :
    (cr_pre r = PreAck -> st (fst (handle pk pb r)) = Acked)
    /\ (cr_pre r = PreNack -> st (fst (handle pk pb r)) = Nacked).
  Proof. cases r pk pb; cbn; split; congruence. Qed.

  (** the Ack is never sent before Publish returned successfully; inside Publish the message
      shows only what the handler did itself *)
  Lemma handle_ack_after_publish pk pb r :
    ack_after_publish (snd (handle pk pb r)) false = true
    /\ seen_ok r (snd (handle pk pb r)) = true.
  Proof. cases r pk pb; split; reflexivity. Qed.

  (** what is published: exactly the returned messages, unmodified and in order, in one call,
      only when the chain returned no error, only through a real publisher, never for an
      empty output *)
  Lemma handle_publishes pk pb r :
    publishes (snd (handle pk pb r)) = expected_publishes pk r.
  Proof. cases r pk pb; reflexivity. Qed.

  Lemma handle_no_publish_on_error pk pb r :
    (forall outs, cr_out r <> Ret outs) -> publishes (snd (handle pk pb r)) = [].
  Proof.
    intros H. cases r pk pb; try reflexivity; exfalso; eapply H; reflexivity.
  Qed.

  (** nothing panics out of handleMessage and the consumed message's channels stay consistent *)
  Lemma handle_chan_ok pk pb r : chan_ok (fst (handle pk pb r)).
  Proof. cases r pk pb; cbv; intuition congruence. Qed.

  (** the model satisfies the complete acceptor used on implementation traces *)
  Lemma handle_monitor (eqbM : M -> M -> bool) (Hrefl : forall x, eqbM x x = true) pk pb r :
    c02_monitor eqbM pk pb r (snd (handle pk pb r)) (st (fst (handle pk pb r))) = true.
  Proof.
    assert (Hl : forall l : list M, list_eqb eqbM l l = true).
    { induction l as [|y l IH]; simpl; [reflexivity|]. now rewrite Hrefl, IH. }
    unfold c02_monitor. rewrite handle_final, handle_publishes.
    destruct (handle_once pk pb r) as (H1 & H2 & _).
    destruct (handle_ack_after_publish pk pb r) as (H3 & H4).
    rewrite H1, H2, H3, H4. simpl.
    assert (Hs : forall s, settle_eqb s s = true) by (intros []; reflexivity).
    rewrite Hs. simpl.
    unfold expected_publishes. destruct (cr_out r) as [[|x l]| |]; try reflexivity.
    destruct pk; try reflexivity. simpl. now rewrite Hrefl, Hl.
  Qed.

  (** pass-through middlewares in front of the handler change nothing *)
  Lemma mws_pass ws r : Forall (fun w => w = MwPass) ws -> mws_apply ws r = r.
  Proof.
    induction 1 as [|w ws Hw _ IH]; [reflexivity|]. simpl. rewrite IH. subst w.
    unfold mw_apply. reflexivity.
  Qed.
End Proofs.
