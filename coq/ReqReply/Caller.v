(** The CALLER side of request-reply as its own thread, composed with the listener of
    ReqReply/Listen.v (components/requestreply/command_bus.go: SendWithReplies l.96-128,
    SendWithReply l.43-61).

    After backend.ListenForNotifications returned the reply channel (the listener goroutine of
    Listen.v exists from here on; the error paths before that create no listener) the caller is

      KSend     c.SendWithModifiedMessage(ctx, cmd, set op id)
                  error -> KFail: SendWithReplies' deferred [if err != nil { cancel() }] -> KReturned OSendErr
                  nil   -> SendWithReplies returns (replyChan, cancel, nil):
                             ApiReplies: KUser - the USER owns channel and cancel func (URead / UReadClosed / UCancel, any time)
                             ApiReply:   KSelect
      KSelect   select { <-ctx.Done()       -> KDefer OCtxErr        ([ctx] = the context the user passed in)
                       | reply := <-replyCh -> KDefer (OReply reply)  (a closed, empty channel would yield the zero Reply: OZero) }
      KDefer o  the deferred cancel() of SendWithReply                -> KReturned o

    Three contexts: the user's ([pctx]; [UParent] ends it, any time), SendWithReplies' WithCancel child
    ([cctx_done] of the listener state) and the backend's derived one ([ctx_done]).  The caller's
    operations on the shared state are the environment steps of Listen.v ([CRead], [CReadClosed],
    [ECancel]), now issued only where the caller's code issues them.  No proofs here. *)
From WM Require Import Base.Prelude ReqReply.Listen.

Inductive api := ApiReply | ApiReplies.

Inductive outcome :=
| OReply (r : reply)     (* SendWithReply returned (reply, nil) *)
| OCtxErr                (* SendWithReply returned "context closed" *)
| OZero                  (* SendWithReply returned the zero Reply read from a closed channel *)
| OSendErr.              (* "cannot send command" *)

Inductive kpc := KSend | KFail | KSelect | KDefer (o : outcome) | KUser | KReturned (o : outcome).

Record cstate := CS { lsys : lstate; kp : kpc; pctx : bool }.

Inductive clabel :=
| CL (l : label)                           (* a step of the listener goroutine, ETimeout, ESubClose *)
| KSendOk | KSendErr                       (* what the command bus answers *)
| KCancel                                  (* a pending deferred cancel() runs *)
| KTakeCtx | KTakeReply | KTakeClosed      (* the cases of SendWithReply's select *)
| UParent                                  (* the user's context ends *)
| URead | UReadClosed | UCancel.           (* the user of SendWithReplies *)

Definition inner_label (l : label) : bool :=
  match l with CRead | CReadClosed | ECancel => false | _ => true end.

Section Caller.
  Context (dec : notif -> option (N * option N)).

  Definition with_l (s : cstate) (o : option lstate) (k : kpc) : option cstate :=
    match o with Some l' => Some (CS l' k (pctx s)) | None => None end.

  Definition cstep (c : cfg) (a : api) (s : cstate) (l : clabel) : option cstate :=
    match l with
    | CL l' => if inner_label l' then with_l s (lstep dec c (lsys s) l') (kp s) else None
    | KSendOk =>
        match kp s with
        | KSend => Some (CS (lsys s) (match a with ApiReply => KSelect | ApiReplies => KUser end) (pctx s))
        | _ => None
        end
    | KSendErr => match kp s with KSend => Some (CS (lsys s) KFail (pctx s)) | _ => None end
    | KCancel =>
        match kp s with
        | KFail => with_l s (lstep dec c (lsys s) ECancel) (KReturned OSendErr)
        | KDefer o => with_l s (lstep dec c (lsys s) ECancel) (KReturned o)
        | _ => None
        end
    | KTakeCtx =>
        match kp s with
        | KSelect => if pctx s then Some (CS (lsys s) (KDefer OCtxErr) (pctx s)) else None
        | _ => None
        end
    | KTakeReply =>
        match kp s, buf (lsys s) with
        | KSelect, r :: _ => with_l s (lstep dec c (lsys s) CRead) (KDefer (OReply r))
        | _, _ => None
        end
    | KTakeClosed =>
        match kp s with
        | KSelect => with_l s (lstep dec c (lsys s) CReadClosed) (KDefer OZero)
        | _ => None
        end
    | UParent =>
        match lstep dec c (lsys s) ECancel with
        | Some l' => Some (CS l' (kp s) true)
        | None => None
        end
    | URead => match kp s with KUser => with_l s (lstep dec c (lsys s) CRead) KUser | _ => None end
    | UReadClosed => match kp s with KUser => with_l s (lstep dec c (lsys s) CReadClosed) KUser | _ => None end
    | UCancel => match kp s with KUser => with_l s (lstep dec c (lsys s) ECancel) KUser | _ => None end
    end.

  Fixpoint crun (c : cfg) (a : api) (s : cstate) (ls : list clabel) : cstate :=
    match ls with
    | [] => s
    | l :: ls' => match cstep c a s l with Some s' => crun c a s' ls' | None => crun c a s ls' end
    end.

  Definition cinit (stream : list notif) : cstate := CS (linit stream) KSend false.
End Caller.

(** ** N listeners on one reply topic: the product system.  Listener [i] has its own
    configuration (its operation id) and its own arrival sequence [streams i] of the notifications
    published on the shared topic (a Pub/Sub hands every notification to every subscriber; the
    per-subscriber order is its own business, so every family of sequences is allowed). *)
Section Product.
  Context (dec : notif -> option (N * option N)).

  Definition nstep (cs : nat -> cfg) (ss : nat -> lstate) (il : nat * label) : option (nat -> lstate) :=
    match lstep dec (cs (fst il)) (ss (fst il)) (snd il) with
    | Some s' => Some (upd ss (fst il) s')
    | None => None
    end.

  Fixpoint nrun (cs : nat -> cfg) (ss : nat -> lstate) (sched : list (nat * label)) : nat -> lstate :=
    match sched with
    | [] => ss
    | il :: sched' => match nstep cs ss il with Some ss' => nrun cs ss' sched' | None => nrun cs ss sched' end
    end.

  Definition ninit (streams : nat -> list notif) : nat -> lstate := fun i => linit (streams i).

  (** the part of a schedule that concerns listener [i] *)
  Fixpoint sched_of (i : nat) (sched : list (nat * label)) : list label :=
    match sched with
    | [] => []
    | (j, l) :: sched' => if Nat.eqb j i then l :: sched_of i sched' else sched_of i sched'
    end.
End Product.
