(** Model of the handler side of request-reply: requestreply.NewCommandHandler /
    NewCommandHandlerWithResult (handler.go l.16-81) calling PubSubBackend.OnCommandProcessed
    (backend_pubsub.go l.217-282) with BackendPubsubJSONMarshaler.MarshalReply
    (backend_pubsub_marshaler.go l.23-42), run as a cqrs command handler (a NoPublishHandlerFunc,
    cqrs/command_processor.go routerHandlerFunc with AckCommandHandlingErrors = false) inside the
    Router: the settlement of the command message is [handle] of Handler/RouterHandle.v (C02).

    One delivery of one command = one [process].  A command that is Nacked is redelivered by
    the Pub/Sub and processed again (that is how one request gets several replies).
    No proofs here. *)
From WM Require Import Base.Prelude Message.Model Handler.RouterHandle ReqReply.Listen.

Record pcfg := PCfg {
  ack_errors : bool;        (* PubSubBackendConfig.AckCommandErrors *)
  has_modify : bool;        (* ModifyNotificationMessage != nil *)
  has_errh : bool           (* ReplyPublishErrorHandler != nil *)
}.

(** WHAT error value the handler returned, beyond its text, and the state of the handler's (= the message's)
    context when it returned.  The code under study looks at neither: handler.go passes [handlerErr] on to
    OnCommandProcessed whatever it is, MarshalReply takes [HandleErr.Error()], the policy tests [HandleErr != nil].
    They are inputs so that the theorems quantify over them and the correspondence check varies them. *)
Inductive errkind :=
| EPlain            (* errors.New(text) *)
| EWrapped          (* fmt.Errorf("...: %w", base) *)
| ECanceled         (* context.Canceled itself *)
| EDeadline         (* context.DeadlineExceeded itself *)
| ECtxOwn           (* the handler context's own ctx.Err() *)
| ECtxOwnWrapped.   (* an error wrapping the handler context's own ctx.Err() *)
Inductive ctxstate := CtxLive | CtxCancelled | CtxTimedOut.

(** everything one delivery depends on *)
Record pinput := PIn {
  p_orig : bool;            (* the original message is in the handler's context (always with cqrs.CommandProcessor) *)
  p_op : N;                 (* op id metadata of the command message, 0 = absent *)
  p_res : N;                (* result returned by handleFunc *)
  p_err : option N;         (* error text returned by handleFunc *)
  p_nid : N;                (* UUID given to the notification message *)
  p_modify_ok : bool;       (* ModifyNotificationMessage returns nil *)
  p_topic_ok : bool;        (* GeneratePublishTopic returns nil *)
  p_pub_ok : bool;          (* Publisher.Publish(replyTopic, notification) returns nil *)
  p_swallow : bool;         (* ReplyPublishErrorHandler returns nil *)
  p_errkind : errkind;      (* which error value (irrelevant when [p_err = None]) *)
  p_ctx : ctxstate          (* the handler's context when handleFunc returned *)
}.

(** the same delivery with another error VALUE (same text) in another context state *)
Definition with_errvalue (i : pinput) (k : errkind) (x : ctxstate) : pinput :=
  PIn (p_orig i) (p_op i) (p_res i) (p_err i) (p_nid i) (p_modify_ok i) (p_topic_ok i) (p_pub_ok i) (p_swallow i) k x.

Inductive pevent :=
| PCall                               (* handleFunc invoked *)
| PPublish (n : notif)                (* Publisher.Publish(replyTopic, n) entered *)
| PPublishRet (ok : bool)
| PErrHandler (swallowed : bool).     (* ReplyPublishErrorHandler invoked and what it decided *)

Section Processed.
  (** encoding/json: json.Marshal(result); None = error *)
  Context (enc : N -> option N).

  Definition errtext (e : option N) : N := match e with Some t => t | None => 0%N end.
  Definition is_some {A} (o : option A) : bool := match o with Some _ => true | None => false end.

  (** the wrapped cqrs handler: events + "returned a non-nil error" *)
  Definition on_processed (c : pcfg) (i : pinput) : list pevent * bool :=
    if negb (p_orig i) then ([PCall], true) else
    match enc (p_res i) with
    | None => ([PCall], true)                                      (* cannot marshal reply *)
    | Some pay =>
        if N.eqb (p_op i) 0 then ([PCall], true) else              (* no op id on the command *)
        if has_modify c && negb (p_modify_ok i) then ([PCall], true) else
        if negb (p_topic_ok i) then ([PCall], true) else
        let n := Notif (p_nid i) (p_op i) pay (is_some (p_err i)) (errtext (p_err i)) in
        if p_pub_ok i then
          ([PCall; PPublish n; PPublishRet true], if ack_errors c then false else is_some (p_err i))
        else if has_errh c then
          ([PCall; PPublish n; PPublishRet false; PErrHandler (p_swallow i)],
           if p_swallow i then (if ack_errors c then false else is_some (p_err i)) else true)
        else ([PCall; PPublish n; PPublishRet false], true)
    end.

  (** the Router's view: a no-publisher handler that returned nil / an error *)
  Definition chain_of (failed : bool) : chain_result N :=
    CR PreNone (if failed then Fail [] else Ret []).

  Inductive tevent := TP (e : pevent) | TR (e : hevent N).

  (** one delivery: handler events, then what the Router does, and the final settlement *)
  Definition process (c : pcfg) (i : pinput) : list tevent * settle :=
    let '(evs, failed) := on_processed c i in
    let '(m, hev) := handle PubDisabled PubAccept (chain_of failed) in
    (map TP evs ++ map TR (filter (fun e => match e with HCall => false | _ => true end) hev), st m).

  (** ** the property, as an acceptor over an observed delivery *)

  (** the reply was handed to the publisher and accepted (or its failure explicitly swallowed)
      before the command is acked; nothing happens after the settlement; one publish at most *)
  Fixpoint settle_after_reply (tr : list tevent) (published : bool) (pubs : nat) : bool :=
    match tr with
    | [] => true
    | TP (PPublish _) :: tr' => Nat.eqb pubs 0 && settle_after_reply tr' false (S pubs)
    | TP (PPublishRet ok) :: tr' => settle_after_reply tr' ok pubs
    | TP (PErrHandler sw) :: tr' => settle_after_reply tr' sw pubs
    | TP PCall :: tr' => settle_after_reply tr' published pubs
    | TR (HSettle true _) :: tr' => published && match tr' with [] => true | _ => false end
    | TR (HSettle false _) :: tr' => match tr' with [] => true | _ => false end
    | TR _ :: tr' => settle_after_reply tr' published pubs
    end.

  (** the policy: ack iff the reply went out (or its failure was swallowed) and
      (AckCommandErrors or the handler returned no error) *)
  Definition reply_out (c : pcfg) (i : pinput) : bool :=
    p_orig i && is_some (enc (p_res i)) && negb (N.eqb (p_op i) 0)
    && (negb (has_modify c) || p_modify_ok i) && p_topic_ok i
    && (p_pub_ok i || (has_errh c && p_swallow i)).
  Definition expected_settle (c : pcfg) (i : pinput) : settle :=
    if reply_out c i && (ack_errors c || negb (is_some (p_err i))) then Acked else Nacked.

  Definition notif_eqb (a b : notif) : bool :=
    N.eqb (n_id a) (n_id b) && N.eqb (n_op a) (n_op b) && N.eqb (n_pay a) (n_pay b)
    && Bool.eqb (n_haserr a) (n_haserr b) && N.eqb (n_err a) (n_err b).

  (** the published notification carries the command's op id, the handler's result and error text *)
  Definition content_ok (i : pinput) (tr : list tevent) : bool :=
    forallb (fun e => match e with
                      | TP (PPublish n) =>
                          N.eqb (n_op n) (p_op i) && N.eqb (n_id n) (p_nid i)
                          && option_eqb N.eqb (Some (n_pay n)) (enc (p_res i))
                          && Bool.eqb (n_haserr n) (is_some (p_err i))
                          && N.eqb (n_err n) (errtext (p_err i))
                      | _ => true end) tr.

  (** a reply is handed to the publisher exactly when marshalling, the operation id, the Modify hook and
      the topic allow it - for EVERY handler outcome: no error, or any error value in any context state *)
  Definition reaches_publish (c : pcfg) (i : pinput) : bool :=
    p_orig i && is_some (enc (p_res i)) && negb (N.eqb (p_op i) 0)
    && (negb (has_modify c) || p_modify_ok i) && p_topic_ok i.
  Definition publishes_of (tr : list tevent) : nat :=
    length (filter (fun e => match e with TP (PPublish _) => true | _ => false end) tr).
  Definition published_ok (c : pcfg) (i : pinput) (tr : list tevent) : bool :=
    Nat.eqb (publishes_of tr) (if reaches_publish c i then 1 else 0).

  Definition processed_ok (c : pcfg) (i : pinput) (tr : list tevent) (final : settle) : bool :=
    settle_after_reply tr false 0
    && settle_eqb final (expected_settle c i)
    && content_ok i tr
    && published_ok c i tr.
End Processed.
