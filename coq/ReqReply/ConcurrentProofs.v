(** Proofs about concurrent deliveries (ReqReply/Concurrent.v): per-delivery independence. *)
From WM Require Import Base.Prelude ReqReply.Listen ReqReply.Processed ReqReply.Concurrent.

Section P.
  Context (enc : N -> option N).
  Notation dstep := (dstep enc).
  Notation drun := (drun enc).

  (** the sequential model, split at the same points *)
  Lemma on_processed_split c i :
    on_processed enc c i =
    if negb (p_orig i) then ([PCall], true) else
    match enc (p_res i) with
    | None => ([PCall], true)
    | Some pay =>
        if N.eqb (p_op i) 0 then ([PCall], true) else
        tail_of c i (Notif (p_nid i) (p_op i) pay (is_some (p_err i)) (errtext (p_err i)))
    end.
  Proof.
    unfold on_processed, tail_of. destruct (negb (p_orig i)); auto.
  Qed.

  Definition cell_of (p : dpc) : option nat :=
    match p with DStamp c _ | DPub c _ => Some c | _ => None end.

  Record DInv (cs : nat -> pcfg) (ins : nat -> pinput) (s : dstate) : Prop := {
    d_thr : forall t,
      match thr s t with
      | DStart => True
      | DStamp c pay =>
          c < next s /\ heap s c = RM 0 (is_some (p_err (ins t))) (errtext (p_err (ins t)))
          /\ p_orig (ins t) = true /\ enc (p_res (ins t)) = Some pay
      | DPub c pay =>
          c < next s /\ heap s c = RM (p_op (ins t)) (is_some (p_err (ins t))) (errtext (p_err (ins t)))
          /\ p_orig (ins t) = true /\ enc (p_res (ins t)) = Some pay /\ N.eqb (p_op (ins t)) 0 = false
      | DDone => outs s t = on_processed enc (cs t) (ins t)
      end;
    d_distinct : forall t u c c', t <> u -> cell_of (thr s t) = Some c -> cell_of (thr s u) = Some c' -> c <> c'
  }.

  Lemma dinv_init cs ins : DInv cs ins dinit.
  Proof. constructor; simpl; auto. intros; discriminate. Qed.

  (** a reply's metadata map is its own: the step of one delivery leaves the others' cells alone *)
  Theorem dstep_inv cs ins s il s' : DInv cs ins s -> dstep false cs ins s il = Some s' -> DInv cs ins s'.
  Proof.
    intros I H. destruct il as [t op]. unfold Concurrent.dstep in H. simpl in H.
    pose proof (d_thr _ _ _ I) as Ht. pose proof (d_distinct _ _ _ I) as Hd.
    pose proof (Ht t) as Htt.
    destruct op; destruct (thr s t) as [|cell pay|cell pay|] eqn:Et; try discriminate.
    - (* MarshalReply *)
      destruct (negb (p_orig (ins t))) eqn:Eo.
      { inversion H; subst; clear H. constructor; simpl.
        - intros u. updt t u; [|apply Ht]. rewrite on_processed_split, Eo. reflexivity.
        - intros u v c c' Huv. updt t u; updt t v; simpl; try discriminate; try congruence. eauto. }
      destruct (enc (p_res (ins t))) as [pay|] eqn:Ee.
      2:{ inversion H; subst; clear H. constructor; simpl.
        - intros u. updt t u; [|apply Ht]. rewrite on_processed_split, Eo, Ee. reflexivity.
        - intros u v c c' Huv. updt t u; updt t v; simpl; try discriminate; try congruence. eauto. }
      inversion H; subst; clear H. apply negb_false_iff in Eo.
      constructor; simpl.
      + intros u. updt t u.
        * repeat split; auto.
        * specialize (Ht u). destruct (thr s u) as [|c p|c p|]; auto.
          -- destruct Ht as [Hc Hr]. split; [lia|]. rewrite upd_other by lia. exact Hr.
          -- destruct Ht as [Hc Hr]. split; [lia|]. rewrite upd_other by lia. exact Hr.
      + intros u v c c' Huv. updt t u; updt t v; simpl; try congruence.
        * intros E1 E2. inversion E1; subst. specialize (Ht v).
          destruct (thr s v); simpl in E2; inversion E2; subst; destruct Ht; lia.
        * intros E1 E2. inversion E2; subst. specialize (Ht u).
          destruct (thr s u); simpl in E1; inversion E1; subst; destruct Ht; lia.
        * eauto.
    - (* stamp the operation id *)
      destruct Htt as [Hc [Hh [Ho He]]].
      destruct (N.eqb (p_op (ins t)) 0) eqn:Eop; inversion H; subst; clear H.
      + constructor; simpl.
        * intros u. updt t u; [|apply Ht]. rewrite on_processed_split, Ho, He, Eop. reflexivity.
        * intros u v c c' Huv. updt t u; updt t v; simpl; try discriminate; try congruence. eauto.
      + assert (Hother : forall u c (p : N), u <> t -> cell_of (thr s u) = Some c -> c <> cell).
        { intros u c p Hu Hcu. apply (Hd u t c cell); auto. now rewrite Et. }
        constructor; simpl.
        * intros u. updt t u.
          -- rewrite Hh. simpl. repeat split; auto.
          -- specialize (Ht u). destruct (thr s u) as [|c p|c p|] eqn:Eu; auto.
             ++ rewrite upd_other; [exact Ht|]. apply (Hother u c p); auto. now rewrite Eu.
             ++ rewrite upd_other; [exact Ht|]. apply (Hother u c p); auto. now rewrite Eu.
        * intros u v c c' Huv. updt t u; updt t v; simpl; try congruence.
          -- intros E1 E2. inversion E1; subst. intros X; subst. apply (Hd t v c' c'); auto. now rewrite Et.
          -- intros E1 E2. inversion E2; subst. intros X; subst. apply (Hd u t c' c'); auto. now rewrite Et.
          -- eauto.
    - (* publish *)
      destruct Htt as [Hc [Hh [Ho [He Eop]]]]. inversion H; subst; clear H.
      constructor; simpl.
      + intros u. updt t u; [|apply Ht].
        rewrite on_processed_split, Ho, He, Eop, Hh. reflexivity.
      + intros u v c c' Huv. updt t u; updt t v; simpl; try discriminate; try congruence. eauto.
  Qed.

  Theorem drun_inv cs ins sched : forall s, DInv cs ins s -> DInv cs ins (drun false cs ins s sched).
  Proof.
    induction sched as [|il sched IH]; intros s I; simpl; auto.
    destruct (dstep false cs ins s il) eqn:E; auto. apply IH. eapply dstep_inv; eauto.
  Qed.

  (** N concurrent OnCommandProcessed = N independent runs: under EVERY interleaving, what a finished
      delivery did is exactly what the sequential model [on_processed] says for that delivery alone *)
  Theorem deliveries_independent cs ins sched t :
    thr (drun false cs ins dinit sched) t = DDone ->
    outs (drun false cs ins dinit sched) t = on_processed enc (cs t) (ins t).
  Proof.
    intros H. pose proof (d_thr _ _ _ (drun_inv cs ins sched _ (dinv_init cs ins)) t) as Ht.
    now rewrite H in Ht.
  Qed.

  (** in particular the notification a delivery publishes carries ITS command's operation id *)
  Corollary concurrent_reply_has_own_op_id cs ins sched t n :
    thr (drun false cs ins dinit sched) t = DDone ->
    In (PPublish n) (fst (outs (drun false cs ins dinit sched) t)) ->
    n_op n = p_op (ins t) /\ n_haserr n = is_some (p_err (ins t)) /\ n_err n = errtext (p_err (ins t)).
  Proof.
    intros H Hin. rewrite (deliveries_independent _ _ _ _ H), on_processed_split in Hin.
    destruct (negb (p_orig (ins t))); [simpl in Hin; intuition discriminate|].
    destruct (enc (p_res (ins t))); [|simpl in Hin; intuition discriminate].
    destruct (N.eqb (p_op (ins t)) 0); [simpl in Hin; intuition discriminate|].
    unfold tail_of in Hin.
    repeat match type of Hin with context [if ?x then _ else _] => destruct x end;
      simpl in Hin; repeat (destruct Hin as [Hin|Hin]; try discriminate); try contradiction;
      inversion Hin; subst; simpl; auto.
  Qed.
End P.

(** ** the seeded variant: one package-level metadata map for all successful replies.  Two successful
    deliveries, B stamps its operation id while A is between its stamp and its Publish: A's reply goes
    out with B's operation id *)
Definition shared_cs : nat -> pcfg := fun _ => PCfg true false false.
Definition shared_ins : nat -> pinput := fun t => PIn true (N.of_nat (10 + t)) 3 None (N.of_nat (20 + t)) true true true false EPlain CtxLive.
Definition shared_sched : list (nat * dop) :=
  [(0, DMarshal); (0, DStampOp); (1, DMarshal); (1, DStampOp); (0, DPublish)].

Theorem deliveries_independent_refuted_shared_map :
  exists enc cs ins sched t,
    thr (drun enc true cs ins dinit sched) t = DDone
    /\ outs (drun enc true cs ins dinit sched) t <> on_processed enc (cs t) (ins t)
    /\ exists n, In (PPublish n) (fst (outs (drun enc true cs ins dinit sched) t)) /\ n_op n = p_op (ins 1).
Proof.
  exists (fun r => Some r), shared_cs, shared_ins, shared_sched, 0.
  split; [reflexivity|]. split; [vm_compute; discriminate|].
  eexists. split; [vm_compute; right; left; reflexivity | reflexivity].
Qed.
