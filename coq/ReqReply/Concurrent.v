(** N deliveries running OnCommandProcessed CONCURRENTLY through one backend (the Router runs
    different handlers - and, with several subscriptions, the same handler - in parallel):
    handler.go l.16-81 + backend_pubsub.go OnCommandProcessed + MarshalReply, at the granularity of
    the shared memory they touch.  The only heap objects involved are the reply messages' metadata
    maps: MarshalReply allocates one per reply (message.NewMessage), OnCommandProcessed writes the
    operation id into THAT map, Publish reads it.  One step per access:

      DStart        --DMarshal-->  DStamp cell pay   (MarshalReply: fresh map {has_error, error})
      DStamp c pay  --DStampOp-->  DPub c pay        (operationIDFromMetadata; Metadata.Set(op id) on map c)
      DPub c pay    --DPublish-->  DDone             (Modify, topic, Publish of the message whose metadata is map c
                                                     read NOW; error handler; returned error)

    [shared = true] is the seeded variant in which every successful reply uses ONE package-level
    map (cell 0); [shared = false] is the code.  No proofs here. *)
From WM Require Import Base.Prelude ReqReply.Listen ReqReply.Processed.

Record rmeta := RM { rm_op : N; rm_haserr : bool; rm_err : N }.

Inductive dpc := DStart | DStamp (cell : nat) (pay : N) | DPub (cell : nat) (pay : N) | DDone.

Record dstate := DS {
  heap : nat -> rmeta;
  next : nat;                              (* cells below [next] are allocated; cell 0 is the package-level map *)
  thr : nat -> dpc;
  outs : nat -> list pevent * bool         (* what the delivery did / whether it returned an error *)
}.

Inductive dop := DMarshal | DStampOp | DPublish.

Section Conc.
  Context (enc : N -> option N).

  (** the part of OnCommandProcessed after the operation id was stamped, given the notification as
      the publisher sees it *)
  Definition tail_of (c : pcfg) (i : pinput) (n : notif) : list pevent * bool :=
    if has_modify c && negb (p_modify_ok i) then ([PCall], true) else
    if negb (p_topic_ok i) then ([PCall], true) else
    if p_pub_ok i then
      ([PCall; PPublish n; PPublishRet true], if ack_errors c then false else is_some (p_err i))
    else if has_errh c then
      ([PCall; PPublish n; PPublishRet false; PErrHandler (p_swallow i)],
       if p_swallow i then (if ack_errors c then false else is_some (p_err i)) else true)
    else ([PCall; PPublish n; PPublishRet false], true).

  Definition dinit : dstate :=
    DS (fun _ => RM 0 false 0) 1 (fun _ => DStart) (fun _ => ([], false)).

  Definition dstep (shared : bool) (cs : nat -> pcfg) (ins : nat -> pinput) (s : dstate) (il : nat * dop)
    : option dstate :=
    let t := fst il in let c := cs t in let i := ins t in
    match snd il, thr s t with
    | DMarshal, DStart =>
        if negb (p_orig i) then Some (DS (heap s) (next s) (upd (thr s) t DDone) (upd (outs s) t ([PCall], true))) else
        match enc (p_res i) with
        | None => Some (DS (heap s) (next s) (upd (thr s) t DDone) (upd (outs s) t ([PCall], true)))
        | Some pay =>
            if shared && negb (is_some (p_err i)) then
              Some (DS (heap s) (next s) (upd (thr s) t (DStamp 0 pay)) (outs s))
            else
              Some (DS (upd (heap s) (next s) (RM 0 (is_some (p_err i)) (errtext (p_err i)))) (S (next s))
                       (upd (thr s) t (DStamp (next s) pay)) (outs s))
        end
    | DStampOp, DStamp cell pay =>
        if N.eqb (p_op i) 0 then Some (DS (heap s) (next s) (upd (thr s) t DDone) (upd (outs s) t ([PCall], true))) else
        Some (DS (upd (heap s) cell (RM (p_op i) (rm_haserr (heap s cell)) (rm_err (heap s cell)))) (next s)
                 (upd (thr s) t (DPub cell pay)) (outs s))
    | DPublish, DPub cell pay =>
        let m := heap s cell in
        Some (DS (heap s) (next s) (upd (thr s) t DDone)
                 (upd (outs s) t (tail_of c i (Notif (p_nid i) (rm_op m) pay (rm_haserr m) (rm_err m)))))
    | _, _ => None
    end.

  Fixpoint drun (shared : bool) (cs : nat -> pcfg) (ins : nat -> pinput) (s : dstate) (sched : list (nat * dop)) : dstate :=
    match sched with
    | [] => s
    | il :: sched' =>
        match dstep shared cs ins s il with
        | Some s' => drun shared cs ins s' sched'
        | None => drun shared cs ins s sched'
        end
    end.
End Conc.
