(** Model of the request-reply listener (components/requestreply/backend_pubsub.go,
    ListenForNotifications l.126-213 + handleNotifyMsg l.284-298, BackendPubsubJSONMarshaler.
    UnmarshalReply backend_pubsub_marshaler.go l.44-58) composed with an arbitrary caller of
    SendWithReplies / SendWithReply (command_bus.go l.43-128) and an arbitrary stream of
    notifications on the (shared) reply topic.

    ONE listener goroutine = one request.  Other concurrent requests on the same reply topic
    are the *foreign* notifications of the stream, so "any number of concurrent requests" is
    "any stream".  Thread-level transition system, one step per synchronisation operation:

      listener   PLoop:   select { <-ctx.Done -> PFinal RTimeout
                                 | n, ok := <-notifyMsgs: !ok -> PFinal RSubClosed
                                                          ok  -> Ack n; own n ? PSend (reply_of n) : PLoop }
                 PSend r: replyChan <- r                       (capacity 1)        -> PLoop
                          [fixed] select { replyChan <- r | <-ctx.Done -> PLoop (r dropped) }
                 PFinal r: replyChan <- r  (blocking)                                -> PCancel
                          [fixed] select { replyChan <- r | default }               -> PCancel
                 PCancel: deferred cancel()  -> PClose: deferred close(replyChan)
                          -> PHook: deferred OnListenForReplyFinished (if configured) -> PDone
      caller     CRead (receive a reply), CReadClosed (observe the closed channel)  - any number, any time
      environment ECancel (the cancel func / the parent context: the caller's context ends, and with it the
                  listener's derived one), ETimeout (ListenForReplyTimeout: ONLY the derived context ends),
                  ESubClose (the notifications channel gets closed: subscriber closed, or GoChannel after ctx.Done)

    [fixed = false] is the code at the pinned commit, [fixed = true] the D10 repair.
    Ghost fields (consumed, acks, hist, finals, got, pre, closes, hooks) only record history.
    No proofs here. *)
From WM Require Import Base.Prelude.

(** a message on the reply topic, as far as the listener looks at it *)
Record notif := Notif {
  n_id : N;            (* message UUID *)
  n_op : N;            (* metadata _watermill_requestreply_op_id, 0 = "" = absent *)
  n_pay : N;           (* payload (interned) *)
  n_haserr : bool;     (* metadata _watermill_requestreply_has_error == "1" *)
  n_err : N            (* metadata _watermill_requestreply_error *)
}.

(** what is sent on the reply channel *)
Inductive reply :=
| ROwn (res : N) (err : option N) (nid : N)   (* HandlerResult, Error text (nil = None), NotificationMessage *)
| RUnmarshal                                    (* Error = ReplyUnmarshalError, no NotificationMessage *)
| RTimeout                                      (* Error = ReplyTimeoutError{_, ctx.Err()} *)
| RSubClosed.                                   (* Error = ReplyTimeoutError{_, "subscriber closed"} *)

Definition is_final (r : reply) : bool :=
  match r with RTimeout | RSubClosed => true | _ => false end.

Definition reply_eqb (a b : reply) : bool :=
  match a, b with
  | ROwn r1 e1 n1, ROwn r2 e2 n2 => N.eqb r1 r2 && option_eqb N.eqb e1 e2 && N.eqb n1 n2
  | RUnmarshal, RUnmarshal | RTimeout, RTimeout | RSubClosed, RSubClosed => true
  | _, _ => false
  end.

Inductive lpc :=
| PLoop | PSend (r : reply) | PFinal (r : reply) | PCancel | PClose | PHook | PDone.

Record cfg := Cfg {
  fixed : bool;        (* D10 repair present *)
  opid : N;            (* params.OperationID *)
  has_hook : bool;     (* config.OnListenForReplyFinished != nil *)
  has_timeout : bool   (* config.ListenForReplyTimeout != nil *)
}.

Record lstate := LS {
  pc : lpc;
  ctx_done : bool;               (* the listener's own context (derived from the caller's, with the timeout) has ended *)
  sub_closed : bool;
  inbox : list notif;            (* notifications not yet handed to the listener, in arrival order *)
  buf : list reply;              (* replyChan buffer (capacity 1) *)
  chan_closed : bool;
  panicked : bool;
  (* ghost *)
  consumed : list notif;
  acks : list N;                 (* ids of the notifications Acked, in order *)
  hist : list (reply * bool);    (* replies built from own notifications: (reply, sent? / dropped) *)
  finals : list reply;           (* final (timeout / subscriber closed) replies put on the channel *)
  got : list reply;              (* replies the caller received, in order *)
  pre : list reply;              (* non-final replies the caller received while ctx was not done *)
  seen_closed : bool;            (* the caller observed the closed channel *)
  closes : nat;
  hooks : nat;
  cctx_done : bool               (* the CALLER's context has ended (cancel func / parent); implies ctx_done *)
}.

Definition linit (stream : list notif) : lstate :=
  LS PLoop false false stream [] false false [] [] [] [] [] [] false 0 0 false.

Inductive label :=
| LRecv | LRecvClosed | LCtx | LSend | LSkip | LCancel | LClose | LHook
| CRead | CReadClosed | ECancel | ETimeout | ESubClose.

Definition llabel (l : label) : bool :=
  match l with
  | LRecv | LRecvClosed | LCtx | LSend | LSkip | LCancel | LClose | LHook => true
  | _ => false
  end.
Definition listener_labels : list label :=
  [LRecv; LRecvClosed; LCtx; LSend; LSkip; LCancel; LClose; LHook].

(** UnmarshalReply of the JSON marshaler (backend_pubsub_marshaler.go l.44-58), [jd] = json.Unmarshal of the
    payload into the result type (None = error): the error comes from the has_error flag and the error text *)
Definition unm_json (jd : N -> option N) (n : notif) : option (N * option N) :=
  match jd (n_pay n) with
  | None => None
  | Some v => Some (v, if n_haserr n then Some (n_err n) else None)
  end.

Section Listen.
  (** marshaler.UnmarshalReply of the configured BackendPubsubMarshaler - ANY marshaler: the message as far as
      it is looked at -> (HandlerResult, Error text) or None = it returned an error.  [unm_json] is the JSON one. *)
  Context (dec : notif -> option (N * option N)).

  Definition own (c : cfg) (n : notif) : bool := N.eqb (n_op n) (opid c).

  (** UnmarshalReply + the reply the listener builds from an own notification *)
  Definition reply_of (n : notif) : reply :=
    match dec n with
    | None => RUnmarshal
    | Some (v, e) => ROwn v e (n_id n)
    end.

  Definition own_replies (c : cfg) (l : list notif) : list reply :=
    map reply_of (filter (own c) l).

  Definition set_pc (s : lstate) (p : lpc) : lstate :=
    LS p (ctx_done s) (sub_closed s) (inbox s) (buf s) (chan_closed s) (panicked s)
       (consumed s) (acks s) (hist s) (finals s) (got s) (pre s) (seen_closed s) (closes s) (hooks s) (cctx_done s).

  Definition lstep (c : cfg) (s : lstate) (l : label) : option lstate :=
    match l with
    | LRecv =>
        match pc s, sub_closed s, inbox s with
        | PLoop, false, n :: rest =>
            Some (LS (if own c n then PSend (reply_of n) else PLoop)
                     (ctx_done s) (sub_closed s) rest (buf s) (chan_closed s) (panicked s)
                     (consumed s ++ [n]) (acks s ++ [n_id n]) (hist s) (finals s) (got s) (pre s)
                     (seen_closed s) (closes s) (hooks s) (cctx_done s))
        | _, _, _ => None
        end
    | LRecvClosed =>
        match pc s, sub_closed s with
        | PLoop, true => Some (set_pc s (PFinal RSubClosed))
        | _, _ => None
        end
    | LCtx =>
        if ctx_done s then
          match pc s with
          | PLoop => Some (set_pc s (PFinal RTimeout))
          | PSend r =>
              if fixed c then
                Some (LS PLoop (ctx_done s) (sub_closed s) (inbox s) (buf s) (chan_closed s) (panicked s)
                         (consumed s) (acks s) (hist s ++ [(r, false)]) (finals s) (got s) (pre s)
                         (seen_closed s) (closes s) (hooks s) (cctx_done s))
              else None
          | _ => None
          end
        else None
    | LSend =>
        match pc s, buf s with
        | PSend r, [] =>
            Some (LS PLoop (ctx_done s) (sub_closed s) (inbox s) [r] (chan_closed s) (panicked s)
                     (consumed s) (acks s) (hist s ++ [(r, true)]) (finals s) (got s) (pre s)
                     (seen_closed s) (closes s) (hooks s) (cctx_done s))
        | PFinal r, [] =>
            Some (LS PCancel (ctx_done s) (sub_closed s) (inbox s) [r] (chan_closed s) (panicked s)
                     (consumed s) (acks s) (hist s) (finals s ++ [r]) (got s) (pre s)
                     (seen_closed s) (closes s) (hooks s) (cctx_done s))
        | _, _ => None
        end
    | LSkip =>
        match pc s, buf s with
        | PFinal _, _ :: _ => if fixed c then Some (set_pc s PCancel) else None
        | _, _ => None
        end
    | LCancel =>
        match pc s with
        | PCancel =>
            Some (LS PClose true (sub_closed s) (inbox s) (buf s) (chan_closed s) (panicked s)
                     (consumed s) (acks s) (hist s) (finals s) (got s) (pre s)
                     (seen_closed s) (closes s) (hooks s) (cctx_done s))
        | _ => None
        end
    | LClose =>
        match pc s with
        | PClose =>
            Some (LS PHook (ctx_done s) (sub_closed s) (inbox s) (buf s) true
                     (panicked s || chan_closed s)       (* close of a closed channel panics *)
                     (consumed s) (acks s) (hist s) (finals s) (got s) (pre s)
                     (seen_closed s) (S (closes s)) (hooks s) (cctx_done s))
        | _ => None
        end
    | LHook =>
        match pc s with
        | PHook =>
            Some (LS PDone (ctx_done s) (sub_closed s) (inbox s) (buf s) (chan_closed s) (panicked s)
                     (consumed s) (acks s) (hist s) (finals s) (got s) (pre s)
                     (seen_closed s) (closes s) (if has_hook c then S (hooks s) else hooks s) (cctx_done s))
        | _ => None
        end
    | CRead =>
        match buf s with
        | r :: b =>
            Some (LS (pc s) (ctx_done s) (sub_closed s) (inbox s) b (chan_closed s) (panicked s)
                     (consumed s) (acks s) (hist s) (finals s) (got s ++ [r])
                     (if ctx_done s || is_final r then pre s else pre s ++ [r])
                     (seen_closed s) (closes s) (hooks s) (cctx_done s))
        | [] => None
        end
    | CReadClosed =>
        match buf s, chan_closed s with
        | [], true =>
            Some (LS (pc s) (ctx_done s) (sub_closed s) (inbox s) (buf s) (chan_closed s) (panicked s)
                     (consumed s) (acks s) (hist s) (finals s) (got s) (pre s)
                     true (closes s) (hooks s) (cctx_done s))
        | _, _ => None
        end
    | ECancel =>     (* the caller's context ends: the derived context ends with it *)
        Some (LS (pc s) true (sub_closed s) (inbox s) (buf s) (chan_closed s) (panicked s)
                 (consumed s) (acks s) (hist s) (finals s) (got s) (pre s)
                 (seen_closed s) (closes s) (hooks s) true)
    | ETimeout =>    (* ListenForReplyTimeout passes: only the derived context ends, the caller's stays alive *)
        if has_timeout c then
          Some (LS (pc s) true (sub_closed s) (inbox s) (buf s) (chan_closed s) (panicked s)
                   (consumed s) (acks s) (hist s) (finals s) (got s) (pre s)
                   (seen_closed s) (closes s) (hooks s) (cctx_done s))
        else None
    | ESubClose =>
        Some (LS (pc s) (ctx_done s) true (inbox s) (buf s) (chan_closed s) (panicked s)
                 (consumed s) (acks s) (hist s) (finals s) (got s) (pre s)
                 (seen_closed s) (closes s) (hooks s) (cctx_done s))
    end.

  (** a schedule is a list of labels; a label that is not enabled is skipped *)
  Fixpoint lrun (c : cfg) (s : lstate) (ls : list label) : lstate :=
    match ls with
    | [] => s
    | l :: ls' => match lstep c s l with Some s' => lrun c s' ls' | None => lrun c s ls' end
    end.

  (** strict replay (correspondence): every label must be enabled *)
  Fixpoint lreplay (c : cfg) (s : lstate) (ls : list label) : option lstate :=
    match ls with
    | [] => Some s
    | l :: ls' => match lstep c s l with Some s' => lreplay c s' ls' | None => None end
    end.

  Definition enabled (c : cfg) (s : lstate) (l : label) : bool :=
    match lstep c s l with Some _ => true | None => false end.

  (** no step of the listener goroutine is enabled: it is blocked, or finished *)
  Definition quiescent (c : cfg) (s : lstate) : bool :=
    negb (existsb (enabled c s) listener_labels).

  (** number of listener steps actually taken along a schedule *)
  Fixpoint lsteps (c : cfg) (s : lstate) (ls : list label) : nat :=
    match ls with
    | [] => 0
    | l :: ls' =>
        match lstep c s l with
        | Some s' => (if llabel l then 1 else 0) + lsteps c s' ls'
        | None => lsteps c s ls'
        end
    end.

  Definition rank (p : lpc) : nat :=
    match p with
    | PSend _ => 7 | PLoop => 6 | PFinal _ => 5 | PCancel => 4 | PClose => 3 | PHook => 2 | PDone => 0
    end.
  Definition mu (s : lstate) : nat := 10 * length (inbox s) + rank (pc s).

  (** ** what the caller / the harness can observe, and the property as an acceptor *)
  Record obs := Obs {
    o_pre : list reply;      (* non-final replies read before the caller cancelled / ctx ended *)
    o_got : list reply;      (* every reply the caller read, in order *)
    o_rest : list reply;     (* what was still buffered in the channel at the end *)
    o_consumed : nat;        (* how many notifications of the stream the listener took *)
    o_acked : list N;        (* ids of the taken notifications that are acked, in stream order *)
    o_closed : bool;         (* reply channel closed *)
    o_hooks : nat;           (* calls of OnListenForReplyFinished for this request *)
    o_ctx : bool             (* caller cancelled / context ended / timeout passed *)
  }.

  Definition obs_of (s : lstate) : obs :=
    Obs (pre s) (got s) (buf s) (length (consumed s)) (acks s) (chan_closed s) (hooks s) (ctx_done s).

  (** [a] is a subsequence of [b] (greedy) *)
  Fixpoint subseqb (a b : list reply) : bool :=
    match b with
    | [] => match a with [] => true | _ => false end
    | y :: b' =>
        match a with
        | [] => true
        | x :: a' => if reply_eqb x y then subseqb a' b' else subseqb a b'
        end
    end.
  Fixpoint prefixb (a b : list reply) : bool :=
    match a, b with
    | [], _ => true
    | x :: a', y :: b' => reply_eqb x y && prefixb a' b'
    | _ :: _, [] => false
    end.
  (** at most one final reply, and nothing after it *)
  Fixpoint final_last (l : list reply) : bool :=
    match l with
    | [] => true
    | r :: l' => if is_final r then match l' with [] => true | _ => false end else final_last l'
    end.
  Definition nonfinal (l : list reply) : list reply := filter (fun r => negb (is_final r)) l.

  (** safety: only own replies, with the notification's content, in arrival order, nothing lost
      before the context ended; every notification taken is acked; the hook runs at most once *)
  Definition safe_ok (c : cfg) (stream : list notif) (o : obs) : bool :=
    let all := o_got o ++ o_rest o in
    subseqb (nonfinal all) (own_replies c stream)
    && final_last all
    && prefixb (o_pre o) (own_replies c stream)
    && list_eqb N.eqb (o_acked o) (map n_id (firstn (o_consumed o) stream))
    && (o_hooks o <=? 1)
    && (length (o_rest o) <=? 1).

  (** liveness, judged in a state where the listener goroutine cannot move: once the context
      has ended the channel is closed and the hook has run exactly once *)
  Definition live_ok (c : cfg) (o : obs) : bool :=
    if o_ctx o then o_closed o && Nat.eqb (o_hooks o) (if has_hook c then 1 else 0) else true.

  Definition listener_ok (c : cfg) (stream : list notif) (o : obs) : bool :=
    safe_ok c stream o && live_ok c o.
End Listen.
