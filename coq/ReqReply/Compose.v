(** Listener and handler side together, and the D10 witness. *)
From WM Require Import Base.Prelude Message.Model Handler.RouterHandle
  ReqReply.Listen ReqReply.Processed ReqReply.ListenProofs ReqReply.ProcessedProofs.

(** a reply handed to a caller was built from a notification of its own operation id; and a
    notification produced by processing a command carries THAT command's operation id: the reply to
    another request's command is never handed to this caller *)
Theorem replies_do_not_cross dec enc c stream ls r :
  In r (got (lrun dec c (linit stream) ls)) ->
  is_final r = true \/
  exists n, In n stream /\ r = reply_of dec n /\ n_op n = opid c
    /\ forall pc i, In (PPublish n) (fst (on_processed enc pc i)) -> p_op i = opid c.
Proof.
  intros H. destruct (got_only_own dec c stream ls r H) as [Hf|[n [H1 [H2 H3]]]]; [now left|right].
  exists n. repeat split; auto. intros pc i Hp.
  destruct (reply_content enc pc i n Hp) as [Ho _]. congruence.
Qed.

(** end to end: what the caller reads for a notification produced by a delivery of its command is
    the handler's result and error text of that delivery *)
Theorem reply_end_to_end dec enc c stream ls r :
  (forall x p, enc x = Some p -> dec p = Some x) ->
  In r (got (lrun (unm_json dec) c (linit stream) ls)) ->
  is_final r = true \/
  exists n, In n stream /\ n_op n = opid c /\ r = reply_of (unm_json dec) n
    /\ forall pc i, In (PPublish n) (fst (on_processed enc pc i)) ->
         r = ROwn (p_res i) (p_err i) (p_nid i) /\ p_op i = opid c.
Proof.
  intros Hrt H. destruct (got_only_own (unm_json dec) c stream ls r H) as [Hf|[n [H1 [H2 H3]]]]; [now left|right].
  exists n. repeat split; auto.
  - rewrite H3. now apply (reply_roundtrip enc dec pc i n Hrt).
  - destruct (reply_content enc pc i n H0) as [Ho _]. congruence.
Qed.

(** ** D10: the code at the pinned commit *)
Definition d10_dec : notif -> option (N * option N) := unm_json (fun p => Some p).
Definition d10_cfg (fx : bool) : cfg := Cfg fx 7 true true.
Definition d10_stream : list notif := [Notif 1 7 1 false 0; Notif 2 7 2 false 0].
(** two replies; the caller reads the first, the second fills the buffer, the caller cancels *)
Definition d10_sched : list label := [LRecv; LSend; CRead; LRecv; LSend; ECancel; LCtx].
(** one reply that the caller never reads, then cancel (also what SendWithReply does when its
    context ends while the reply is already buffered) *)
Definition d10_sched0 : list label := [LRecv; LSend; ECancel; LCtx].

Definition leaked dec c stream (s : lstate) : Prop :=
  ctx_done s = true /\ quiescent dec c s = true /\ pc s <> PDone
  /\ chan_closed s = false /\ hooks s = 0
  /\ safe_ok dec c stream (obs_of s) = true /\ listener_ok dec c stream (obs_of s) = false
  /\ forall ls', ~ In CRead ls' -> pc (lrun dec c s ls') <> PDone.

Lemma d10_leaks ls :
  (let s := lrun d10_dec (d10_cfg false) (linit d10_stream) ls in
   exists r x b, pc s = PFinal r /\ buf s = x :: b /\ ctx_done s = true /\ chan_closed s = false /\ hooks s = 0
     /\ quiescent d10_dec (d10_cfg false) s = true
     /\ listener_ok d10_dec (d10_cfg false) d10_stream (obs_of s) = false) ->
  leaked d10_dec (d10_cfg false) d10_stream (lrun d10_dec (d10_cfg false) (linit d10_stream) ls).
Proof.
  simpl. intros [r [x [b [Hp [Hb [Hc [Hcc [Hh [Hq Hl]]]]]]]]].
  unfold leaked. repeat split; auto.
  - congruence.
  - apply safe_ok_reach.
  - intros ls' Hn.
    assert (Hs : stuck (lrun d10_dec (d10_cfg false) (linit d10_stream) ls))
      by (split; [eauto | congruence]).
    destruct (stuck_stays d10_dec (d10_cfg false) _ ls' eq_refl Hs Hn) as [[r' Hr'] _]. congruence.
Qed.

Theorem listener_terminates_refuted :
  exists dec c stream ls, fixed c = false /\ leaked dec c stream (lrun dec c (linit stream) ls).
Proof.
  exists d10_dec, (d10_cfg false), d10_stream, d10_sched. split; [reflexivity|].
  apply d10_leaks. vm_compute. do 3 eexists. repeat split; reflexivity.
Qed.

Theorem listener_terminates_refuted_unread_reply :
  exists dec c stream ls, fixed c = false /\ got (lrun dec c (linit stream) ls) = []
    /\ leaked dec c stream (lrun dec c (linit stream) ls).
Proof.
  exists d10_dec, (d10_cfg false), d10_stream, d10_sched0. split; [reflexivity|]. split; [reflexivity|].
  apply d10_leaks. vm_compute. do 3 eexists. repeat split; reflexivity.
Qed.

(** ** what the listener theorems assume about the notification stream: NOTHING for safety (they
    quantify over every stream).  The one place where the Pub/Sub enters is this end-to-end
    statement: IF every notification a listener is handed was published on the reply topic by the
    handler side for some delivery ([stream_from_deliveries] - for GoChannel that is
    C04_no_other_topic + C04_content_acceptor_sound: a subscriber only gets copies of what was
    published on its topic, unmodified), THEN every non-final reply a caller reads is exactly the
    result and error text of a delivery of ITS OWN command. *)
Definition stream_from_deliveries (enc : N -> option N) (deliveries : list (pcfg * pinput)) (stream : list notif) : Prop :=
  forall n, In n stream -> exists pc i, In (pc, i) deliveries /\ In (PPublish n) (fst (on_processed enc pc i)).

Theorem replies_are_own_deliveries dec enc c deliveries stream ls r :
  (forall x p, enc x = Some p -> dec p = Some x) ->
  stream_from_deliveries enc deliveries stream ->
  In r (got (lrun (unm_json dec) c (linit stream) ls)) ->
  is_final r = true \/
  exists pc i, In (pc, i) deliveries /\ p_op i = opid c /\ r = ROwn (p_res i) (p_err i) (p_nid i).
Proof.
  intros Hrt Hs H.
  destruct (reply_end_to_end dec enc c stream ls r Hrt H) as [Hf|[n [H1 [H2 [H3 H4]]]]]; [now left|right].
  destruct (Hs n H1) as [pc [i [Hd Hp]]]. destruct (H4 pc i Hp) as [Hr Ho].
  exists pc, i. auto.
Qed.
