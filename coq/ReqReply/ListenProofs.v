(** Proofs about the listener model (ReqReply/Listen.v). *)
From WM Require Import Base.Prelude ReqReply.Listen.

Lemma reply_eqb_refl r : reply_eqb r r = true.
Proof.
  destruct r as [a e n| | |]; simpl; auto.
  rewrite !N.eqb_refl. destruct e; simpl; auto. now rewrite N.eqb_refl.
Qed.

Lemma forallb_filter_id {A} (f : A -> bool) l : forallb f l = true -> filter f l = l.
Proof.
  induction l as [|x l IH]; simpl; auto. intros H. apply andb_true_iff in H as [H1 H2].
  rewrite H1. f_equal. auto.
Qed.
Lemma forallb_filter_nil {A} (f : A -> bool) l : forallb (fun x => negb (f x)) l = true -> filter f l = [].
Proof.
  induction l as [|x l IH]; simpl; auto. intros H. apply andb_true_iff in H as [H1 H2].
  apply negb_true_iff in H1. rewrite H1. auto.
Qed.

Section P.
  Context (dec : notif -> option (N * option N)).
  Notation lstep := (lstep dec).
  Notation lrun := (lrun dec).
  Notation lsteps := (lsteps dec).
  Notation reply_of := (reply_of dec).
  Notation own_replies := (own_replies dec).
  Notation quiescent := (quiescent dec).
  Notation enabled := (enabled dec).
  Notation safe_ok := (safe_ok dec).
  Notation listener_ok := (listener_ok dec).

  (** *** small facts *)
  Lemma reply_of_nonfinal n : is_final (reply_of n) = false.
  Proof. unfold Listen.reply_of. destruct (dec n) as [[v e]|]; reflexivity. Qed.

  Lemma own_replies_app c a b : own_replies c (a ++ b) = own_replies c a ++ own_replies c b.
  Proof. unfold Listen.own_replies. now rewrite filter_app, map_app. Qed.

  Lemma own_replies_nonfinal c l : forallb (fun r => negb (is_final r)) (own_replies c l) = true.
  Proof.
    unfold Listen.own_replies. induction l as [|n l IH]; simpl; auto.
    destruct (own c n); simpl; auto. now rewrite reply_of_nonfinal.
  Qed.

  Lemma nonfinal_app a b : nonfinal (a ++ b) = nonfinal a ++ nonfinal b.
  Proof. unfold nonfinal. apply filter_app. Qed.

  Lemma subseqb_nil b : subseqb [] b = true.
  Proof. destruct b; reflexivity. Qed.

  Lemma subseqb_tail : forall b x a, subseqb (x :: a) b = true -> subseqb a b = true.
  Proof.
    induction b as [|y b IH]; intros x a H; simpl in H; [discriminate|].
    destruct a as [|z a0]; [reflexivity|]. simpl.
    destruct (reply_eqb x y).
    - destruct (reply_eqb z y); [now apply IH in H | exact H].
    - apply IH in H. destruct (reply_eqb z y); [now apply IH in H | exact H].
  Qed.

  Lemma subseqb_cons a y b : subseqb a b = true -> subseqb a (y :: b) = true.
  Proof.
    intros H. destruct a as [|x a]; [reflexivity|]. simpl.
    destruct (reply_eqb x y); [now apply subseqb_tail in H | exact H].
  Qed.

  Lemma subseqb_kept (h : list (reply * bool)) t :
    subseqb (map fst (filter snd h)) (map fst h ++ t) = true.
  Proof.
    induction h as [|[r b] h IH]; simpl; [apply subseqb_nil|].
    destruct b; simpl.
    - now rewrite reply_eqb_refl.
    - now apply subseqb_cons.
  Qed.

  Lemma prefixb_app a t : prefixb a (a ++ t) = true.
  Proof. induction a as [|x a IH]; simpl; auto. now rewrite reply_eqb_refl. Qed.

  Lemma final_last_app kept fin :
    forallb (fun r => negb (is_final r)) kept = true -> length fin <= 1 ->
    final_last (kept ++ fin) = true.
  Proof.
    intros Hk Hf. induction kept as [|r kept IH]; simpl.
    - destruct fin as [|r [|r' fin]]; simpl in *; auto; [destruct (is_final r); auto | lia].
    - simpl in Hk. apply andb_true_iff in Hk as [H1 H2]. apply negb_true_iff in H1. rewrite H1. auto.
  Qed.

  (** *** the invariant *)
  Definition pend (p : lpc) : list reply := match p with PSend r => [r] | _ => [] end.
  Definition after_final (p : lpc) : bool :=
    match p with PCancel | PClose | PHook | PDone => true | _ => false end.
  Definition closed_pc (p : lpc) : bool := match p with PHook | PDone => true | _ => false end.

  Record LInv (c : cfg) (stream : list notif) (s : lstate) : Prop := {
    i_stream : consumed s ++ inbox s = stream;
    i_acks : acks s = map n_id (consumed s);
    i_hist : map fst (hist s) ++ pend (pc s) = own_replies c (consumed s);
    i_got : got s ++ buf s = map fst (filter snd (hist s)) ++ finals s;
    i_nodrop : ctx_done s = false -> forallb snd (hist s) = true;
    i_fin0 : after_final (pc s) = false -> finals s = [];
    i_fin1 : forallb is_final (finals s) = true /\ length (finals s) <= 1;
    i_finpc : match pc s with PFinal r => is_final r = true | _ => True end;
    i_pre : ctx_done s = false -> pre s = nonfinal (got s);
    i_prefix : exists t, pre s ++ t = own_replies c (consumed s);
    i_buf : length (buf s) <= 1;
    i_closed : chan_closed s = closed_pc (pc s);
    i_closes : closes s = if closed_pc (pc s) then 1 else 0;
    i_hooks : hooks s = match pc s with PDone => if has_hook c then 1 else 0 | _ => 0 end;
    i_panic : panicked s = false;
    i_cancelled : match pc s with PClose | PHook | PDone => ctx_done s = true | _ => True end;
    i_cctx : cctx_done s = true -> ctx_done s = true
  }.

  Lemma linv_init c stream : LInv c stream (linit stream).
  Proof.
    constructor; simpl; auto.
    - exists []. reflexivity.
  Qed.

  Lemma hist_nonfinal c stream s : LInv c stream s ->
    forallb (fun r => negb (is_final r)) (map fst (hist s)) = true.
  Proof.
    intros I. pose proof (own_replies_nonfinal c (consumed s)) as H.
    rewrite <- (i_hist _ _ _ I) in H. rewrite forallb_app in H. now apply andb_true_iff in H.
  Qed.

  Lemma kept_nonfinal c stream s : LInv c stream s ->
    forallb (fun r => negb (is_final r)) (map fst (filter snd (hist s))) = true.
  Proof.
    intros I. pose proof (hist_nonfinal _ _ _ I) as H.
    induction (hist s) as [|[r b] h IH]; simpl in *; auto.
    apply andb_true_iff in H as [H1 H2]. destruct b; simpl; auto. now rewrite H1, IH.
  Qed.

  Lemma nonfinal_all c stream s : LInv c stream s ->
    nonfinal (got s ++ buf s) = map fst (filter snd (hist s)).
  Proof.
    intros I. rewrite (i_got _ _ _ I), nonfinal_app. unfold nonfinal.
    rewrite (forallb_filter_id _ _ (kept_nonfinal _ _ _ I)).
    assert (Hn : filter (fun r => negb (is_final r)) (finals s) = []).
    { destruct (i_fin1 _ _ _ I) as [H _].
      induction (finals s) as [|r l IH]; simpl in *; auto.
      apply andb_true_iff in H as [H1 H2]. rewrite H1. simpl. auto. }
    rewrite Hn. apply app_nil_r.
  Qed.

  Ltac inv_some :=
    match goal with H : Some _ = Some _ |- _ => inversion H; subst; clear H end.

  Theorem lstep_inv c stream s l s' : LInv c stream s -> lstep c s l = Some s' -> LInv c stream s'.
  Proof.
    intros I H.
    pose proof (i_stream _ _ _ I) as Hst. pose proof (i_acks _ _ _ I) as Hak.
    pose proof (i_hist _ _ _ I) as Hh. pose proof (i_got _ _ _ I) as Hg.
    pose proof (i_nodrop _ _ _ I) as Hnd. pose proof (i_fin0 _ _ _ I) as Hf0.
    pose proof (i_fin1 _ _ _ I) as Hf1. pose proof (i_finpc _ _ _ I) as Hfp.
    pose proof (i_pre _ _ _ I) as Hpre. pose proof (i_prefix _ _ _ I) as Hpx.
    pose proof (i_buf _ _ _ I) as Hb. pose proof (i_closed _ _ _ I) as Hcl.
    pose proof (i_closes _ _ _ I) as Hcs. pose proof (i_hooks _ _ _ I) as Hhk.
    pose proof (i_panic _ _ _ I) as Hpn. pose proof (i_cancelled _ _ _ I) as Hcn.
    pose proof (i_cctx _ _ _ I) as Hcc.
    pose proof (nonfinal_all _ _ _ I) as Hnf. pose proof (hist_nonfinal _ _ _ I) as Hhn.
    destruct l; simpl in H.
    - (* LRecv *)
      destruct (pc s) eqn:Epc; try discriminate.
      destruct (sub_closed s) eqn:Esc; try discriminate.
      destruct (inbox s) as [|n rest] eqn:Ein; try discriminate. inv_some.
      simpl in *. rewrite app_nil_r in Hh.
      assert (Ho : own_replies c (consumed s ++ [n]) = own_replies c (consumed s) ++ (if own c n then [reply_of n] else [])).
      { rewrite own_replies_app. f_equal. unfold Listen.own_replies. simpl. destruct (own c n); reflexivity. }
      constructor; simpl; auto; try solve [destruct (own c n); simpl; auto].
      + now rewrite <- app_assoc.
      + now rewrite map_app, Hak.
      + rewrite Ho, <- Hh. destruct (own c n); simpl; auto; now rewrite ?app_nil_r.
      + destruct Hpx as [t Ht]. exists (t ++ (if own c n then [reply_of n] else [])).
        now rewrite Ho, app_assoc, Ht.
    - (* LRecvClosed *)
      destruct (pc s) eqn:Epc; try discriminate.
      destruct (sub_closed s) eqn:Esc; try discriminate. inv_some.
      constructor; simpl; auto.
    - (* LCtx *)
      destruct (ctx_done s) eqn:Ecx; try discriminate.
      destruct (pc s) eqn:Epc; try discriminate.
      + inv_some. constructor; simpl; auto; intros; congruence.
      + destruct (fixed c); try discriminate. inv_some. simpl in *.
        constructor; simpl; auto.
        * rewrite map_app. simpl. now rewrite app_nil_r.
        * rewrite filter_app. simpl. now rewrite app_nil_r.
        * intros; congruence.
    - (* LSend *)
      destruct (pc s) eqn:Epc; try discriminate;
        destruct (buf s) eqn:Ebuf; try discriminate; inv_some; simpl in *.
      + specialize (Hf0 eq_refl). rewrite Hf0, !app_nil_r in *.
        constructor; simpl; auto.
        * rewrite map_app. simpl. now rewrite app_nil_r.
        * rewrite filter_app, map_app. simpl. rewrite app_nil_r. now rewrite Hg.
        * intros E. rewrite forallb_app. simpl. now rewrite (Hnd E).
      + specialize (Hf0 eq_refl). rewrite Hf0, !app_nil_r in *.
        constructor; simpl; auto.
        * now rewrite app_nil_r.
        * now rewrite Hg.
        * discriminate.
        * rewrite Hfp. auto.
    - (* LSkip *)
      destruct (pc s) eqn:Epc; try discriminate.
      destruct (buf s) eqn:Ebuf; try discriminate.
      destruct (fixed c); try discriminate. inv_some.
      constructor; simpl; auto; now rewrite Ebuf.
    - (* LCancel *)
      destruct (pc s) eqn:Epc; try discriminate. inv_some.
      constructor; simpl; auto; try discriminate.
    - (* LClose *)
      destruct (pc s) eqn:Epc; try discriminate. inv_some. simpl in *.
      constructor; simpl; auto; try discriminate.
      now rewrite Hpn, Hcl.
    - (* LHook *)
      destruct (pc s) eqn:Epc; try discriminate. inv_some. simpl in *.
      constructor; simpl; auto; try discriminate.
      rewrite Hhk. destruct (has_hook c); reflexivity.
    - (* CRead *)
      destruct (buf s) as [|r b] eqn:Ebuf; try discriminate. inv_some.
      constructor; simpl; auto.
      + now rewrite <- app_assoc.
      + intros E. rewrite E. simpl. rewrite nonfinal_app. simpl.
        rewrite (Hpre E). destruct (is_final r); simpl; [now rewrite app_nil_r | reflexivity].
      + destruct (ctx_done s) eqn:Ecx; simpl; [exact Hpx|].
        destruct (is_final r) eqn:Efr; [exact Hpx|].
        (* nothing dropped so far: the reply read is the next own reply *)
        exists (nonfinal b ++ pend (pc s)).
        rewrite <- Hh. rewrite (Hpre eq_refl).
        assert (Hk : map fst (filter snd (hist s)) = map fst (hist s))
          by (now rewrite (forallb_filter_id _ _ (Hnd eq_refl))).
        rewrite Hk in Hnf. rewrite <- Hnf, nonfinal_app. simpl. rewrite Efr. simpl.
        now rewrite <- !app_assoc.
      + simpl in Hb. lia.
    - (* CReadClosed *)
      destruct (buf s) eqn:Ebuf; try discriminate.
      destruct (chan_closed s) eqn:Ecc; try discriminate. inv_some.
      constructor; simpl; auto.
    - (* ECancel *)
      inv_some. constructor; simpl; auto; try discriminate.
      destruct (pc s); auto.
    - (* ETimeout *)
      destruct (has_timeout c); try discriminate.
      inv_some. constructor; simpl; auto; try discriminate.
      destruct (pc s); auto.
    - (* ESubClose *)
      inv_some. constructor; simpl; auto.
  Qed.

  Theorem lrun_inv c stream ls : forall s, LInv c stream s -> LInv c stream (lrun c s ls).
  Proof.
    induction ls as [|l ls IH]; intros s I; simpl; auto.
    destruct (lstep c s l) eqn:E; auto. apply IH. eapply lstep_inv; eauto.
  Qed.

  Corollary reach_inv c stream ls : LInv c stream (lrun c (linit stream) ls).
  Proof. apply lrun_inv, linv_init. Qed.

  (** *** safety *)

  (** every reply handed to the caller is the final one or was built from a notification of
      the stream that carries the caller's own operation id *)
  Theorem got_only_own c stream ls r :
    In r (got (lrun c (linit stream) ls)) ->
    is_final r = true \/ exists n, In n stream /\ n_op n = opid c /\ r = reply_of n.
  Proof.
    set (s := lrun c (linit stream) ls). intros Hin.
    pose proof (reach_inv c stream ls) as I. fold s in I.
    assert (H : In r (got s ++ buf s)) by (apply in_or_app; now left).
    rewrite (i_got _ _ _ I) in H. apply in_app_or in H as [H|H].
    - right. assert (H' : In r (map fst (hist s))).
      { apply in_map_iff in H as [[r' b] [E Hf]]. apply filter_In in Hf as [Hf _].
        apply in_map_iff. now exists (r', b). }
      assert (H'' : In r (own_replies c (consumed s))).
      { rewrite <- (i_hist _ _ _ I). apply in_or_app. now left. }
      unfold Listen.own_replies in H''. apply in_map_iff in H'' as [n [E Hn]].
      apply filter_In in Hn as [Hn Ho]. exists n. split; [|split]; auto.
      + rewrite <- (i_stream _ _ _ I). apply in_or_app. now left.
      + unfold own in Ho. now apply N.eqb_eq in Ho.
    - left. destruct (i_fin1 _ _ _ I) as [Hf _]. rewrite forallb_forall in Hf. auto.
  Qed.

  (** the executable acceptor holds in every reachable state, for both variants of the code *)
  Theorem safe_ok_reach c stream ls : safe_ok c stream (obs_of (lrun c (linit stream) ls)) = true.
  Proof.
    set (s := lrun c (linit stream) ls).
    pose proof (reach_inv c stream ls) as I. fold s in I.
    assert (Hos : own_replies c stream = own_replies c (consumed s) ++ own_replies c (inbox s))
      by (now rewrite <- own_replies_app, (i_stream _ _ _ I)).
    unfold Listen.safe_ok, obs_of. simpl.
    repeat (apply andb_true_iff; split).
    - rewrite (nonfinal_all _ _ _ I), Hos, <- (i_hist _ _ _ I), <- app_assoc. apply subseqb_kept.
    - rewrite (i_got _ _ _ I). apply final_last_app; [eapply kept_nonfinal; eauto | apply (i_fin1 _ _ _ I)].
    - destruct (i_prefix _ _ _ I) as [t Ht]. rewrite Hos, <- Ht, <- app_assoc. apply prefixb_app.
    - rewrite <- (i_stream _ _ _ I), firstn_app, Nat.sub_diag, firstn_all. simpl. rewrite app_nil_r.
      apply list_eqb_spec; [apply N.eqb_eq | apply (i_acks _ _ _ I)].
    - rewrite (i_hooks _ _ _ I). destruct (pc s); auto. destruct (has_hook c); auto.
    - apply Nat.leb_le, (i_buf _ _ _ I).
  Qed.

  (** every notification the listener takes - own, foreign or malformed - is acked, once, in order *)
  Theorem every_notification_acked c stream ls :
    let s := lrun c (linit stream) ls in acks s = map n_id (consumed s) /\ consumed s ++ inbox s = stream.
  Proof. intros s. pose proof (reach_inv c stream ls) as I. split; apply I. Qed.

  (** as long as the context has not ended no own reply is lost: what the caller read, what is
      buffered and what the listener is sending are exactly the own replies so far, in order *)
  Theorem no_loss_before_ctx_end c stream ls :
    let s := lrun c (linit stream) ls in
    ctx_done s = false ->
    nonfinal (got s ++ buf s) ++ pend (pc s) = own_replies c (consumed s).
  Proof.
    intros s E. pose proof (reach_inv c stream ls) as I. fold s in I.
    rewrite (nonfinal_all _ _ _ I), (forallb_filter_id _ _ (i_nodrop _ _ _ I E)). apply (i_hist _ _ _ I).
  Qed.

  (** the channel is closed at most once (never a double-close panic), the hook runs at most once *)
  Theorem close_and_hook_at_most_once c stream ls :
    let s := lrun c (linit stream) ls in
    closes s <= 1 /\ hooks s <= 1 /\ panicked s = false /\ (chan_closed s = true -> ctx_done s = true).
  Proof.
    intros s. pose proof (reach_inv c stream ls) as I. fold s in I.
    rewrite (i_closes _ _ _ I), (i_hooks _ _ _ I), (i_closed _ _ _ I).
    pose proof (i_cancelled _ _ _ I) as Hc.
    repeat split; try apply I.
    - destruct (closed_pc (pc s)); lia.
    - destruct (pc s); try lia. destruct (has_hook c); lia.
    - destruct (pc s); simpl; try discriminate; auto.
  Qed.

  (** the listener's context is derived from the caller's: it has ended whenever the caller's has
      (and may end alone, by ListenForReplyTimeout) *)
  Theorem caller_ctx_implies_listen_ctx c stream ls :
    let s := lrun c (linit stream) ls in cctx_done s = true -> ctx_done s = true.
  Proof. intros s. pose proof (reach_inv c stream ls) as I. apply I. Qed.

  Theorem done_state c stream ls :
    let s := lrun c (linit stream) ls in
    pc s = PDone ->
    chan_closed s = true /\ closes s = 1 /\ hooks s = (if has_hook c then 1 else 0) /\ panicked s = false.
  Proof.
    intros s E. pose proof (reach_inv c stream ls) as I. fold s in I.
    rewrite (i_closes _ _ _ I), (i_hooks _ _ _ I), (i_closed _ _ _ I), E. simpl.
    repeat split; auto. apply I.
  Qed.

  (** *** liveness *)

  (** the repaired listener is never blocked once the context has ended, whatever the caller does *)
  Theorem never_blocked_fixed c s :
    fixed c = true -> ctx_done s = true -> pc s <> PDone ->
    exists l s', llabel l = true /\ lstep c s l = Some s'.
  Proof.
    intros Hf Hc Hp. destruct (pc s) eqn:Epc; try congruence.
    - exists LCtx. eexists. split; auto. simpl. rewrite Hc, Epc. reflexivity.
    - exists LCtx. eexists. split; auto. simpl. rewrite Hc, Epc, Hf. reflexivity.
    - destruct (buf s) eqn:Eb.
      + exists LSend. eexists. split; auto. simpl. rewrite Epc, Eb. reflexivity.
      + exists LSkip. eexists. split; auto. simpl. rewrite Epc, Eb, Hf. reflexivity.
    - exists LCancel. eexists. split; auto. simpl. rewrite Epc. reflexivity.
    - exists LClose. eexists. split; auto. simpl. rewrite Epc. reflexivity.
    - exists LHook. eexists. split; auto. simpl. rewrite Epc. reflexivity.
  Qed.

  Lemma quiescent_done_fixed c s :
    fixed c = true -> ctx_done s = true -> quiescent c s = true -> pc s = PDone.
  Proof.
    intros Hf Hc Hq. destruct (pc s) eqn:Epc; auto; exfalso;
      assert (Hp : pc s <> PDone) by congruence;
      destruct (never_blocked_fixed c s Hf Hc Hp) as [l [s' [Hl Hs]]];
      unfold Listen.quiescent in Hq; apply negb_true_iff in Hq;
      assert (He : existsb (enabled c s) listener_labels = true)
        by (apply existsb_exists; exists l; split;
            [destruct l; simpl in *; try discriminate; auto 10 | unfold Listen.enabled; now rewrite Hs]);
      congruence.
  Qed.

  (** every listener step strictly decreases [mu]; caller and environment steps leave it alone *)
  Lemma lstep_mu c s l s' : lstep c s l = Some s' ->
    if llabel l then mu s' < mu s else mu s' = mu s.
  Proof.
    intros H. unfold mu. destruct l; simpl in *.
    - destruct (pc s) eqn:Epc; try discriminate.
      destruct (sub_closed s); try discriminate.
      destruct (inbox s) eqn:Ei; try discriminate. inv_some. simpl.
      destruct (own c n); simpl; lia.
    - destruct (pc s) eqn:Epc; try discriminate.
      destruct (sub_closed s); try discriminate. inv_some. simpl. lia.
    - destruct (ctx_done s); try discriminate.
      destruct (pc s) eqn:Epc; try discriminate.
      + inv_some. simpl. lia.
      + destruct (fixed c); try discriminate. inv_some. simpl. lia.
    - destruct (pc s) eqn:Epc; try discriminate; destruct (buf s); try discriminate; inv_some; simpl; lia.
    - destruct (pc s) eqn:Epc; try discriminate. destruct (buf s); try discriminate.
      destruct (fixed c); try discriminate. inv_some. simpl. lia.
    - destruct (pc s) eqn:Epc; try discriminate. inv_some. simpl. lia.
    - destruct (pc s) eqn:Epc; try discriminate. inv_some. simpl. lia.
    - destruct (pc s) eqn:Epc; try discriminate. inv_some. simpl. lia.
    - destruct (buf s); try discriminate. inv_some. simpl. lia.
    - destruct (buf s); try discriminate. destruct (chan_closed s); try discriminate. inv_some. reflexivity.
    - inv_some. reflexivity.
    - destruct (has_timeout c); try discriminate. inv_some. reflexivity.
    - inv_some. reflexivity.
  Qed.

  Lemma lrun_mu c ls : forall s, mu (lrun c s ls) + lsteps c s ls <= mu s.
  Proof.
    induction ls as [|l ls IH]; intros s; simpl; [lia|].
    destruct (lstep c s l) eqn:E; [|apply IH].
    pose proof (lstep_mu _ _ _ _ E) as Hm. specialize (IH l0).
    destruct (llabel l); lia.
  Qed.

  (** the listener cannot run forever: along ANY schedule it takes at most [mu s] steps, and
      after that many steps it has finished *)
  Theorem listener_steps_bounded c s ls :
    lsteps c s ls <= mu s /\ (mu s <= lsteps c s ls -> pc (lrun c s ls) = PDone).
  Proof.
    pose proof (lrun_mu c ls s) as H. split; [lia|]. intros Hge.
    assert (Hz : mu (lrun c s ls) = 0) by lia. unfold mu in Hz.
    destruct (pc (lrun c s ls)); simpl in Hz; auto; lia.
  Qed.

  (** the acceptor, liveness clause included, holds in every state of the repaired listener in
      which the listener goroutine cannot move *)
  Theorem listener_ok_quiescent_fixed c stream ls :
    fixed c = true ->
    let s := lrun c (linit stream) ls in
    quiescent c s = true -> listener_ok c stream (obs_of s) = true.
  Proof.
    intros Hf s Hq. unfold Listen.listener_ok.
    assert (Hs := safe_ok_reach c stream ls). change (lrun c (linit stream) ls) with s in Hs.
    rewrite Hs. simpl.
    unfold live_ok. simpl. destruct (ctx_done s) eqn:Ec; auto.
    pose proof (quiescent_done_fixed c s Hf Ec Hq) as Hd.
    destruct (done_state c stream ls Hd) as [H1 [_ [H3 _]]].
    fold s in H1, H3. rewrite H1, H3. simpl. apply Nat.eqb_refl.
  Qed.

  (** *** the pinned code: a blocked final send stays blocked unless the caller reads *)
  Definition stuck (s : lstate) : Prop :=
    (exists r, pc s = PFinal r) /\ buf s <> [].

  Lemma stuck_stays c s ls : fixed c = false -> stuck s -> ~ In CRead ls -> stuck (lrun c s ls).
  Proof.
    intros Hf. revert s. induction ls as [|l ls IH]; intros s Hs Hn; simpl; auto.
    assert (Hn' : ~ In CRead ls) by (intros X; apply Hn; now right).
    assert (Hl : l <> CRead) by (intros X; apply Hn; now left).
    destruct (lstep c s l) eqn:E; auto. apply IH; auto.
    destruct Hs as [[r Hr] Hb]. unfold stuck.
    destruct l; simpl in E; rewrite ?Hr, ?Hf in E; try congruence.
    all: repeat match type of E with
         | context [match ?x with _ => _ end] => destruct x eqn:?
         | context [if ?x then _ else _] => destruct x eqn:?
         end; try discriminate; try congruence;
         try (inv_some; simpl; split; [eauto | congruence]).
  Qed.
End P.
