(** Proofs about OnCommandProcessed with an arbitrary marshaler (ReqReply/Marshaler.v). *)
From WM Require Import Base.Prelude Message.Model Handler.RouterHandle
  ReqReply.Listen ReqReply.Processed ReqReply.ListenProofs ReqReply.Marshaler.

Section P.
  Context (cmarshal : N -> option N -> option notif) (modify : notif -> option notif).
  Notation opc := (on_processed_custom cmarshal modify).

  Ltac crush c i :=
    destruct c as [ae hm he]; destruct i as [orig op res err nid mok tok pok sw ek cx];
    unfold on_processed_custom; simpl;
    destruct orig; simpl; auto;
    destruct (cmarshal res err) as [m|] eqn:Em; simpl; auto;
    destruct (N.eqb op 0) eqn:Eop; simpl; auto.

  (** whatever operation id the marshaler wrote (or dropped), without ModifyNotificationMessage the
      published notification carries the COMMAND's operation id, and otherwise exactly what the
      marshaler built *)
  Theorem custom_marshaler_op_id_stamped c i n :
    has_modify c = false ->
    In (PPublish n) (fst (opc c i)) ->
    p_op i <> 0%N /\ exists m, cmarshal (p_res i) (p_err i) = Some m /\ n = stamp_op m (p_op i).
  Proof.
    crush c i; intros Hm; simpl in Hm; subst hm; simpl;
      destruct tok, pok, he; simpl; intros H;
      repeat (destruct H as [H|H]; try discriminate); try contradiction;
      inversion H; subst; (split; [now apply N.eqb_neq | eauto]).
  Qed.

  (** with ModifyNotificationMessage the published notification is what it returned for the stamped one *)
  Ltac dead H := simpl in H; repeat (destruct H as [H|H]; try discriminate); contradiction.

  Theorem custom_modify_applied_after_stamp c i n :
    has_modify c = true ->
    In (PPublish n) (fst (opc c i)) ->
    exists m, cmarshal (p_res i) (p_err i) = Some m /\ modify (stamp_op m (p_op i)) = Some n.
  Proof.
    intros Hm H. unfold on_processed_custom in H. rewrite Hm in H.
    destruct (negb (p_orig i)); [dead H|].
    destruct (cmarshal (p_res i) (p_err i)) as [m|]; [|dead H].
    destruct (N.eqb (p_op i) 0); [dead H|].
    destruct (modify (stamp_op m (p_op i))) as [n'|] eqn:Emod; [|dead H].
    exists m. split; auto.
    destruct (negb (p_topic_ok i)); [dead H|].
    destruct (p_pub_ok i); [|destruct (has_errh c)];
      simpl in H; repeat (destruct H as [H|H]; try discriminate); try contradiction;
      inversion H; subst; auto.
  Qed.

  (** one publish at most, and the settlement decision does not depend on the marshaler *)
  Theorem custom_one_reply c i :
    length (filter (fun e => match e with PPublish _ => true | _ => false end) (fst (opc c i))) <= 1.
  Proof.
    crush c i. destruct (if hm then modify (stamp_op m op) else Some (stamp_op m op)); simpl; auto.
    destruct tok, pok, he; simpl; auto.
  Qed.

  (** the JSON marshaler is the instance [cmarshal_json]: same events, same result *)
  Theorem custom_json_instance enc c i :
    has_modify c = false \/ p_modify_ok i = true ->
    on_processed_custom (cmarshal_json enc (p_nid i)) (fun n => if p_modify_ok i then Some n else None) c i
    = on_processed enc c i.
  Proof.
    destruct c as [ae hm he]; destruct i as [orig op res err nid mok tok pok sw ek cx].
    unfold on_processed_custom, on_processed, cmarshal_json, stamp_op; simpl.
    intros Hm. destruct orig; simpl; auto. destruct (enc res); simpl; auto.
    destruct (N.eqb op 0); simpl; auto.
    destruct hm, mok; simpl; auto; destruct Hm; discriminate.
  Qed.
End P.

(** as coded, a ModifyNotificationMessage (or, with one, a marshaler) that leaves the notification
    WITHOUT the requester's operation id loses the reply: the listener takes and acks it but hands
    nothing over.  For every unmarshaler, stream and schedule. *)
Theorem reply_without_op_id_is_lost dec c stream ls r :
  (forall n, In n stream -> n_op n <> opid c) ->
  In r (got (lrun dec c (linit stream) ls)) -> is_final r = true.
Proof.
  intros Hno H. destruct (got_only_own dec c stream ls r H) as [Hf|[n [H1 [H2 _]]]]; auto.
  exfalso. now apply (Hno n).
Qed.
