(** OnCommandProcessed (backend_pubsub.go l.217-282) with an ARBITRARY BackendPubsubMarshaler and an
    arbitrary ModifyNotificationMessage, as coded: MarshalReply builds any message it likes (any
    operation id or none, any extra keys - keys the listener never reads are not modelled), THEN the
    backend stamps the command's operation id over whatever is there, THEN ModifyNotificationMessage
    may rewrite the message once more (and so may drop the id again), then topic and publish.
    No proofs here. *)
From WM Require Import Base.Prelude Message.Model Handler.RouterHandle ReqReply.Listen ReqReply.Processed.

Section Custom.
  Context (cmarshal : N -> option N -> option notif)   (* MarshalReply(result, error text): None = error *)
          (modify : notif -> option notif).            (* ModifyNotificationMessage: None = error *)

  Definition stamp_op (m : notif) (op : N) : notif :=
    Notif (n_id m) op (n_pay m) (n_haserr m) (n_err m).

  Definition on_processed_custom (c : pcfg) (i : pinput) : list pevent * bool :=
    if negb (p_orig i) then ([PCall], true) else
    match cmarshal (p_res i) (p_err i) with
    | None => ([PCall], true)
    | Some m =>
        if N.eqb (p_op i) 0 then ([PCall], true) else
        match (if has_modify c then modify (stamp_op m (p_op i)) else Some (stamp_op m (p_op i))) with
        | None => ([PCall], true)
        | Some n =>
            if negb (p_topic_ok i) then ([PCall], true) else
            if p_pub_ok i then
              ([PCall; PPublish n; PPublishRet true], if ack_errors c then false else is_some (p_err i))
            else if has_errh c then
              ([PCall; PPublish n; PPublishRet false; PErrHandler (p_swallow i)],
               if p_swallow i then (if ack_errors c then false else is_some (p_err i)) else true)
            else ([PCall; PPublish n; PPublishRet false], true)
        end
    end.

  (** the JSON marshaler as an instance *)
  Definition cmarshal_json (enc : N -> option N) (nid : N) (res : N) (err : option N) : option notif :=
    match enc res with
    | None => None
    | Some pay => Some (Notif nid 0 pay (is_some err) (errtext err))
    end.
End Custom.
