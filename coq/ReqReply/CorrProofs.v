(** Every comparator of Corr/C18.v that yields a VIOLATION verdict on implementation observations
    accepts what its model does ("..._model_accepted"): the verdict functions are not free-standing oracles. *)
From WM Require Import Base.Prelude Message.Model Handler.RouterHandle
  ReqReply.Listen ReqReply.ListenProofs ReqReply.Processed ReqReply.ProcessedProofs
  ReqReply.Caller ReqReply.CallerProofs ReqReply.Api ReqReply.ApiProofs Corr.C18.

(** listener verdict (C18/listener-safety, C18/listener-parked..., C18/listener-end-state): 0 on the
    observation of every reachable state of the repaired listener in which it rests *)
Theorem listen_verdict_model_accepted c tab stream ls done :
  fixed c = true ->
  let dec := unm_json (tab_lookup tab) in
  let s := lrun dec c (linit stream) ls in
  quiescent dec c s = true ->
  c18_listen_verdict (LC c tab stream ls (obs_of s) done) = 0.
Proof.
  intros Hf dec s Hq.
  pose proof (listener_ok_quiescent_fixed dec c stream ls Hf Hq) as H.
  unfold listener_ok in H. apply andb_true_iff in H as [H1 H2].
  unfold c18_listen_verdict. cbn [lc_dec lc_cfg lc_stream lc_obs].
  subst s dec. now rewrite H1, H2.
Qed.

(** ... and its safety half on the observation of EVERY reachable state of either variant *)
Theorem listen_verdict_safety_model_accepted c tab stream ls done :
  let dec := unm_json (tab_lookup tab) in
  Nat.odd (c18_listen_verdict (LC c tab stream ls (obs_of (lrun dec c (linit stream) ls)) done)) = false.
Proof.
  intros dec. unfold c18_listen_verdict. cbn [lc_dec lc_cfg lc_stream lc_obs]. subst dec.
  rewrite (safe_ok_reach (unm_json (tab_lookup tab)) c stream ls). destruct (live_ok c _); reflexivity.
Qed.

(** delivery verdict (C18/delivery) *)
Theorem proc_verdict_model_accepted c i tab :
  c18_proc_violates (PC c i tab (fst (process (tab_lookup tab) c i)) (snd (process (tab_lookup tab) c i))) = false.
Proof. unfold c18_proc_violates. simpl. now rewrite process_accepted. Qed.

(** handler-branch verdict (C18/handler-branch): the observed handler behaviour composed with the
    Router model - accepted when the handler behaved as [on_processed] *)
Theorem onproc_verdict_model_accepted c i tab :
  c18_onproc_violates (OPC c i tab (fst (on_processed (tab_lookup tab) c i)) (snd (on_processed (tab_lookup tab) c i))) = false.
Proof.
  unfold c18_onproc_violates. simpl.
  pose proof (process_accepted (tab_lookup tab) c i) as H. unfold process in H.
  destruct (on_processed (tab_lookup tab) c i) as [evs failed]. simpl in *.
  destruct (handle PubDisabled PubAccept (chain_of failed)) as [m hev]. simpl in *. now rewrite H.
Qed.

(** API verdicts (C18/api:...) *)
Theorem api_verdict_model_accepted :
  (forall v, c18_api_violates (AV v (validate_model v)) = false)
  /\ (forall h i, c18_api_violates (AL h i (api_model h i)) = false).
Proof.
  split; intros; simpl; [now rewrite validate_model_accepted | now rewrite api_model_accepted].
Qed.
