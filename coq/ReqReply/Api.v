(** The API glue of components/requestreply that runs BEFORE a listener exists, and the send-error
    path right after: NewPubSubBackend + PubSubBackendConfig.Validate (backend_pubsub.go l.23-40,
    l.107-124), the error exits of ListenForNotifications (l.135-156: SubscriberConstructor error,
    GenerateSubscribeTopic error, Subscribe error with cancel() of the derived context) and what
    SendWithReplies (command_bus.go l.96-128) hands back in each case.  The acceptors [validate_ok]
    and [api_ok] judge what the implementation did (verdicts C18/api:...).  No proofs here. *)
From WM Require Import Base.Prelude ReqReply.Listen ReqReply.Caller.

(** *** NewPubSubBackend: which parts of the configuration are present *)
Record vcfg := VC { v_publisher : bool; v_subctor : bool; v_pubtopic : bool; v_subtopic : bool; v_marshaler : bool }.
(** accepted iff Validate finds nothing missing and the marshaler is not nil *)
Definition validate_model (v : vcfg) : bool :=
  v_publisher v && v_subctor v && v_pubtopic v && v_subtopic v && v_marshaler v.
Definition validate_ok (v : vcfg) (accepted : bool) : bool := Bool.eqb accepted (validate_model v).

(** *** SendWithReplies up to and including the command bus *)
Record listen_in := LI { li_subctor_ok : bool; li_topic_ok : bool; li_subscribe_ok : bool; li_bus_ok : bool }.

Inductive listen_exit :=
| XNoSubscriber     (* "cannot create request/reply notifications subscriber" *)
| XNoTopic          (* "cannot generate request/reply notifications topic" *)
| XSubscribeFailed  (* "cannot subscribe ..." after cancel() of the derived context *)
| XStarted.         (* the listener goroutine runs; the reply channel is returned *)

Definition listen_for_notifications (i : listen_in) : listen_exit :=
  if negb (li_subctor_ok i) then XNoSubscriber
  else if negb (li_topic_ok i) then XNoTopic
  else if negb (li_subscribe_ok i) then XSubscribeFailed
  else XStarted.

(** what the caller of SendWithReplies and the collaborators can see, once everything has come to rest *)
Record api_obs := AO {
  ao_err : bool;            (* SendWithReplies returned an error *)
  ao_chan : bool;           (* ... and a non-nil reply channel *)
  ao_cancel : bool;         (* ... and a non-nil cancel func *)
  ao_subctx_done : bool;    (* the context Subscribe was called with has ended (false if Subscribe was not called) *)
  ao_closed : bool;         (* the listener's reply channel is closed (false if no listener was started) *)
  ao_hooks : nat            (* calls of OnListenForReplyFinished *)
}.

(** SendWithReplies: on any error its deferred cancel() runs and (nil, cancel, err) is returned; a
    listener that was already started then ends (Caller.v: KSendErr, KCancel; Listen.v: PFinal ... PDone) *)
Definition api_model (has_hook : bool) (i : listen_in) : api_obs :=
  match listen_for_notifications i with
  | XNoSubscriber | XNoTopic => AO true false true false false 0
  | XSubscribeFailed => AO true false true true false 0
  | XStarted =>
      if li_bus_ok i then AO false true true false false 0      (* at return: nothing has ended yet *)
      else AO true false true true true (if has_hook then 1 else 0)
  end.

Definition api_obs_eqb (a b : api_obs) : bool :=
  Bool.eqb (ao_err a) (ao_err b) && Bool.eqb (ao_chan a) (ao_chan b) && Bool.eqb (ao_cancel a) (ao_cancel b)
  && Bool.eqb (ao_subctx_done a) (ao_subctx_done b) && Bool.eqb (ao_closed a) (ao_closed b)
  && Nat.eqb (ao_hooks a) (ao_hooks b).

Definition api_ok (has_hook : bool) (i : listen_in) (o : api_obs) : bool := api_obs_eqb o (api_model has_hook i).

(** the same row read off a state of the composed caller + listener model (send-error path) *)
Definition api_obs_of (s : cstate) : api_obs :=
  AO (match kp s with KReturned OSendErr => true | _ => false end)
     (match kp s with KUser => true | _ => false end)
     true (ctx_done (lsys s)) (chan_closed (lsys s)) (hooks (lsys s)).
