(** Proofs about the handler side of request-reply (ReqReply/Processed.v). *)
From WM Require Import Base.Prelude Message.Model Handler.RouterHandle Handler.RouterProofs
  ReqReply.Listen ReqReply.Processed.

Lemma handle_ret_nil :
  @handle N PubDisabled PubAccept (chain_of false) = (MS Acked CClosed COpen false, [HCall; HSettle true true]).
Proof. reflexivity. Qed.
Lemma handle_fail_nil :
  @handle N PubDisabled PubAccept (chain_of true) = (MS Nacked COpen CClosed false, [HCall; HSettle false true]).
Proof. reflexivity. Qed.

Section P.
  Context (enc : N -> option N).
  Notation on_processed := (on_processed enc).
  Notation process := (process enc).

  (** shape of one delivery: the handler's own events, then exactly one settlement by the Router *)
  Lemma process_shape c i :
    process c i = (map TP (fst (on_processed c i)) ++ [TR (HSettle (negb (snd (on_processed c i))) true)],
                   if snd (on_processed c i) then Nacked else Acked).
  Proof.
    unfold Processed.process. destruct (on_processed c i) as [evs failed]. simpl.
    destruct failed; [rewrite handle_fail_nil | rewrite handle_ret_nil]; reflexivity.
  Qed.

  Ltac crush c i :=
    destruct c as [ae hm he]; destruct i as [orig op res err nid mok tok pok sw ek cx];
    unfold Processed.on_processed, reply_out, expected_settle; simpl;
    destruct orig; simpl; auto;
    destruct (enc res) as [pay|] eqn:Eenc; simpl; auto;
    destruct (N.eqb op 0) eqn:Eop; simpl; auto;
    destruct hm, mok, tok, pok, he, sw, ae, err; simpl; auto.

  (** the wrapped handler fails (=> Nack) exactly when the reply did not go out or the policy says so *)
  Lemma on_processed_failed c i :
    snd (on_processed c i) = negb (reply_out enc c i && (ack_errors c || negb (is_some (p_err i)))).
  Proof. crush c i. Qed.

  Theorem process_settle c i : snd (process c i) = expected_settle enc c i.
  Proof.
    rewrite process_shape. simpl. rewrite on_processed_failed. unfold expected_settle.
    destruct (reply_out enc c i && (ack_errors c || negb (is_some (p_err i)))); reflexivity.
  Qed.

  (** the command is acked iff the reply was accepted by the publisher (or its failure was
      swallowed by ReplyPublishErrorHandler) and AckCommandErrors is on or the handler succeeded;
      otherwise it is nacked; never left unsettled *)
  Theorem process_ack_iff c i :
    (snd (process c i) = Acked <->
       reply_out enc c i = true /\ (ack_errors c = true \/ p_err i = None))
    /\ (snd (process c i) = Nacked \/ snd (process c i) = Acked).
  Proof.
    rewrite process_settle. unfold expected_settle.
    destruct (reply_out enc c i); simpl.
    - destruct (ack_errors c); simpl.
      + split; [split; auto|auto].
      + destruct (p_err i); simpl; split; auto; split; try discriminate; auto.
        * intros [_ [H|H]]; discriminate.
    - split; auto. split; [discriminate|]. intros [H _]. discriminate.
  Qed.

  (** settlement happens once, as the very last event, after every event of the handler *)
  Theorem process_settles_last c i :
    exists evs ack, fst (process c i) = map TP evs ++ [TR (HSettle ack true)]
                    /\ snd (process c i) = (if ack then Acked else Nacked).
  Proof.
    rewrite process_shape. simpl. eexists. eexists. split; [reflexivity|].
    destruct (snd (on_processed c i)); reflexivity.
  Qed.

  (** an Ack is preceded by the reply's publication having returned successfully - or by the
      configured ReplyPublishErrorHandler explicitly swallowing the failure *)
  Theorem ack_only_after_reply_published c i :
    snd (process c i) = Acked ->
    exists n evs, fst (process c i) = map TP evs ++ [TR (HSettle true true)]
      /\ In (PPublish n) evs
      /\ (In (PPublishRet true) evs \/ (has_errh c = true /\ In (PErrHandler true) evs)).
  Proof.
    rewrite process_shape. simpl. intros H.
    destruct (snd (on_processed c i)) eqn:Ef; [discriminate|]. simpl.
    assert (Hx : exists n, In (PPublish n) (fst (on_processed c i))
      /\ (In (PPublishRet true) (fst (on_processed c i))
          \/ (has_errh c = true /\ In (PErrHandler true) (fst (on_processed c i))))).
    { clear H. revert Ef. crush c i; intros; try discriminate; eexists; simpl; split; auto 10. }
    destruct Hx as [n [H1 H2]]. exists n. exists (fst (on_processed c i)). auto.
  Qed.

  (** at most one reply per delivery *)
  Theorem one_reply_per_delivery c i :
    length (filter (fun e => match e with PPublish _ => true | _ => false end) (fst (on_processed c i))) <= 1.
  Proof. crush c i. Qed.

  (** the notification carries the command's operation id, the handler's result and error text *)
  Theorem reply_content c i n :
    In (PPublish n) (fst (on_processed c i)) ->
    n_op n = p_op i /\ n_id n = p_nid i /\ enc (p_res i) = Some (n_pay n)
    /\ n_haserr n = is_some (p_err i) /\ n_err n = errtext (p_err i) /\ p_op i <> 0%N.
  Proof.
    assert (Hne : forall op, N.eqb op 0 = false -> op <> 0%N) by (intros op; apply N.eqb_neq).
    crush c i; intros H; repeat (destruct H as [H|H]; try discriminate); try contradiction;
      inversion H; subst; simpl; auto 10.
  Qed.

  (** ... so, with a decoder that inverts the encoder, the listener rebuilds exactly the
      handler's result and error text from it *)
  Theorem reply_roundtrip (dec : N -> option N) c i n :
    (forall r p, enc r = Some p -> dec p = Some r) ->
    In (PPublish n) (fst (on_processed c i)) ->
    reply_of (unm_json dec) n = ROwn (p_res i) (p_err i) (p_nid i).
  Proof.
    intros Hrt H. destruct (reply_content c i n H) as [_ [H2 [H3 [H4 [H5 _]]]]].
    unfold reply_of, unm_json. rewrite (Hrt _ _ H3), H4, H5, H2. destruct (p_err i); reflexivity.
  Qed.

  (** the handler side looks neither at WHICH error value the handler returned nor at the state of the
      handler's context: same text => same events, same reply, same settlement *)
  Theorem error_value_irrelevant c i k x : process c (with_errvalue i k x) = process c i.
  Proof. destruct i. reflexivity. Qed.

  (** a reply is published for EVERY handler outcome - success or any error value (plain, wrapped,
      context.Canceled, DeadlineExceeded, the handler context's own Err(), ...) in any context state -
      whenever marshalling, operation id, Modify hook and topic allow it; it carries the error flag and text *)
  Theorem reply_for_every_handler_outcome c i :
    reaches_publish enc c i = true ->
    exists n, In (PPublish n) (fst (on_processed c i))
      /\ n_op n = p_op i /\ n_haserr n = is_some (p_err i) /\ n_err n = errtext (p_err i).
  Proof.
    unfold reaches_publish. crush c i; intros H; try discriminate;
      eexists; (split; [simpl; eauto 6|]); simpl; auto.
  Qed.

  Theorem no_reply_only_if_not_reachable c i n :
    In (PPublish n) (fst (on_processed c i)) -> reaches_publish enc c i = true.
  Proof.
    unfold reaches_publish. crush c i; intros H; simpl in H;
      repeat (destruct H as [H|H]; try discriminate); try contradiction; auto.
  Qed.

  (** the model passes the acceptor that judges implementation deliveries *)
  Theorem process_accepted c i :
    processed_ok enc c i (fst (process c i)) (snd (process c i)) = true.
  Proof.
    unfold processed_ok. rewrite process_settle.
    assert (Hs : forall s, settle_eqb s s = true) by (intros []; reflexivity). rewrite Hs.
    rewrite process_shape. simpl.
    crush c i; rewrite ?N.eqb_refl, ?Eenc; simpl; rewrite ?N.eqb_refl; auto;
      unfold published_ok, reaches_publish, publishes_of; simpl; rewrite ?Eenc, ?Eop; simpl; auto.
  Qed.
End P.
