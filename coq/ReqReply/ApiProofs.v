(** The API acceptors accept their models, and the send-error row of [api_model] is what the composed
    caller + listener model of Caller.v does. *)
From WM Require Import Base.Prelude ReqReply.Listen ReqReply.ListenProofs ReqReply.Caller ReqReply.CallerProofs ReqReply.Api.

Theorem validate_model_accepted v : validate_ok v (validate_model v) = true.
Proof. unfold validate_ok. apply Bool.eqb_reflx. Qed.

(** nothing missing is the ONLY accepted configuration *)
Theorem validate_model_iff v :
  validate_model v = true <->
  v_publisher v = true /\ v_subctor v = true /\ v_pubtopic v = true /\ v_subtopic v = true /\ v_marshaler v = true.
Proof. unfold validate_model. rewrite !andb_true_iff. tauto. Qed.

Lemma api_obs_eqb_refl o : api_obs_eqb o o = true.
Proof. unfold api_obs_eqb. now rewrite !Bool.eqb_reflx, Nat.eqb_refl. Qed.

Theorem api_model_accepted h i : api_ok h i (api_model h i) = true.
Proof. apply api_obs_eqb_refl. Qed.

(** every error exit hands back (nil channel, cancel func, error); a listener exists only after XStarted *)
Theorem api_error_exits h i :
  listen_for_notifications i <> XStarted \/ li_bus_ok i = false ->
  ao_err (api_model h i) = true /\ ao_chan (api_model h i) = false /\ ao_cancel (api_model h i) = true.
Proof.
  unfold api_model. destruct (listen_for_notifications i) eqn:E; simpl; auto.
  intros [H|H]; [congruence|]. rewrite H. simpl. auto.
Qed.

(** the send-error row is not a separate stipulation: in the composed caller + listener model
    (repaired listener), whenever SendWithReplies has returned the send error and the listener rests,
    the observation read off the state is exactly that row - for every stream and schedule *)
Theorem api_send_error_row_from_model dec c a stream cls :
  fixed c = true ->
  let s := crun dec c a (cinit stream) cls in
  kp s = KReturned OSendErr ->
  quiescent dec c (lsys s) = true ->
  api_obs_of s = api_model (has_hook c) (LI true true true false).
Proof.
  intros Hf s Hk Hq.
  destruct (returned_listener_terminates dec c a stream cls OSendErr Hf Hk) as [Hc [_ Hd]].
  fold s in Hc, Hd. destruct (Hd Hq) as [Hp _].
  destruct (composed_reach dec c a stream cls) as [lls Hl]. fold s in Hl.
  pose proof (done_state dec c stream lls) as Hs. simpl in Hs. rewrite <- Hl in Hs.
  destruct (Hs Hp) as [H1 [_ [H3 _]]].
  unfold api_obs_of, api_model. simpl. rewrite Hk, Hc, H1, H3. reflexivity.
Qed.
