(** Proofs about the caller thread composed with the listener, and about the product of N
    listeners (ReqReply/Caller.v). *)
From WM Require Import Base.Prelude ReqReply.Listen ReqReply.ListenProofs ReqReply.Caller.

Section P.
  Context (dec : notif -> option (N * option N)).
  Notation lstep := (lstep dec).
  Notation lrun := (lrun dec).
  Notation cstep := (cstep dec).
  Notation crun := (crun dec).
  Notation reply_of := (reply_of dec).
  Notation own_replies := (own_replies dec).

  Lemma lrun_app c ls1 : forall s ls2, lrun c s (ls1 ++ ls2) = lrun c (lrun c s ls1) ls2.
  Proof.
    induction ls1 as [|l ls1 IH]; intros s ls2; simpl; auto.
    destruct (lstep c s l); apply IH.
  Qed.

  (** *** every step of the composed system is no step or one step of the listener system *)
  Lemma cstep_sim c a s l s' : cstep c a s l = Some s' ->
    lsys s' = lsys s \/ exists l', lstep c (lsys s) l' = Some (lsys s').
  Proof.
    unfold Caller.cstep, with_l. intros H.
    destruct l; cbv beta iota in H;
      repeat match type of H with
      | context [Listen.lstep ?d ?cc ?x ?y] => destruct (Listen.lstep d cc x y) eqn:?
      end;
      repeat match type of H with
      | context [match ?x with _ => _ end] => destruct x eqn:?
      | context [if ?x then _ else _] => destruct x eqn:?
      end; try discriminate; inversion H; subst; simpl; eauto.
  Qed.

  Lemma crun_reach c a cls : forall s, exists lls, lsys (crun c a s cls) = lrun c (lsys s) lls.
  Proof.
    induction cls as [|l cls IH]; intros s; simpl.
    - exists []. reflexivity.
    - destruct (cstep c a s l) eqn:E; [|apply IH].
      destruct (IH c0) as [lls Hl]. destruct (cstep_sim _ _ _ _ _ E) as [Hs|[l' Hs]].
      + exists lls. now rewrite Hl, Hs.
      + exists (l' :: lls). simpl. now rewrite Hs.
  Qed.

  (** the listener part of every reachable composed state is a reachable state of Listen.v: all
      listener theorems transfer *)
  Theorem composed_reach c a stream cls :
    exists lls, lsys (crun c a (cinit stream) cls) = lrun c (linit stream) lls.
  Proof. apply crun_reach. Qed.

  (** *** the invariant of the composed system *)
  Definition unread (k : kpc) : bool := match k with KSend | KFail | KSelect => true | _ => false end.

  Record CInv (c : cfg) (a : api) (stream : list notif) (s : cstate) : Prop := {
    c_linv : LInv dec c stream (lsys s);
    c_unread : unread (kp s) = true -> got (lsys s) = [];
    c_res : forall o, kp s = KDefer o \/ kp s = KReturned o ->
              match o with
              | OReply r => got (lsys s) = [r]
              | OCtxErr => got (lsys s) = [] /\ pctx s = true
              | OSendErr => got (lsys s) = []
              | OZero => False
              end;
    c_ret : forall o, kp s = KReturned o -> cctx_done (lsys s) = true;
    c_pctx : pctx s = true -> cctx_done (lsys s) = true;
    c_nonempty : unread (kp s) = true -> after_final (pc (lsys s)) = true -> buf (lsys s) <> [];
    c_api : match a, kp s with
            | ApiReply, KUser => False
            | ApiReplies, (KSelect | KDefer _) => False
            | ApiReplies, KReturned o => o = OSendErr
            | _, _ => True
            end
  }.

  Lemma cinv_init c a stream : CInv c a stream (cinit stream).
  Proof.
    constructor; simpl; auto; try discriminate.
    - apply linv_init.
    - intros o [H|H]; discriminate.
    - destruct a; auto.
  Qed.

  (** a listener-internal step: the caller's reads are untouched, a finished final send leaves
      something in the buffer *)
  Lemma inner_step c s l s' : lstep c s l = Some s' -> inner_label l = true ->
    got s' = got s
    /\ (cctx_done s = true -> cctx_done s' = true)
    /\ ((after_final (pc s) = true -> buf s <> []) -> after_final (pc s') = true -> buf s' <> []).
  Proof.
    intros H Hi. destruct l; simpl in Hi; try discriminate; simpl in H;
      repeat match type of H with
      | context [match ?x with _ => _ end] => destruct x eqn:?
      | context [if ?x then _ else _] => destruct x eqn:?
      end; try discriminate; inversion H; subst; simpl; repeat split; auto;
      try (intros; discriminate); try (intros; congruence).
  Qed.

  Lemma ecancel_step c s s' : lstep c s ECancel = Some s' ->
    got s' = got s /\ buf s' = buf s /\ pc s' = pc s /\ cctx_done s' = true /\ ctx_done s' = true.
  Proof. simpl. intros H. inversion H; subst. simpl. auto. Qed.

  Ltac cfin a :=
    try solve [eapply lstep_inv; eauto];
    try solve [intros; discriminate];
    try solve [destruct a; simpl; auto; intros; try discriminate; try contradiction];
    try solve [let o := fresh in let X := fresh in intros o [X|X]; destruct a; discriminate];
    try solve [let o := fresh in let X := fresh in intros o X; destruct a; discriminate].

  Theorem cstep_inv c a stream s l s' : CInv c a stream s -> cstep c a s l = Some s' -> CInv c a stream s'.
  Proof.
    intros I H.
    pose proof (c_linv _ _ _ _ I) as HL. pose proof (c_unread _ _ _ _ I) as Hu.
    pose proof (c_res _ _ _ _ I) as Hr. pose proof (c_ret _ _ _ _ I) as Hret.
    pose proof (c_pctx _ _ _ _ I) as Hp. pose proof (c_nonempty _ _ _ _ I) as Hne.
    pose proof (c_api _ _ _ _ I) as Ha.
    destruct l; unfold Caller.cstep, with_l in H.
    - (* CL *)
      destruct (inner_label l) eqn:Ei; try discriminate.
      destruct (lstep c (lsys s) l) as [ls'|] eqn:E; try discriminate. inversion H; subst; clear H.
      destruct (inner_step _ _ _ _ E Ei) as [Hg [Hc Hb]].
      constructor; simpl; auto; cfin a.
      + intros U. rewrite Hg. auto.
      + intros o Ho. specialize (Hr o Ho). rewrite Hg. exact Hr.
      + intros o Ho. apply Hc. eauto.
    - (* KSendOk *)
      destruct (kp s) eqn:Ek; try discriminate. inversion H; subst; clear H.
      constructor; simpl; auto; cfin a.
    - (* KSendErr *)
      destruct (kp s) eqn:Ek; try discriminate. inversion H; subst; clear H.
      constructor; simpl; auto; cfin a.
    - (* KCancel *)
      destruct (kp s) eqn:Ek; try discriminate;
        destruct (lstep c (lsys s) ECancel) as [ls'|] eqn:E; try discriminate;
        inversion H; subst; clear H;
        destruct (ecancel_step _ _ _ E) as [Hg [Hb [Hpc [Hcc Hcx]]]].
      + constructor; simpl; auto; cfin a.
        intros o [X|X]; inversion X; subst. rewrite Hg. now apply Hu.
      + constructor; simpl; auto; cfin a.
        intros o' [X|X]; inversion X; subst. rewrite Hg. apply Hr. now left.
    - (* KTakeCtx *)
      destruct (kp s) eqn:Ek; try discriminate. destruct (pctx s) eqn:Epc; try discriminate.
      inversion H; subst; clear H.
      constructor; simpl; auto; cfin a.
      intros o [X|X]; inversion X; subst. split; auto.
    - (* KTakeReply *)
      destruct (kp s) eqn:Ek; try discriminate.
      destruct (buf (lsys s)) as [|r b] eqn:Eb; try discriminate.
      destruct (lstep c (lsys s) CRead) as [ls'|] eqn:E; try discriminate. inversion H; subst; clear H.
      assert (Hg : got ls' = [r]).
      { simpl in E. rewrite Eb in E. inversion E; subst. simpl. rewrite (Hu eq_refl). reflexivity. }
      assert (Hc : cctx_done ls' = cctx_done (lsys s)).
      { simpl in E. rewrite Eb in E. inversion E; subst. reflexivity. }
      constructor; simpl; auto; cfin a.
      + intros o [X|X]; inversion X; subst. exact Hg.
      + rewrite Hc. auto.
    - (* KTakeClosed: impossible *)
      destruct (kp s) eqn:Ek; try discriminate.
      destruct (lstep c (lsys s) CReadClosed) as [ls'|] eqn:E; try discriminate. exfalso.
      simpl in E. destruct (buf (lsys s)) eqn:Eb; try discriminate.
      destruct (chan_closed (lsys s)) eqn:Ec; try discriminate.
      rewrite (i_closed _ _ _ _ HL) in Ec.
      apply (Hne eq_refl); auto. destruct (pc (lsys s)); simpl in *; auto; discriminate.
    - (* UParent *)
      destruct (lstep c (lsys s) ECancel) as [ls'|] eqn:E; try discriminate. inversion H; subst; clear H.
      destruct (ecancel_step _ _ _ E) as [Hg [Hb [Hpc [Hcc Hcx]]]].
      constructor; simpl; auto; cfin a.
      + intros U. rewrite Hg. auto.
      + intros o Ho. specialize (Hr o Ho). rewrite Hg. destruct o; auto. destruct Hr; auto.
      + intros U. rewrite Hpc, Hb. auto.
    - (* URead *)
      destruct (kp s) eqn:Ek; try discriminate.
      destruct (lstep c (lsys s) CRead) as [ls'|] eqn:E; try discriminate. inversion H; subst; clear H.
      constructor; simpl; auto; cfin a.
      simpl in E. destruct (buf (lsys s)); try discriminate. inversion E; subst. simpl. auto.
    - (* UReadClosed *)
      destruct (kp s) eqn:Ek; try discriminate.
      destruct (lstep c (lsys s) CReadClosed) as [ls'|] eqn:E; try discriminate. inversion H; subst; clear H.
      constructor; simpl; auto; cfin a.
      simpl in E. destruct (buf (lsys s)); try discriminate. destruct (chan_closed (lsys s)); try discriminate.
      inversion E; subst. simpl. auto.
    - (* UCancel *)
      destruct (kp s) eqn:Ek; try discriminate.
      destruct (lstep c (lsys s) ECancel) as [ls'|] eqn:E; try discriminate. inversion H; subst; clear H.
      destruct (ecancel_step _ _ _ E) as [Hg [Hb [Hpc [Hcc Hcx]]]].
      constructor; simpl; auto; cfin a.
  Qed.

  Theorem crun_inv c a stream cls : forall s, CInv c a stream s -> CInv c a stream (crun c a s cls).
  Proof.
    induction cls as [|l cls IH]; intros s I; simpl; auto.
    destruct (cstep c a s l) eqn:E; auto. apply IH. eapply cstep_inv; eauto.
  Qed.

  Corollary creach_inv c a stream cls : CInv c a stream (crun c a (cinit stream) cls).
  Proof. apply crun_inv, cinv_init. Qed.

  (** *** SendWithReply *)

  (** what SendWithReply returns: the ONE reply it read - the final timeout reply, or a reply built
      from a notification carrying its own operation id (the first own reply whenever it was read
      while the listener's context was alive) - or the context error (only if the user's context
      has ended), or the send error; never the zero Reply of a closed channel *)
  Theorem swr_result c stream cls o :
    let s := crun c ApiReply (cinit stream) cls in
    kp s = KReturned o ->
    match o with
    | OReply r => got (lsys s) = [r]
        /\ (is_final r = true \/ exists n, In n stream /\ n_op n = opid c /\ r = reply_of n)
        /\ (pre (lsys s) = [r] -> exists t, own_replies c stream = r :: t)
    | OCtxErr => pctx s = true /\ got (lsys s) = []
    | OSendErr => got (lsys s) = []
    | OZero => False
    end.
  Proof.
    intros s Hk. pose proof (creach_inv c ApiReply stream cls) as I. fold s in I.
    pose proof (c_res _ _ _ _ I o (or_intror Hk)) as Hr.
    destruct o; auto; [|tauto].
    destruct (composed_reach c ApiReply stream cls) as [lls Hl]. fold s in Hl.
    split; [exact Hr|]. split.
    - apply (got_only_own dec c stream lls r). rewrite <- Hl, Hr. now left.
    - intros Hp. pose proof (c_linv _ _ _ _ I) as HL.
      destruct (i_prefix _ _ _ _ HL) as [t Ht]. rewrite Hp in Ht.
      exists (t ++ own_replies c (inbox (lsys s))).
      rewrite <- (i_stream _ _ _ _ HL), own_replies_app, <- Ht. reflexivity.
  Qed.

  (** once the caller has returned (SendWithReply with any outcome; SendWithReplies with the send
      error) the listener's context has ended, so the repaired listener is never blocked and, where
      it rests, has finished with the channel closed and the hook run exactly once *)
  Theorem returned_listener_terminates c a stream cls o :
    fixed c = true ->
    let s := crun c a (cinit stream) cls in
    kp s = KReturned o ->
    ctx_done (lsys s) = true
    /\ (pc (lsys s) <> PDone -> exists l s', llabel l = true /\ lstep c (lsys s) l = Some s')
    /\ (quiescent dec c (lsys s) = true ->
        pc (lsys s) = PDone /\ listener_ok dec c stream (obs_of (lsys s)) = true).
  Proof.
    intros Hf s Hk. pose proof (creach_inv c a stream cls) as I. fold s in I.
    assert (Hc : ctx_done (lsys s) = true).
    { apply (i_cctx _ _ _ _ (c_linv _ _ _ _ I)). eapply c_ret; eauto. }
    destruct (composed_reach c a stream cls) as [lls Hl]. fold s in Hl.
    split; [exact Hc|]. split.
    - intros Hp. now apply never_blocked_fixed.
    - intros Hq. split; [now apply (quiescent_done_fixed dec c)|].
      rewrite Hl in *. now apply listener_ok_quiescent_fixed.
  Qed.

  (** a caller that has returned never touches the channel again: whatever happens afterwards,
      only the listener (and the user's context) move *)
  Theorem returned_caller_is_gone c a cls : forall s o, kp s = KReturned o ->
    kp (crun c a s cls) = KReturned o /\ got (lsys (crun c a s cls)) = got (lsys s).
  Proof.
    induction cls as [|l cls IH]; intros s o Hk; simpl; auto.
    destruct (cstep c a s l) as [s'|] eqn:E; [|now apply IH].
    assert (H : kp s' = KReturned o /\ got (lsys s') = got (lsys s)).
    { unfold Caller.cstep, with_l in E. destruct l; rewrite ?Hk in E; try discriminate.
      - destruct (inner_label l) eqn:Ei; try discriminate.
        destruct (lstep c (lsys s) l) eqn:El; try discriminate. inversion E; subst. simpl.
        split; auto. now destruct (inner_step _ _ _ _ El Ei).
      - destruct (lstep c (lsys s) ECancel) eqn:El; try discriminate. inversion E; subst. simpl.
        split; auto. now destruct (ecancel_step _ _ _ El). }
    destruct H as [H1 H2]. destruct (IH s' o H1) as [H3 H4]. split; auto. congruence.
  Qed.

  (** *** SendWithReplies: the channel handed to the user yields only own replies, in arrival
      order, nothing lost while the context is alive (acceptor [safe_ok]); it is closed at most
      once, exactly once when the listener has finished; on a send error nothing was read and the
      context is cancelled *)
  Theorem swrs_channel c stream cls :
    let s := crun c ApiReplies (cinit stream) cls in
    safe_ok dec c stream (obs_of (lsys s)) = true
    /\ closes (lsys s) <= 1 /\ panicked (lsys s) = false
    /\ (pc (lsys s) = PDone -> chan_closed (lsys s) = true /\ closes (lsys s) = 1)
    /\ (forall o, kp s = KReturned o -> o = OSendErr /\ got (lsys s) = [] /\ ctx_done (lsys s) = true).
  Proof.
    intros s. pose proof (creach_inv c ApiReplies stream cls) as I. fold s in I.
    destruct (composed_reach c ApiReplies stream cls) as [lls Hl]. fold s in Hl.
    pose proof (close_and_hook_at_most_once dec c stream lls) as Hc. simpl in Hc.
    pose proof (done_state dec c stream lls) as Hd. simpl in Hd.
    rewrite <- Hl in Hc, Hd. rewrite Hl at 1.
    split; [apply safe_ok_reach|]. destruct Hc as [H1 [_ [H3 _]]].
    repeat split; auto; try (now apply Hd).
    - pose proof (c_api _ _ _ _ I) as Ha. simpl in Ha. rewrite H in Ha. exact Ha.
    - pose proof (c_api _ _ _ _ I) as Ha. simpl in Ha. rewrite H in Ha. subst o.
      apply (c_res _ _ _ _ I OSendErr). now right.
    - apply (i_cctx _ _ _ _ (c_linv _ _ _ _ I)). eapply c_ret; eauto.
  Qed.
End P.

(** ** N listeners sharing one reply topic *)
Section Prod.
  Context (dec : notif -> option (N * option N)).

  Lemma nrun_component cs sched : forall ss i,
    nrun dec cs ss sched i = lrun dec (cs i) (ss i) (sched_of i sched).
  Proof.
    induction sched as [|[j l] sched IH]; intros ss i; simpl; auto.
    unfold nstep. simpl.
    destruct (Nat.eqb j i) eqn:E.
    - apply Nat.eqb_eq in E. subst j. simpl.
      destruct (lstep dec (cs i) (ss i) l) eqn:El.
      + rewrite IH, upd_same. reflexivity.
      + apply IH.
    - apply Nat.eqb_neq in E.
      destruct (lstep dec (cs j) (ss j) l) eqn:El.
      + rewrite IH, upd_other by congruence. reflexivity.
      + apply IH.
  Qed.

  (** the product of any number of listeners under any interleaving is, listener by listener,
      the single-listener system of Listen.v run on that listener's part of the schedule: the
      listeners share nothing but the topic *)
  Theorem product_independent cs streams sched i :
    nrun dec cs (ninit streams) sched i = lrun dec (cs i) (linit (streams i)) (sched_of i sched).
  Proof. apply nrun_component. Qed.

  (** "replies never cross" for the concurrent system: a reply handed to requester [i] comes from
      a notification of its own operation id, which no listener with another operation id accepts *)
  Theorem product_replies_do_not_cross cs streams sched i r :
    In r (got (nrun dec cs (ninit streams) sched i)) ->
    is_final r = true \/
    exists n, In n (streams i) /\ n_op n = opid (cs i) /\ r = reply_of dec n
      /\ forall j, opid (cs j) <> opid (cs i) -> own (cs j) n = false.
  Proof.
    rewrite product_independent. intros H.
    destruct (got_only_own dec _ _ _ _ H) as [Hf|[n [H1 [H2 H3]]]]; [now left|right].
    exists n. repeat split; auto. intros j Hj. unfold own. apply N.eqb_neq. congruence.
  Qed.

  (** every listener of the concurrent system satisfies the safety acceptor, and (repaired code)
      the full acceptor wherever it rests *)
  Theorem product_safe cs streams sched i :
    safe_ok dec (cs i) (streams i) (obs_of (nrun dec cs (ninit streams) sched i)) = true.
  Proof. rewrite product_independent. apply safe_ok_reach. Qed.

  Theorem product_terminates cs streams sched i :
    fixed (cs i) = true ->
    quiescent dec (cs i) (nrun dec cs (ninit streams) sched i) = true ->
    listener_ok dec (cs i) (streams i) (obs_of (nrun dec cs (ninit streams) sched i)) = true.
  Proof. rewrite product_independent. apply listener_ok_quiescent_fixed. Qed.
End Prod.
