(** C16 — what Watermill does around the serialisation libraries:
    components/forwarder/envelope.go (newMessageEnvelope, validate, wrapMessageInEnvelope,
    unwrapMessageFromEnvelope), components/forwarder/publisher.go (Publish),
    components/cqrs/marshaler_json.go, marshaler_protobuf.go, marshaler_protobuf_gogo.go,
    name.go (FullyQualifiedStructName), components/requestreply/backend_pubsub_marshaler.go.

    The libraries themselves (encoding/json, google.golang.org/protobuf, gogo/protobuf,
    watermill.NewUUID, fmt's %T) are Section variables: oracles.  Everything else — which field
    goes where, metadata keys, validation, error branches, the gogo marshaler's fallback, nil-ness
    of what is handed on — is written out.  Executable, total.  No proofs here. *)
From WM Require Import Base.Prelude Value.Model.

Inductive errk :=
| EUnknownDest        (* "cannot envelope a message: cannot create a message envelope: unknown destination topic" *)
| EMarshalEnvelope    (* "cannot marshal a message" *)
| EUnmarshalEnvelope  (* "cannot unmarshal message wrapped in an envelope" *)
| EInvalidEnvelope    (* "an unmarshalled message envelope is invalid: unknown destination topic" *)
| ELibMarshal         (* error returned by json.Marshal / proto.Marshal, passed on *)
| ELibUnmarshal       (* error returned by json.Unmarshal / proto.Unmarshal, passed on *)
| ELibPanic           (* gogo: recovered panic, turned into an error *)
| ENoProto            (* NoProtoMessageError *)
| EMarshalReply       (* "cannot marshal reply" *)
| EUnmarshalResult    (* "cannot unmarshal result" *)
| EWrappedPublish     (* forwarder.Publisher: the wrapped publisher failed *)
| EOther.             (* an error the model never returns (the harness could not classify the implementation's error) *)

Inductive res (A : Type) := Ok (a : A) | Err (e : errk).
Arguments Ok {A} a.
Arguments Err {A} e.

(** * UTF-8 (RFC 3629, the definition Go's unicode/utf8 and encoding/json use): the strings the
    property quantifies over. *)
Definition in_range (lo hi b : N) : bool := N.leb lo b && N.leb b hi.
Definition cont (b : N) : bool := in_range 128 191 b.
Fixpoint utf8_valid (s : list N) : bool :=
  match s with
  | [] => true
  | b0 :: r0 =>
      if N.ltb b0 128 then utf8_valid r0 else
      match r0 with
      | [] => false
      | b1 :: r1 =>
          if in_range 194 223 b0 then cont b1 && utf8_valid r1 else
          match r1 with
          | [] => false
          | b2 :: r2 =>
              if N.eqb b0 224 then in_range 160 191 b1 && cont b2 && utf8_valid r2 else
              if in_range 225 236 b0 || in_range 238 239 b0 then cont b1 && cont b2 && utf8_valid r2 else
              if N.eqb b0 237 then in_range 128 159 b1 && cont b2 && utf8_valid r2 else
              match r2 with
              | [] => false
              | b3 :: r3 =>
                  if N.eqb b0 240 then in_range 144 191 b1 && cont b2 && cont b3 && utf8_valid r3 else
                  if in_range 241 243 b0 then cont b1 && cont b2 && cont b3 && utf8_valid r3 else
                  if N.eqb b0 244 then in_range 128 143 b1 && cont b2 && cont b3 && utf8_valid r3 else
                  false
              end
          end
      end
  end.

Definition md_utf8 (m : option metadata) : bool :=
  forallb (fun kv => utf8_valid (fst kv) && utf8_valid (snd kv)) (md_entries m).

(** * Forwarder envelope *)
Record envelope := Env { e_dest : str; e_uuid : str; e_payload : option (list N); e_meta : option metadata }.

Definition envelope_utf8 (e : envelope) : bool :=
  utf8_valid (e_dest e) && utf8_valid (e_uuid e) && md_utf8 (e_meta e).

Definition env_of (dest : str) (m : msg) : envelope := Env dest (uuid m) (payload m) (meta m).

Definition validate (e : envelope) : bool := negb (str_eqb (e_dest e) []).

Section Envelope.
  Variable jenc : envelope -> option (list N).      (* json.Marshal(envelope) *)
  Variable jdec : list N -> option envelope.        (* json.Unmarshal(bytes, &messageEnvelope{}) *)
  Variable new_uuid : str.                          (* watermill.NewUUID() *)

  Definition new_envelope (dest : str) (m : msg) : res envelope :=
    let e := Env dest (uuid m) (payload m) (meta m) in
    if validate e then Ok e else Err EUnknownDest.

  Definition wrap (dest : str) (m : msg) : res msg :=
    match new_envelope dest m with
    | Err e => Err e
    | Ok e =>
        match jenc e with
        | None => Err EMarshalEnvelope
        | Some b => Ok (Msg new_uuid (Some b) (Some []))     (* NewMessage(NewUUID(), bytes) *)
        end
    end.

  Definition unwrap (w : msg) : res (str * msg) :=
    match jdec (pl_bytes (payload w)) with
    | None => Err EUnmarshalEnvelope
    | Some e =>
        if validate e
        then Ok (e_dest e, Msg (e_uuid e) (e_payload e) (e_meta e))   (* NewMessage(uuid, payload); Metadata = envelope's *)
        else Err EInvalidEnvelope
    end.

  (** forwarder.Publisher.Publish(topic, msgs...): wrap one by one, stop at the first failure;
      one Publish of all envelopes to the forwarder topic.  [inner_ok]: does the wrapped
      publisher accept.  Result: what reached the wrapped publisher (topic, envelopes). *)
  Fixpoint wrap_all (dest : str) (ms : list msg) : res (list msg) :=
    match ms with
    | [] => Ok []
    | m :: ms' =>
        match wrap dest m with
        | Err e => Err e
        | Ok w => match wrap_all dest ms' with Err e => Err e | Ok ws => Ok (w :: ws) end
        end
    end.
  Definition default_forwarder_topic : str := [102;111;114;119;97;114;100;101;114;95;116;111;112;105;99]%N. (* "forwarder_topic" *)
  Definition fwd_publish (cfg_topic : str) (inner_ok : bool) (dest : str) (ms : list msg) : res (str * list msg) :=
    let ft := if str_eqb cfg_topic [] then default_forwarder_topic else cfg_topic in
    match wrap_all dest ms with
    | Err e => Err e
    | Ok ws => if inner_ok then Ok (ft, ws) else Err EWrappedPublish
    end.

  (** the property's acceptor for one wrap/unwrap round trip, applied to what the
      implementation returned: *)
  Definition envelope_rt_ok (dest : str) (m : msg) (got : res (str * msg)) : bool :=
    match got with
    | Ok (d, m') => str_eqb d dest && identical_b m m'
    | Err _ => false
    end.
End Envelope.

(** message context through the envelope (envelope.go: wrappedMsg.SetContext(msg.Context()) and
    watermillMessage.SetContext(msg.Context())); a context is an opaque identity *)
Section EnvelopeCtx.
  Variable jenc : envelope -> option (list N).
  Variable jdec : list N -> option envelope.
  Variable nu : str.
  Definition wrap_c (dest : str) (mc : msg * N) : res (msg * N) :=
    match wrap jenc nu dest (fst mc) with Ok w => Ok (w, snd mc) | Err e => Err e end.
  Definition unwrap_c (wc : msg * N) : res (str * (msg * N)) :=
    match unwrap jdec (fst wc) with Ok (d, m) => Ok (d, (m, snd wc)) | Err e => Err e end.
End EnvelopeCtx.

(** * CQRS marshalers.  One Go type at a time: [V] are its values. *)
Definition key_name : str := [110;97;109;101]%N.   (* "name" *)

(** strings.TrimLeft(s, "*") *)
Fixpoint trim_left_stars (s : str) : str :=
  match s with
  | b :: s' => if N.eqb b 42 then trim_left_stars s' else s
  | [] => []
  end.

(** outcome of a library call that may also panic (gogo) *)
Inductive lib (A : Type) := LOk (a : A) | LErr | LPanic.
Arguments LOk {A} a.
Arguments LErr {A}.
Arguments LPanic {A}.

Section Cqrs.
  Variable V : Type.
  Variable type_string : V -> str.            (* fmt.Sprintf("%T", v) *)
  Variable gen_name : option (V -> str).      (* the GenerateName option *)
  Variable cfg_uuid : option str.             (* the NewUUID option (its return value) *)
  Variable default_uuid : str.                (* watermill.NewUUID() *)

  Definition fq_struct_name (v : V) : str := trim_left_stars (type_string v).
  Definition name_of (v : V) : str :=
    match gen_name with Some g => g v | None => fq_struct_name v end.
  Definition the_uuid : str := match cfg_uuid with Some u => u | None => default_uuid end.

  (** NewMessage(uuid, b) ; Metadata.Set("name", Name(v)) *)
  Definition named_message (b : option (list N)) (v : V) : msg :=
    Msg the_uuid b (Some (md_set [] key_name (name_of v))).

  Definition name_from_message (m : msg) : str := md_read (md_entries (meta m)) key_name.

  (** JSONMarshaler (no type condition) and ProtoMarshaler ([is_msg]: v implements proto.Message) *)
  Variable is_msg : bool.
  Variable venc : V -> option (option (list N)).   (* json.Marshal / proto.Marshal: error, or bytes (nil-ness kept) *)
  Variable vdec : list N -> option V.              (* Unmarshal into a fresh value of the type *)

  Definition json_marshal (v : V) : res msg :=
    match venc v with None => Err ELibMarshal | Some b => Ok (named_message b v) end.
  Definition json_unmarshal (m : msg) : res V :=
    match vdec (pl_bytes (payload m)) with None => Err ELibUnmarshal | Some v => Ok v end.

  Definition proto_marshal (v : V) : res msg :=
    if negb is_msg then Err ENoProto else json_marshal v.
  Definition proto_unmarshal (m : msg) : res V :=
    if negb is_msg then Err ENoProto else json_unmarshal m.

  (** the deprecated gogo ProtobufMarshaler with its fallback to ProtoMarshaler.
      [fixed = false] is the pinned Unmarshal, which tests [v.(gogo proto.Message)] BEFORE it
      installs the deferred fallback (so a value that only the fallback could marshal can never
      be unmarshalled); [fixed = true] falls back in that case as Marshal does. *)
  Variable is_gogo : bool.                          (* v implements gogo's proto.Message *)
  Variable genc : V -> lib (option (list N)).       (* gogo proto.Marshal *)
  Variable gdec : list N -> lib V.                  (* gogo proto.Unmarshal *)
  Variable disable_fallback : bool.

  Definition gogo_marshal (v : V) : res msg :=
    let first :=
      if negb is_gogo then Err ENoProto else
      match genc v with
      | LOk b => Ok (named_message b v)
      | LErr => Err ELibMarshal
      | LPanic => Err ELibPanic
      end in
    match first with
    | Ok m => Ok m
    | Err e => if negb disable_fallback && is_msg then proto_marshal v else Err e
    end.

  Definition gogo_unmarshal (fixed : bool) (m : msg) : res V :=
    if negb is_gogo then
      (if fixed && negb disable_fallback then proto_unmarshal m else Err ENoProto)
    else
      let first :=
        match gdec (pl_bytes (payload m)) with
        | LOk v => Ok v
        | LErr => Err ELibUnmarshal
        | LPanic => Err ELibPanic
        end in
      match first with
      | Ok v => Ok v
      | Err e => if negb disable_fallback then proto_unmarshal m else Err e
      end.

  (** acceptor for one marshal/unmarshal round trip on the implementation *)
  Definition cqrs_rt_ok (veqb : V -> V -> bool) (v : V) (marshalled : res msg)
             (name_read : str) (got : res V) : bool :=
    match marshalled with
    | Err _ => true                                   (* nothing to read back *)
    | Ok _ =>
        str_eqb name_read (name_of v)
        && match got with Ok v' => veqb v v' | Err _ => false end
    end.
End Cqrs.

(** * Request-reply: BackendPubsubJSONMarshaler *)
Definition key_error : str :=
  [95;119;97;116;101;114;109;105;108;108;95;114;101;113;117;101;115;116;114;101;112;108;121;95;101;114;114;111;114]%N.
  (* "_watermill_requestreply_error" *)
Definition key_has_error : str :=
  [95;119;97;116;101;114;109;105;108;108;95;114;101;113;117;101;115;116;114;101;112;108;121;95;104;97;115;95;101;114;114;111;114]%N.
  (* "_watermill_requestreply_has_error" *)
Definition s_one : str := [49]%N.   (* "1" *)
Definition s_zero : str := [48]%N.  (* "0" *)

Section Reply.
  Variable R : Type.
  Variable renc : R -> option (option (list N)).   (* json.Marshal(result) *)
  Variable rdec : list N -> option R.              (* json.Unmarshal(payload, &result) *)
  Variable new_uuid : str.

  (** [p_err]: [None] = HandleErr == nil, [Some t] = HandleErr.Error() = t (t may be "") *)
  Record rparams := RP { p_result : R; p_err : option str }.
  Record reply := Rep { r_result : R; r_err : option str }.

  Definition marshal_reply (p : rparams) : res msg :=
    let md :=
      match p_err p with
      | Some t => md_set (md_set [] key_error t) key_has_error s_one
      | None => md_set [] key_has_error s_zero
      end in
    match renc (p_result p) with
    | None => Err EMarshalReply
    | Some b => Ok (Msg new_uuid b (Some md))
    end.

  Definition unmarshal_reply (m : msg) : res reply :=
    let md := md_entries (meta m) in
    let e := if str_eqb (md_read md key_has_error) s_one then Some (md_read md key_error) else None in
    match rdec (pl_bytes (payload m)) with
    | None => Err EUnmarshalResult
    | Some r => Ok (Rep r e)
    end.

  Definition reply_rt_ok (reqb : R -> R -> bool) (p : rparams) (marshalled : res msg) (got : res reply) : bool :=
    match marshalled with
    | Err _ => true
    | Ok _ =>
        match got with
        | Ok rp => reqb (p_result p) (r_result rp) && option_eqb str_eqb (p_err p) (r_err rp)
        | Err _ => false
        end
    end.
End Reply.
