(** C16, round "proofs 2" — integers are read back from their JSON text; the reply marshaler's
    round trip for integer results, closed. *)
From Coq Require Strings.String Strings.Ascii Numbers.DecimalString Numbers.DecimalZ Numbers.DecimalPos.
From WM Require Import Base.Prelude Message.Model Value.Model Value.Codec Value.CodecProofs Value.JsonInt.

Lemma string_bytes_id s : string_of_bytes (bytes_of_string s) = s.
Proof.
  unfold string_of_bytes, bytes_of_string. rewrite map_map.
  rewrite (map_ext _ (fun a => a)) by (intros a; apply Ascii.ascii_N_embedding).
  rewrite map_id. apply String.string_of_list_ascii_of_string.
Qed.

Lemma to_uint_nonnil p : Pos.to_uint p <> Decimal.Nil.
Proof.
  intros H. pose proof (DecimalPos.Unsigned.of_to p) as E. rewrite H in E. discriminate.
Qed.

Theorem dec_int_enc_int z : dec_int (enc_int z) = Some z.
Proof.
  unfold dec_int, enc_int. rewrite string_bytes_id.
  rewrite DecimalString.NilZero.isi.
  - simpl. f_equal. apply DecimalZ.of_to.
  - destruct z; simpl; try discriminate. intros [= H]. now apply (to_uint_nonnil p).
  - destruct z; simpl; try discriminate. intros [= H]. now apply (to_uint_nonnil p).
Qed.

Theorem reply_roundtrip_int nu (p : rparams Z) m :
  marshal_reply Z (fun r => Some (Some (enc_int r))) nu p = Ok m ->
  unmarshal_reply Z dec_int m = Ok (Rep Z (p_result Z p) (p_err Z p)).
Proof. apply reply_roundtrip. intros b [= <-]. apply dec_int_enc_int. Qed.
