(** C16 — proofs about [equals] (Message.Equals) and the value acceptors. *)
From WM Require Import Base.Prelude Message.Model Value.Model.

Lemma str_eqb_eq a b : str_eqb a b = true <-> a = b.
Proof. unfold str_eqb. apply list_eqb_spec. intros x y. apply N.eqb_eq. Qed.
Lemma str_eqb_refl a : str_eqb a a = true.
Proof. now apply str_eqb_eq. Qed.
Lemma str_eqb_neq a b : str_eqb a b = false <-> a <> b.
Proof.
  split; intros H.
  - intros ->. rewrite str_eqb_refl in H. discriminate.
  - destruct (str_eqb a b) eqn:E; [apply str_eqb_eq in E; contradiction | reflexivity].
Qed.
Lemma bytes_eqb_eq (a b : list N) : list_eqb N.eqb a b = true <-> a = b.
Proof. apply list_eqb_spec. intros x y. apply N.eqb_eq. Qed.

(** ** lookups in duplicate-free association lists *)
Lemma md_get_In m k v : md_get m k = Some v -> In (k, v) m.
Proof.
  induction m as [|[k' v'] m IH]; simpl; [discriminate|].
  destruct (str_eqb k' k) eqn:E.
  - intros [= ->]. apply str_eqb_eq in E. subst. now left.
  - intros H. right. now apply IH.
Qed.
Lemma md_get_None m k : md_get m k = None <-> ~ In k (map fst m).
Proof.
  induction m as [|[k' v'] m IH]; simpl.
  - split; [intros _ [] | reflexivity].
  - destruct (str_eqb k' k) eqn:E.
    + apply str_eqb_eq in E. subst. split; [discriminate | intros H; exfalso; apply H; now left].
    + apply str_eqb_neq in E. rewrite IH. split; [intros H [?|?]; auto | intros H ?; apply H; now right].
Qed.
Lemma md_get_Some_key m k v : md_get m k = Some v -> In k (map fst m).
Proof. intros H. apply md_get_In in H. apply (in_map fst) in H. exact H. Qed.
Lemma In_md_get m k v : md_wf m -> In (k, v) m -> md_get m k = Some v.
Proof.
  unfold md_wf. induction m as [|[k' v'] m IH]; simpl; [intros _ []|].
  intros Hnd [H|H].
  - inversion H; subst. now rewrite str_eqb_refl.
  - inversion Hnd as [|? ? Hnotin Hnd']; subst.
    destruct (str_eqb k' k) eqn:E.
    + apply str_eqb_eq in E. subst. exfalso. apply Hnotin. apply (in_map fst) in H. exact H.
    + now apply IH.
Qed.

Lemma md_incl_spec ma mb :
  md_incl ma mb = true <-> forall k v, In (k, v) ma -> md_get mb k = Some v.
Proof.
  unfold md_incl. rewrite forallb_forall. split.
  - intros H k v Hin. specialize (H _ Hin). simpl in H.
    destruct (md_get mb k) as [w|]; [|discriminate]. apply str_eqb_eq in H. now subst.
  - intros H [k v] Hin. simpl. rewrite (H _ _ Hin). apply str_eqb_refl.
Qed.

(** the counting argument behind Equals: same number of entries, both duplicate-free, one
    contained in the other => same lookups everywhere *)
Lemma incl_same_length_lookup ma mb :
  md_wf ma -> md_wf mb -> length ma = length mb ->
  (forall k v, In (k, v) ma -> md_get mb k = Some v) ->
  forall k, md_get ma k = md_get mb k.
Proof.
  intros Wa Wb Hlen Hincl k.
  assert (Hkeys : incl (map fst ma) (map fst mb)).
  { intros x Hx. apply in_map_iff in Hx as [[k' v'] [<- Hin]]. simpl.
    eapply md_get_Some_key. eauto. }
  assert (Hback : incl (map fst mb) (map fst ma)).
  { apply NoDup_length_incl; auto. rewrite !map_length. lia. }
  destruct (md_get ma k) as [v|] eqn:Ea.
  - symmetry. apply Hincl. now apply md_get_In.
  - symmetry. apply md_get_None. intros Hin. apply Hback in Hin.
    apply md_get_None in Ea. contradiction.
Qed.

Lemma same_lookup_length ma mb :
  md_wf ma -> md_wf mb -> (forall k, md_get ma k = md_get mb k) -> length ma = length mb.
Proof.
  intros Wa Wb H.
  assert (I1 : incl (map fst ma) (map fst mb)).
  { intros x Hx. destruct (md_get mb x) eqn:E; [eapply md_get_Some_key; eauto|].
    rewrite <- H in E. apply md_get_None in E. contradiction. }
  assert (I2 : incl (map fst mb) (map fst ma)).
  { intros x Hx. destruct (md_get ma x) eqn:E; [eapply md_get_Some_key; eauto|].
    rewrite H in E. apply md_get_None in E. contradiction. }
  apply (NoDup_incl_length Wa) in I1. apply (NoDup_incl_length Wb) in I2.
  rewrite !map_length in *. lia.
Qed.

(** ** the boolean specification is the specification *)
Lemma same_value_b_sound a b : same_value_b a b = true -> same_value a b.
Proof.
  unfold same_value_b, same_value. rewrite !andb_true_iff. intros [[[Hu Hp] Hab] Hba].
  apply str_eqb_eq in Hu. apply bytes_eqb_eq in Hp. repeat split; auto.
  intros k. rewrite md_incl_spec in Hab, Hba.
  destruct (md_get (md_entries (meta a)) k) as [v|] eqn:Ea.
  - symmetry. apply Hab. now apply md_get_In.
  - destruct (md_get (md_entries (meta b)) k) as [w|] eqn:Eb; [|reflexivity].
    apply md_get_In in Eb. apply Hba in Eb. congruence.
Qed.
Lemma same_value_b_complete a b : msg_wf a -> msg_wf b -> same_value a b -> same_value_b a b = true.
Proof.
  unfold same_value_b, same_value, msg_wf. intros Wa Wb (Hu & Hp & Hm).
  rewrite !andb_true_iff. repeat split.
  - now apply str_eqb_eq.
  - now apply bytes_eqb_eq.
  - apply md_incl_spec. intros k v Hin. rewrite <- Hm. now apply In_md_get.
  - apply md_incl_spec. intros k v Hin. rewrite Hm. now apply In_md_get.
Qed.
Lemma same_value_b_iff a b : msg_wf a -> msg_wf b -> (same_value_b a b = true <-> same_value a b).
Proof. intros; split; [apply same_value_b_sound | now apply same_value_b_complete]. Qed.

(** ** Equals, repaired variant: true exactly when the values coincide *)
Lemma entry_matches_fixed_spec mb ma :
  forallb (entry_matches true mb) ma = true <-> forall k v, In (k, v) ma -> md_get mb k = Some v.
Proof.
  rewrite <- md_incl_spec. unfold md_incl.
  assert (E : forall kv, entry_matches true mb kv =
    match md_get mb (fst kv) with Some w => str_eqb (snd kv) w | None => false end) by (intros [k v]; reflexivity).
  induction ma as [|kv ma IH]; simpl; [tauto|]. rewrite E, !andb_true_iff, IH. tauto.
Qed.

Theorem equals_fixed_iff a b : msg_wf a -> msg_wf b ->
  (equals true a b = true <-> same_value a b).
Proof.
  unfold msg_wf. intros Wa Wb. unfold equals, same_value. split.
  - destruct (str_eqb (uuid a) (uuid b)) eqn:Eu; simpl; [|discriminate].
    destruct (Nat.eqb _ _) eqn:El; simpl; [|discriminate].
    destruct (forallb _ _) eqn:Ef; simpl; [|discriminate].
    intros Hp. apply str_eqb_eq in Eu. apply Nat.eqb_eq in El. apply bytes_eqb_eq in Hp.
    repeat split; auto. apply incl_same_length_lookup; auto.
    now apply entry_matches_fixed_spec.
  - intros (Hu & Hp & Hm).
    apply str_eqb_eq in Hu. rewrite Hu. simpl.
    rewrite (same_lookup_length _ _ Wa Wb Hm), Nat.eqb_refl. simpl.
    assert (Hf : forallb (entry_matches true (md_entries (meta b))) (md_entries (meta a)) = true).
    { apply entry_matches_fixed_spec. intros k v Hin. rewrite <- Hm. now apply In_md_get. }
    rewrite Hf. simpl. now apply bytes_eqb_eq.
Qed.

Theorem equals_fixed_is_spec a b : msg_wf a -> msg_wf b -> equals true a b = same_value_b a b.
Proof.
  intros Wa Wb. destruct (equals true a b) eqn:E1, (same_value_b a b) eqn:E2; auto.
  - apply equals_fixed_iff in E1; auto. apply same_value_b_complete in E1; auto. congruence.
  - apply same_value_b_sound in E2. apply equals_fixed_iff in E2; auto. congruence.
Qed.

Corollary equals_fixed_refl a : msg_wf a -> equals true a a = true.
Proof. intros W. apply equals_fixed_iff; auto. repeat split; auto. Qed.
Lemma same_value_sym a b : same_value a b -> same_value b a.
Proof. intros (H1 & H2 & H3). repeat split; auto. Qed.
Corollary equals_fixed_sym a b : msg_wf a -> msg_wf b -> equals true a b = equals true b a.
Proof.
  intros Wa Wb.
  destruct (equals true a b) eqn:E1, (equals true b a) eqn:E2; auto.
  - apply (equals_fixed_iff a b Wa Wb) in E1. apply same_value_sym in E1.
    apply (equals_fixed_iff b a Wb Wa) in E1. congruence.
  - apply (equals_fixed_iff b a Wb Wa) in E2. apply same_value_sym in E2.
    apply (equals_fixed_iff a b Wa Wb) in E2. congruence.
Qed.
Corollary equals_fixed_trans a b c : msg_wf a -> msg_wf b -> msg_wf c ->
  equals true a b = true -> equals true b c = true -> equals true a c = true.
Proof.
  intros Wa Wb Wc H1 H2.
  apply equals_fixed_iff in H1 as (A1 & A2 & A3); auto.
  apply equals_fixed_iff in H2 as (B1 & B2 & B3); auto.
  apply equals_fixed_iff; auto. split; [congruence|]. split; [congruence|].
  intros k. now rewrite A3.
Qed.

(** ** Equals, pinned variant: complete (equal values are reported equal) but not sound *)
Theorem equals_pinned_complete a b : msg_wf a -> msg_wf b -> same_value a b -> equals false a b = true.
Proof.
  unfold msg_wf. intros Wa Wb (Hu & Hp & Hm). unfold equals.
  apply str_eqb_eq in Hu. rewrite Hu. simpl.
  rewrite (same_lookup_length _ _ Wa Wb Hm), Nat.eqb_refl. simpl.
  assert (Hf : forallb (entry_matches false (md_entries (meta b))) (md_entries (meta a)) = true).
  { apply forallb_forall. intros [k v] Hin. simpl. unfold md_read.
    rewrite <- Hm, (In_md_get _ _ _ Wa Hin). apply str_eqb_refl. }
  rewrite Hf. simpl. now apply bytes_eqb_eq.
Qed.

(** D1: {"a": ""} vs {"b": ""} — same UUID and payload, different key *)
Definition d1_a : msg := Msg [117]%N (Some [1]%N) (Some [([97]%N, [])]).
Definition d1_b : msg := Msg [117]%N (Some [1]%N) (Some [([98]%N, [])]).
(** and the pinned Equals is not even symmetric: {"b": ""} vs {"a": "x"} *)
Definition d1_c : msg := Msg [117]%N (Some [1]%N) (Some [([97]%N, [120]%N)]).

Theorem equals_pinned_unsound :
  exists a b, msg_wf a /\ msg_wf b /\ equals false a b = true /\ ~ same_value a b.
Proof.
  exists d1_a, d1_b. split; [|split; [|split]].
  - unfold msg_wf, md_wf. simpl. repeat constructor. intros [].
  - unfold msg_wf, md_wf. simpl. repeat constructor. intros [].
  - vm_compute. reflexivity.
  - intros (_ & _ & H). specialize (H [97]%N). vm_compute in H. discriminate.
Qed.
Theorem equals_pinned_asymmetric :
  exists a b, msg_wf a /\ msg_wf b /\ equals false a b = true /\ equals false b a = false.
Proof.
  exists d1_b, d1_c. split; [|split; [|split]].
  - unfold msg_wf, md_wf. simpl. repeat constructor. intros [].
  - unfold msg_wf, md_wf. simpl. repeat constructor. intros [].
  - vm_compute. reflexivity.
  - vm_compute. reflexivity.
Qed.

(** nil and empty are the same value (len, range and bytes.Equal do not tell them apart) *)
Lemma equals_nil_empty f u : equals f (Msg u None None) (Msg u (Some []) (Some [])) = true.
Proof. unfold equals. simpl. rewrite str_eqb_refl. reflexivity. Qed.

(** identical_b implies same value and equal nil-ness *)
Lemma identical_b_sound a b : identical_b a b = true ->
  same_value a b /\ (payload a = None <-> payload b = None) /\ (meta a = None <-> meta b = None).
Proof.
  unfold identical_b. rewrite !andb_true_iff. intros [[H1 H2] H3].
  split; [now apply same_value_b_sound|].
  split.
  - destruct (payload a), (payload b); simpl in H2; try discriminate; split; congruence.
  - destruct (meta a), (meta b); simpl in H3; try discriminate; split; congruence.
Qed.
Lemma identical_b_refl a : msg_wf a -> identical_b a a = true.
Proof.
  intros W. unfold identical_b. rewrite same_value_b_complete; auto.
  - destruct (payload a), (meta a); reflexivity.
  - repeat split; auto.
Qed.

Lemma equals_acceptor a b : msg_wf a -> msg_wf b ->
  (same_value_b a b = true <-> same_value a b) /\ equals true a b = same_value_b a b.
Proof. intros Wa Wb. split; [now apply same_value_b_iff | now apply equals_fixed_is_spec]. Qed.

Lemma equals_equivalence a b c : msg_wf a -> msg_wf b -> msg_wf c ->
  equals true a a = true
  /\ equals true a b = equals true b a
  /\ (equals true a b = true -> equals true b c = true -> equals true a c = true).
Proof.
  intros Wa Wb Wc. split; [now apply equals_fixed_refl|].
  split; [now apply equals_fixed_sym | now apply equals_fixed_trans].
Qed.
