(** C16, round "seeds 3" — Unmarshal after Marshal is the identity WHATEVER the target held
    before, provided the library call resets its target (proto.Unmarshal's contract); and it is
    not when the call merges instead. *)
From WM Require Import Base.Prelude Message.Model Value.Model Value.Codec Value.Reuse Value.CodecProofs.

Section ReuseProofs.
  Variable V : Type.
  Variable type_string : V -> str.
  Variable gen_name : option (V -> str).
  Variable cfg_uuid : option str.
  Variable default_uuid : str.
  Variable is_msg : bool.
  Variable venc : V -> option (option (list N)).
  Variable vdec_into : V -> list N -> option V.
  Variable is_gogo : bool.
  Variable genc : V -> lib (option (list N)).
  Variable gdec_into : V -> list N -> lib V * V.
  Variable nofb : bool.
  Variable zero : V.

  Notation jm := (json_marshal V type_string gen_name cfg_uuid default_uuid venc).
  Notation pm := (proto_marshal V type_string gen_name cfg_uuid default_uuid is_msg venc).
  Notation gm := (gogo_marshal V type_string gen_name cfg_uuid default_uuid is_msg venc is_gogo genc nofb).

  (** with a fresh target the new functions are the old ones *)
  Lemma json_into_zero m : json_unmarshal_into V vdec_into zero m = json_unmarshal V (vdec_into zero) m.
  Proof. reflexivity. Qed.
  Lemma proto_into_zero m : proto_unmarshal_into V vdec_into is_msg zero m = proto_unmarshal V is_msg (vdec_into zero) m.
  Proof. reflexivity. Qed.

  Theorem json_roundtrip_reused v m prev :
    resets V vdec_into zero ->
    (forall b, venc v = Some b -> vdec_into zero (pl_bytes b) = Some v) ->
    jm v = Ok m -> json_unmarshal_into V vdec_into prev m = Ok v.
  Proof.
    intros Hr Hl Hm. unfold json_unmarshal_into. rewrite (Hr prev).
    destruct (json_roundtrip V type_string gen_name cfg_uuid default_uuid venc (vdec_into zero) v m Hl Hm) as [H _].
    exact H.
  Qed.

  Theorem proto_roundtrip_reused v m prev :
    resets V vdec_into zero ->
    (forall b, venc v = Some b -> vdec_into zero (pl_bytes b) = Some v) ->
    pm v = Ok m -> proto_unmarshal_into V vdec_into is_msg prev m = Ok v.
  Proof.
    intros Hr Hl. unfold proto_marshal, proto_unmarshal_into. destruct is_msg; simpl; [|discriminate].
    now apply json_roundtrip_reused.
  Qed.

  Theorem gogo_roundtrip_reused v m prev :
    resets V vdec_into zero -> gogo_resets V gdec_into zero ->
    (forall b, genc v = LOk b -> fst (gdec_into zero (pl_bytes b)) = LOk v) ->
    (forall b, venc v = Some b -> vdec_into zero (pl_bytes b) = Some v) ->
    (forall b v', venc v = Some b -> fst (gdec_into zero (pl_bytes b)) = LOk v' -> v' = v) ->
    gm v = Ok m -> gogo_unmarshal_into V vdec_into is_msg is_gogo gdec_into nofb true prev m = Ok v.
  Proof.
    intros Hr Hgr Hg Hs Hx. unfold gogo_marshal, gogo_unmarshal_into.
    assert (P : forall b rest, is_msg = true -> venc v = Some b ->
              proto_unmarshal_into V vdec_into is_msg rest (named_message V type_string gen_name cfg_uuid default_uuid b v) = Ok v).
    { intros b rest Em Ev. unfold proto_unmarshal_into, json_unmarshal_into. rewrite Em. simpl.
      rewrite (Hr rest). now rewrite (Hs _ Ev). }
    destruct is_gogo; simpl.
    - destruct (genc v) as [b| |] eqn:Eg.
      + intros [= <-]. simpl. specialize (Hgr prev (pl_bytes b)).
        destruct (gdec_into prev (pl_bytes b)) as [r rest] eqn:Ed. simpl in Hgr.
        rewrite (Hg _ eq_refl) in Hgr. now subst r.
      + destruct nofb; simpl; [discriminate|]. destruct is_msg eqn:Em; simpl; [|discriminate].
        unfold proto_marshal, json_marshal. try rewrite Em. simpl.
        destruct (venc v) as [b|] eqn:Ev; [|discriminate]. intros [= <-]. simpl.
        specialize (Hgr prev (pl_bytes b)).
        destruct (gdec_into prev (pl_bytes b)) as [r rest] eqn:Ed. simpl in Hgr.
        destruct r as [v'| |].
        * symmetry in Hgr. now rewrite (Hx _ _ eq_refl Hgr).
        * now apply (P b rest).
        * now apply (P b rest).
      + destruct nofb; simpl; [discriminate|]. destruct is_msg eqn:Em; simpl; [|discriminate].
        unfold proto_marshal, json_marshal. try rewrite Em. simpl.
        destruct (venc v) as [b|] eqn:Ev; [|discriminate]. intros [= <-]. simpl.
        specialize (Hgr prev (pl_bytes b)).
        destruct (gdec_into prev (pl_bytes b)) as [r rest] eqn:Ed. simpl in Hgr.
        destruct r as [v'| |].
        * symmetry in Hgr. now rewrite (Hx _ _ eq_refl Hgr).
        * now apply (P b rest).
        * now apply (P b rest).
    - destruct nofb; simpl; [discriminate|]. destruct is_msg eqn:Em; simpl; [|discriminate].
      unfold proto_marshal, json_marshal. try rewrite Em. simpl.
      destruct (venc v) as [b|] eqn:Ev; [|discriminate]. intros [= <-]. now apply (P b prev).
  Qed.
End ReuseProofs.

(** a library call that MERGES into its target (json.Unmarshal on maps; proto.UnmarshalOptions
    {Merge: true}) reads back every value into a fresh target and still breaks the identity on a
    reused one: values are lists (a repeated field), decoding appends *)
Theorem roundtrip_reused_merging_refuted :
  exists (venc : list N -> option (option (list N))) (vdec_into : list N -> list N -> option (list N)) prev v m,
    (forall v b, venc v = Some b -> vdec_into [] (pl_bytes b) = Some v)
    /\ proto_marshal (list N) (fun _ => []) None None [] true venc v = Ok m
    /\ proto_unmarshal_into (list N) vdec_into true [] m = Ok v
    /\ proto_unmarshal_into (list N) vdec_into true prev m <> Ok v.
Proof.
  exists (fun v => Some (Some v)), (fun prev b => Some (prev ++ b)), [1%N], [2%N].
  eexists. split; [intros v b [= <-]; reflexivity|]. split; [reflexivity|]. split; [reflexivity|].
  vm_compute. discriminate.
Qed.
