(** C16, round "proofs 3" — the small pure helpers next to the message type:
    message/messages.go Messages.IDs, log.go LogFields.Add / Copy, uuid.go NewUUID / NewShortUUID /
    NewULID (the FORMAT of what they return; randomness and uniqueness are the libraries').
    Executable, total.  No proofs here. *)
From WM Require Import Base.Prelude Value.Model Value.Codec.
Local Open Scope N_scope.

(** Messages.IDs: ids[i] = msg[i].UUID *)
Definition ids (ms : list msg) : list str := map uuid ms.

(** LogFields (map[string]interface{}; values stand for themselves as byte strings): a nil map
    ranges as empty, the result is always a new non-nil map *)
Definition lf_add (l new : option metadata) : metadata :=
  fold_left (fun acc kv => md_set acc (fst kv) (snd kv)) (md_entries new) (md_build (md_entries l)).
Definition lf_copy (l : option metadata) : metadata := md_build (md_entries l).

(** identifier formats *)
Definition hex_lower (c : N) : bool := in_range 48 57 c || in_range 97 102 c.
Definition uuid4_char (i : nat) (c : N) : bool :=
  if Nat.eqb i 8 || Nat.eqb i 13 || Nat.eqb i 18 || Nat.eqb i 23 then N.eqb c 45      (* '-' *)
  else if Nat.eqb i 14 then N.eqb c 52                                                 (* version 4 *)
  else if Nat.eqb i 19 then N.eqb c 56 || N.eqb c 57 || N.eqb c 97 || N.eqb c 98      (* variant 10xx *)
  else hex_lower c.
Definition uuid4_format (s : list N) : bool :=
  Nat.eqb (length s) 36 && forallb (fun ic => uuid4_char (fst ic) (snd ic)) (combine (seq 0 36) s).
(** shortuuid: characters of its base-57 alphabet (no 0 1 I O l); 22 of them for most values, fewer
    when the leading digits are zero — v3.0.7 pads to 13 only (its length formula uses log 25) *)
Definition base57_char (c : N) : bool :=
  in_range 50 57 c
  || (in_range 65 90 c && negb (N.eqb c 73) && negb (N.eqb c 79))
  || (in_range 97 122 c && negb (N.eqb c 108)).
Definition shortuuid_format (s : list N) : bool :=
  Nat.leb 13 (length s) && Nat.leb (length s) 22 && forallb base57_char s.
(** ULID: 26 characters of Crockford's base 32 (no I L O U), the first at most '7' *)
Definition crockford_char (c : N) : bool :=
  in_range 48 57 c
  || (in_range 65 90 c && negb (N.eqb c 73) && negb (N.eqb c 76) && negb (N.eqb c 79) && negb (N.eqb c 85)).
Definition ulid_format (s : list N) : bool :=
  Nat.eqb (length s) 26 && forallb crockford_char s && match s with c :: _ => N.leb c 55 | [] => false end.

(** message.go Context / SetContext / Copy: a message with its context (0 = none set; Context()
    then answers context.Background()).  "The context is not propagated to the copy." *)
Definition set_context (mc : msg * N) (c : N) : msg * N := (fst mc, c).
Definition copy_c (mc : msg * N) : msg * N := (fst mc, 0).
